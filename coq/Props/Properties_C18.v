(** C18 - wake and CSR spectrum depend on the current profile only, not on past calls.
    Only statements closed by [exact]; model in Model/EField.v, proofs in Proofs/EFieldP.v,
    DESIGN.md 5/C18.  [rz E = true] is the tree after the commit "fix: ElectricField clears
    the padded profile buffer before writing it", [rz E = false] the pinned tree. *)
From Coq Require Import List ZArith Bool.
From Inovesa Require Import Model.EField Proofs.EFieldP.
Import ListNotations.
Local Open Scope Z_scope.

(** For every history of wakePotential / padBunchProfiles / updateCSR calls with arbitrary
    profiles on one object, every grid size, transform length (even, odd, prime), spacing and
    bucket pattern, and WHATEVER the two transforms compute: what the last call returns equals
    what a freshly constructed object returns for the same call.  Hypothesis (B): the inverse
    transform does not turn a zero cell floor(N/2) of its input into a non-zero one (that cell
    is never rewritten by the loop [i < nmax/2]); monitored on the implementation. *)
Theorem C18_history_independence :
  forall (T C : Type) (E : env T C), rz E = true -> hypB E -> 0 <= nmax E ->
  forall (h : list (op T)) (o : op T),
    observe E o (run E (h ++ [o]) (fresh E)) = observe E o (run E [o] (fresh E)).
Proof. exact @history_independence. Qed.
Print Assumptions C18_history_independence.

(** Both source versions: independence holds for every history none of whose operations writes
    a cell of the padded buffer that the final operation does not rewrite (hypothesis (A): "bp
    is zero outside the cells the next operation rewrites"). *)
Theorem C18_history_independence_general :
  forall (T C : Type) (E : env T C), hypB E -> 0 <= nmax E ->
  forall (h : list (op T)) (o : op T), hypA E h o ->
    observe E o (run E (h ++ [o]) (fresh E)) = observe E o (run E [o] (fresh E)).
Proof. exact @history_independence_general. Qed.
Print Assumptions C18_history_independence_general.

(** The pinned tree violates (A) and the statement: a computed history on a small instance
    (nx=2, N=8, one bunch whose bucket starts at cell 3; transforms that mix all cells):
    updateCSR(p) then wakePotential(p) differs from wakePotential(p) on a fresh object. *)
Theorem C18_history_independence_pinned_refuted :
  exists (E : env Z (Z * Z)) (h : list (op Z)) (o : op Z),
    rz E = false /\ hypB_strong E /\ 0 <= nmax E /\
    observe E o (run E (h ++ [o]) (fresh E)) <> observe E o (run E [o] (fresh E)).
Proof. exact pinned_history_dependence. Qed.
Print Assumptions C18_history_independence_pinned_refuted.

(** ... and with two bunches padBunchProfiles(p) then updateCSR(p) differs from updateCSR(p). *)
Theorem C18_history_independence_pinned_csr_refuted :
  exists (E : env Z (Z * Z)) (h : list (op Z)) (o : op Z),
    rz E = false /\ hypB_strong E /\ 0 <= nmax E /\
    observe E o (run E (h ++ [o]) (fresh E)) <> observe E o (run E [o] (fresh E)).
Proof. exact pinned_history_dependence_csr. Qed.
Print Assumptions C18_history_independence_pinned_csr_refuted.

(** What does hold in the pinned tree as well (partial: excludes exactly the finding):
    histories of one kind - wake/padding only or CSR only, the way src/main.cpp uses its two
    field objects - ... *)
Theorem C18_history_independence_one_kind_partial :
  forall (T C : Type) (E : env T C), hypB E -> 0 <= nmax E ->
  forall (h : list (op T)) (o : op T), (forall o', In o' h -> is_csr o' = is_csr o) ->
    observe E o (run E (h ++ [o]) (fresh E)) = observe E o (run E [o] (fresh E)).
Proof. exact @history_independence_one_kind. Qed.
Print Assumptions C18_history_independence_one_kind_partial.

(** ... and all histories for a single bunch whose bucket starts at cell 0. *)
Theorem C18_history_independence_single_bunch_origin_partial :
  forall (T C : Type) (E : env T C), hypB E -> 0 <= nmax E ->
  forall (bk : Z) (h : list (op T)) (o : op T), buckets E = [bk] -> bk * spc E = 0 ->
    observe E o (run E (h ++ [o]) (fresh E)) = observe E o (run E [o] (fresh E)).
Proof. exact @history_independence_single_bunch_origin. Qed.
Print Assumptions C18_history_independence_single_bunch_origin_partial.

(** Hypothesis (B) cannot be dropped: with an inverse transform that changes cell floor(N/2)
    of its input, the second of two identical wakePotential calls differs (fixed tree). *)
Theorem C18_hypothesis_B_needed :
  exists (E : env Z (Z * Z)) (h : list (op Z)) (o : op Z),
    rz E = true /\ 0 <= nmax E /\ ~ hypB E /\
    observe E o (run E (h ++ [o]) (fresh E)) <> observe E o (run E [o] (fresh E)).
Proof. exact hypothesis_B_needed. Qed.
Print Assumptions C18_hypothesis_B_needed.

(** The form of (B) that is monitored (cell floor(N/2) unchanged whatever it holds) implies
    the form the proof uses. *)
Theorem C18_hypB_strong_suffices :
  forall (T C : Type) (E : env T C), hypB_strong E -> hypB E.
Proof. exact @hypB_strong_hypB. Qed.
Print Assumptions C18_hypB_strong_suffices.

(** Every operation changes only the cells the model's footprint functions name (these
    functions are what the correspondence compares with the cells the implementation changes). *)
Theorem C18_footprint_sound :
  forall (T C : Type) (E : env T C) (o : op T) (s : state T C) (i : Z),
    (writes_bp E o i = false -> bp (step E o s) i = bp s i) /\
    (writes_ff E o i = false -> ff (step E o s) i = ff s i) /\
    (writes_wl E o i = false -> wl (step E o s) i = wl s i) /\
    (writes_wp E o i = false -> wp (step E o s) i = wp s i) /\
    (writes_wake E o i = false -> wake (step E o s) i = wake s i) /\
    (writes_csr E o i = false -> csr (step E o s) i = csr s i) /\
    (writes_csri E o i = false -> csri (step E o s) i = csri s i).
Proof. exact @footprint_sound. Qed.
Print Assumptions C18_footprint_sound.

(** non-vacuity: the hypotheses of the main theorem hold for a concrete instance, and the
    refuting history of the pinned tree gives equal results there *)
Example C18_hypotheses_satisfiable :
  rz E_fixed = true /\ hypB E_fixed /\ 0 <= nmax E_fixed.
Proof. exact fixed_hyps. Qed.

Example C18_fixed_instance :
  observe E_fixed (Wake p_ghost) (run E_fixed ([CSR 0 p_ghost] ++ [Wake p_ghost]) (fresh E_fixed))
  = observe E_fixed (Wake p_ghost) (run E_fixed [Wake p_ghost] (fresh E_fixed)).
Proof. exact fixed_ghost_gone. Qed.

Example C18_hypA_satisfiable_pinned :
  hypA E_ghost [Wake p_ghost; Pad p_ghost] (Wake p_ghost).
Proof. exact pinned_hypA_example. Qed.

(** ------------------------------------------------------------------------------------------------
    Second wave.

    (a) Tie to the CURRENT source through the translator: [Gen/Gen_EField.v] is regenerated from
    ElectricField::padBunchProfiles / wakePotential / updateCSR on every run (translate/efield2coq.py) as
    programs [gen_pad_prog], [gen_wake_prog], [gen_csr_prog] of the statement language of
    Model/EFieldProg.v.  Run by the interpreter they compute, buffer by buffer and cell by cell, what the
    model's [step] computes - for every [env] (all sizes, bucket lists, spacings, whatever the transforms and
    kernels compute), and therefore history independence holds for the generated programs themselves.
    [kcsr] is the cell kernel of updateCSR with the frequency-axis index and the impedance index as separate
    arguments; the model's [csrcell] is its diagonal. *)
From Inovesa Require Import Model.EFieldProg Gen.Gen_EField Proofs.EFieldProgP Proofs.EFieldGenP Model.EField2 Proofs.EField2P.

Theorem C18_generated_programs_are_the_model :
  forall (T C : Type) (E : env T C) (kcsr : T -> Z -> Z -> C -> T),
    rz E = true -> (forall cut i x, kcsr cut i i x = csrcell E cut i x) -> 0 <= nmax E ->
  forall (h : list (op T)) (s1 s2 : state T C), steq s1 s2 ->
    steq (prog_run E kcsr gen_pad_prog gen_wake_prog gen_csr_prog h s1) (run E h s2).
Proof. exact @gen_run_is_model. Qed.
Print Assumptions C18_generated_programs_are_the_model.

Theorem C18_generated_history_independence :
  forall (T C : Type) (E : env T C) (kcsr : T -> Z -> Z -> C -> T),
    rz E = true -> (forall cut i x, kcsr cut i i x = csrcell E cut i x) -> 0 <= nmax E -> hypB E ->
  forall (h : list (op T)) (o : op T),
    observe E o (prog_run E kcsr gen_pad_prog gen_wake_prog gen_csr_prog (h ++ [o]) (fresh E))
    = observe E o (prog_run E kcsr gen_pad_prog gen_wake_prog gen_csr_prog [o] (fresh E)).
Proof. exact @gen_history_independence. Qed.
Print Assumptions C18_generated_history_independence.

(** the set-up the model assumes (all work buffers allocated with [nmax] cells and zeroed completely: [fresh];
    forward plan bp -> ff, inverse plan wl -> wp, both of length nmax) is what the constructor, _initWakeLossFFT
    and fft::fft_alloc_real/complex say (generated) *)
Theorem C18_generated_setup_is_model :
  forall N : Z,
    gen_alloc_real_zeroed N = N /\ gen_alloc_complex_zeroed N = 2 * N /\
    gen_buffers N = [(Bbp, false, N); (Bff, true, N); (Bwl, true, N); (Bwp, false, N)] /\
    gen_plan_fwd N = (N, Bbp, Bff) /\ gen_plan_inv N = (N, Bwl, Bwp).
Proof. exact gen_setup_is_model. Qed.
Print Assumptions C18_generated_setup_is_model.

(** (b) Extended operation set: getters anywhere in the history, and TWO field objects in one process
    (src/main.cpp: the radiation field and the wake field, different transform lengths, same PhaseSpace).
    Model/EField2.v: every object owns its buffers and plans, FFTWWrapper.cpp has no static buffer; a
    call on one object leaves the other object's state as it is ([step2]).  For every interleaving [h] of
    calls and getters on both objects, a call [o] on object [w], and any continuation [h'] that makes no
    further call on [w] (getters on [w], anything on the other object): each getter of [o] returns what it
    returns after [o] on a freshly constructed object. *)
Theorem C18_history_independence_two_objects :
  forall (T C : Type) (E1 E2 : env T C) (w : who),
    rz (envof E1 E2 w) = true -> hypB (envof E1 E2 w) -> 0 <= nmax (envof E1 E2 w) ->
  forall (h : list (who * xop T)) (o : op T) (h' : list (who * xop T)) (g : getter),
    quiet w h' = true -> reads_of o g = true ->
    gread (envof E1 E2 w) g (sel w (run2 E1 E2 (h ++ (w, XCall o) :: h') (fresh2 E1 E2)))
    = gread (envof E1 E2 w) g (step (envof E1 E2 w) o (fresh (envof E1 E2 w))).
Proof. exact @history_independence2. Qed.
Print Assumptions C18_history_independence_two_objects.

Theorem C18_history_independence_two_objects_observe :
  forall (T C : Type) (E1 E2 : env T C) (w : who),
    rz (envof E1 E2 w) = true -> hypB (envof E1 E2 w) -> 0 <= nmax (envof E1 E2 w) ->
  forall (h : list (who * xop T)) (o : op T),
    observe (envof E1 E2 w) o (sel w (run2 E1 E2 (h ++ [(w, XCall o)]) (fresh2 E1 E2)))
    = observe (envof E1 E2 w) o (run (envof E1 E2 w) [o] (fresh (envof E1 E2 w))).
Proof. exact @history_independence2_observe. Qed.
Print Assumptions C18_history_independence_two_objects_observe.

(** getters are pure: a history with getters reaches the state of the history without them *)
Theorem C18_getters_pure :
  forall (T C : Type) (E : env T C) (h : list (xop T)) (s : state T C),
    xrun E h s = xrun E (map XCall (calls h)) s.
Proof. exact @getters_pure. Qed.
Print Assumptions C18_getters_pure.

(** a call on one object does not touch the other *)
Theorem C18_other_object_untouched :
  forall (T C : Type) (E1 E2 : env T C) (w w' : who) (x : xop T) (s : state2 (T:=T) (C:=C)),
    isobj w w' = false -> sel w (step2 E1 E2 (w', x) s) = sel w s.
Proof. exact @other_object_untouched. Qed.
Print Assumptions C18_other_object_untouched.

Example C18_generated_instance :
  observe E_fixed (Wake p_ghost)
    (prog_run E_fixed (kcsr_of E_fixed) gen_pad_prog gen_wake_prog gen_csr_prog [CSR 0 p_ghost; Wake p_ghost] (fresh E_fixed))
  = observe E_fixed (Wake p_ghost) (run E_fixed [Wake p_ghost] (fresh E_fixed)).
Proof. exact gen_fixed_instance. Qed.

Example C18_two_objects_instance :
  gread E2_rdtn GPower (sel Obj1 (run2 E2_rdtn E2_wake (h2_example ++ (Obj1, XCall (CSR 0 p2)) :: [(Obj2, XCall (Wake q2)); (Obj1, XGet GSpectrum)]) (fresh2 E2_rdtn E2_wake)))
  = gread E2_rdtn GPower (step E2_rdtn (CSR 0 p2) (fresh E2_rdtn))
  /\ quiet Obj1 [(Obj2, XCall (Wake q2)); (Obj1, XGet (T:=Z) GSpectrum)] = true.
Proof. exact two_objects_example. Qed.
