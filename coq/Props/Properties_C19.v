(** C19 - zero-amplitude RF modulation is the static RF; applied modulation is recorded.
    Only statements closed by [exact]; proofs in Proofs/CtorsP.v, DynRFP.v, DynRFGenP.v; model in
    Model/Ctors.v (constructor forwarding, over the *generated* table Gen/Gen_Ctors.v) and
    Model/DynRF.v (_calcKick, __calcModulation, the apply/flush state machine).  DESIGN.md 5/C19. *)
From Coq Require Import List ZArith String Bool QArith Qcanon Reals.
From Inovesa Require Import Base.FieldKit Base.Float32 Base.RInst Model.Ctors Gen.Gen_Ctors Model.DynRF
  Proofs.CtorsP Proofs.DynRFP Proofs.DynRFGenP.
Import ListNotations.

(** (1) The linear DynamicRFKickMap constructor hands (in, out, angle, f_RF, it, interpol_clamp,
    oclh) - its own parameters of these names, in this order - to the RFKickMap constructor that
    overload resolution (arity; = clang's choice) selects, that constructor is the one with
    `_linear(true)`, and the static sub-object's members `_angle`, `_f_RF` (and the KickMap
    arguments) hold the dynamic constructor's arguments of the same names.  Statement about the
    table generated from the C++ source of this run. *)
Theorem C19_ctor_forwarding_linear :
  forwarding_spec rfkick_ctors dyn_linear true linear_names linear_want.
Proof. exact ctor_forwarding_linear. Qed.
Print Assumptions C19_ctor_forwarding_linear.

(** ... and the sinusoidal one hands (in, out, revolutionpart, V_RF, f_RF, V0, it, interpol_clamp,
    oclh) to the constructor with `_linear(false)` *)
Theorem C19_ctor_forwarding_sinusoidal :
  forwarding_spec rfkick_ctors dyn_sinusoidal false sinusoidal_names sinusoidal_want.
Proof. exact ctor_forwarding_sinusoidal. Qed.
Print Assumptions C19_ctor_forwarding_sinusoidal.

(** the checker is sound for every constructor table, not only today's *)
Theorem C19_forwarding_checker_sound :
  forall cands d lin names want,
    fwd_check cands d lin names want = true -> forwarding_spec cands d lin names want.
Proof. exact fwd_check_sound. Qed.
Print Assumptions C19_forwarding_checker_sound.

(** (2) Zero spreads and zero modulation amplitude: for both RF models ([linear m] arbitrary),
    every field, every noise sequence, every interleaving of apply and flush with at most
    [steps] applies: no underflow, the offsets used by every kick are the static map's offsets,
    and the grid after the schedule is the grid the static map produces ([kickmap] arbitrary). *)
Theorem C19_zero_amplitude_is_static :
  forall (K : Fld) (sin : K -> K) (G : Type) (kickmap : list K -> G -> G)
         (m : rfmap K) (len : nat) (d : dyncfg K) (noise : nat -> K) (steps : nat) (g : G)
         (ops : list op),
    phasenoise d = f0 -> amplnoise d = f0 -> modampl d = f0 ->
    (count_apply ops <= steps)%nat ->
    let s := run sin kickmap m ops (init sin m len (calc_modulation sin (syncphase m) d noise steps) g) in
    ub s = false /\
    offs s = static_offsets sin m len /\
    Forall (fun o => o = static_offsets sin m len) (kicks s) /\
    grid s = static_run sin kickmap m len ops g.
Proof. exact zero_amplitude_is_static. Qed.
Print Assumptions C19_zero_amplitude_is_static.

(** the same with the hypotheses on the *constructor arguments* (phasespread = amplspread =
    modampl = 0), through the generated member initialisers of either constructor *)
Theorem C19_zero_arguments_are_static :
  forall (K : Fld) (sin : K -> K) (G : Type) (kickmap : list K -> G -> G)
         (fsqrt : K -> K) (two_pi : K) (lin : bool)
         (m : rfmap K) (len : nat) (env : string -> K) (noise : nat -> K) (steps : nat) (g : G)
         (ops : list op),
    env "phasespread"%string = f0 -> env "amplspread"%string = f0 -> env "modampl"%string = f0 ->
    (count_apply ops <= steps)%nat ->
    let d := if lin then dyncfg_linear K fsqrt two_pi env else dyncfg_sinusoidal K fsqrt two_pi env in
    let s := run sin kickmap m ops (init sin m len (calc_modulation sin (syncphase m) d noise steps) g) in
    ub s = false /\
    offs s = static_offsets sin m len /\
    Forall (fun o => o = static_offsets sin m len) (kicks s) /\
    grid s = static_run sin kickmap m len ops g.
Proof. exact zero_arguments_are_static. Qed.
Print Assumptions C19_zero_arguments_are_static.

(** (3) For every interleaving of apply and flush (applies not outnumbering the queue [q0]):
    the flushed chunks followed by what is still pending are exactly the first k records, k the
    number of applies - none lost, none duplicated; the queue holds the rest; the j-th kick read
    the j-th record and its offsets are `_calcKick` of that record. *)
Theorem C19_modulation_records :
  forall (K : Fld) (sin : K -> K) (G : Type) (kickmap : list K -> G -> G)
         (m : rfmap K) (len : nat) (q0 : list (modn K)) (g : G) (ops : list op),
    (count_apply ops <= List.length q0)%nat ->
    let s := run sin kickmap m ops (init sin m len q0 g) in
    let k := count_apply ops in
    ub s = false /\
    List.concat (flushed s) ++ past s = firstn k q0 /\
    queue s = skipn k q0 /\
    used s = firstn k q0 /\
    map (firstn (xlen K m)) (kicks s) = map (ck K sin m) (firstn k q0).
Proof. exact modulation_records. Qed.
Print Assumptions C19_modulation_records.

Theorem C19_kick_of_step_uses_its_record :
  forall (K : Fld) (sin : K -> K) (G : Type) (kickmap : list K -> G -> G)
         (m : rfmap K) (len : nat) (q0 : list (modn K)) (g : G) (ops : list op) (j : nat) (e : modn K),
    (count_apply ops <= List.length q0)%nat -> (j < count_apply ops)%nat ->
    nth_error q0 j = Some e ->
    let s := run sin kickmap m ops (init sin m len q0 g) in
    nth_error (used s) j = Some e /\
    option_map (firstn (xlen K m)) (nth_error (kicks s) j) = Some (calc_kick sin m (fst e) (snd e)).
Proof. exact kick_of_step_uses_its_record. Qed.
Print Assumptions C19_kick_of_step_uses_its_record.

(** the schedule of main(): for every output cadence and every number n <= laststep of executed
    steps, /RFKicks/data (the concatenated flushes) is exactly the first n records *)
Theorem C19_main_records :
  forall (K : Fld) (sin : K -> K) (G : Type) (kickmap : list K -> G -> G)
         (m : rfmap K) (len : nat) (q0 : list (modn K)) (g : G) (outstep n : nat),
    (n <= List.length q0)%nat ->
    let s := run sin kickmap m (main_ops outstep n) (init sin m len q0 g) in
    ub s = false /\ List.concat (flushed s) = firstn n q0 /\ past s = [] /\ queue s = skipn n q0.
Proof. exact main_records. Qed.
Print Assumptions C19_main_records.

Theorem C19_queue_never_underflows :
  forall (K : Fld) (sin : K -> K) (G : Type) (kickmap : list K -> G -> G)
         (m : rfmap K) (len : nat) (sync : K) (d : dyncfg K) (noise : nat -> K) (steps : nat) (g : G)
         (ops : list op),
    (count_apply ops <= steps)%nat ->
    ub (run sin kickmap m ops (init sin m len (calc_modulation sin sync d noise steps) g)) = false.
Proof. exact queue_never_underflows. Qed.
Print Assumptions C19_queue_never_underflows.

(** (4) noise = 0: the record of step k is (syncphase + A sin(dphi k), 1) *)
Theorem C19_sinusoidal_modulation :
  forall (K : Fld) (sin : K -> K) (sync : K) (d : dyncfg K) (noise : nat -> K) (steps k : nat),
    phasenoise d = f0 -> amplnoise d = f0 -> (k < steps)%nat ->
    nth_error (calc_modulation sin sync d noise steps) k =
    Some (fadd sync (fmul (modampl d) (sin (fmul (modtimedelta d) (fz (Z.of_nat k))))), f1).
Proof. exact sinusoidal_modulation. Qed.
Print Assumptions C19_sinusoidal_modulation.

(** ... over the reals and in terms of the constructor arguments: A = modampl,
    dphi = 2 pi modtimeincrement (main() passes modtimeincrement = f_mod dt) *)
Theorem C19_sinusoidal_modulation_R :
  forall (lin : bool) (fsqrt : R -> R) (sync : R) (env : string -> R) (noise : nat -> R) (steps k : nat),
    env "phasespread"%string = 0%R -> env "amplspread"%string = 0%R -> (k < steps)%nat ->
    let d := if lin then dyncfg_linear RF fsqrt (2 * PI)%R env
             else dyncfg_sinusoidal RF fsqrt (2 * PI)%R env in
    nth_error (calc_modulation (K:=RF) sin sync d noise steps) k =
    Some ((sync + env "modampl"%string * sin (2 * PI * env "modtimeincrement"%string * INR k))%R, 1%R).
Proof. exact sinusoidal_modulation_R. Qed.
Print Assumptions C19_sinusoidal_modulation_R.

(** non-vacuity: a concrete map over the rationals (sin replaced by the identity), a queue of
    five records, the schedule A F A A F A: chunks [m0] [m1 m2], pending [m3], one left *)
Definition ex_m : rfmap QcF :=
  mkRF (K:=QcF) true (Q2Qc (1#8)) 0%Qc 0%Qc 0%Qc 0%Qc 1%Qc 3 (Q2Qc (3#2)) 1%Qc 1%Qc 1%Qc (fun x => Qcz x).
Definition ex_q : list (modn QcF) :=
  [(Q2Qc (1#2), 1%Qc); (Q2Qc (1#4), 1%Qc); (0%Qc, Q2Qc (3#2)); (Q2Qc (1#8), 1%Qc); (1%Qc, 1%Qc)].
Definition ex_ops : list op := [Apply; Flush; Apply; Apply; Flush; Apply].

Example C19_records_example :
  let s := run (K:=QcF) (fun x => x) (fun _ (g : nat) => S g) ex_m ex_ops
               (init (K:=QcF) (fun x => x) ex_m 3 ex_q 0%nat) in
  (count_apply ex_ops <= List.length ex_q)%nat /\
  flushed s = [firstn 1 ex_q; firstn 2 (skipn 1 ex_q)] /\ past s = [nth 3 ex_q (0%Qc, 0%Qc)] /\
  List.length (queue s) = 1%nat /\ grid s = 4%nat /\ ub s = false.
Proof. vm_compute. repeat split; auto. Qed.

(** non-vacuity of the zero-amplitude hypotheses and of k < steps *)
Example C19_zero_example :
  let d := mkDC (K:=QcF) 0%Qc 0%Qc 0%Qc (Q2Qc (1#3)) in
  phasenoise d = 0%Qc /\ amplnoise d = 0%Qc /\ modampl d = 0%Qc /\
  calc_modulation (K:=QcF) (fun x => x) (Q2Qc (1#5)) d (fun i => Qcz (Z.of_nat i)) 3
  = repeat (Q2Qc (1#5), 1%Qc) 3.
Proof. vm_compute. repeat split; auto. Qed.

(** the generated table passes the checker (the hypothesis of the soundness theorem) *)
Example C19_checker_example :
  fwd_check rfkick_ctors dyn_linear true linear_names linear_want = true /\
  fwd_check rfkick_ctors dyn_sinusoidal false sinusoidal_names sinusoidal_want = true /\
  (* and it is not vacuous: forwarding the linear arguments cannot pass as sinusoidal *)
  fwd_check rfkick_ctors dyn_linear false sinusoidal_names sinusoidal_want = false.
Proof. vm_compute. auto. Qed.

(** * (3) for the schedule main() actually executes - the program generated from src/main.cpp

    [Gen_MainLoop.main_prog] is regenerated from main() on every run (translate/mainloop2coq.py);
    it contains the RF statements of main: `rfm->apply()` inside the step ([Apply MRF]) and
    `hdf_file->appendRFKicks(drfm->getPastModulation())` in the output block and in the final block
    ([Append ARFKicks] under `if (drfm)`).  In the driver model (Model/Driver.v) the dynamic map is
    its queue [mq] (front first) and past list [past]; [rf_of K (file s)] is the concatenation of
    all flushed chunks = the rows of /RFKicks/data.  [sig] is the Display::abort schedule of C14
    (SIGINT at any set of hook points), [steps_done] the number of loop iterations the run executes.
    Names of the driver model are written qualified ([Driver.run] ...) because Model/DynRF.v uses the
    same short names for the queue machine. *)
From Inovesa Require Model.Driver Gen.Gen_MainLoop Proofs.DriverP Proofs.DriverRFP Proofs.DriverMainP
  Proofs.DriverRFMainP Model.DriverRF Model.DriverInst.
Local Open Scope Z_scope.

(** the per-run obligation: in the generated program the RF map is applied exactly once per loop
    iteration, at top level, and nowhere else; with a results file and a dynamic map the final
    block ends with the past list flushed (reflection: [vm_compute] on the generated term) *)
Theorem C19_main_prog_rf_shape : DriverRFP.rf_checker Gen_MainLoop.main_prog = true.
Proof. exact DriverMainP.main_rf_checked. Qed.
Print Assumptions C19_main_prog_rf_shape.

(** for every kernel record, every number of steps, output cadence, save cadence, renormalisation
    schedule, wake on/off and every signal schedule: /RFKicks/data of the finished (or aborted) run
    is exactly the list of records used by the executed steps 0..m-1, in order - none lost, none
    duplicated - nothing is left pending in the map and the queue holds the unused rest *)
Theorem C19_main_prog_records :
  forall (K : Driver.kern) (sig : Z -> bool) (cf : Driver.cfg) (s0 : Driver.st K),
    Driver.hdf cf = true -> Driver.dynrf cf = true ->
    DriverRFP.rf_of K (Driver.file s0) = [] -> Driver.past s0 = [] ->
    (Z.to_nat (Driver.laststep cf) <= List.length (Driver.mq s0))%nat ->
    let m := DriverP.steps_done K sig cf Gen_MainLoop.main_prog s0 in
    DriverRFP.rf_of K (Driver.file (Driver.run sig cf Gen_MainLoop.main_prog s0)) = firstn m (Driver.mq s0) /\
    Driver.past (Driver.run sig cf Gen_MainLoop.main_prog s0) = [] /\
    Driver.mq (Driver.run sig cf Gen_MainLoop.main_prog s0) = skipn m (Driver.mq s0).
Proof. exact DriverRFMainP.main_run_records. Qed.
Print Assumptions C19_main_prog_records.

(** the same at every loop head j (i.e. after every executed step, whatever was flushed so far):
    written rows followed by the pending ones are the first j records *)
Theorem C19_main_prog_records_at_every_step :
  forall (K : Driver.kern) (sig : Z -> bool) (cf : Driver.cfg) (s0 : Driver.st K) (j : nat),
    Driver.dynrf cf = true -> DriverRFP.rf_of K (Driver.file s0) = [] -> Driver.past s0 = [] ->
    (j <= List.length (Driver.mq s0))%nat ->
    DriverRFP.rf_of K (Driver.file (DriverP.heads K sig cf Gen_MainLoop.main_prog s0 j)) ++
      Driver.past (DriverP.heads K sig cf Gen_MainLoop.main_prog s0 j) = firstn j (Driver.mq s0) /\
    Driver.mq (DriverP.heads K sig cf Gen_MainLoop.main_prog s0 j) = skipn j (Driver.mq s0).
Proof. exact DriverRFMainP.main_heads_records. Qed.
Print Assumptions C19_main_prog_records_at_every_step.

(** with the queue model of Model/DynRF.v plugged into the driver: the kick of step i of the
    generated program was computed by `_calcKick` from record i *)
Theorem C19_main_prog_kick_of_step :
  forall (K0 : Driver.kern) (F : Fld) (sin : F -> F) (m : rfmap F)
         (kickmap : list F -> Driver.tG K0 -> Driver.tG K0)
         (trk : bool -> Driver.map -> Driver.tW K0 -> list F -> Driver.tRng K0 -> Driver.tTr K0 -> Driver.tTr K0 * Driver.tRng K0)
         (sig : Z -> bool) (cf : Driver.cfg) (s0 : Driver.st (DriverRF.rfK K0 F sin m kickmap trk)) (i : nat) (e : modn F),
    Driver.dynrf cf = true -> nth_error (Driver.mq s0) i = Some e ->
    Driver.rfo (DriverP.heads (DriverRF.rfK K0 F sin m kickmap trk) sig cf Gen_MainLoop.main_prog s0 (S i)) =
    write_prefix (calc_kick sin m (fst e) (snd e))
                 (Driver.rfo (DriverP.heads (DriverRF.rfK K0 F sin m kickmap trk) sig cf Gen_MainLoop.main_prog s0 i)).
Proof. exact DriverRFMainP.main_kick_of_step. Qed.
Print Assumptions C19_main_prog_kick_of_step.

(** without a results file nothing is written: the records stay in the map (conservation);
    with the static map no record exists at all *)
Theorem C19_main_prog_conservation :
  forall (K : Driver.kern) (sig : Z -> bool) (cf : Driver.cfg) (s0 : Driver.st K),
    (Driver.dynrf cf = false \/
     (Driver.dynrf cf = true /\ (Z.to_nat (Driver.laststep cf) <= List.length (Driver.mq s0))%nat)) ->
    DriverRFP.tot K (Driver.run sig cf Gen_MainLoop.main_prog s0) = DriverRFP.tot K s0.
Proof.
  exact (fun K sig cf s0 H => match H with
    | or_introl Hd => DriverRFMainP.main_run_static K sig cf s0 Hd
    | or_intror (conj Hd Hl) => DriverRFMainP.main_run_nofile K sig cf s0 Hd Hl end).
Qed.
Print Assumptions C19_main_prog_conservation.

(** non-vacuity on the executable instance (records numbered 0,1,...): 8 steps, output every 3rd
    step, SIGINT at hook point 130: 5 steps are executed; chunks [] (step 0) and [0;1;2] (step 3)
    were flushed by output blocks, [3;4] by the final block; nothing pending *)
Example C19_main_prog_example :
  let o := DriverInst.model_run (Driver.mkcfg 8 3 1 0 true true true) 130 false 28 in
  (DriverInst.o_k o, DriverInst.o_rf o, DriverInst.o_pending o) = (5, [(0, []); (3, [0; 1; 2]); (5, [3; 4])], []).
Proof. vm_compute. reflexivity. Qed.

(** * (4) with what main() passes to the constructors (Gen/Gen_ModStep.v, regenerated from src/main.cpp)

    [main_modampl lin opt], [main_modtimeincrement lin opt] are the expressions main() passes as
    `modampl` and `modtimeincrement` to the linear / sinusoidal DynamicRFKickMap constructor, as
    functions of the option getters ([opt "getX"]) and of the synchrotron frequency [opt "fs"].
    [dt_spec]: duration of one step from the options alone - 1/(f_rev StepsPerRevolution) when
    StepsPerRevolution > 0 (it overrides StepsPerTs), else 1/(f_s max(StepsPerTs,1));
    [ampl_spec]: RFPhaseModAmplitude in rad (negative values clamped to 0). *)
From Inovesa Require Import Gen.Gen_ModStep Proofs.ModStepP.
Local Open Scope R_scope.

Theorem C19_main_passes_configured_modulation :
  forall (lin : bool) (opt : string -> R),
    opt "fs"%string <> 0 -> opt "getRevolutionFrequency"%string <> 0 ->
    main_modtimeincrement lin opt = opt "getRFPhaseModFrequency"%string * dt_spec opt /\
    main_modampl lin opt = ampl_spec opt.
Proof. exact (fun lin opt H1 H2 => conj (main_modstep_is_fmod_dt lin opt H1 H2) (main_modampl_is_configured lin opt)). Qed.
Print Assumptions C19_main_passes_configured_modulation.

(** end to end: pure sinusoidal modulation (both spreads zero) has the configured amplitude and
    frequency: the record of step k is (syncphase + A sin(2 pi f_mod t_k), 1) with t_k = k dt *)
Theorem C19_modulation_as_configured :
  forall (lin : bool) (fsqrt : R -> R) (sync : R) (opt cenv : string -> R) (noise : nat -> R) (steps k : nat),
    cenv "phasespread"%string = 0 -> cenv "amplspread"%string = 0 ->
    cenv "modampl"%string = main_modampl lin opt -> cenv "modtimeincrement"%string = main_modtimeincrement lin opt ->
    opt "fs"%string <> 0 -> opt "getRevolutionFrequency"%string <> 0 -> (k < steps)%nat ->
    let d := if lin then dyncfg_linear RF fsqrt (2 * PI) cenv else dyncfg_sinusoidal RF fsqrt (2 * PI) cenv in
    nth_error (calc_modulation (K:=RF) sin sync d noise steps) k =
    Some (sync + ampl_spec opt * sin (2 * PI * opt "getRFPhaseModFrequency"%string * (INR k * dt_spec opt)), 1).
Proof. exact modulation_as_configured. Qed.
Print Assumptions C19_modulation_as_configured.

(** the queue is as long as the loop can run: both constructor calls of main() pass, as `steps`,
    the very variable that bounds the main loop, and main() never reassigns it (hypothesis
    [laststep <= length mq] of C19_main_prog_records) *)
Theorem C19_main_queue_covers_loop : main_dyn_steps_arg_is_loop_bound = true.
Proof. exact main_steps_arg_checked. Qed.
Print Assumptions C19_main_queue_covers_loop.

(** non-vacuity: 9 MHz revolution frequency, f_s = 9 kHz, 0.02 steps per revolution
    (= 20 per synchrotron period), whatever -N says: dt = 1/(9e6 * 0.02) *)
Example C19_dt_example :
  ex_opt "fs"%string <> 0 /\ ex_opt "getRevolutionFrequency"%string <> 0 /\ dt_spec ex_opt = / 180000.
Proof. exact dt_example. Qed.

(** * (family rfgen) the kick itself, over the field GENERATED from RFKickMap.cpp on every run (Gen/Gen_RFDrift.v:
    _calcKick both branches, both constructors with their `_calcKick(_syncphase)` call and the default amplitude 1 read
    from the header; run by Model/RFDriftGen.v: [rs_offset] is `_offset`, [rs_built] the offsets updateSM() built the
    table from).  (a) The hand-written [kick_entry] of Model/DynRF.v that sections (2)-(4) speak about is the generated
    `_calcKick` in the entry apply() reads for every bunch.  (b) Zero spreads and zero modulation amplitude: the record
    of every step is (synchronous phase, 1), and `_calcKick` with it leaves exactly the offsets - and the table - the
    static constructor left, for both RF models. *)
From Inovesa Require Model.RFDriftKit Gen.Gen_RFDrift Model.RFDriftGen Proofs.RFDriftGenP.
Module RFGenFamily.
Import RFDriftKit Gen_RFDrift RFDriftGen RFDriftGenP.
Local Open Scope Z_scope.

Theorem C19_kick_entry_generated :
  forall (K : Fld) (ftan fsin fasin : K -> K) (nb nx ny : Z) (A0 A1 : axfacts K) (M : rfk_members K) (phase ampl : K)
         (st : rfd_state K) (b x : Z),
    0 <= b < nb -> 0 <= x < nx ->
    rs_offset (gen_calcKick ftan fsin fasin nb nx ny A0 A1 M phase ampl st) (Z.min b (nb - 1) * nx + x) =
    kick_entry fsin (rfmap_of K ftan nx A0 A1 M) phase ampl x.
Proof. exact kick_entry_generated. Qed.
Print Assumptions C19_kick_entry_generated.

Theorem C19_zero_amplitude_is_static_generated :
  forall (K : Fld) (ftan fsin fasin : K -> K) (nb nx ny : Z) (A0 A1 : axfacts K)
         (c two_pi angle revolutionpart V_RF f_RF V0 : K) (d : dyncfg K) (n1 n2 s : K),
    phasenoise d = f0 -> amplnoise d = f0 -> modampl d = f0 -> 0 < nx -> 0 <= nb ->
    (let M := rfk_ctor_lin_members K ftan fsin fasin A0 A1 c two_pi angle f_RF in
     let st := gen_rfk_lin_ctor ftan fsin fasin nb nx ny A0 A1 c two_pi angle f_RF in
     let e := mod_entry (m_syncphase M) d n1 n2 s in
     forall i, rs_offset (gen_calcKick ftan fsin fasin nb nx ny A0 A1 M (fst e) (snd e) st) i = rs_offset st i /\
               rs_built (gen_calcKick ftan fsin fasin nb nx ny A0 A1 M (fst e) (snd e) st) i = rs_built st i) /\
    (let M := rfk_ctor_sin_members K ftan fsin fasin A0 A1 c two_pi revolutionpart V_RF f_RF V0 in
     let st := gen_rfk_sin_ctor ftan fsin fasin nb nx ny A0 A1 c two_pi revolutionpart V_RF f_RF V0 in
     let e := mod_entry (m_syncphase M) d n1 n2 s in
     forall i, rs_offset (gen_calcKick ftan fsin fasin nb nx ny A0 A1 M (fst e) (snd e) st) i = rs_offset st i /\
               rs_built (gen_calcKick ftan fsin fasin nb nx ny A0 A1 M (fst e) (snd e) st) i = rs_built st i).
Proof. exact unmodulated_kick_is_static_generated. Qed.
Print Assumptions C19_zero_amplitude_is_static_generated.

(** non-vacuity over Qc: a 2-bunch, 4-cell linear map (tan := 1/4 constant, Ruler(4, -3/2, 3/2)); the static offsets and
    the offsets after an unmodulated dynamic kick *)
Example C19_generated_static_example :
  let A := gen_axis (K:=QcF) 4 (Q2Qc (-3 # 2)) (Q2Qc (3 # 2)) (fun _ => 1%Qc) in
  let tn := fun _ : Qc => Q2Qc (1 # 4) in let idf := fun q : Qc => q in
  let M := rfk_ctor_lin_members QcF tn idf idf A A 1%Qc 1%Qc 1%Qc 1%Qc in
  let st := gen_rfk_lin_ctor (K:=QcF) tn idf idf 2 4 4 A A 1%Qc 1%Qc 1%Qc 1%Qc in
  let e := mod_entry (K:=QcF) (m_syncphase M) (mkDC (K:=QcF) 0%Qc 0%Qc 0%Qc 1%Qc) (Q2Qc 5) (Q2Qc 7) (Q2Qc (1 # 3)) in
  map (fun i => this (rs_offset st i)) (zrange 9) = [3 # 8; 1 # 8; -1 # 8; -3 # 8; 3 # 8; 1 # 8; -1 # 8; -3 # 8; 0]%Q /\
  map (fun i => this (rs_offset (gen_calcKick (K:=QcF) tn idf idf 2 4 4 A A M (fst e) (snd e) st) i)) (zrange 9) =
  map (fun i => this (rs_offset st i)) (zrange 9).
Proof. vm_compute. split; reflexivity. Qed.
End RFGenFamily.
(** * The queue code of DynamicRFKickMap as generated (strengthening driven by seed C19-G)

    `translate/dynqueue2coq.py` -> `Gen/Gen_DynQueue.v`: the `for` header of `__calcModulation(steps)` ([dq_for]), the pair
    emplaced per iteration ([dq_entry], an expression over a generic field with `sin` and the two normal variates of the
    iteration abstract), the argument both constructors hand to `__calcModulation` in the initialiser of
    `_next_modulation` ([dq_ctor_queue_arg]), the statements of `apply()`, `_calcKick()`, `getPastModulation()` and every
    use of the member `_next_modulation` ([dq_queue_refs]).  Model/DynQueue.v gives these a semantics
    ([gen_queue], [gen_run]; a moved-from vector holds an arbitrary [junk]).

    For every field, sine, noise sequence, member values, `steps`, every interleaving of apply and flush with at most
    `steps` applies: the queue built by the generated loop has exactly `steps` entries; the entry consumed by the k-th
    apply (k = 0, 1, ...) is the generated expression AT INDEX k ITSELF with the variates 2k, 2k+1; the queue afterwards
    is what is left of the initial one (its length is steps - applies: it is never refilled); the flushed chunks followed
    by the pending records are the first records, none lost or duplicated; each kick is `_calcKick` of its record.
    Per-run obligations on the generated shape: loop header (0; < parameter `steps`; +1), both constructors pass their
    parameter `steps`, the member is only read, initialised by the constructors and popped by `apply`. *)
From Inovesa Require Import Model.DynQueue Gen.Gen_DynQueue Proofs.DynQueueP.

Theorem C19_dynqueue_shape :
  hdr_ok dq_for = true /\ ctor_args_ok dq_ctor_queue_arg = true /\ queue_refs_ok dq_queue_refs = true.
Proof. exact (conj dq_for_ok (conj dq_ctor_args_ok dq_refs_ok)). Qed.
Print Assumptions C19_dynqueue_shape.

Theorem C19_dynqueue_entry_k_is_consumed_by_apply_k :
  forall (K : Fld) (sin : K -> K) (G : Type) (kickmap : list K -> G -> G)
         (m : rfmap K) (len : nat) (sync : K) (d : dyncfg K) (noise : nat -> K) (steps : nat) (g : G)
         (junk : list (modn K)) (ops : list op),
    (count_apply ops <= steps)%nat ->
    let q0 := gen_queue dq_for (gen_entry K sin sync d) noise (Z.of_nat steps) in
    let s := gen_run sin kickmap m dq_calckick_args dq_apply_ops dq_getpast_ops junk ops (init sin m len q0 g) in
    let j := count_apply ops in
    List.length q0 = steps /\
    ub s = false /\
    (forall k, (k < j)%nat ->
       nth_error (used s) k =
       Some (dq_entry K sin sync (phasenoise d) (amplnoise d) (modampl d) (modtimedelta d)
                      (noise (2 * k)%nat) (noise (2 * k + 1)%nat) (fz (Z.of_nat k)))) /\
    List.length (queue s) = (steps - j)%nat /\ queue s = skipn j q0 /\
    List.concat (flushed s) ++ past s = firstn j q0 /\
    map (firstn (xlen K m)) (kicks s) = map (ck K sin m) (firstn j q0).
Proof. exact dynqueue_records. Qed.
Print Assumptions C19_dynqueue_entry_k_is_consumed_by_apply_k.

(** the generated loop computes the hand-written `calc_modulation` (so every theorem above that mentions it speaks about
    the source of this run), and the generated machine is the hand-written one *)
Theorem C19_dynqueue_is_the_model :
  forall (K : Fld) (sin : K -> K) (sync : K) (d : dyncfg K) (noise : nat -> K) (steps : nat),
    gen_queue dq_for (gen_entry K sin sync d) noise (Z.of_nat steps) = calc_modulation sin sync d noise steps.
Proof. exact gen_queue_is_calc_modulation. Qed.
Print Assumptions C19_dynqueue_is_the_model.

Theorem C19_dynqueue_machine_is_the_model :
  forall (K : Fld) (sin : K -> K) (G : Type) (kickmap : list K -> G -> G) (m : rfmap K)
         (junk : list (modn K)) (ops : list op) (s : DynRF.st K G),
    gen_run sin kickmap m dq_calckick_args dq_apply_ops dq_getpast_ops junk ops s = run sin kickmap m ops s.
Proof. exact gen_run_is_run. Qed.
Print Assumptions C19_dynqueue_machine_is_the_model.

(** non-vacuity: a block-wise header (the queue built for min(steps, blocksize)) or a refill in apply() is refused *)
Example C19_dynqueue_refusals :
  ctor_args_ok [("linear", BOther "min(steps, _blocksize)"); ("sinusoidal", BParam "steps")]%string = false /\
  queue_refs_ok [("constructor", "init"); ("apply", "empty"); ("apply", "assign"); ("apply", "front"); ("apply", "pop")]%string = false /\
  hdr_ok (mkfor 1 (BParam "steps") 1) = false.
Proof. repeat split; vm_compute; reflexivity. Qed.

(** * Observer-guarded statements of main() and the pending RF records (strengthening driven by seed F6-J;
      Model/Observers.v, Proofs/ObserversP.v, per-run obligations in Proofs/ObserversMainP.v)

    [C19_main_prog_records] speaks about [main_prog], in which `getPastModulation()` occurs only as the argument of
    `appendRFKicks`.  Statements of main() guarded by the verbosity are not part of [main_prog]; the translator lists
    them with what they do ([loop_observers]), `getPastModulation()` with the effect translate/dynqueue2coq.py reads
    off its body ([main_getpast] = the generated [dq_getpast_ops]).  Per-run obligation: each of them is pure - executed
    in any state, it leaves the queue, the pending records and everything else of the model's state as they are - so
    the theorems about [main_prog] are theorems about verbose runs as well. *)
From Inovesa Require Model.Observers Proofs.ObserversP Proofs.ObserversMainP.

Theorem C19_loop_observers_keep_pending_records :
  Observers.observers_pure ObserversMainP.main_getpast Gen_MainLoop.loop_observers = true /\
  forall (K : Driver.kern) (sig : Z -> bool) (cf : Driver.cfg) (junk : list (Driver.tMd K)) (unk : String.string -> Driver.st K -> Driver.st K)
         (o : Observers.ostmt) (s : Driver.st K),
    In o Gen_MainLoop.loop_observers -> Observers.oexec_stmt sig cf junk ObserversMainP.main_getpast unk o s = s.
Proof. exact (conj ObserversMainP.main_loop_observers_checked (fun K => ObserversMainP.main_loop_observers_pure K)). Qed.
Print Assumptions C19_loop_observers_keep_pending_records.

(** ... and why `getPastModulation()` may not stand under such a guard: with the body generated today it is refused by
    the checker, and executed there it empties the list of pending records - the `appendRFKicks(getPastModulation())`
    that follows writes an empty chunk (the records of the steps since the last output are lost) *)
Theorem C19_getpast_under_observer_loses_records :
  Observers.oeff_pure ObserversMainP.main_getpast (Observers.OGetPast "drfm") = false /\
  forall (K : Driver.kern) (sig : Z -> bool) (cf : Driver.cfg) (junk : list (Driver.tMd K)) (unk : String.string -> Driver.st K -> Driver.st K) (s : Driver.st K),
    Driver.past (Observers.oexec sig cf junk ObserversMainP.main_getpast unk (Observers.OGetPast "drfm") s) = [] /\
    Driver.recs cf Driver.ARFKicks (Observers.oexec sig cf junk ObserversMainP.main_getpast unk (Observers.OGetPast "drfm") s) = [Driver.mkrec (Driver.k s) (Driver.RRF [])].
Proof. exact (conj ObserversMainP.main_getpast_is_not_pure (fun K => ObserversMainP.main_getpast_under_observer_loses_records K)). Qed.
Print Assumptions C19_getpast_under_observer_loses_records.
