(** C16 - impedance models are well-formed, passive, correctly scaled and causal  (partial).
    Only statements closed by [exact]; proofs in Proofs/ImpedanceP.v (shape, sum, factory:
    generic in the sample type and in the value functions) and Proofs/ImpedanceRP.v (analytic
    laws over R).  NOT covered by any theorem (explored numerically on the implementation by
    lib/props/C16.py): the parallel-plates values (Airy functions), the limits of that model,
    and the one-sidedness of the impulse response in the continuum limit (what IS proved about
    causality: section 5).  Sections 4-5 are about the definitions GENERATED from src/Z on every
    run (Gen/Gen_Imp.v, translate/imp2coq.py); sections 1-3 about the hand-written loops and laws
    they are proved equal to.  See DESIGN.md 5/C16. *)
From Coq Require Import List ZArith QArith Qcanon Bool Reals Lra.
From Inovesa Require Import Base.FieldKit Base.RInst Base.Float32 Base.Sums Model.DFT Proofs.DFTP Proofs.DFTInst Proofs.DFTThm
  Proofs.CausalP.
From Inovesa Require Import Model.Impedance Model.ImpedanceR Model.ImpKit Model.ImpedanceSpec Model.ImpGenInst
  Gen.Gen_Imp Proofs.ImpedanceP Proofs.ImpedanceRP Proofs.ImpedanceVP Proofs.ImpedanceGenP Proofs.ImpedanceGenRP.
From Inovesa Require Model.ImpPure Proofs.ImpPureP.
Import ListNotations.
Local Open Scope Z_scope.

(** 1. every model returns exactly [n] samples, its samples at the indices the loops write,
    zero above n/2 (parallel plates also at 0; constant model: zero from n/2 on; the factory's
    start vector: zero everywhere) - for every sample type, every value function and every
    n >= 1 (odd, even, small) *)
Theorem C16_impedance_shape :
  forall (C : Type) (c0 : C) (n : Z) (f g : Z -> C) (z : C), 1 <= n ->
    (zlen (push_loop c0 n f) = n /\ (forall i, 0 <= i <= n / 2 -> nthz c0 (push_loop c0 n f) i = f i)
       /\ zero_above C c0 (push_loop c0 n f) (n / 2)) /\
    (zlen (pp_vec c0 n g) = n /\ nthz c0 (pp_vec c0 n g) 0 = c0
       /\ (forall i, 1 <= i <= n / 2 -> nthz c0 (pp_vec c0 n g) i = g i)
       /\ zero_above C c0 (pp_vec c0 n g) (n / 2)) /\
    (zlen (const_vec c0 n z) = n /\ (forall i, 0 <= i < n / 2 -> nthz c0 (const_vec c0 n z) i = z)
       /\ zero_above C c0 (const_vec c0 n z) (n / 2 - 1)) /\
    (zlen (zero_vec c0 n) = n /\ zero_above C c0 (zero_vec c0 n) (-1)).
Proof. exact impedance_shape_all. Qed.
Print Assumptions C16_impedance_shape.

Example C16_shape_example :
  push_loop 0 5 (fun i => i + 10) = [10; 11; 12; 0; 0] /\
  pp_vec 0 5 (fun i => i + 10) = [0; 11; 12; 0; 0] /\
  const_vec 0 5 7 = [7; 7; 0; 0; 0] /\
  push_loop 0 2 (fun i => i + 10) = [10; 11] /\ const_vec 0 2 7 = [7; 0].
Proof. vm_compute. repeat split. Qed.

(** 2a. operator+= is the pointwise sum over the left operand's length; a shorter right
    operand contributes nothing beyond its end (the tree after fix C16/short-file-sum) *)
Theorem C16_sum_is_pointwise :
  forall (C : Type) (c0 : C) (cadd : C -> C -> C) (l r : list C),
    zlen (add_into c0 cadd l r) = zlen l /\
    forall i, 0 <= i < zlen l ->
      nthz c0 (add_into c0 cadd l r) i =
      if i <? zlen r then cadd (nthz c0 l i) (nthz c0 r i) else nthz c0 l i.
Proof. exact sum_is_pointwise. Qed.
Print Assumptions C16_sum_is_pointwise.

(** 2b. the factory returns the pointwise sum (in the order csr, wall, collimator, file,
    starting from zero) of exactly the contributions whose switches are on, and nothing
    when none is on - whatever the sample functions are *)
Theorem C16_factory_selection :
  forall (C : Type) (c0 : C) (cadd : C -> C -> C) (pp fs rw : Z -> C) (coll : C)
         (n : Z) (gap : Qc) (use_csr : bool) (s xi rc : Qc) (file : option (list C)),
    0 <= n ->
    make_impedance c0 cadd pp fs rw coll n gap use_csr s xi rc file =
    if any_selected gap use_csr s xi rc file
    then Some (pointwise_sum c0 cadd n (parts c0 pp fs rw coll n gap use_csr s xi rc file))
    else None.
Proof. exact factory_sum. Qed.
Print Assumptions C16_factory_selection.

Example C16_factory_example :
  (* gap -1/2 (free space), csr on, wall on (s=1, xi=0), collimator radius 1/8 < 1/4, no file *)
  make_impedance 0 Z.add (fun i => 1000 + i) (fun i => 100 + i) (fun i => 10 * i) 7 6
    (Q2Qc (-1 # 2)) true 1%Qc 0%Qc (Q2Qc (1 # 8)) None = Some [107; 118; 129; 133; 0; 0] /\
  make_impedance 0 Z.add (fun i => 1000 + i) (fun i => 100 + i) (fun i => 10 * i) 7 6
    0%Qc true 1%Qc 0%Qc (Q2Qc (1 # 8)) None = None /\
  make_impedance 0 Z.add (fun i => 1000 + i) (fun i => 100 + i) (fun i => 10 * i) 7 6
    0%Qc true 1%Qc 0%Qc (Q2Qc (1 # 8)) (Some [1; 2; 3]) = Some [1; 2; 3; 0; 0; 0].
Proof. vm_compute. repeat split. Qed.

(** 2c. a property of samples that zero has and the addition keeps (passivity: Re >= 0) is
    inherited by the sum of contributions and by the factory's result *)
Theorem C16_sum_passive :
  forall (C : Type) (c0 : C) (cadd : C -> C -> C) (P : C -> Prop),
    P c0 -> (forall a b, P a -> P b -> P (cadd a b)) ->
    forall n ps, Forall (Forall P) ps -> Forall P (pointwise_sum c0 cadd n ps).
Proof. exact pointwise_sum_P. Qed.
Print Assumptions C16_sum_passive.

Theorem C16_factory_passive :
  forall (pp : Z -> creal) (dfs Z1 drw Z0 ro ri : R) n gap use_csr s xi rc file v,
    0 <= n -> (forall i, 1 <= i <= n / 2 -> passive (pp i)) ->
    (0 <= Z1)%R -> (0 < Z0)%R -> (0 < ri)%R -> (ri < ro)%R ->
    (forall d, file = Some d -> Forall passive d) ->
    factory_R pp dfs Z1 drw Z0 ro ri n gap use_csr s xi rc file = Some v -> Forall passive v.
Proof. exact factory_R_passive. Qed.
Print Assumptions C16_factory_passive.

(** 2d. the tie's relational validators (extracted, run on the implementation's vectors):
    every accepted vector has the shape of clause 1 and its samples satisfy the rational
    inequalities [cube_ok] / [sqrt_ok] / the certified interval - so the statements about
    accepted vectors are statements about what the implementation returned in the run *)
Theorem C16_accepted_vectors :
  (forall tol cre cim delta n v, accept_fs tol cre cim delta n v = true ->
     zlen v = n /\ zero_above cq cq0 v (n / 2) /\
     forall i, 0 <= i <= n / 2 -> i < n ->
       cube_ok tol cre (Qcz i * delta) (fst (nthz cq0 v i)) = true /\
       cube_ok tol cim (Qcz i * delta) (snd (nthz cq0 v i)) = true) /\
  (forall tol k delta n v, accept_rw tol k delta n v = true ->
     zlen v = n /\ zero_above cq cq0 v (n / 2) /\
     forall i, 0 <= i <= n / 2 -> i < n ->
       sqrt_ok tol k (Qcz i * delta) (fst (nthz cq0 v i)) = true /\
       snd (nthz cq0 v i) = (- fst (nthz cq0 v i))%Qc) /\
  (forall lo hi n v, accept_const lo hi n v = true ->
     zlen v = n /\ zero_above cq cq0 v (n / 2 - 1) /\
     forall i, 0 <= i < n / 2 -> i < n ->
       (lo <= fst (nthz cq0 v i) <= hi)%Qc /\ snd (nthz cq0 v i) = 0%Qc) /\
  (forall tol c x v, cube_ok tol c x v = true ->
     (qcabs (v * v * v - c * c * c * x) <= tol * qcabs (c * c * c * x))%Qc /\ (0 <= v * c \/ v = 0)%Qc) /\
  (forall tol k x v, sqrt_ok tol k x v = true ->
     (qcabs (v * v - k * x) <= tol * qcabs (k * x))%Qc /\ (0 <= v)%Qc).
Proof.
  exact (conj accept_fs_sound (conj accept_rw_sound (conj accept_const_sound (conj cube_ok_spec sqrt_ok_spec)))).
Qed.
Print Assumptions C16_accepted_vectors.

Example C16_accept_example :
  accept_fs (Q2Qc (1 # 1000)) 1%Qc 1%Qc (Q2Qc 8) 3 [(0, 0); (Q2Qc 2, Q2Qc 2); (0, 0)]%Qc = true /\
  accept_rw (Q2Qc (1 # 1000)) (Q2Qc 4) 1%Qc 3 [(0, 0); (Q2Qc 2, Q2Qc (-2)); (0, 0)]%Qc = true /\
  accept_const 1%Qc (Q2Qc 2) 4 [(1, 0); (Q2Qc 2, 0); (0, 0); (0, 0)]%Qc = true /\
  accept_fs (Q2Qc (1 # 1000)) 1%Qc 1%Qc (Q2Qc 8) 3 [(0, 0); (Q2Qc 2, Q2Qc 2); (1, 0)]%Qc = false.
Proof. vm_compute. repeat split. Qed.

Local Open Scope R_scope.

(** 3a. free space: the sample is (306.3, 176.9) * x^(1/3): each component is the unique
    non-negative real whose cube is c^3 x; Re >= 0; zero at zero; Z(8x) = 2 Z(x) *)
Theorem C16_freespace_law :
  (forall x, 0 <= x -> fst (fs_sample x) ^ 3 = fs_re ^ 3 * x /\ snd (fs_sample x) ^ 3 = fs_im ^ 3 * x) /\
  (forall x v, 0 <= v -> v ^ 3 = x -> v = cbrt x) /\
  (forall x, passive (fs_sample x)) /\ fs_sample 0 = cr0 /\
  (forall x, 0 <= x -> fs_sample (8 * x) = cr_scale 2 (fs_sample x)).
Proof. exact (conj fs_cube (conj cbrt_unique (conj fs_passive (conj fs_zero fs_scale)))). Qed.
Print Assumptions C16_freespace_law.

(** the prefactor's argument is pi/6 to three decimals: arg - pi/6 in [1.4e-4, 1.5e-4] *)
Theorem C16_freespace_prefactor_arg :
  14 / 100000 <= atan (fs_im / fs_re) - PI / 6 <= 15 / 100000.
Proof. exact fs_arg. Qed.
Print Assumptions C16_freespace_prefactor_arg.

(** 3b. resistive wall: Z1 (1 - i) sqrt x with Z1 >= 0: Re^2 = Z1^2 x, Im = -Re, Re >= 0,
    Z(4x) = 2 Z(x) *)
Theorem C16_wall_law :
  (forall Z0 mu_r f0 s c L b, 0 <= L -> 0 < b -> 0 <= rw_Z1 Z0 mu_r f0 s c L b) /\
  (forall Z1 x, 0 <= x -> fst (rw_sample Z1 x) ^ 2 = Z1 ^ 2 * x /\ snd (rw_sample Z1 x) = - fst (rw_sample Z1 x)) /\
  (forall Z1 x, 0 <= Z1 -> passive (rw_sample Z1 x)) /\
  (forall Z1 x, 0 <= x -> rw_sample Z1 (4 * x) = cr_scale 2 (rw_sample Z1 x)).
Proof. exact (conj rw_Z1_nonneg (conj rw_square (conj rw_passive rw_scale))). Qed.
Print Assumptions C16_wall_law.

(** 3c. collimator: a positive constant resistance (Z0/pi) ln(r_o/r_i), no reactance *)
Theorem C16_collimator_law :
  forall Z0 ro ri, 0 < Z0 -> 0 < ri -> ri < ro ->
    0 < fst (coll_sample Z0 ro ri) /\ snd (coll_sample Z0 ro ri) = 0.
Proof. exact coll_positive. Qed.
Print Assumptions C16_collimator_law.

(** `interval`-certified values of ln at the radius ratios the collimator oracle uses *)
Theorem C16_collimator_ln_bounds :
  693147180 / 1000000000 <= ln (2 / 1) <= 693147181 / 1000000000 /\
  405465108 / 1000000000 <= ln (3 / 2) <= 405465109 / 1000000000 /\
  1386294361 / 1000000000 <= ln (4 / 1) <= 1386294362 / 1000000000 /\
  2302585092 / 1000000000 <= ln (10 / 1) <= 2302585093 / 1000000000 /\
  223143551 / 1000000000 <= ln (5 / 4) <= 223143552 / 1000000000.
Proof. exact ln_bounds. Qed.
Print Assumptions C16_collimator_ln_bounds.

Example C16_laws_example :
  0 <= 2 /\ 0 < 376 /\ 0 < 1 / 250 /\ 1 / 250 < 2 / 125 /\ fs_sample (8 * 2) = cr_scale 2 (fs_sample 2).
Proof. repeat split; try lra. apply fs_scale. lra. Qed.

(** 3d. what the correspondence's relational validators accept: a non-negative sample whose
    cube (square) is within t*x of x lies between the exact roots of (1-t)x and (1+t)x *)
Theorem C16_validator_meaning :
  (forall t x v, 0 <= t < 1 -> 0 < x -> 0 <= v -> Rabs (v ^ 3 - x) <= t * x ->
     cbrt ((1 - t) * x) <= v <= cbrt ((1 + t) * x)) /\
  (forall t x v, 0 <= t < 1 -> 0 < x -> 0 <= v -> Rabs (v ^ 2 - x) <= t * x ->
     sqrt ((1 - t) * x) <= v <= sqrt ((1 + t) * x)).
Proof. exact (conj cube_rel_sound sqrt_rel_sound). Qed.
Print Assumptions C16_validator_meaning.

Local Close Scope R_scope.
Local Open Scope Z_scope.

(** * 4. The definitions generated from src/Z (Gen/Gen_Imp.v), for every field K, every
    interpretation E of the leaves (pow, sqrt, log, abs, pi, c, Z0, the comparisons, the complex
    addition, the parallel-plates constructor) and every sample count *)

(** 4a. shape: every generated constructor returns exactly n samples, zero above n/2 (constant
    and collimator: from n/2 on, where the constant sits below; parallel plates - of which only the
    storing loop is translated, the Airy-function value being a leaf - also at 0), the factory's
    start vector is zero - for every n >= 1, odd n included, whatever the sample expressions are *)
Theorem C16_generated_shape :
  forall (K : Fld) (E : Leaves K) (n : Z) (f_rev f_max f0 L s xi b : K) (z : cpx K) (outer inner : K), 1 <= n ->
    (zlen (FreeSpaceCSR_ctor K E n f_rev f_max) = n /\
     zero_above (cpx K) cpx0 (FreeSpaceCSR_ctor K E n f_rev f_max) (n / 2)) /\
    (zlen (ResistiveWall_ctor K E n f0 f_max L s xi b) = n /\
     zero_above (cpx K) cpx0 (ResistiveWall_ctor K E n f0 f_max L s xi b) (n / 2)) /\
    (zlen (ConstImpedance_ctor K E n f_max z) = n /\
     zero_above (cpx K) cpx0 (ConstImpedance_ctor K E n f_max z) (n / 2 - 1) /\
     forall i, 0 <= i < n / 2 -> nthz cpx0 (ConstImpedance_ctor K E n f_max z) i = z) /\
    (zlen (CollimatorImpedance_ctor K E n f_max outer inner) = n /\
     zero_above (cpx K) cpx0 (CollimatorImpedance_ctor K E n f_max outer inner) (n / 2 - 1)) /\
    (zlen (Impedance_zeros K E n) = n /\ zero_above (cpx K) cpx0 (Impedance_zeros K E n) (-1)) /\
    (zlen (ParallelPlatesCSR_ctor K E n f0 f_max b) = n /\ nthz cpx0 (ParallelPlatesCSR_ctor K E n f0 f_max b) 0 = cpx0 /\
     zero_above (cpx K) cpx0 (ParallelPlatesCSR_ctor K E n f0 f_max b) (n / 2)).
Proof. exact gen_shape. Qed.
Print Assumptions C16_generated_shape.

(** 4b. values: the generated constructors are the loops of section 1 filled with the documented
    sample expressions (Model/ImpedanceSpec.v: prefactor 306.3 + 176.9 i and exponent 1/3 at the
    harmonic i f_max/f_rev/(n-1); Z1 (1 - i) sqrt(harmonic) with Z1 = sqrt(Z0 (1+xi) f0/s/pi/c) L/2/b;
    the constant (Z0/pi ln(outer/inner), 0)), under the non-zero conditions the divisions need *)
Theorem C16_generated_models :
  forall (K : Fld) (E : Leaves K),
    (forall n f_rev f_max, 1 <= n -> f_rev <> f0 -> @fz K (n - 1) <> f0 ->
       FreeSpaceCSR_ctor K E n f_rev f_max = push_loop cpx0 n (sp_fs_sample E n f_rev f_max)) /\
    (forall n fr f_max L s xi b, 1 <= n -> fr <> f0 -> @fz K (n - 1) <> f0 -> s <> f0 -> b <> f0 -> l_pi E <> f0 -> l_c E <> f0 ->
       ResistiveWall_ctor K E n fr f_max L s xi b = push_loop cpx0 n (sp_rw_sample E n fr f_max L s xi b)) /\
    (forall n f_max z, 0 <= n -> ConstImpedance_ctor K E n f_max z = const_vec cpx0 n z) /\
    (forall n f_max outer inner, 0 <= n -> inner <> f0 -> l_pi E <> f0 ->
       CollimatorImpedance_ctor K E n f_max outer inner = const_vec cpx0 n (sp_coll_Z E outer inner)) /\
    (forall n, Impedance_zeros K E n = zero_vec cpx0 n) /\
    (forall n fr f_max g, 0 <= n -> ParallelPlatesCSR_ctor K E n fr f_max g = pp_vec cpx0 n (l_PPs E n fr f_max g)).
Proof.
  exact (fun K E => conj (gen_fs_vec K E) (conj (gen_rw_vec K E) (conj (gen_const_vec K E) (conj (gen_coll_vec K E)
                      (conj (gen_zeros K E) (gen_pp_vec K E)))))).
Qed.
Print Assumptions C16_generated_models.

(** 4c. the root laws over the generic field (the cube root and the square root enter as leaves
    with the hypothesis that they invert the cube / the square at the argument used): the cube of
    each free-space component is prefactor^3 times the harmonic; the square of the wall's real part
    is Z0 (1+xi) f0/(s pi c) (L/2b)^2 times the harmonic and its imaginary part is MINUS the real
    part *)
Theorem C16_generated_root_laws :
  forall (K : Fld) (E : Leaves K),
    (forall n f_rev f_max i,
       let x := (@fz K i * sp_delta n f_rev f_max)%F in
       let v := l_pw E x (f1 / three)%F in
       let z := sp_fs_sample E n f_rev f_max i in
       (v * v * v = x ->
        fst z * fst z * fst z = fst (@sp_fs_Z0 K) * fst (@sp_fs_Z0 K) * fst (@sp_fs_Z0 K) * x /\
        snd z * snd z * snd z = snd (@sp_fs_Z0 K) * snd (@sp_fs_Z0 K) * snd (@sp_fs_Z0 K) * x)%F) /\
    (forall n fr f_max L s xi b i,
       let x := (@fz K i * sp_delta n fr f_max)%F in
       let a := (l_Z0 E * (f1 + xi) * fr / s / l_pi E / l_c E)%F in
       let z := sp_rw_sample E n fr f_max L s xi b i in
       (l_sq E a * l_sq E a = a -> l_sq E x * l_sq E x = x ->
        fst z * fst z = sp_rw_k E fr L s xi b * x /\ snd z = - fst z)%F).
Proof. exact (fun K E => conj (sp_fs_cube K E) (sp_rw_square K E)). Qed.
Print Assumptions C16_generated_root_laws.

(** 4d. the generated operator+= is the pointwise sum of section 2a over the SHORTER operand
    (std::min), and its loop stays inside both vectors *)
Theorem C16_generated_sum :
  forall (K : Fld) (E : Leaves K) (l r : list (cpx K)),
    add_assign K E l r = add_into cpx0 (l_cadd E) l r /\
    (0 <= fst (add_assign_range K E l r) /\ snd (add_assign_range K E l r) <= zlen l /\
     snd (add_assign_range K E l r) <= zlen r).
Proof. exact (fun K E l r => conj (gen_add_assign K E l r) (gen_add_assign_in_bounds K E l r)). Qed.
Print Assumptions C16_generated_sum.

(** 4e. the generated factory, with the generated constructors, in the real instance (its
    conditions are order tests; they are evaluated by [lra] in every sign case of gap, s, xi and
    r_coll, so any equivalent way of writing them proves the same theorem): nothing when no switch is
    on, otherwise the pointwise sum (order: CSR, wall, collimator, file) of exactly the selected
    contributions, each constructed with the documented arguments - parallel plates
    (n, c/(2 pi R), fmax, gap) iff gap > 0 and use_csr; free space (n, c/(2 pi R), fmax) iff gap < 0
    and use_csr; wall (n, frev, fmax, c/frev, s, xi, |gap/2|) iff gap <> 0, s > 0, xi >= -1;
    collimator (n, fmax, |gap/2|, r_coll) iff gap <> 0 and 0 < r_coll < |gap/2|; the file iff named *)
Theorem C16_generated_factory :
  forall (c Z0 : R) (PP : Z -> R -> R -> R -> Z -> creal) n fmax R_bend frev gap use_csr s xi rc file,
    0 <= n -> R_bend <> 0%R -> frev <> 0%R ->
    makeImpedance RF (ER c Z0 PP) n fmax R_bend frev gap use_csr s xi rc file =
    let E := ER c Z0 PP in
    if g_any_selected E gap use_csr s xi rc file
    then Some (pointwise_sum cr0 cr_add n
                 (g_parts E (ParallelPlatesCSR_ctor RF E n (c / ((1 + 1) * PI * R_bend))%R fmax gap)
                          (FreeSpaceCSR_ctor RF E n (c / ((1 + 1) * PI * R_bend))%R fmax)
                          (ResistiveWall_ctor RF E n frev fmax (c / frev)%R s xi (Rabs (gap / (1 + 1))))
                          (CollimatorImpedance_ctor RF E n fmax (Rabs (gap / (1 + 1))) rc)
                          gap use_csr s xi rc file))
    else None.
Proof. exact gen_factory_R. Qed.
Print Assumptions C16_generated_factory.

(** the same for arbitrary constructors of the four models: [makeImpedance_with] is the function
    the correspondence runs in its Qc instance (extracted, [gen_factory_q]) with the
    implementation's own vectors *)
Theorem C16_generated_factory_with :
  forall (c Z0 : R) (PP : Z -> R -> R -> R -> Z -> creal) PPc FSc RWc COLLc n fmax R_bend frev gap use_csr s xi rc file,
    0 <= n -> R_bend <> 0%R -> frev <> 0%R ->
    makeImpedance_with RF (ER c Z0 PP) PPc FSc RWc COLLc n fmax R_bend frev gap use_csr s xi rc file =
    sp_factory_with (ER c Z0 PP) PPc FSc RWc COLLc n fmax R_bend frev gap use_csr s xi rc file.
Proof. exact gen_factory_with_R. Qed.
Print Assumptions C16_generated_factory_with.

(** the switches of the specification mean what the property text says *)
Theorem C16_switch_meaning :
  forall (c Z0 : R) (PP : Z -> R -> R -> R -> Z -> creal) gap use_csr s xi rc,
    let E := ER c Z0 PP in
    (g_sel_pp E gap use_csr = true <-> (0 < gap)%R /\ use_csr = true) /\
    (g_sel_fs E gap use_csr = true <-> (gap < 0)%R /\ use_csr = true) /\
    (g_sel_rw E gap s xi = true <-> gap <> 0%R /\ (0 < s)%R /\ (- (1) <= xi)%R) /\
    (g_sel_coll E gap rc = true <-> gap <> 0%R /\ (0 < rc)%R /\ (rc < Rabs gap / 2)%R).
Proof. exact switch_meaning. Qed.
Print Assumptions C16_switch_meaning.

Example C16_generated_factory_example :
  (* n = 5 (odd), gap -1/2 (free space), csr on, wall on, collimator 1/8 < 1/4, file of 3 samples *)
  let one := (Q2Qc 1, 0%Qc) in
  let qs := map (fun z : cq => (this (fst z), this (snd z))) in
  option_map qs
    (gen_factory_q 5 (Q2Qc (-1 # 2)) true 1%Qc 0%Qc (Q2Qc (1 # 8))
       [one; one; one; cq0; cq0] [(Q2Qc 2, 0%Qc); (Q2Qc 2, 0%Qc); (Q2Qc 2, 0%Qc); cq0; cq0]
       [(Q2Qc 4, Q2Qc (-4)); (Q2Qc 4, Q2Qc (-4)); (Q2Qc 4, Q2Qc (-4)); cq0; cq0]
       [(Q2Qc 8, 0%Qc); (Q2Qc 8, 0%Qc); cq0; cq0; cq0] (Some [one; one; one]))
  = Some [(15, -4); (15, -4); (7, -4); (0, 0); (0, 0)]%Q /\
  gen_factory_q 5 0%Qc true 1%Qc 0%Qc (Q2Qc (1 # 8)) [one] [one] [one] [one] None = None /\
  qs (gen_sum_q [one; one; one] [one]) = [(2, 0); (1, 0); (1, 0)]%Q /\
  qs (gen_const_q 5 one) = [(1, 0); (1, 0); (0, 0); (0, 0); (0, 0)]%Q.
Proof. vm_compute. repeat split. Qed.

Local Open Scope R_scope.

(** 4f. real instance (pow := rpow, sqrt, ln, Rabs, PI, the order of R): the generated vectors
    ARE the analytic vectors of section 3, so the laws 3a-3c are laws of the generated code *)
Theorem C16_generated_models_R :
  forall (c Z0 : R) (PP : Z -> R -> R -> R -> Z -> creal),
    (forall n f_rev f_max, (2 <= n)%Z -> f_rev <> 0 ->
       FreeSpaceCSR_ctor RF (ER c Z0 PP) n f_rev f_max = fs_vec n (f_max / f_rev / IZR (n - 1))) /\
    (forall n fr f_max L s xi b, (2 <= n)%Z -> fr <> 0 -> s <> 0 -> b <> 0 -> c <> 0 ->
       ResistiveWall_ctor RF (ER c Z0 PP) n fr f_max L s xi b =
       rw_vec n (rw_Z1 Z0 (1 + xi) fr s c L b) (f_max / fr / IZR (n - 1))) /\
    (forall n f_max ro ri, (0 <= n)%Z -> ri <> 0 ->
       CollimatorImpedance_ctor RF (ER c Z0 PP) n f_max ro ri = coll_vec n Z0 ro ri).
Proof. exact (fun c Z0 PP => conj (gen_fs_R c Z0 PP) (conj (gen_rw_R c Z0 PP) (gen_coll_R c Z0 PP))). Qed.
Print Assumptions C16_generated_models_R.

(** 4g. passivity of the generated factory on the whole documented domain: any sample count
    n >= 2, any non-zero bending radius, positive revolution frequency, ANY gap (negative = free
    space, zero = nothing, positive = parallel plates) with any combination of wall conductivity,
    susceptibility, collimator radius, file and switches: every sample has Re >= 0, provided the
    parallel-plates model and the file are passive (explored / input) *)
Theorem C16_generated_factory_passive :
  forall (c Z0 : R) (PP : Z -> R -> R -> R -> Z -> creal) n fmax R_bend frev gap use_csr s xi rc file v,
    (2 <= n)%Z -> 0 < c -> 0 < Z0 -> R_bend <> 0 -> 0 < frev ->
    (forall a b g i, (1 <= i <= n / 2)%Z -> passive (PP n a b g i)) ->
    (forall d, file = Some d -> Forall passive d) ->
    makeImpedance RF (ER c Z0 PP) n fmax R_bend frev gap use_csr s xi rc file = Some v -> Forall passive v.
Proof. exact gen_factory_passive. Qed.
Print Assumptions C16_generated_factory_passive.

(** 4h. the wall in the documented form (1 - i) L/(2b) sqrt(Z0 mu_r f/(pi s c)), f = f0 x *)
Theorem C16_wall_closed_form :
  forall Z0 mu_r fr s c L b x,
    0 <= x -> 0 <= Z0 * mu_r * fr / s / PI / c -> b <> 0 -> s <> 0 -> c <> 0 ->
    rw_sample (rw_Z1 Z0 mu_r fr s c L b) x =
    (L / (2 * b) * sqrt (Z0 * mu_r * (fr * x) / (PI * s * c)),
     - (L / (2 * b) * sqrt (Z0 * mu_r * (fr * x) / (PI * s * c)))).
Proof. exact rw_closed_form. Qed.
Print Assumptions C16_wall_closed_form.

(** 4i. the free-space literals are the documented prefactor Z0 Gamma(2/3)/3^(1/3) (sqrt 3 + i)/2
    (Z0 = 376.730313461 Ohm) to four significant digits; Gamma(2/3) = 1.35411... has no counterpart
    in the available libraries and enters as an enclosed parameter; 3^(1/3) = exp(ln 3/3) = cbrt 3 *)
Theorem C16_freespace_prefactor_documented :
  (forall G, 135411 / 100000 <= G <= 135412 / 100000 ->
     Rabs (fs_re - 376730313461 / 1000000000 * G / exp (ln 3 / 3) * (sqrt 3 / 2)) <= 5 / 100 /\
     Rabs (fs_im - 376730313461 / 1000000000 * G / exp (ln 3 / 3) * (1 / 2)) <= 5 / 100) /\
  exp (ln 3 / 3) = cbrt 3.
Proof. exact (conj fs_prefactor_documented cbrt3_is_exp). Qed.
Print Assumptions C16_freespace_prefactor_documented.

(** * 5. Causality: what is proved *)

(** 5a. phase of the samples at EVERY positive frequency: free space has positive real part and
    the constant ratio Im/Re = 176.9/306.3 > 0, i.e. the argument atan(176.9/306.3) = pi/6 + 1.45e-4
    (the enclosure is C16_freespace_prefactor_arg); the resistive wall has positive real part and
    argument exactly -pi/4: the imaginary parts have OPPOSITE signs relative to the real parts *)
Theorem C16_phase :
  (forall x, 0 < x -> 0 < fst (fs_sample x) /\ snd (fs_sample x) / fst (fs_sample x) = fs_im / fs_re) /\
  (forall Z1 x, 0 < Z1 -> 0 < x -> 0 < fst (rw_sample Z1 x) /\
     atan (snd (rw_sample Z1 x) / fst (rw_sample Z1 x)) = - (PI / 4)).
Proof. exact (conj fs_phase rw_phase). Qed.
Print Assumptions C16_phase.

Local Close Scope R_scope.
Local Open Scope Z_scope.

(** 5b. PARTIAL (named so): in the DFT model of ElectricField::wakePotential() (Model/DFT.v) the
    response to a point source at u0 is [kernel Z (j - u0)]; Re Z makes its even part in the
    distance from the source and Im Z its odd part; hence flipping the sign of Im Z relative to
    Re Z (conjugation) MIRRORS the response about the source - an impedance acting ahead only
    becomes one acting behind only -, a real impedance (collimator) acts symmetrically, acting on
    one side only is the discrete dispersion relation [re_series = - im_series], and the response is
    additive in the impedance (factory sums).  MISSING for the full causality clause: that the
    power laws x^(1/3) e^{+i pi/6} and x^(1/2) e^{-i pi/4} satisfy that relation in the continuum
    limit (Fourier transform of a one-sided power law) - explored numerically by the check. *)
Theorem C16_causality_mirror_partial :
  forall (K : Fld) (N : Z) (cs sn : Z -> K), twiddle_laws K cs sn ->
    (forall Zi m, (kernel K N cs sn Zi m + kernel K N cs sn Zi (- m) = two * re_series K N cs Zi m /\
                   kernel K N cs sn Zi m - kernel K N cs sn Zi (- m) = - (two * im_series K N sn Zi m))%F) /\
    (forall Zi m, kernel K N cs sn (cconj K Zi) m = kernel K N cs sn Zi (- m)) /\
    (forall Zi, (forall m, 0 < m -> kernel K N cs sn Zi (- m) = f0) ->
                forall m, 0 < m -> kernel K N cs sn (cconj K Zi) m = f0) /\
    (forall Zi m, kernel K N cs sn Zi (- m) = f0 <-> re_series K N cs Zi m = (- im_series K N sn Zi m)%F) /\
    (forall Zi m, (forall k, snd (Zi k) = f0) -> kernel K N cs sn Zi (- m) = kernel K N cs sn Zi m) /\
    (forall A B m, kernel K N cs sn (cplus K A B) m = (kernel K N cs sn A m + kernel K N cs sn B m)%F) /\
    (2 <= N ->
     (forall Zi stale u0 j, fresh_top K N stale -> 0 <= u0 < N ->
        wake_padded N cs sn Zi stale (point_source K u0) j = kernel K N cs sn Zi (j - u0)) /\
     (forall Zi stale u0 d, fresh_top K N stale -> 0 <= u0 < N ->
        wake_padded N cs sn (cconj K Zi) stale (point_source K u0) (u0 + d) =
        wake_padded N cs sn Zi stale (point_source K u0) (u0 - d)) /\
     (forall A B stale p j, fresh_top K N stale ->
        wake_padded N cs sn (cplus K A B) stale p j =
        (wake_padded N cs sn A stale p j + wake_padded N cs sn B stale p j)%F)).
Proof.
  exact (fun K N cs sn L =>
    conj (kernel_even_odd K N cs sn L)
   (conj (kernel_mirror K N cs sn L)
   (conj (one_sided_flips K N cs sn L)
   (conj (one_sided_iff K N cs sn L)
   (conj (real_impedance_symmetric K N cs sn L)
   (conj (kernel_additive K N cs sn)
         (fun N2 => conj (wake_point_source K N cs sn L N2)
                   (conj (wake_mirror K N cs sn L N2) (wake_additive K N cs sn L N2))))))))).
Qed.
Print Assumptions C16_causality_mirror_partial.

(** the hypotheses of 5b are satisfiable: the exact 4-point twiddle table *)
Example C16_causality_example : twiddle_laws QcF cs4 sn4.
Proof. exact (proj1 laws_Qc4). Qed.

(** 6. the impedance functions carry no state from one call to the next (strengthening after seeded change
    C16-H: a result cached in function-local statics under an incomplete key).  Everything above is about
    Gallina FUNCTIONS of the arguments, i.e. it silently assumes that the C++ functions are.  Generated
    fact ([imp_decls] of Gen/Gen_Imp.v, written by translate/imp2coq.py from EVERY function definition of
    the six classes and the factory): every variable these bodies declare or refer to either ends with the
    call (parameter, automatic local) or is a call-independent constant; none is [Persistent] (static /
    thread_local local, non-const variable defined outside the function, non-const static data member), and
    the table covers the functions the theorems of sections 4-5 are about.  Hence the process that serves
    a sequence of requests is the stateless procedure: the answer to a request after ANY history in the
    same process is the answer a fresh process gives, and histories concatenate.  (The correspondence
    check runs such sequences on the implementation and compares every answer bit for bit with that of a
    fresh process.)  Not covered: functions called from these bodies that live outside src/Z (std, boost,
    Display, Ruler). *)
Theorem imp_functions_pure :
  (forall f v l, In f imp_decls -> In (v, l) (ImpPure.fn_vars f) -> l <> ImpPure.Persistent) /\
  (forall name, In name ImpPure.imp_required -> exists f, In f imp_decls /\ ImpPure.fn_name f = name) /\
  (forall (K : Fld) (E : Leaves K) (hist : list (ImpPureP.request K)) (r : ImpPureP.request K),
     last (ImpPureP.serve_requests E (hist ++ [r])) None = ImpPureP.answer E r /\
     ImpPureP.serve_requests E (hist ++ [r]) = ImpPureP.serve_requests E hist ++ ImpPureP.serve_requests E [r]).
Proof. exact ImpPureP.imp_functions_pure_thm. Qed.
Print Assumptions imp_functions_pure.

(** the checker is not vacuous: it rejects the table of a function with a cache in static locals
    ([cached_example] of Proofs/ImpPureP.v: parameter nfreqs, static local last_rv) and an empty table *)
Example imp_functions_pure_example :
  ImpPure.all_pure ImpPureP.cached_example = false /\ ImpPure.covers ImpPure.imp_required [] = false.
Proof. split; reflexivity. Qed.
