(** C16 - impedance models are well-formed, passive, correctly scaled and causal  (partial).
    Only statements closed by [exact]; proofs in Proofs/ImpedanceP.v (shape, sum, factory:
    generic in the sample type and in the value functions) and Proofs/ImpedanceRP.v (analytic
    laws over R).  NOT covered by any theorem (explored numerically on the implementation by
    lib/props/C16.py): the parallel-plates values (Airy functions), the limits of that model,
    and causality of the impulse response.  See DESIGN.md 5/C16. *)
From Coq Require Import List ZArith QArith Qcanon Bool Reals Lra.
From Inovesa Require Import Base.FieldKit Base.Float32 Model.Impedance Model.ImpedanceR
  Proofs.ImpedanceP Proofs.ImpedanceRP Proofs.ImpedanceVP.
Import ListNotations.
Local Open Scope Z_scope.

(** 1. every model returns exactly [n] samples, its samples at the indices the loops write,
    zero above n/2 (parallel plates also at 0; constant model: zero from n/2 on; the factory's
    start vector: zero everywhere) - for every sample type, every value function and every
    n >= 1 (odd, even, small) *)
Theorem C16_impedance_shape :
  forall (C : Type) (c0 : C) (n : Z) (f g : Z -> C) (z : C), 1 <= n ->
    (zlen (push_loop c0 n f) = n /\ (forall i, 0 <= i <= n / 2 -> nthz c0 (push_loop c0 n f) i = f i)
       /\ zero_above C c0 (push_loop c0 n f) (n / 2)) /\
    (zlen (pp_vec c0 n g) = n /\ nthz c0 (pp_vec c0 n g) 0 = c0
       /\ (forall i, 1 <= i <= n / 2 -> nthz c0 (pp_vec c0 n g) i = g i)
       /\ zero_above C c0 (pp_vec c0 n g) (n / 2)) /\
    (zlen (const_vec c0 n z) = n /\ (forall i, 0 <= i < n / 2 -> nthz c0 (const_vec c0 n z) i = z)
       /\ zero_above C c0 (const_vec c0 n z) (n / 2 - 1)) /\
    (zlen (zero_vec c0 n) = n /\ zero_above C c0 (zero_vec c0 n) (-1)).
Proof. exact impedance_shape_all. Qed.
Print Assumptions C16_impedance_shape.

Example C16_shape_example :
  push_loop 0 5 (fun i => i + 10) = [10; 11; 12; 0; 0] /\
  pp_vec 0 5 (fun i => i + 10) = [0; 11; 12; 0; 0] /\
  const_vec 0 5 7 = [7; 7; 0; 0; 0] /\
  push_loop 0 2 (fun i => i + 10) = [10; 11] /\ const_vec 0 2 7 = [7; 0].
Proof. vm_compute. repeat split. Qed.

(** 2a. operator+= is the pointwise sum over the left operand's length; a shorter right
    operand contributes nothing beyond its end (the tree after fix C16/short-file-sum) *)
Theorem C16_sum_is_pointwise :
  forall (C : Type) (c0 : C) (cadd : C -> C -> C) (l r : list C),
    zlen (add_into c0 cadd l r) = zlen l /\
    forall i, 0 <= i < zlen l ->
      nthz c0 (add_into c0 cadd l r) i =
      if i <? zlen r then cadd (nthz c0 l i) (nthz c0 r i) else nthz c0 l i.
Proof. exact sum_is_pointwise. Qed.
Print Assumptions C16_sum_is_pointwise.

(** 2b. the factory returns the pointwise sum (in the order csr, wall, collimator, file,
    starting from zero) of exactly the contributions whose switches are on, and nothing
    when none is on - whatever the sample functions are *)
Theorem C16_factory_selection :
  forall (C : Type) (c0 : C) (cadd : C -> C -> C) (pp fs rw : Z -> C) (coll : C)
         (n : Z) (gap : Qc) (use_csr : bool) (s xi rc : Qc) (file : option (list C)),
    0 <= n ->
    make_impedance c0 cadd pp fs rw coll n gap use_csr s xi rc file =
    if any_selected gap use_csr s xi rc file
    then Some (pointwise_sum c0 cadd n (parts c0 pp fs rw coll n gap use_csr s xi rc file))
    else None.
Proof. exact factory_sum. Qed.
Print Assumptions C16_factory_selection.

Example C16_factory_example :
  (* gap -1/2 (free space), csr on, wall on (s=1, xi=0), collimator radius 1/8 < 1/4, no file *)
  make_impedance 0 Z.add (fun i => 1000 + i) (fun i => 100 + i) (fun i => 10 * i) 7 6
    (Q2Qc (-1 # 2)) true 1%Qc 0%Qc (Q2Qc (1 # 8)) None = Some [107; 118; 129; 133; 0; 0] /\
  make_impedance 0 Z.add (fun i => 1000 + i) (fun i => 100 + i) (fun i => 10 * i) 7 6
    0%Qc true 1%Qc 0%Qc (Q2Qc (1 # 8)) None = None /\
  make_impedance 0 Z.add (fun i => 1000 + i) (fun i => 100 + i) (fun i => 10 * i) 7 6
    0%Qc true 1%Qc 0%Qc (Q2Qc (1 # 8)) (Some [1; 2; 3]) = Some [1; 2; 3; 0; 0; 0].
Proof. vm_compute. repeat split. Qed.

(** 2c. a property of samples that zero has and the addition keeps (passivity: Re >= 0) is
    inherited by the sum of contributions and by the factory's result *)
Theorem C16_sum_passive :
  forall (C : Type) (c0 : C) (cadd : C -> C -> C) (P : C -> Prop),
    P c0 -> (forall a b, P a -> P b -> P (cadd a b)) ->
    forall n ps, Forall (Forall P) ps -> Forall P (pointwise_sum c0 cadd n ps).
Proof. exact pointwise_sum_P. Qed.
Print Assumptions C16_sum_passive.

Theorem C16_factory_passive :
  forall (pp : Z -> creal) (dfs Z1 drw Z0 ro ri : R) n gap use_csr s xi rc file v,
    0 <= n -> (forall i, 1 <= i <= n / 2 -> passive (pp i)) ->
    (0 <= Z1)%R -> (0 < Z0)%R -> (0 < ri)%R -> (ri < ro)%R ->
    (forall d, file = Some d -> Forall passive d) ->
    factory_R pp dfs Z1 drw Z0 ro ri n gap use_csr s xi rc file = Some v -> Forall passive v.
Proof. exact factory_R_passive. Qed.
Print Assumptions C16_factory_passive.

(** 2d. the tie's relational validators (extracted, run on the implementation's vectors):
    every accepted vector has the shape of clause 1 and its samples satisfy the rational
    inequalities [cube_ok] / [sqrt_ok] / the certified interval - so the statements about
    accepted vectors are statements about what the implementation returned in the run *)
Theorem C16_accepted_vectors :
  (forall tol cre cim delta n v, accept_fs tol cre cim delta n v = true ->
     zlen v = n /\ zero_above cq cq0 v (n / 2) /\
     forall i, 0 <= i <= n / 2 -> i < n ->
       cube_ok tol cre (Qcz i * delta) (fst (nthz cq0 v i)) = true /\
       cube_ok tol cim (Qcz i * delta) (snd (nthz cq0 v i)) = true) /\
  (forall tol k delta n v, accept_rw tol k delta n v = true ->
     zlen v = n /\ zero_above cq cq0 v (n / 2) /\
     forall i, 0 <= i <= n / 2 -> i < n ->
       sqrt_ok tol k (Qcz i * delta) (fst (nthz cq0 v i)) = true /\
       snd (nthz cq0 v i) = (- fst (nthz cq0 v i))%Qc) /\
  (forall lo hi n v, accept_const lo hi n v = true ->
     zlen v = n /\ zero_above cq cq0 v (n / 2 - 1) /\
     forall i, 0 <= i < n / 2 -> i < n ->
       (lo <= fst (nthz cq0 v i) <= hi)%Qc /\ snd (nthz cq0 v i) = 0%Qc) /\
  (forall tol c x v, cube_ok tol c x v = true ->
     (qcabs (v * v * v - c * c * c * x) <= tol * qcabs (c * c * c * x))%Qc /\ (0 <= v * c \/ v = 0)%Qc) /\
  (forall tol k x v, sqrt_ok tol k x v = true ->
     (qcabs (v * v - k * x) <= tol * qcabs (k * x))%Qc /\ (0 <= v)%Qc).
Proof.
  exact (conj accept_fs_sound (conj accept_rw_sound (conj accept_const_sound (conj cube_ok_spec sqrt_ok_spec)))).
Qed.
Print Assumptions C16_accepted_vectors.

Example C16_accept_example :
  accept_fs (Q2Qc (1 # 1000)) 1%Qc 1%Qc (Q2Qc 8) 3 [(0, 0); (Q2Qc 2, Q2Qc 2); (0, 0)]%Qc = true /\
  accept_rw (Q2Qc (1 # 1000)) (Q2Qc 4) 1%Qc 3 [(0, 0); (Q2Qc 2, Q2Qc (-2)); (0, 0)]%Qc = true /\
  accept_const 1%Qc (Q2Qc 2) 4 [(1, 0); (Q2Qc 2, 0); (0, 0); (0, 0)]%Qc = true /\
  accept_fs (Q2Qc (1 # 1000)) 1%Qc 1%Qc (Q2Qc 8) 3 [(0, 0); (Q2Qc 2, Q2Qc 2); (1, 0)]%Qc = false.
Proof. vm_compute. repeat split. Qed.

Local Open Scope R_scope.

(** 3a. free space: the sample is (306.3, 176.9) * x^(1/3): each component is the unique
    non-negative real whose cube is c^3 x; Re >= 0; zero at zero; Z(8x) = 2 Z(x) *)
Theorem C16_freespace_law :
  (forall x, 0 <= x -> fst (fs_sample x) ^ 3 = fs_re ^ 3 * x /\ snd (fs_sample x) ^ 3 = fs_im ^ 3 * x) /\
  (forall x v, 0 <= v -> v ^ 3 = x -> v = cbrt x) /\
  (forall x, passive (fs_sample x)) /\ fs_sample 0 = cr0 /\
  (forall x, 0 <= x -> fs_sample (8 * x) = cr_scale 2 (fs_sample x)).
Proof. exact (conj fs_cube (conj cbrt_unique (conj fs_passive (conj fs_zero fs_scale)))). Qed.
Print Assumptions C16_freespace_law.

(** the prefactor's argument is pi/6 to three decimals: arg - pi/6 in [1.4e-4, 1.5e-4] *)
Theorem C16_freespace_prefactor_arg :
  14 / 100000 <= atan (fs_im / fs_re) - PI / 6 <= 15 / 100000.
Proof. exact fs_arg. Qed.
Print Assumptions C16_freespace_prefactor_arg.

(** 3b. resistive wall: Z1 (1 - i) sqrt x with Z1 >= 0: Re^2 = Z1^2 x, Im = -Re, Re >= 0,
    Z(4x) = 2 Z(x) *)
Theorem C16_wall_law :
  (forall Z0 mu_r f0 s c L b, 0 <= L -> 0 < b -> 0 <= rw_Z1 Z0 mu_r f0 s c L b) /\
  (forall Z1 x, 0 <= x -> fst (rw_sample Z1 x) ^ 2 = Z1 ^ 2 * x /\ snd (rw_sample Z1 x) = - fst (rw_sample Z1 x)) /\
  (forall Z1 x, 0 <= Z1 -> passive (rw_sample Z1 x)) /\
  (forall Z1 x, 0 <= x -> rw_sample Z1 (4 * x) = cr_scale 2 (rw_sample Z1 x)).
Proof. exact (conj rw_Z1_nonneg (conj rw_square (conj rw_passive rw_scale))). Qed.
Print Assumptions C16_wall_law.

(** 3c. collimator: a positive constant resistance (Z0/pi) ln(r_o/r_i), no reactance *)
Theorem C16_collimator_law :
  forall Z0 ro ri, 0 < Z0 -> 0 < ri -> ri < ro ->
    0 < fst (coll_sample Z0 ro ri) /\ snd (coll_sample Z0 ro ri) = 0.
Proof. exact coll_positive. Qed.
Print Assumptions C16_collimator_law.

(** `interval`-certified values of ln at the radius ratios the collimator oracle uses *)
Theorem C16_collimator_ln_bounds :
  693147180 / 1000000000 <= ln (2 / 1) <= 693147181 / 1000000000 /\
  405465108 / 1000000000 <= ln (3 / 2) <= 405465109 / 1000000000 /\
  1386294361 / 1000000000 <= ln (4 / 1) <= 1386294362 / 1000000000 /\
  2302585092 / 1000000000 <= ln (10 / 1) <= 2302585093 / 1000000000 /\
  223143551 / 1000000000 <= ln (5 / 4) <= 223143552 / 1000000000.
Proof. exact ln_bounds. Qed.
Print Assumptions C16_collimator_ln_bounds.

Example C16_laws_example :
  0 <= 2 /\ 0 < 376 /\ 0 < 1 / 250 /\ 1 / 250 < 2 / 125 /\ fs_sample (8 * 2) = cr_scale 2 (fs_sample 2).
Proof. repeat split; try lra. apply fs_scale. lra. Qed.

(** 3d. what the correspondence's relational validators accept: a non-negative sample whose
    cube (square) is within t*x of x lies between the exact roots of (1-t)x and (1+t)x *)
Theorem C16_validator_meaning :
  (forall t x v, 0 <= t < 1 -> 0 < x -> 0 <= v -> Rabs (v ^ 3 - x) <= t * x ->
     cbrt ((1 - t) * x) <= v <= cbrt ((1 + t) * x)) /\
  (forall t x v, 0 <= t < 1 -> 0 < x -> 0 <= v -> Rabs (v ^ 2 - x) <= t * x ->
     sqrt ((1 - t) * x) <= v <= sqrt ((1 + t) * x)).
Proof. exact (conj cube_rel_sound sqrt_rel_sound). Qed.
Print Assumptions C16_validator_meaning.
