(** C03 - the bunch centroid rotates by 2*pi/steps per step and the orbit closes.
    Only statements closed by [exact]; proofs in Proofs/RFP.v, Proofs/RFGridP.v, Proofs/RFRealP.v. *)
From Coq Require Import List ZArith QArith Qcanon Bool.
From Inovesa Require Import Base.FieldKit Model.RF Proofs.RFP.
Import ListNotations.
Local Open Scope Z_scope.

(** the expression in Ruler's constructor is -min/delta: the index of coordinate 0 *)
Theorem C03_zerobin_correct :
  forall (K : Fld) (steps : Z) (mn mx : K),
    mn <> mx -> fz (K:=K) (steps - 1) <> f0 ->
    ruler_zerobin steps mn mx = (- mn / ruler_delta steps mn mx)%F /\
    (mn + ruler_zerobin steps mn mx * ruler_delta steps mn mx)%F = f0.
Proof. exact zerobin_correct. Qed.
Print Assumptions C03_zerobin_correct.

Example C03_zerobin_example :
  ruler_zerobin (K:=QcF) 32 (Q2Qc (-33 # 8)) (Q2Qc (29 # 8)) = Q2Qc (33 # 2).
Proof. vm_compute. reflexivity. Qed.

(** the linear RF kick: o_x = ampl*t*(xc - x) + ampl*t*phaseoffs/(bl2phase*delta0) *)
Theorem C03_rf_offsets_linear :
  forall (K : Fld) (t xc phaseoffs bl2phase delta0 ampl : K) (x : Z),
    bl2phase <> f0 -> delta0 <> f0 ->
    rf_lin t xc phaseoffs bl2phase delta0 ampl x =
    (ampl * (t * (xc - fz x)) + ampl * t * (phaseoffs / (bl2phase * delta0)))%F.
Proof. exact rf_offsets_linear. Qed.
Print Assumptions C03_rf_offsets_linear.

(** the centroid map of one step is the matrix M = [[1 - a t, -a], [t, 1]] *)
Theorem C03_cstep_matrix :
  forall (K : Fld) (t a : K) (c : K * K), cstep t a c = mat_apply (Mstep t a) c.
Proof. exact cstep_matrix. Qed.
Print Assumptions C03_cstep_matrix.

Theorem C03_Mstep_det : forall (K : Fld) (t a : K), mat_det (Mstep t a) = f1.
Proof. exact Mstep_det. Qed.
Print Assumptions C03_Mstep_det.

(** t u^2 + a t u v + a v^2 is conserved along the whole orbit *)
Theorem C03_orbit_invariant :
  forall (K : Fld) (t a : K) (c : K * K) (k : nat), inv_form t a (orbit t a c k) = inv_form t a c.
Proof. exact orbit_invariant. Qed.
Print Assumptions C03_orbit_invariant.
