(** C03 - the bunch centroid rotates by 2*pi/steps per step and the orbit closes.
    Only statements closed by [exact]; proofs in Proofs/RFP.v (algebra over every field),
    Proofs/RFGridP.v (executable grid model of KickMap), Proofs/RFRealP.v (real numbers),
    Proofs/RFExampleP.v (a concrete instance of the hypotheses).  DESIGN.md 5/C03. *)
From Coq Require Import List ZArith QArith Qcanon Bool Reals Lra.
From Inovesa Require Import Base.FieldKit Base.Sums Base.Float32 Base.RInst Gen.Gen_Coeffs
  Model.Kick Model.RF Proofs.WeightsP Proofs.KickP Proofs.KickGridP Proofs.RFP Proofs.RFGridP
  Proofs.RFRealP Proofs.RFExampleP.
Import ListNotations.
Local Open Scope Z_scope.

(** *** 1. zero bin of a shifted axis: Ruler's expression is -min/delta, the index of coordinate 0 *)
Theorem C03_zerobin_correct :
  forall (K : Fld) (steps : Z) (mn mx : K),
    mn <> mx -> fz (K:=K) (steps - 1) <> f0 ->
    ruler_zerobin steps mn mx = (- mn / ruler_delta steps mn mx)%F /\
    (mn + ruler_zerobin steps mn mx * ruler_delta steps mn mx)%F = f0.
Proof. exact zerobin_correct. Qed.
Print Assumptions C03_zerobin_correct.

Example C03_zerobin_example :
  this (ruler_zerobin (K:=QcF) 32 (Q2Qc (-33 # 8)) (Q2Qc (29 # 8))) = (33 # 2)%Q.
Proof. vm_compute. reflexivity. Qed.

(** *** 2. the offset fields.  Linear RF kick: ampl*t*(xc - x) + ampl*t*phaseoffs/(bl2phase*delta0);
    the constant vanishes for the static map *)
Theorem C03_rf_offsets_linear :
  forall (K : Fld) (t xc phaseoffs bl2phase delta0 ampl : K) (x : Z),
    bl2phase <> f0 -> delta0 <> f0 ->
    rf_lin t xc phaseoffs bl2phase delta0 ampl x =
    (ampl * (t * (xc - fz x)) + ampl * t * (phaseoffs / (bl2phase * delta0)))%F /\
    rf_lin t xc f0 bl2phase delta0 f1 x = (t * (xc - fz x))%F.
Proof. intros; split; [apply rf_offsets_linear | apply rf_offsets_static]; assumption. Qed.
Print Assumptions C03_rf_offsets_linear.

(** drift for alpha1 = alpha2 = 0 on an energy axis with the position axis' spacing: a*(y - yc) *)
Theorem C03_drift_offsets_linear :
  forall (K : Fld) (a scale1 e0 : K) (steps : Z) (mn mx delta0 : K) (y : Z),
    mn <> mx -> fz (K:=K) (steps - 1) <> f0 -> e0 <> f0 ->
    delta0 = ruler_delta steps mn mx ->
    drift_off [a; f0; f0] scale1 e0 delta0 (ruler_at mn (ruler_delta steps mn mx) y) =
    (a * (fz y - ruler_zerobin steps mn mx))%F.
Proof. exact drift_offsets_linear. Qed.
Print Assumptions C03_drift_offsets_linear.

(** with alpha1, alpha2: the offsets as the constructor computes them (used for conservation
    only; the rotation theorems below are for alpha1 = alpha2 = 0 - DESIGN "not carried") *)
Theorem C03_drift_offsets_general :
  forall (K : Fld) (a a1 a2 scale1 e0 delta0 p : K),
    e0 <> f0 -> delta0 <> f0 ->
    drift_off [a; a1; a2] scale1 e0 delta0 p =
    ((a * p + a1 * p * (p * scale1 / e0) + a2 * p * ((p * scale1 / e0) * (p * scale1 / e0))) / delta0)%F.
Proof. exact drift_offsets_general. Qed.
Print Assumptions C03_drift_offsets_general.

Example C03_offsets_example :
  map (fun x => this (rf_lin (K:=QcF) (Q2Qc (1 # 4)) (Q2Qc (7 # 2)) 0%Qc 1%Qc 1%Qc 1%Qc x)) [0; 3; 4; 7] =
  [7 # 8; 1 # 8; -1 # 8; -7 # 8]%Q.
Proof. vm_compute. reflexivity. Qed.

(** *** 3. first-moment transport of one kick row (it >= 2): the first moment moves by exactly
    the displacement the table row encodes *)
Theorem C03_first_moment_transport :
  forall n it o (r : Z -> Qc),
    valid_it it -> 2 <= it -> 0 < n < 2 ^ 30 -> row_ok n it o r ->
    sumQ 0 (Z.to_nat n) (fun y => (qz y * row_out n it (sm_entry n it o) r y)%Qc) =
    sumQ 0 (Z.to_nat n) (fun u => ((qz u - eff_off n o) * r u)%Qc).
Proof. exact sm_row_first_moment. Qed.
Print Assumptions C03_first_moment_transport.

(** the encoded displacement is the offset itself whenever the float sum n/2 + o is exact *)
Theorem C03_eff_off_exact :
  forall n o, rnd32 (Qcz (n / 2) + o)%Qc = (Qcz (n / 2) + o)%Qc -> eff_off n o = o.
Proof. exact eff_off_exact. Qed.
Print Assumptions C03_eff_off_exact.

(** lifted to the grid, any bunch b of an nb-bunch grid: RF kick (U,V) -> (U, V + t U) ... *)
Theorem C03_rf_kick_moments :
  forall n nb it, valid_it it -> 2 <= it -> 0 < n < 2 ^ 30 -> 0 < nb ->
  forall (xc yc : Qc) (offs D : Z -> Qc) (t : Qc) b,
    0 <= b < nb -> rows_ok_y n nb it offs D b ->
    (forall x, 0 <= x < n -> eff_off n (offs (Z.min b (nb - 1) * n + x)) = (t * (xc - qz x))%Qc) ->
    let D' := apply_y n nb it (updateSM n it offs) D in
    M0 n D' b = M0 n D b /\ MU n xc D' b = MU n xc D b /\
    MV n yc D' b = (MV n yc D b + t * MU n xc D b)%Qc.
Proof. exact rf_kick_moments. Qed.
Print Assumptions C03_rf_kick_moments.

(** ... and the drift (U,V) -> (U - a V, V) *)
Theorem C03_drift_kick_moments :
  forall n nb it, valid_it it -> 2 <= it -> 0 < n < 2 ^ 30 -> 0 < nb ->
  forall (xc yc : Qc) (offs D : Z -> Qc) (a : Qc) b,
    0 <= b < nb -> cols_ok_x n it offs D b ->
    (forall y, 0 <= y < n -> eff_off n (offs y) = (a * (qz y - yc))%Qc) ->
    let D' := apply_x n nb it (updateSM n it offs) D in
    M0 n D' b = M0 n D b /\ MU n xc D' b = (MU n xc D b - a * MV n yc D b)%Qc /\
    MV n yc D' b = MV n yc D b.
Proof. exact drift_kick_moments. Qed.
Print Assumptions C03_drift_kick_moments.

(** *** 4. one step maps the centre of charge by M = [[1 - a t, -a], [t, 1]]: for every
    distribution shape (signed data with non-zero charge), grid size, zero bins (xc, yc) and bunch *)
Theorem C03_centroid_step :
  forall n nb it, valid_it it -> 2 <= it -> 0 < n < 2 ^ 30 -> 0 < nb ->
  forall (xc yc t a : Qc) (orf odr : Z -> Qc),
    (forall b x, 0 <= b < nb -> 0 <= x < n ->
        eff_off n (orf (Z.min b (nb - 1) * n + x)) = (t * (xc - qz x))%Qc) ->
    (forall y, 0 <= y < n -> eff_off n (odr y) = (a * (qz y - yc))%Qc) ->
  forall D b,
    0 <= b < nb -> step_ok n nb it orf odr D b -> M0 n D b <> 0%Qc ->
    centre_of_charge n xc yc (rf_drift_step n nb it orf odr D) b =
    mat_apply (K:=QcF) (Mstep (K:=QcF) t a) (centre_of_charge n xc yc D b).
Proof. exact centroid_step. Qed.
Print Assumptions C03_centroid_step.

Theorem C03_cstep_matrix :
  forall (K : Fld) (t a : K) (c : K * K),
    cstep t a c = mat_apply (Mstep t a) c /\ mat_det (Mstep t a) = f1 /\
    mat_tr (Mstep t a) = (two - a * t)%F.
Proof. intros; repeat split; [apply cstep_matrix | apply Mstep_det | apply Mstep_trace]. Qed.
Print Assumptions C03_cstep_matrix.

(** non-vacuity: a concrete 8 x 8 grid meeting every hypothesis of C03_centroid_step *)
Example C03_centroid_step_example :
  centre_of_charge 8 ex_c ex_c (rf_drift_step 8 1 2 ex_orf ex_odr ex_D) 0 =
  mat_apply (K:=QcF) (Mstep (K:=QcF) ex_t ex_a) (centre_of_charge 8 ex_c ex_c ex_D 0).
Proof. exact ex_centroid_step. Qed.
Example C03_step_ok_example : step_ok 8 1 2 ex_orf ex_odr ex_D 0.
Proof. exact ex_step_ok. Qed.

(** *** 5. the orbit: centroid_k = M^k centroid_0 as long as the distribution stays inside ... *)
Theorem C03_centroid_orbit :
  forall n nb it, valid_it it -> 2 <= it -> 0 < n < 2 ^ 30 -> 0 < nb ->
  forall (xc yc t a : Qc) (orf odr : Z -> Qc),
    (forall b x, 0 <= b < nb -> 0 <= x < n ->
        eff_off n (orf (Z.min b (nb - 1) * n + x)) = (t * (xc - qz x))%Qc) ->
    (forall y, 0 <= y < n -> eff_off n (odr y) = (a * (qz y - yc))%Qc) ->
  forall D b (k : nat),
    0 <= b < nb -> (forall j, (j < k)%nat -> step_ok n nb it orf odr (iter_step n nb it orf odr j D) b) ->
    M0 n D b <> 0%Qc ->
    centre_of_charge n xc yc (iter_step n nb it orf odr k D) b =
    mat_orbit (K:=QcF) (Mstep (K:=QcF) t a) (centre_of_charge n xc yc D b) k.
Proof. exact centroid_orbit. Qed.
Print Assumptions C03_centroid_orbit.

(** ... stays on one conic for all time: t u^2 + a t u v + a v^2 is conserved (det M = 1) *)
Theorem C03_orbit_invariant :
  forall (K : Fld) (t a : K) (c : K * K) (k : nat),
    inv_form t a (orbit t a c k) = inv_form t a c /\ orbit t a c k = mat_orbit (Mstep t a) c k.
Proof. intros; split; [apply orbit_invariant | apply orbit_matrix]. Qed.
Print Assumptions C03_orbit_invariant.

(** the integer evaluation of the orbit run by the extracted driver is the orbit, in every field *)
Theorem C03_zorbit_correct :
  forall (K : Fld) (E T A U V s : Z) (k : nat),
    0 <= E -> 0 <= s ->
    orbit (fz T / p2 K E)%F (fz A / p2 K E)%F ((fz U / p2 K s)%F, (fz V / p2 K s)%F) k =
    ((fz (fst (zorbit E T A (U, V) k)) / p2 K (s + 2 * E * Z.of_nat k))%F,
     (fz (snd (zorbit E T A (U, V) k)) / p2 K (s + 2 * E * Z.of_nat k))%F).
Proof. exact zorbit_correct. Qed.
Print Assumptions C03_zorbit_correct.

Example C03_orbit_example :
  let c := orbit (K:=QcF) (Q2Qc (1 # 4)) (Q2Qc (1 # 4)) (Q2Qc 2, 0%Qc) 2 in
  (this (fst c), this (snd c)) = (209 # 128, 31 # 32)%Q.
Proof. vm_compute. reflexivity. Qed.

(** *** 6. phase advance per step (reals): cos mu = 1 - a tan(a)/2 = tr M / 2 and
    a <= mu <= a + a^3/4 for a in [1/1024, 1/2] (13 .. 6400 steps per period) *)
Local Open Scope R_scope.
Theorem C03_phase_advance_bounds :
  forall a : R, 1/1024 <= a <= 1/2 ->
    let c := 1 - a * tan a / 2 in
    let mu := acos c in
    cos mu = c /\ mat_tr (K:=RF) (Mstep (K:=RF) (tan a) a) = 2 * cos mu /\
    cos (a + a^3/4) <= c <= cos a /\ a <= mu <= a + a^3/4.
Proof. exact phase_advance_bounds. Qed.
Print Assumptions C03_phase_advance_bounds.

(** after one period (N a = 2 pi) the phase error is at most (pi/2) a^2: first-order splitting error *)
Theorem C03_period_phase_error :
  forall a N : R, 1/1024 <= a <= 1/2 -> 0 <= N -> N * a = 2 * PI ->
    let mu := acos (1 - a * tan a / 2) in
    2 * PI <= N * mu <= 2 * PI + PI / 2 * a^2.
Proof. exact period_phase_error. Qed.
Print Assumptions C03_period_phase_error.

(** sinusoidal RF, synchronous phase 0: the kick differs from the linear kick of slope kappa by at
    most |kappa| |phi|^3/6 for |phi| <= 1.  Partial: V0 <> 0 (synchronous phase <> 0) adds a term
    V0 (1 - cos phi) that is not bounded here; the correspondence covers V0 <> 0 for the offsets. *)
Theorem C03_sin_rf_linearisation_partial :
  forall revpart ampl vrf delta1 scale1 phi : R,
    delta1 <> 0 -> scale1 <> 0 -> Rabs phi <= 1 ->
    let kappa := revpart * ampl * vrf / delta1 / scale1 in
    Rabs (rf_sin (K:=RF) revpart ampl vrf 0 delta1 scale1 (sin phi) - (- kappa * phi))
    <= Rabs kappa * (Rabs phi ^ 3 / 6).
Proof. exact sin_rf_linearisation. Qed.
Print Assumptions C03_sin_rf_linearisation_partial.

Example C03_phase_example : 1/1024 <= 2 * 314159 / 100000 / 60 <= 1/2.
Proof. split; lra. Qed.

(** *** 7. (family scaling) what main() hands to the RF maps and the drift map, over the definitions GENERATED from
    main() on every run (Gen/Gen_Scaling.v, translate/scaling2coq.py: symbolic execution of main()'s set-up code;
    [gen_angle] is the expression that reaches the `angle` parameter of the linear RFKickMap / DynamicRFKickMap
    constructors, [gen_slip] the three expressions of DriftMap's `slip` argument, inlined down to the options
    [L O_<getter>] and constants).  For every field, every interpretation [O] of comparisons/sqrt/..., every option
    values [L]; a hypothesis such as [o_lt O 0 (L O_getStepsPerTrev) = false] says which branch of main() is taken. *)
From Inovesa Require Model.ScalingOps Gen.Gen_Scaling Proofs.ScalingAngleP Gen.Gen_Ruler Proofs.RulerGenP.
Module ScalingFamily.   (* imports and scopes stay local to this block *)
Import ScalingOps Gen_Scaling ScalingAngleP Gen_Ruler RulerGenP.
Local Open Scope F_scope.

(** angle = 2 pi / StepsPerTs (StepsPerRevolution not positive, StepsPerTs >= 1): the statement of the property in terms
    of the configuration; after StepsPerTs steps the phase has advanced by 2 pi (the orbit closes: section 6) *)
Theorem C03_main_angle_is_two_pi_over_StepsPerTs :
  forall (K : Fld) (O : Ops K) (L : leaf -> K) (B : bleaf -> bool),
    o_lt O 0 (L O_getStepsPerTrev) = false -> o_lt O (L O_getStepsPerTsync) 1 = false ->
    L O_getStepsPerTsync <> 0 ->
    gen_angle K O L B = L C_two_pi / L O_getStepsPerTsync /\
    gen_angle K O L B * L O_getStepsPerTsync = L C_two_pi.
Proof. exact angle_is_two_pi_over_StepsPerTs. Qed.
Print Assumptions C03_main_angle_is_two_pi_over_StepsPerTs.

(** with StepsPerRevolution > 0 (and a given synchrotron frequency): StepsPerRevolution steps per turn times f_rev/f_s
    turns per synchrotron period *)
Theorem C03_main_angle_from_StepsPerRevolution :
  forall (K : Fld) (O : Ops K) (L : leaf -> K) (B : bleaf -> bool),
    o_lt O 0 (L O_getStepsPerTrev) = true -> o_is0 O (L O_getSyncFreq) = false ->
    L O_getStepsPerTrev <> 0 -> L O_getRevolutionFrequency <> 0 -> L O_getSyncFreq <> 0 ->
    gen_angle K O L B * (L O_getStepsPerTrev * L O_getRevolutionFrequency / L O_getSyncFreq) = L C_two_pi.
Proof. exact angle_from_StepsPerRevolution. Qed.
Print Assumptions C03_main_angle_from_StepsPerRevolution.

(** the drift map receives the same angle as its first slip factor, and for alpha1 = alpha2 = 0 the slip vector is
    [angle; 0; 0]: the parameters of [drift_off] in C03_drift_offsets_linear (section 2) are the generated ones *)
Theorem C03_main_slip :
  forall (K : Fld) (O : Ops K) (L : leaf -> K) (B : bleaf -> bool),
    nth 0 (gen_slip K O L B) 0 = gen_angle K O L B /\ length (gen_slip K O L B) = 3%nat /\
    (L O_getAlpha1 = 0 -> L O_getAlpha2 = 0 -> gen_slip K O L B = [gen_angle K O L B; 0; 0]) /\
    (o_is0 O (L O_getSyncFreq) = true -> L O_getAlpha0 <> 0 ->
     gen_slip K O L B = [gen_angle K O L B; L O_getAlpha1 / L O_getAlpha0 * gen_angle K O L B;
                         L O_getAlpha2 / L O_getAlpha0 * gen_angle K O L B]).
Proof. exact main_slip. Qed.
Print Assumptions C03_main_slip.

Theorem C03_main_drift_is_linear :
  forall (K : Fld) (O : Ops K) (L : leaf -> K) (B : bleaf -> bool) (scale1 e0 : K) (n : Z) (mn mx : K) (y : Z),
    L O_getAlpha1 = 0 -> L O_getAlpha2 = 0 -> mn <> mx -> fz (K:=K) (n - 1) <> 0 -> e0 <> 0 ->
    drift_off (gen_slip K O L B) scale1 e0 (ruler_delta n mn mx) (ruler_at mn (ruler_delta n mn mx) y) =
    gen_angle K O L B * (fz y - ruler_zerobin n mn mx).
Proof. exact main_drift_is_linear. Qed.
Print Assumptions C03_main_drift_is_linear.

(** the Ruler of Model/RF.v (sections 1, 2) is the constructor of Ruler<meshaxis_t> as read from inc/PS/Ruler.hpp on every
    run (Gen/Gen_Ruler.v, translate/ruler2coq.py: mem-initialisers of _delta and _zerobin, coordinate loop), and the zero-bin
    statement holds for the generated expressions themselves *)
Theorem C03_ruler_is_source :
  forall (K : Fld) (steps : Z) (mn mx delta : K) (i : Z),
    fz (K:=K) (steps - 1) <> 0 ->
    gen_ruler_delta K (fz steps) mn mx = ruler_delta steps mn mx /\
    gen_ruler_zerobin K (fz steps) mn mx = ruler_zerobin steps mn mx /\
    gen_ruler_at K mn delta (fz i) = ruler_at mn delta i.
Proof. exact gen_ruler_is_model. Qed.
Print Assumptions C03_ruler_is_source.

Theorem C03_zerobin_correct_source :
  forall (K : Fld) (steps : Z) (mn mx : K),
    mn <> mx -> fz (K:=K) (steps - 1) <> 0 ->
    gen_ruler_zerobin K (fz steps) mn mx = - mn / gen_ruler_delta K (fz steps) mn mx /\
    gen_ruler_at K mn (gen_ruler_delta K (fz steps) mn mx) (gen_ruler_zerobin K (fz steps) mn mx) = 0.
Proof. exact gen_zerobin_correct. Qed.
Print Assumptions C03_zerobin_correct_source.

(** non-vacuity over Qc: StepsPerTs = 50, two_pi := 44/7 -> angle = 22/175; every other option 1 *)
Example C03_main_angle_example :
  let L := fun l => match l with O_getStepsPerTsync => Q2Qc 50 | C_two_pi => Q2Qc (44 # 7) | O_getStepsPerTrev => 0%Qc | _ => 1%Qc end in
  this (gen_angle QcF QcOps L (fun _ => false)) = (22 # 175)%Q /\
  o_lt QcOps 0%Qc (L O_getStepsPerTrev) = false /\ o_lt QcOps (L O_getStepsPerTsync) 1%Qc = false.
Proof. vm_compute. repeat split; reflexivity. Qed.
End ScalingFamily.

(** *** 8. (family rfgen) the offset fields themselves, over the definitions GENERATED from the C++ on every run
    (Gen/Gen_RFDrift.v, translate/rfdrift2coq.py: symbolic execution of RFKickMap::_calcKick - both branches, the three
    statements `=`, `+=`, `*=` composed in order, loop bounds, the written index n*_xsize+x, the updateSM() call after the
    loops -, of both RFKickMap constructors - member values in declaration order, the `_calcKick(_syncphase)` call with
    the default amplitude read from the header, the Axis handed to KickMap - and of the DriftMap constructor - loop over
    _ysize, the accumulation over slip[i] with std::pow as a product, the division by the spacing of axis 0,
    updateSM()).  Model/RFDriftGen.v only runs the generated pieces ([gen_calcKick], [gen_rfk_lin_ctor],
    [gen_rfk_sin_ctor], [gen_drift_ctor]; [rs_offset] is `_offset`, [rs_built] the offsets from which updateSM() built
    the table apply() interpolates with).  A0, A1 are the axes in->getAxis(0), in->getAxis(1); ftan, fsin, fasin
    interpret std::tan, std::sin, std::asin (the statements hold for every interpretation, in particular the real one).
    With Gen_Scaling (main()'s angle, slip vector, f_RF, E0) and Gen_Ruler (zerobin, delta, at) the chain
    main() -> constructor -> offset field -> centroid map is generated end to end. *)
From Inovesa Require Model.RFDriftKit Gen.Gen_RFDrift Model.RFDriftGen Proofs.RFDriftGenP Proofs.RFDriftGenExampleP.
Module RFGenFamily.
Import String ScalingOps Gen_Scaling Gen_Ruler RFDriftKit Gen_RFDrift RFDriftGen RFDriftGenP RFDriftGenExampleP.
Local Open Scope F_scope.

(** the generated _calcKick is the model's: for EVERY index of `_offset`, both RF models, every phase and amplitude - the
    nb blocks carry [rf_lin] / [rf_sin] of Model/RF.v (sections 1, 2 and C08 speak about these), the rest is untouched,
    and the table is built from the new offsets *)
Theorem C03_calcKick_generated_is_model :
  forall (K : Fld) (ftan fsin fasin : K -> K) (nb nx ny : Z) (A0 A1 : axfacts K) (M : rfk_members K) (phase ampl : K)
         (st : rfd_state K),
    (0 < nx)%Z -> (0 <= nb)%Z ->
    let st' := gen_calcKick ftan fsin fasin nb nx ny A0 A1 M phase ampl st in
    (forall i, rs_offset st' i =
               if in_range i (nx * nb) then rf_offsets nx (model_kick K ftan fsin A0 A1 M phase ampl) i else rs_offset st i) /\
    (forall i, rs_built st' i = rs_offset st' i).
Proof. exact gen_calcKick_is_model. Qed.
Print Assumptions C03_calcKick_generated_is_model.

(** [model_kick] is literally the two fields of Model/RF.v *)
Theorem C03_model_kick_is_rf_model :
  forall (K : Fld) (ftan fsin : K -> K) (A0 A1 : axfacts K) (M : rfk_members K) (phase ampl : K) (x : Z),
    model_kick K ftan fsin A0 A1 M phase ampl x =
    if m_linear M then
      rf_lin (ftan (m_angle M)) (ax_zerobin A0) (m_syncphase M - phase) (m_bl2phase M) (ax_delta A0) ampl x
    else
      rf_sin (m_revolutionpart M) ampl (m_V_RF M) (m_V0 M) (ax_delta A1) (ax_scale A1 U_ElectronVolt)
             (fsin (ax_at A0 x * m_bl2phase M + phase)).
Proof. exact (fun K ftan fsin A0 A1 M phase ampl x => eq_refl). Qed.
Print Assumptions C03_model_kick_is_rf_model.

(** both generated RFKickMap constructors and the generated DriftMap constructor leave the model's offset vectors *)
Theorem C03_rf_ctors_generated_are_model :
  forall (K : Fld) (ftan fsin fasin : K -> K) (nb nx ny : Z) (A0 A1 : axfacts K)
         (c two_pi angle revolutionpart V_RF f_RF V0 : K),
    (0 < nx)%Z -> (0 <= nb)%Z ->
    (let st := gen_rfk_lin_ctor ftan fsin fasin nb nx ny A0 A1 c two_pi angle f_RF in
     (forall i, rs_offset st i =
                if in_range i (nx * nb) then rf_offsets nx (fun x => ftan angle * (ax_zerobin A0 - fz x)) i else 0) /\
     (forall i, rs_built st i = rs_offset st i)) /\
    (let st := gen_rfk_sin_ctor ftan fsin fasin nb nx ny A0 A1 c two_pi revolutionpart V_RF f_RF V0 in
     (forall i, rs_offset st i =
                if in_range i (nx * nb) then
                  rf_offsets nx (fun x => rf_sin revolutionpart 1 V_RF V0 (ax_delta A1) (ax_scale A1 U_ElectronVolt)
                                             (fsin (ax_at A0 x * bl2phase_of K A0 c two_pi f_RF + fasin (V0 / V_RF)))) i
                else 0) /\
     (forall i, rs_built st i = rs_offset st i)).
Proof.
  exact (fun K ftan fsin fasin nb nx ny A0 A1 c two_pi angle revolutionpart V_RF f_RF V0 Hn Hnb =>
           conj (gen_rfk_lin_ctor_is_model K ftan fsin fasin nb nx ny A0 A1 c two_pi angle f_RF Hn Hnb)
                (gen_rfk_sin_ctor_is_model K ftan fsin fasin nb nx ny A0 A1 c two_pi revolutionpart V_RF f_RF V0 Hn Hnb)).
Qed.
Print Assumptions C03_rf_ctors_generated_are_model.

Theorem C03_drift_ctor_generated_is_model :
  forall (K : Fld) (ftan fsin fasin : K -> K) (nb nx ny : Z) (A0 A1 : axfacts K) (slip : list K) (E0 : K),
    let st := gen_drift_ctor ftan fsin fasin nb nx ny A0 A1 slip E0 in
    (forall i, rs_offset st i =
               drift_offsets ny (fun y => drift_off slip (ax_scale A1 U_ElectronVolt) E0 (ax_delta A0) (ax_at A1 y)) i) /\
    (forall i, rs_built st i = rs_offset st i).
Proof. exact gen_drift_ctor_is_model. Qed.
Print Assumptions C03_drift_ctor_generated_is_model.

(** C03_rf_offsets_linear over the generated _calcKick: the entry apply() reads for bunch b, row x *)
Theorem C03_rf_offsets_linear_generated :
  forall (K : Fld) (ftan fsin fasin : K -> K) (nb nx ny : Z) (A0 A1 : axfacts K) (M : rfk_members K) (phase ampl : K)
         (st : rfd_state K) (b x : Z),
    m_linear M = true -> (0 <= b < nb)%Z -> (0 <= x < nx)%Z -> m_bl2phase M <> 0 -> ax_delta A0 <> 0 ->
    let o := rs_offset (gen_calcKick ftan fsin fasin nb nx ny A0 A1 M phase ampl st) (Z.min b (nb - 1) * nx + x)%Z in
    let t := ftan (m_angle M) in
    o = ampl * (t * (ax_zerobin A0 - fz x)) + ampl * t * ((m_syncphase M - phase) / (m_bl2phase M * ax_delta A0)) /\
    (phase = m_syncphase M -> ampl = 1 -> o = t * (ax_zerobin A0 - fz x)).
Proof. exact rf_offsets_linear_generated. Qed.
Print Assumptions C03_rf_offsets_linear_generated.

(** ... and after the generated linear constructor: tan(angle)*(xcenter - x) in the entry of every bunch, in `_offset`
    and in the offsets the table was built from *)
Theorem C03_rf_ctor_linear_generated :
  forall (K : Fld) (ftan fsin fasin : K -> K) (nb nx ny : Z) (A0 A1 : axfacts K) (c two_pi angle f_RF : K) (b x : Z),
    (0 <= b < nb)%Z -> (0 <= x < nx)%Z ->
    let st := gen_rfk_lin_ctor ftan fsin fasin nb nx ny A0 A1 c two_pi angle f_RF in
    rs_built st (Z.min b (nb - 1) * nx + x)%Z = ftan angle * (ax_zerobin A0 - fz x) /\
    rs_offset st (Z.min b (nb - 1) * nx + x)%Z = ftan angle * (ax_zerobin A0 - fz x).
Proof. exact rf_ctor_linear_generated. Qed.
Print Assumptions C03_rf_ctor_linear_generated.

(** C03_drift_offsets_linear over the generated constructor, for axes of any two spacings (the drift divides by the
    spacing of axis 0, the coordinate is of axis 1): a*(delta_1/delta_0)*(y - yc); a*(y - yc) for equal spacings *)
Theorem C03_drift_offsets_linear_generated :
  forall (K : Fld) (ftan fsin fasin : K -> K) (nb nx ny : Z) (A0 A1 : axfacts K) (slip : list K) (a E0 : K) (y : Z),
    (0 <= y < ny)%Z -> E0 <> 0 -> ax_delta A0 <> 0 -> axis_linear K A1 ->
    slip = [a; 0; 0] \/ slip = [a] ->
    let st := gen_drift_ctor ftan fsin fasin nb nx ny A0 A1 slip E0 in
    rs_offset st y = a * (ax_delta A1 / ax_delta A0) * (fz y - ax_zerobin A1) /\
    (ax_delta A1 = ax_delta A0 -> rs_offset st y = a * (fz y - ax_zerobin A1)) /\
    rs_built st y = rs_offset st y.
Proof. exact drift_offsets_linear_generated. Qed.
Print Assumptions C03_drift_offsets_linear_generated.

(** the axes built by the generated Ruler constructor are linear: at(i) = delta*(i - zerobin), delta <> 0 *)
Theorem C03_generated_axis_is_linear :
  forall (K : Fld) (steps : Z) (mn mx : K) (sc : runit -> K),
    mn <> mx -> fz (K:=K) (steps - 1) <> 0 ->
    axis_linear K (gen_axis steps mn mx sc) /\ ax_delta (gen_axis steps mn mx sc) <> 0 /\
    ax_zerobin (gen_axis steps mn mx sc) = ruler_zerobin steps mn mx /\
    ax_delta (gen_axis steps mn mx sc) = ruler_delta steps mn mx.
Proof. exact gen_axis_at. Qed.
Print Assumptions C03_generated_axis_is_linear.

Theorem C03_drift_offsets_general_generated :
  forall (K : Fld) (ftan fsin fasin : K -> K) (nb nx ny : Z) (A0 A1 : axfacts K) (a a1 a2 E0 : K) (y : Z),
    (0 <= y < ny)%Z -> E0 <> 0 -> ax_delta A0 <> 0 ->
    let st := gen_drift_ctor ftan fsin fasin nb nx ny A0 A1 [a; a1; a2] E0 in
    let p := ax_at A1 y in let r := p * ax_scale A1 U_ElectronVolt / E0 in
    rs_offset st y = (a * p + a1 * p * r + a2 * p * (r * r)) / ax_delta A0 /\ rs_built st y = rs_offset st y.
Proof. exact drift_offsets_general_generated. Qed.
Print Assumptions C03_drift_offsets_general_generated.

(** the chain from main(): the static linear RF map built with main()'s angle on the Ruler's axes holds
    tan(angle)*(zerobin_0 - x) for every bunch; the drift map built with main()'s slip vector (alpha1 = alpha2 = 0) holds
    angle*(delta_1/delta_0)*(y - zerobin_1) *)
Theorem C03_main_rf_field_generated :
  forall (K : Fld) (ftan fsin fasin : K -> K) (O : Ops K) (L : leaf -> K) (B : bleaf -> bool)
         (nb n : Z) (mn0 mx0 mn1 mx1 : K) (sc0 sc1 : runit -> K) (c two_pi : K) (b x : Z),
    (0 <= b < nb)%Z -> (0 <= x < n)%Z ->
    let A0 := gen_axis n mn0 mx0 sc0 in let A1 := gen_axis n mn1 mx1 sc1 in
    let st := gen_rfk_lin_ctor ftan fsin fasin nb n n A0 A1 c two_pi (gen_angle K O L B) (gen_linrf_f_RF K O L B) in
    rs_built st (Z.min b (nb - 1) * n + x)%Z =
    ftan (gen_angle K O L B) * (gen_ruler_zerobin K (fz n) mn0 mx0 - fz x).
Proof. exact main_rf_field_generated. Qed.
Print Assumptions C03_main_rf_field_generated.

Theorem C03_main_drift_field_generated :
  forall (K : Fld) (ftan fsin fasin : K -> K) (O : Ops K) (L : leaf -> K) (B : bleaf -> bool)
         (nb n : Z) (mn0 mx0 mn1 mx1 : K) (sc0 sc1 : runit -> K) (y : Z),
    (0 <= y < n)%Z -> L O_getAlpha1 = 0 -> L O_getAlpha2 = 0 ->
    mn0 <> mx0 -> mn1 <> mx1 -> fz (K:=K) (n - 1) <> 0 -> gen_drift_E0 K O L B <> 0 ->
    let A0 := gen_axis n mn0 mx0 sc0 in let A1 := gen_axis n mn1 mx1 sc1 in
    let st := gen_drift_ctor ftan fsin fasin nb n n A0 A1 (gen_slip K O L B) (gen_drift_E0 K O L B) in
    rs_built st y =
    gen_angle K O L B * (gen_ruler_delta K (fz n) mn1 mx1 / gen_ruler_delta K (fz n) mn0 mx0) *
    (fz y - gen_ruler_zerobin K (fz n) mn1 mx1).
Proof. exact main_drift_field_generated. Qed.
Print Assumptions C03_main_drift_field_generated.

(** the centroid map, generated end to end: main()'s angle and slip vector -> the generated constructors on the generated
    Ruler axes -> the offsets updateSM() built the tables from -> on the executable grid model of KickMap, one RF kick +
    drift maps the centre of charge of every bunch by M = [[1 - a t, -a], [t, 1]], t = tan(angle), a = angle*delta_1/delta_0
    (= angle for equal spacings), about the generated zero bins, for every grid, shift, bunch and distribution; the
    hypotheses on [eff_off] say that the float sum n/2 + offset is exact (C03_eff_off_exact) *)
Theorem C03_centroid_step_generated :
  forall (ftan fsin fasin : Qc -> Qc) n nb it, valid_it it -> (2 <= it)%Z -> (1 < n < 2 ^ 30)%Z -> (0 < nb)%Z ->
  forall (O : Ops QcF) (L : leaf -> Qc) (B : bleaf -> bool) (mn0 mx0 mn1 mx1 c two_pi : Qc) (sc0 sc1 : runit -> Qc),
    mn0 <> mx0 -> mn1 <> mx1 -> L O_getAlpha1 = 0%Qc -> L O_getAlpha2 = 0%Qc -> gen_drift_E0 QcF O L B <> 0%Qc ->
    let A0 := gen_axis (K:=QcF) n mn0 mx0 sc0 in
    let A1 := gen_axis (K:=QcF) n mn1 mx1 sc1 in
    let angle := gen_angle QcF O L B in
    let orf := rs_built (gen_rfk_lin_ctor (K:=QcF) ftan fsin fasin nb n n A0 A1 c two_pi angle (gen_linrf_f_RF QcF O L B)) in
    let odr := rs_built (gen_drift_ctor (K:=QcF) ftan fsin fasin nb n n A0 A1 (gen_slip QcF O L B) (gen_drift_E0 QcF O L B)) in
    (forall b x, (0 <= b < nb)%Z -> (0 <= x < n)%Z ->
       eff_off n (orf (Z.min b (nb - 1) * n + x)%Z) = orf (Z.min b (nb - 1) * n + x)%Z) ->
    (forall y, (0 <= y < n)%Z -> eff_off n (odr y) = odr y) ->
    forall D b,
      (0 <= b < nb)%Z -> step_ok n nb it orf odr D b -> M0 n D b <> 0%Qc ->
      centre_of_charge n (ax_zerobin A0) (ax_zerobin A1) (rf_drift_step n nb it orf odr D) b =
      mat_apply (K:=QcF) (Mstep (K:=QcF) (ftan angle) (angle * (ax_delta A1 / ax_delta A0))%Qc)
                (centre_of_charge n (ax_zerobin A0) (ax_zerobin A1) D b).
Proof. exact centroid_step_generated. Qed.
Print Assumptions C03_centroid_step_generated.

(** non-vacuity: the 8 x 8 instance of section 4 with the offsets computed by the generated constructors from
    main()'s angle (two_pi := 8, StepsPerTs := 32: angle 1/4), Ruler(8, -7/2, 7/2): every hypothesis holds *)
Example C03_generated_fields_example :
  map (fun x => this (exg_orf x)) [0; 3; 4; 7]%Z = [7 # 8; 1 # 8; -1 # 8; -7 # 8]%Q /\
  map (fun y => this (exg_odr y)) [0; 3; 4; 7; 8]%Z = [-7 # 8; -1 # 8; 1 # 8; 7 # 8; 0]%Q /\
  this (gen_angle QcF QcOps exg_L exg_B) = (1 # 4)%Q /\
  this (ax_zerobin exg_A) = (7 # 2)%Q /\ this (ax_delta exg_A) = 1%Q.
Proof. exact exg_values. Qed.
Example C03_centroid_step_generated_example :
  centre_of_charge 8 (ax_zerobin exg_A) (ax_zerobin exg_A) (rf_drift_step 8 1 2 exg_orf exg_odr ex_D) 0 =
  mat_apply (K:=QcF) (Mstep (K:=QcF) (exg_tan (gen_angle QcF QcOps exg_L exg_B))
                       (gen_angle QcF QcOps exg_L exg_B * (ax_delta exg_A / ax_delta exg_A))%Qc)
            (centre_of_charge 8 (ax_zerobin exg_A) (ax_zerobin exg_A) ex_D 0).
Proof. exact exg_centroid_step. Qed.
Example C03_generated_step_ok_example : step_ok 8 1 2 exg_orf exg_odr ex_D 0.
Proof. exact exg_step_ok. Qed.
End RFGenFamily.

(** *** 9. (family st3drv, seed C03-J) the SINUSOIDAL RF map kicks with the slope that belongs to the drift's angle, over
    Gen_Scaling (Proofs/ScalingRFSlopeP.v).  The sinusoidal branch of RFKickMap::_calcKick has, in normalised units,
    the small-amplitude slope  revolutionpart * V * cos(phi_s) * bl2phase / scale_E  with
    bl2phase = scale_x("Meter")/c * f_RF * 2 pi; main() derives revolutionpart, V (= V_eff), f_RF and the two axis scales
    separately ([gen_sinrf_revolutionpart], [gen_sinrf_V_RF], [gen_sinrf_f_RF], [gen_ps_Meter], [gen_ps_ElectronVolt]).
    [gen_sinrf_slope] is that product without the factor cos(phi_s); it equals [gen_angle] = 2 pi/steps - the angle
    the drift map gets - on every route of main(): alpha0 given or SynchrotronFrequency given (where the alpha0 option
    must not enter the bunch length), StepsPerTs or StepsPerRevolution, bending radius given or derived.  Hence the
    centroid's small-amplitude phase advance per step is the configured angle (times cos(phi_s) in the kick, the code's
    own synchronous phase; sections 2-6 with t := slope). *)
From Inovesa Require Model.MachineSpec Proofs.ScalingRFSlopeP.
Module SinRFSlope.
Import ScalingOps MachineSpec Gen_Scaling ScalingRFSlopeP.
Local Open Scope F_scope.

Theorem C03_sinusoidal_slope_is_angle :
  forall (K : Fld) (O : Ops K) (L : leaf -> K) (B : bleaf -> bool),
    let Veff := gen_sinrf_V_RF K O L B in
    let fs := sync_freq K O (L C_two_pi) (L O_getRevolutionFrequency) (L O_getHarmonicNumber) (L O_getBeamEnergy)
                        (L O_getAlpha0) Veff (L O_getSyncFreq) in
    let steps := steps_per_period K O (L O_getRevolutionFrequency) fs (L O_getStepsPerTrev) (L O_getStepsPerTsync) in
    L C_c <> 0 -> L C_two_pi <> 0 -> L O_getRevolutionFrequency <> 0 -> L O_getHarmonicNumber <> 0 ->
    L O_getBeamEnergy <> 0 -> L O_getEnergySpread <> 0 -> Veff <> 0 -> fs <> 0 -> steps <> 0 ->
    gen_sinrf_revolutionpart K O L B * gen_sinrf_V_RF K O L B
      * (gen_ps_Meter K O L B / L C_c * gen_sinrf_f_RF K O L B * L C_two_pi) / gen_ps_ElectronVolt K O L B
    = gen_angle K O L B.
Proof. exact sinrf_slope_is_angle. Qed.
Print Assumptions C03_sinusoidal_slope_is_angle.

(** on the SynchrotronFrequency route the phase scale of the position axis is made of THE GIVEN f_s: the alpha0 option
    does not occur in it *)
Theorem C03_bunch_length_on_fs_route :
  forall (K : Fld) (O : Ops K) (L : leaf -> K) (B : bleaf -> bool),
    o_is0 O (L O_getSyncFreq) = false ->
    L O_getHarmonicNumber <> 0 -> L O_getRevolutionFrequency <> 0 -> gen_sinrf_V_RF K O L B <> 0 ->
    gen_ps_Meter K O L B =
    L C_c * (L O_getEnergySpread * L O_getBeamEnergy) / L O_getHarmonicNumber
      / (L O_getRevolutionFrequency * L O_getRevolutionFrequency) / gen_sinrf_V_RF K O L B * L O_getSyncFreq.
Proof. exact meter_scale_on_fs_route. Qed.
Print Assumptions C03_bunch_length_on_fs_route.

(** non-vacuity over Qc (sqrt interpreted as the identity: QcOps): SynchrotronFrequency = 3 given, alpha0 = 7 (contradicting
    it), StepsPerTs = 50, two_pi := 44/7, everything else 1 except RFVoltage = 2 (V_eff := 4 - 1 = 3 under the identity
    "sqrt"): the slope is the angle 22/175 and every hypothesis of the theorem holds *)
Example C03_sinusoidal_slope_example :
  let L := fun l => match l with O_getStepsPerTsync => Q2Qc 50 | C_two_pi => Q2Qc (44 # 7) | O_getStepsPerTrev => 0%Qc
                                | O_getSyncFreq => Q2Qc 3 | O_getAlpha0 => Q2Qc 7 | O_getRFVoltage => Q2Qc 2
                                | O_getBendingRadius => 0%Qc | C_epsilon0 => Q2Qc (1 # 3) | C_c => Q2Qc (44 # 7) | _ => 1%Qc end in
  let B := fun _ : bleaf => false in
  this (gen_sinrf_slope QcF QcOps L B) = (22 # 175)%Q /\ this (gen_angle QcF QcOps L B) = (22 # 175)%Q /\
  gen_sinrf_V_RF QcF QcOps L B <> 0%Qc /\
  sync_freq QcF QcOps (L C_two_pi) (L O_getRevolutionFrequency) (L O_getHarmonicNumber) (L O_getBeamEnergy)
            (L O_getAlpha0) (gen_sinrf_V_RF QcF QcOps L B) (L O_getSyncFreq) = Q2Qc 3.
Proof. vm_compute. repeat split; try reflexivity. discriminate. Qed.
End SinRFSlope.
(** ** the loop nest of the RF kick (family st3kick).  The RF kick is [KickMap::apply] along y; [Gen/Gen_KickLoop.v]
    (regenerated on every run; the translator refuses any data- or cache-dependent shortcut: a column skipped or
    zero-filled because a cached bunch profile says it is empty, a bunch skipped because of the filling pattern) holds its
    loop nest, [kick_y_loops] runs it.  Every column of every bunch is kicked: cell (b, x, y) of the output is the cell
    function [apply_y_cell] of the moment-transport theorems above, a function of the table and of input column (b, x)
    alone - whatever the target grid held before and whatever the input grid caches besides its data. *)
Module KickLoopFamily.
From Inovesa Require Import Model.Kick Gen.Gen_KickLoop Model.KickLoop Proofs.KickLoopP.

Theorem C03_rf_kick_every_column :
  forall nb n it (H : Z -> Z * Qc) (D out0 : Z -> Qc) b x y,
    (0 < n)%Z -> (0 <= b < nb)%Z -> (0 <= x < n)%Z -> (0 <= y < n)%Z ->
    kick_y_loops nb n n it (nb - 1) H D out0 (didx n b x y) = apply_y_cell n nb it H D b x y /\
    kick_x_loops nb n n it (nb - 1) H D out0 (didx n b x y) = apply_x_cell n nb it H D b x y.
Proof. exact kick_apply_every_cell. Qed.
Print Assumptions C03_rf_kick_every_column.

Theorem C03_kick_column_local :
  forall nb n it (H : Z -> Z * Qc) (D D' out0 out0' : Z -> Qc) b x y,
    (0 < n)%Z -> (0 <= b < nb)%Z -> (0 <= x < n)%Z -> (0 <= y < n)%Z ->
    ((forall s, D (didx n b x s) = D' (didx n b x s)) ->
     kick_y_loops nb n n it (nb - 1) H D out0 (didx n b x y) = kick_y_loops nb n n it (nb - 1) H D' out0' (didx n b x y)) /\
    ((forall s, D (didx n b s y) = D' (didx n b s y)) ->
     kick_x_loops nb n n it (nb - 1) H D out0 (didx n b x y) = kick_x_loops nb n n it (nb - 1) H D' out0' (didx n b x y)).
Proof. exact kick_apply_row_local. Qed.
Print Assumptions C03_kick_column_local.
End KickLoopFamily.
