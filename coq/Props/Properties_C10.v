(** C10 - each record of the results file describes one instant, consistently.
    Only statements closed by [exact]; proofs in Proofs/RecordsP.v, Proofs/H5UnitsP.v; DESIGN.md 5/C10.
    The file is modelled as the log of _appendData calls, (dataset, step tag) in call order
    (Model/Records.v); [run c stop] is a run that executed [stop] loop iterations - finished
    ([stop = laststep]) or interrupted at the loop test.  Clause 3 of the design (record contents
    = projections/moments of the stored grid) is owned by the moments family; here it is
    evaluated on the implementation by the check's oracle. *)
From Coq Require Import List ZArith QArith Qcanon Bool.
From Inovesa Require Import Base.FieldKit Model.Records Model.H5Units Gen.Gen_H5Units Proofs.RecordsP Proofs.H5UnitsP Proofs.C10P.
Import ListNotations.
Local Open Scope Z_scope.

(** 1. every dataset appended in the output block carries exactly the time axis' step tags
    (so in particular as many records), for every cadence and every number of executed steps *)
Theorem C10_record_counts_agree :
  forall c stop d, 0 <= stop -> same_as_time c d = true ->
    records d (run c stop) = records DT (run c stop).
Proof. exact record_counts_agree_c10. Qed.
Print Assumptions C10_record_counts_agree.

Theorem C10_phase_space_counts_agree :
  forall c stop, 0 <= stop -> records DPSData (run c stop) = records DPSAxis (run c stop).
Proof. exact phase_space_counts_agree_c10. Qed.
Print Assumptions C10_phase_space_counts_agree.

Theorem C10_padded_exactly_two :
  forall c stop d, 0 <= stop -> d = DPadProfile \/ d = DPadPotential ->
    records d (run c stop) = if haswake c then [0; stop] else [].
Proof. exact padded_exactly_two_c10. Qed.
Print Assumptions C10_padded_exactly_two.

Theorem C10_no_wake_no_wake_records :
  forall c stop, 0 <= stop -> haswake c = false -> records DWake (run c stop) = [].
Proof. exact no_wake_no_wake_records_c10. Qed.
Print Assumptions C10_no_wake_no_wake_records.

(** 2. the time axis lists the output steps below [stop], then [stop] *)
Theorem C10_time_axis_schedule :
  forall c stop, 0 <= stop ->
    records DT (run c stop) = filter (fun k => (0 <? outstep c) && (k mod outstep c =? 0)) (zrange stop) ++ [stop].
Proof. exact time_axis_schedule_c10. Qed.
Print Assumptions C10_time_axis_schedule.

(** ... the phase space is saved at the initial state when SavePhaseSpace = 0, at every
    SavePhaseSpace-th output step (the j-th output step is j*outstep), and at the end *)
Theorem C10_ps_axis_schedule :
  forall c stop, 0 <= stop ->
    records DPSAxis (run c stop) =
    (if save c =? 0 then [0] else []) ++
    filter (fun k => (0 <? outstep c) && (k mod outstep c =? 0) && (0 <? save c)
                     && ((k / outstep c) mod save c =? 0)) (zrange stop) ++ [stop].
Proof. exact ps_axis_schedule_c10. Qed.
Print Assumptions C10_ps_axis_schedule.

(** 4. one append stores row b of the record = bunch b's data for all payloads iff the row
    length of the dataset equals the row stride of the source (or there is a single row) *)
Theorem C10_dataset_rows_are_bunches :
  forall nb W S, 0 < W <= S -> 0 <= nb ->
    ((forall (file src : list Z) r b i, 0 <= r -> Z.of_nat (length file) = r * nb * W ->
        Z.of_nat (length src) = nb * S -> 0 <= b < nb -> 0 <= i < W ->
        file_elt 0 nb W (append_data [nb; W] file src) r b i = mem_elt 0 S src b i)
     <-> (W = S \/ nb <= 1)).
Proof. exact dataset_rows_are_bunches_c10. Qed.
Print Assumptions C10_dataset_rows_are_bunches.

(** every dataset of the (fixed) tree is appended from a buffer whose rows are the dataset's rows *)
Theorem C10_all_datasets_rows_ok :
  forall z d, rows_ok (file_inner z d) (mem_inner z d) = true.
Proof. exact all_datasets_rows_ok_c10. Qed.
Print Assumptions C10_all_datasets_rows_ok.

(** the CSR spectrum after the fix: rows gathered with the memory stride, for every stride *)
Theorem C10_csr_spectrum_rows_are_bunches :
  forall (A : Type) (d : A) nb S W (file src : list A) r b i,
    0 <= W <= S -> nb * S <= Z.of_nat (length src) -> 0 <= r ->
    Z.of_nat (length file) = r * nb * W -> 0 <= b < nb -> 0 <= i < W ->
    file_elt d nb W (append_data [nb; W] file (gather_rows nb S W src)) r b i = mem_elt d S src b i.
Proof. exact csr_spectrum_rows_are_bunches_c10. Qed.
Print Assumptions C10_csr_spectrum_rows_are_bunches.

(** the pinned tree passed _csrspectrum[nb][nmax] directly into a dataset of rows nmax/2:
    refuted, with a computed witness (2 bunches, nmax = 4: stored row 1 = second half of bunch 0) *)
Theorem C10_csr_spectrum_direct_append_refuted :
  exists z (src : list Z) b i,
    rows_ok (file_inner z DCsrSpectrum) (mem_inner_direct z DCsrSpectrum) = false /\
    0 <= b < s_nb z /\ 0 <= i < s_nmax z / 2 /\
    file_elt 0 (s_nb z) (s_nmax z / 2) (append_data (file_inner z DCsrSpectrum) [] src) 0 b i
    <> mem_elt 0 (s_nmax z) src b i.
Proof. exact csr_spectrum_direct_append_refuted_c10. Qed.
Print Assumptions C10_csr_spectrum_direct_append_refuted.

(** 5. axes: the stored axes are the grid coordinates of axis 0 / axis 1 (after the fix);
    with the pinned source selection the E axis dataset holds axis 0 - refuted when the shifts differ *)
Theorem C10_axes_are_the_grid :
  forall (K : Fld) n (pq sx sy : K),
    stored_axis K axis_source n pq sx sy AxZ = grid_axis K n pq sx /\
    stored_axis K axis_source n pq sx sy AxE = grid_axis K n pq sy.
Proof. exact axes_are_the_grid_c10. Qed.
Print Assumptions C10_axes_are_the_grid.

Theorem C10_axes_are_the_grid_pinned_refuted :
  exists n (pq sx sy : QcF),
    stored_axis QcF axis_source_pinned n pq sx sy AxE <> grid_axis QcF n pq sy.
Proof. exact axes_are_the_grid_pinned_refuted_c10. Qed.
Print Assumptions C10_axes_are_the_grid_pinned_refuted.

(** 6. unit factors: identities in every field between the attribute expressions of the
    constructor / ElectricField and the formulas in the stored machine parameters *)
Theorem C10_unit_meter :
  forall (K : Fld) (c E0 sE H frev Veff fs alpha0 tpi : K),
    c <> f0 -> E0 <> f0 -> sE <> f0 -> H <> f0 -> frev <> f0 -> Veff <> f0 -> fs <> f0 -> tpi <> f0 -> alpha0 <> f0 ->
    (fs * fs = frev * frev * (alpha0 * H * Veff / (tpi * E0)))%F ->
    a_Meter K c E0 sE H frev Veff fs = (c * sE * alpha0 / (tpi * fs))%F /\
    a_Meter K c E0 sE H frev Veff fs = (c * sE * E0 * fs / (H * frev * frev * Veff))%F /\
    (a_Second_z K c E0 sE H frev Veff fs * c)%F = a_Meter K c E0 sE H frev Veff fs /\
    (a_Hertz K c E0 sE H frev Veff fs * a_Meter K c E0 sE H frev Veff fs)%F = c.
Proof. exact unit_meter_c10. Qed.
Print Assumptions C10_unit_meter.

Theorem C10_unit_time_charge_energy :
  forall (K : Fld) (E0 sE frev fs Ib : K), frev <> f0 -> fs <> f0 ->
    a_ElectronVolt K E0 sE = (sE * E0)%F /\
    (a_Second_t K fs * fs)%F = f1 /\
    a_Turn K frev fs = (frev / fs)%F /\ a_Turn K frev fs = (a_Second_t K fs * frev)%F /\
    a_Ampere K Ib = Ib /\ (a_Coulomb K frev Ib * frev)%F = a_Ampere K Ib.
Proof. exact unit_time_charge_energy_c10. Qed.
Print Assumptions C10_unit_time_charge_energy.

Theorem C10_unit_volt_watt :
  forall (K : Fld) (c E0 sE H frev Veff fs steps Ib deltaE ohm : K),
    c <> f0 -> E0 <> f0 -> sE <> f0 -> H <> f0 -> frev <> f0 -> Veff <> f0 -> fs <> f0 -> steps <> f0 ->
    a_Volt K E0 sE frev fs steps deltaE = (deltaE * sE * E0 * fs * steps / frev)%F /\
    (a_Volt K E0 sE frev fs steps deltaE * a_Turn K frev fs)%F = (deltaE * a_ElectronVolt K E0 sE * steps)%F /\
    a_WattPerHertz K frev Ib ohm = (two * ohm * Ib * Ib / frev)%F /\
    a_Watt K c E0 sE H frev Veff fs Ib ohm = (a_WattPerHertz K frev Ib ohm * a_Hertz K c E0 sE H frev Veff fs)%F /\
    (a_Watt K c E0 sE H frev Veff fs Ib ohm * a_Meter K c E0 sE H frev Veff fs * frev)%F = (two * ohm * Ib * Ib * c)%F.
Proof. exact unit_volt_watt_c10. Qed.
Print Assumptions C10_unit_volt_watt.

(** the attribute expressions the theorems above talk about are the ones in the source *now*:
    Gen_H5Units.v is regenerated from the HDF5File constructor and the ElectricField initialisers on
    every run (translate/h5units2coq.py) *)
Theorem C10_units_match_source :
  forall (K : Fld) (c E0 sE H frev Veff fs steps Ib deltaE ohm : K),
    c <> f0 -> E0 <> f0 -> sE <> f0 -> H <> f0 -> frev <> f0 -> Veff <> f0 -> fs <> f0 -> steps <> f0 ->
    a_Second_z K c E0 sE H frev Veff fs = gen_Second_z K (a_Meter K c E0 sE H frev Veff fs) c /\
    a_Turn K frev fs = gen_Turn K (t_sync K fs) frev /\
    a_Hertz K c E0 sE H frev Veff fs = gen_Hertz K (a_Meter K c E0 sE H frev Veff fs) c /\
    a_Volt K E0 sE frev fs steps deltaE
      = gen_Volt K deltaE (a_ElectronVolt K E0 sE) (revolutionpart K frev fs steps) /\
    a_WattPerHertz K frev Ib ohm = gen_WattPerHertz K ohm Ib frev /\
    a_Watt K c E0 sE H frev Veff fs Ib ohm = gen_Watt K ohm Ib frev (a_Hertz K c E0 sE H frev Veff fs).
Proof. exact units_match_source_c10. Qed.
Print Assumptions C10_units_match_source.

(** non-vacuity: a concrete run (outstep 3, SavePhaseSpace 2, 8 steps, with wake) *)
Example C10_schedule_example :
  let l := run (mkCfg 3 2 true) 8 in
  records DT l = [0; 3; 6; 8] /\ records DPSAxis l = [0; 6; 8] /\ records DWake l = [0; 3; 6; 8]
  /\ records DPadProfile l = [0; 8] /\ records DCsrSpectrum l = [0; 3; 6; 8].
Proof. vm_compute. repeat split. Qed.
(** an interrupted run, SavePhaseSpace 0, no wake *)
Example C10_schedule_example2 :
  let l := run (mkCfg 4 0 false) 5 in
  records DT l = [0; 4; 5] /\ records DPSAxis l = [0; 5] /\ records DWake l = [] /\ records DPadProfile l = [].
Proof. vm_compute. repeat split. Qed.
(** the unit hypotheses are satisfiable in Qc *)
Example C10_units_example :
  a_Turn QcF (Q2Qc 9) (Q2Qc 3) = Q2Qc 3 /\ a_Coulomb QcF (Q2Qc 4) (Q2Qc 2) = Q2Qc (1 # 2).
Proof. split; apply Qc_is_canon; reflexivity. Qed.

(** *** (family scaling) the time axis value and the conversion inputs main() hands to the results file and the fields,
    over the definitions GENERATED from main() on every run (Gen/Gen_Scaling.v: [gen_h5_time] is the second argument of
    HDF5File::append(ps, t, at) inside and after the loop, [gen_t_sync]/[gen_h5_f_rev] the `t_sync`/`f_rev` arguments of
    the HDF5File constructor, [gen_dt]/[gen_revolutionpart] what the wake field receives, [gen_rdtn_revolutionpart] the
    radiation field, [L S_simulationstep] the loop counter; everything inlined down to the options). *)
From Inovesa Require Model.ScalingOps Gen.Gen_Scaling Proofs.ScalingUnitsP.
Module ScalingFamily.   (* imports and scopes stay local to this block *)
Import ScalingOps Gen_Scaling ScalingUnitsP.
Local Open Scope F_scope.

(** the time stored with a record is step/StepsPerTs: in units of synchrotron periods *)
Theorem C10_main_time_in_synchrotron_periods :
  forall (K : Fld) (O : Ops K) (L : leaf -> K) (B : bleaf -> bool),
    o_lt O 0 (L O_getStepsPerTrev) = false -> o_lt O (L O_getStepsPerTsync) 1 = false ->
    L O_getStepsPerTsync <> 0 ->
    gen_h5_time K O L B * L O_getStepsPerTsync = L S_simulationstep.
Proof. exact h5_time_in_periods. Qed.
Print Assumptions C10_main_time_in_synchrotron_periods.

Theorem C10_main_time_with_StepsPerRevolution :
  forall (K : Fld) (O : Ops K) (L : leaf -> K) (B : bleaf -> bool),
    o_lt O 0 (L O_getStepsPerTrev) = true -> o_is0 O (L O_getSyncFreq) = false ->
    L O_getStepsPerTrev <> 0 -> L O_getRevolutionFrequency <> 0 -> L O_getSyncFreq <> 0 ->
    gen_h5_time K O L B * (L O_getStepsPerTrev * L O_getRevolutionFrequency / L O_getSyncFreq) = L S_simulationstep.
Proof. exact h5_time_with_StepsPerRevolution. Qed.
Print Assumptions C10_main_time_with_StepsPerRevolution.

(** the inputs of the unit identities above ([t_sync], [dt], [revolutionpart] of Model/H5Units.v) are what main() passes:
    dt = 1/(f_s steps) to the wake field, revolutionpart = f_rev dt to both fields and to every RF map that takes it,
    t_sync = 1/f_s and f_rev to the file (synchrotron frequency given, StepsPerTs >= 1) *)
Theorem C10_main_unit_inputs :
  forall (K : Fld) (O : Ops K) (L : leaf -> K) (B : bleaf -> bool),
    o_is0 O (L O_getSyncFreq) = false ->
    o_lt O 0 (L O_getStepsPerTrev) = false -> o_lt O (L O_getStepsPerTsync) 1 = false ->
    L O_getSyncFreq <> 0 -> L O_getStepsPerTsync <> 0 ->
    let fs := L O_getSyncFreq in let steps := L O_getStepsPerTsync in let frev := L O_getRevolutionFrequency in
    gen_t_sync K O L B = t_sync K fs /\ gen_h5_f_rev K O L B = frev /\ gen_f_rev K O L B = frev /\
    gen_dt K O L B = dt K fs steps /\
    gen_revolutionpart K O L B = revolutionpart K frev fs steps /\
    gen_rdtn_revolutionpart K O L B = revolutionpart K frev fs steps /\
    gen_dynrf_revolutionpart K O L B = revolutionpart K frev fs steps /\
    gen_sinrf_revolutionpart K O L B = revolutionpart K frev fs steps.
Proof. exact h5_unit_inputs. Qed.
Print Assumptions C10_main_unit_inputs.
End ScalingFamily.

(** *** (strengthening F5-I) the chain  bending radius -> radiation loss V0 -> effective voltage -> synchrotron frequency ->
    natural bunch length ("Meter") / time step / revolutionpart ("Volt", "Turn", "Second")  over the definitions GENERATED
    from main() on every run, against the machine quantities implied by the parameters stored in the file
    (Model/MachineSpec.v: spec functions).  [gen_R_bend] is what the impedance models receive, [gen_sinrf_V0] /
    [gen_sinrf_V_RF] what the sinusoidal RF map receives (V0, V_eff), [gen_ps_Meter] / [gen_ps_ElectronVolt] what main()
    passes for the PhaseSpace constructor parameters that become the "Meter" scale of axis 0 / the "ElectronVolt" scale
    of axis 1 (the pairing is read from the constructor), which the HDF5File constructor writes as the attributes. *)
From Inovesa Require Model.MachineSpec Proofs.ScalingMachineP.
Module MachineChain.
Import ScalingOps Gen_Scaling MachineSpec ScalingMachineP.
Local Open Scope F_scope.

(** the radius handed to the impedance models is the radius in use: the option BendingRadius when positive, the
    iso-magnetic radius c/(2 pi f_rev) otherwise *)
Theorem C10_main_bending_radius_in_use :
  forall (K : Fld) (O : Ops K) (L : leaf -> K) (B : bleaf -> bool),
    gen_R_bend K O L B = radius_in_use K O (L C_c) (L C_two_pi) (L O_getRevolutionFrequency) (L O_getBendingRadius).
Proof. exact radius_link. Qed.
Print Assumptions C10_main_bending_radius_in_use.

(** V0 is the radiation loss per turn e gamma^4/(3 epsilon0 R) for THAT radius - whichever branch is taken *)
Theorem C10_main_radiation_loss_for_radius_in_use :
  forall (K : Fld) (O : Ops K) (L : leaf -> K) (B : bleaf -> bool),
    L C_me <> 0 -> L C_epsilon0 <> 0 -> L C_c <> 0 -> L C_two_pi <> 0 -> L O_getRevolutionFrequency <> 0 ->
    gen_R_bend K O L B <> 0 ->
    gen_sinrf_V0 K O L B = radiation_loss K (L C_e) (L C_me) (L C_epsilon0) (L O_getBeamEnergy) (gen_R_bend K O L B).
Proof. exact loss_link. Qed.
Print Assumptions C10_main_radiation_loss_for_radius_in_use.

(** the whole chain in the stored parameters alone, every route (BendingRadius given or not, alpha0 or synchrotron
    frequency given, StepsPerTs or StepsPerRevolution): the inputs of C10_unit_meter ... C10_unit_volt_watt
    ([a_Meter], [a_ElectronVolt], [t_sync], [dt], [revolutionpart] of Model/H5Units.v) are what main() passes on *)
Theorem C10_main_machine_chain :
  forall (K : Fld) (O : Ops K) (L : leaf -> K) (B : bleaf -> bool),
    let c := L C_c in let tpi := L C_two_pi in let frev := L O_getRevolutionFrequency in
    let E0 := L O_getBeamEnergy in let sE := L O_getEnergySpread in let H := L O_getHarmonicNumber in
    let R := radius_in_use K O c tpi frev (L O_getBendingRadius) in
    let V0 := radiation_loss K (L C_e) (L C_me) (L C_epsilon0) E0 R in
    let Veff := effective_voltage K O (L O_getRFVoltage) V0 in
    let fs := sync_freq K O tpi frev H E0 (L O_getAlpha0) Veff (L O_getSyncFreq) in
    let steps := steps_per_period K O frev fs (L O_getStepsPerTrev) (L O_getStepsPerTsync) in
    L C_me <> 0 -> L C_epsilon0 <> 0 -> c <> 0 -> tpi <> 0 -> frev <> 0 -> H <> 0 ->
    R <> 0 -> Veff <> 0 -> fs <> 0 -> steps <> 0 ->
    gen_R_bend K O L B = R /\ gen_sinrf_V0 K O L B = V0 /\ gen_sinrf_V_RF K O L B = Veff /\
    gen_t_sync K O L B = t_sync K fs /\
    gen_ps_Meter K O L B = a_Meter K c E0 sE H frev Veff fs /\
    gen_ps_ElectronVolt K O L B = a_ElectronVolt K E0 sE /\
    gen_dt K O L B = dt K fs steps /\
    gen_revolutionpart K O L B = revolutionpart K frev fs steps /\
    gen_rdtn_revolutionpart K O L B = revolutionpart K frev fs steps /\
    gen_dynrf_revolutionpart K O L B = revolutionpart K frev fs steps /\
    gen_sinrf_revolutionpart K O L B = revolutionpart K frev fs steps /\
    gen_h5_time K O L B * steps = L S_simulationstep /\
    gen_h5_f_rev K O L B = frev /\ gen_f_rev K O L B = frev.
Proof. exact machine_chain. Qed.
Print Assumptions C10_main_machine_chain.

(** non-vacuity (rationals, the executable interpretation of the comparisons): e = 3, E0/m_e = 2, epsilon0 = 1; with
    BendingRadius = 4 the loss is 3*16/(3*4) = 4, with BendingRadius = -1 the radius is c/(2 pi f_rev) = 1 and the loss 16 *)
Example C10_machine_example :
  let L r := fun l => match l with O_getBendingRadius => r | O_getBeamEnergy => Q2Qc 2 | C_e => Q2Qc 3 | _ => Q2Qc 1 end in
  let B := fun _ : bleaf => false in
  gen_R_bend QcF QcOps (L (Q2Qc 4)) B = Q2Qc 4 /\ gen_sinrf_V0 QcF QcOps (L (Q2Qc 4)) B = Q2Qc 4 /\
  gen_R_bend QcF QcOps (L (Q2Qc (-1))) B = Q2Qc 1 /\ gen_sinrf_V0 QcF QcOps (L (Q2Qc (-1))) B = Q2Qc 16.
Proof. cbv zeta. repeat split; apply Qc_is_canon; reflexivity. Qed.
End MachineChain.

(** ** Tie of the file layer to the source by translation (second wave).  [Gen/Gen_H5Index.v] is
    regenerated from src/IO/HDF5File.cpp on every run (translate/h5index2coq.py): the vectors
    [_appendData] hands to the HDF5 library, the initial extents of every dataset, and for every
    append overload the (dataset, source, record count) of its [_appendData] calls in call order.
    What the library does with those vectors is Model/H5Slab.v. *)
From Inovesa Require Import Model.H5Slab Gen.Gen_H5Index Proofs.H5SlabP Proofs.H5IndexP.

(** one [_appendData] on any dataset of the file, holding r complete records: the hyperslab the
    generated start / count vectors select in the dataset extended to the generated extent is filled
    with the record - i.e. the model's [append_data]; ds.dims then counts r+1 records; the memory
    space has the selection's shape; the file space is fetched after the extension *)
Theorem C10_source_append_is_model :
  forall (A : Type) (fill : A) z d r (file src : list A),
    0 <= s_nb z -> 0 <= s_n z -> 0 <= s_nmax z -> 0 <= s_imp z -> 0 <= s_np z -> 0 <= r ->
    Z.of_nat (length file) = r * prodZ (file_inner z d) -> prodZ (file_inner z d) <= Z.of_nat (length src) ->
    let dims := r :: tl (gen_ds_dims true true (s_nb z) (s_n z) (s_n z) (s_nmax z) (s_imp z) (s_np z) d) in
    gen_append_call fill dims 1 src file = append_data (file_inner z d) file src /\
    gen_ad_dims_after dims 1 = (r + 1) :: file_inner z d /\
    gen_ad_mem dims 1 = gen_ad_count dims 1 /\ gen_ad_order_ok = true.
Proof. exact (@gen_append_record). Qed.
Print Assumptions C10_source_append_is_model.

(** any record count (appendRFKicks passes kicks.size()): the first [size * prod inner] elements are appended *)
Theorem C10_source_append_any_size :
  forall (A : Type) (fill : A) inner n0 size (file src : list A),
    Forall (fun d => 0 <= d) inner -> 0 <= n0 -> 0 <= size ->
    Z.of_nat (length file) = n0 * prodZ inner -> size * prodZ inner <= Z.of_nat (length src) ->
    gen_append_call fill (n0 :: inner) size src file = file ++ firstn (Z.to_nat (size * prodZ inner)) src /\
    gen_ad_dims_after (n0 :: inner) size = (n0 + size) :: inner /\
    gen_ad_mem (n0 :: inner) size = gen_ad_count (n0 :: inner) size /\
    gen_ad_order_ok = true.
Proof. exact (@gen_append_call_appends). Qed.
Print Assumptions C10_source_append_any_size.

(** the constructor creates every growing dataset empty, with the inner dimensions of the model *)
Theorem C10_source_dataset_extents :
  forall z d, gen_ds_dims true true (s_nb z) (s_n z) (s_n z) (s_nmax z) (s_imp z) (s_np z) d = 0 :: file_inner z d.
Proof. exact gen_ds_dims_is_model. Qed.
Print Assumptions C10_source_dataset_extents.

(** the append overloads call [_appendData] on the datasets, and in the order, of the model's log
    (so C10_record_counts_agree ... C10_ps_axis_schedule are statements about these calls) *)
Theorem C10_source_append_orders :
  forall k,
    (forall a, append_ps a k = ds_of (gen_append_ps a) k) /\
    append_ef k = ds_of (gen_append_ef true) k /\
    append_wake k = ds_of gen_append_wake k /\
    append_tracks k = ds_of gen_append_tracks k /\
    append_padded k = ds_of gen_append_padded k.
Proof. exact gen_append_orders_are_model. Qed.
Print Assumptions C10_source_append_orders.

(** every dataset is appended from the member the property says it describes (profile <- x projection,
    energy profile <- y projection, length / spread <- rms of axis 0 / 1, position / mean energy <- first
    moment of axis 0 / 1, population <- measured charge, phase space <- grid, ...), one record per call;
    and every growing dataset is appended by some overload *)
Theorem C10_source_record_sources :
  (forall d s n, In (d, s, n) all_append_tables -> s = expected_source d /\ n = 1) /\
  (forall d, In d all_dsets -> exists s n, In (d, s, n) all_append_tables).
Proof. exact gen_sources_are_expected. Qed.
Print Assumptions C10_source_record_sources.

(** the buffers PhaseSpace hands over have the shape of the dataset's records: for every append call whose
    source is a PhaseSpace member, the extents of that member (from PhaseSpace's constructor, Gen_Moments.v)
    minus the subscripted leading dimensions are the model's [mem_inner] and the inner dimensions the
    HDF5File constructor gave the dataset (so C10_dataset_rows_are_bunches applies with equal strides) *)
From Inovesa Require Import Model.MomentsIR Gen.Gen_Moments Proofs.H5MemP.
Theorem C10_source_memory_shapes :
  forall z d s n sh, In (d, s, n) all_append_tables -> ps_buffer_shape z s = Some sh ->
    sh = mem_inner z d /\
    sh = tl (gen_ds_dims true true (s_nb z) (s_n z) (s_n z) (s_nmax z) (s_imp z) (s_np z) d).
Proof. exact gen_memory_shapes. Qed.
Print Assumptions C10_source_memory_shapes.

(** ... and cell (b,x,y) of the grid sits at flat position (b*n + x)*n + y (bunch-major, row-major) *)
Theorem C10_source_data_is_bunch_major :
  forall nb n b x y, gidx 0 (gen_extents_data nb n n) [b; x; y] [1; 1; 1] = [(b * n + x) * n + y].
Proof. exact gen_data_is_bunch_major. Qed.
Print Assumptions C10_source_data_is_bunch_major.

(** non-vacuity: two records of a 2x3 dataset, a third appended through the generated vectors *)
Example C10_source_example :
  gen_append_call 0 [2; 2; 3] 1 [7; 8; 9; 10; 11; 12; 99] [1; 1; 1; 1; 1; 1; 2; 2; 2; 2; 2; 2]
  = [1; 1; 1; 1; 1; 1; 2; 2; 2; 2; 2; 2; 7; 8; 9; 10; 11; 12] /\
  gen_ad_start [2; 2; 3] 1 = [2; 0; 0] /\ gen_ad_count [2; 2; 3] 1 = [1; 2; 3] /\ gen_ad_extent [2; 2; 3] 1 = [3; 2; 3] /\
  In (DEProfile, SrcProj 1, 1) all_append_tables /\
  ps_buffer_shape (mkSizes 3 16 64 32 0) (SrcProj 1) = Some [3; 16].
Proof. vm_compute. repeat split. tauto. Qed.
