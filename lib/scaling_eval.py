"""Double-precision evaluation of the expressions the translators read from main() (translate/scaling_lib.py IR,
stored in coq/Gen/Gen_Scaling*.info.json on every translator run).

Used by C17 to obtain the *cut variables* of Gen_ScalingZ (spacing_ps: a double main() computes with sqrt/pow, which
the exact size model takes as an input) for a given command line, instead of a hand-written copy of main()'s
formulas: the expression evaluated here is the one the translator read from the current source.  What is trusted is
this small evaluator (IEEE binary64/binary32 arithmetic of CPython and `struct`, libm's sqrt/pow - the same libm the
program links), validated on every C17 run by the padded lengths read from the program's results file.

Leaves: O_<getter> -> value of the option behind ProgramOptions::<getter>() (getter -> member from
inc/IO/ProgramOptions.hpp, member -> option name from the option table translate/options2coq.py reads), C_<name> ->
physcons constant from inc/defines.hpp, C_two_pi."""
import json, math, os, re, struct, subprocess, sys
from fractions import Fraction

VERIF = os.path.dirname(os.path.dirname(os.path.abspath(__file__)))
REPO = os.environ.get("VERIF_REPO", "/repo")
sys.path.insert(0, os.path.join(VERIF, "translate"))


class Undefined(Exception):
    """the C++ expression has undefined behaviour for these inputs (float -> integer conversion out of range)"""


def f32(x):
    try:
        return struct.unpack("f", struct.pack("f", x))[0]
    except OverflowError:
        return math.copysign(float("inf"), x)


_info = {}


def info(gen):
    """coq/Gen/<gen>.info.json as written by the translator of <gen> on its last successful run (the check runs the
    translators first); falls back to the last-good copy"""
    if gen not in _info:
        p = os.path.join(VERIF, "coq", "Gen", gen + ".info.json")
        script = {"Gen_Scaling": "scaling2coq.py", "Gen_ScalingZ": "scalingz2coq.py"}[gen]
        if not os.path.exists(p):
            subprocess.run([sys.executable, os.path.join(VERIF, "translate", script)], capture_output=True, text=True, timeout=600)
        if not os.path.exists(p):
            p = os.path.join(VERIF, "coq", "GenLastGood", gen + ".info.json")
        with open(p) as f:
            _info[gen] = json.load(f)
    return _info[gen]


def unjson(x):
    if isinstance(x, dict):
        return Fraction(x["q"])
    if isinstance(x, list):
        return tuple(unjson(y) for y in x)
    return x


_getters = None


def getter_options():
    """{getter name: canonical option name}"""
    global _getters
    if _getters is None:
        hdr = open(os.path.join(REPO, "inc", "IO", "ProgramOptions.hpp")).read()
        g2m = dict(re.findall(r"inline\s+auto\s+(\w+)\s*\(\s*\)\s*const\s*\{\s*return\s+(\w+)\s*;\s*\}", hdr))
        import options_cases
        tab = options_cases.info()["table"]
        m2o = {}
        for name, o in tab.items():
            if o.get("kind") == "KCanon" and o.get("var"):
                m2o.setdefault(o["var"], name)
        _getters = {g: m2o[m] for g, m in g2m.items() if m in m2o}
    return _getters


_consts = None


def constants():
    global _consts
    if _consts is None:
        txt = open(os.path.join(REPO, "inc", "defines.hpp")).read()
        m = re.search(r"namespace\s+physcons\s*\{(.*?)\}\s*//\s*namespace physcons", txt, flags=re.S)
        body = re.sub(r"//[^\n]*", "", m.group(1)) if m else ""
        env = {}
        for nm, ex in re.findall(r"constexpr\s+double\s+(\w+)\s*=\s*([^;]+);", body):
            env[nm] = float(eval(ex, {"__builtins__": {}}, dict(env)))
        env["two_pi"] = 2 * math.pi
        _consts = env
    return _consts


def leaf_values(config, leaves):
    """values of the leaves (name, type) for a configuration {option name: value}; every option must be given"""
    go = getter_options()
    cs = constants()
    vals = {}
    for name, ty in leaves:
        if name.startswith("O_") or name.startswith("N_"):
            opt = go.get(name[2:])
            if opt is None or opt not in config:
                raise KeyError("no value for option %s (leaf %s)" % (opt, name))
            v = config[opt]
            vals[name] = len(v) if name.startswith("N_") else v
        elif name.startswith("C_"):
            vals[name] = cs[name[2:]]
        else:
            raise KeyError("leaf %s has no value outside the program" % name)
    return vals


MASK = {"u8": 2 ** 8, "u32": 2 ** 32, "u64": 2 ** 64}
INT_TYS = ("u8", "u32", "u64", "i32", "i64")


def typeof(e):
    k = e[0]
    if k in ("lit", "leaf", "opaque"):
        return e[2]
    if k in ("blit", "cmp", "isclass", "not", "and", "or"):
        return "bool"
    if k == "cast":
        return e[1]
    if k in ("bin", "call"):
        return e[2]
    return e[1]


def wrap(ty, v):
    return v % MASK[ty] if ty in MASK else v


def c_round(x):
    return math.floor(x + 0.5) if x >= 0 else -math.floor(-x + 0.5)


def ev(e, L):
    k = e[0]
    if k == "lit":
        return int(e[1]) if e[2] in INT_TYS else float(e[1])
    if k == "blit":
        return bool(e[1])
    if k == "leaf":
        v = L[e[1]]
        if e[2] == "f32":
            return f32(float(v))
        if e[2] == "f64":
            return float(v)
        if e[2] == "bool":
            return bool(v)
        return wrap(e[2], int(v))
    if k == "cast":
        dst, src = e[1], typeof(e[2])
        x = ev(e[2], L)
        if dst == "f64":
            return float(x)
        if dst == "f32":
            return f32(float(x))
        if dst == "bool":
            return bool(x)
        if src in ("f32", "f64"):
            if x != x or math.isinf(x):
                raise Undefined("conversion of %r to %s" % (x, dst))
            t = int(x)
            lo, hi = (0, MASK[dst]) if dst in MASK else (-2 ** (31 if dst == "i32" else 63), 2 ** (31 if dst == "i32" else 63))
            if not (lo <= t < hi):
                raise Undefined("conversion of %r to %s" % (x, dst))
            return t
        return wrap(dst, int(x))
    if k == "bin":
        op, ty = e[1], e[2]
        a, b = ev(e[3], L), ev(e[4], L)
        if ty in ("f32", "f64"):
            try:
                r = {"+": a + b, "-": a - b, "*": a * b}[op] if op != "/" else a / b
            except ZeroDivisionError:
                r = float("nan") if a == 0 or a != a else math.copysign(float("inf"), a) * math.copysign(1.0, b)
            return f32(r) if ty == "f32" else r
        if op == "/":
            if b == 0:
                raise Undefined("integer division by zero")
            q = abs(a) // abs(b)
            return wrap(ty, q if (a >= 0) == (b >= 0) else -q)
        return wrap(ty, {"+": a + b, "-": a - b, "*": a * b}[op])
    if k == "neg":
        a = ev(e[2], L)
        return wrap(e[1], -a) if e[1] in INT_TYS else -a
    if k == "call":
        fn, ty = e[1], e[2]
        xs = [ev(a, L) for a in e[3]]
        if fn == "sqrt":
            r = math.sqrt(xs[0]) if xs[0] >= 0 else float("nan")
        elif fn == "pow":
            try:
                r = math.pow(float(xs[0]), float(xs[1]))
            except (OverflowError, ValueError):
                r = float("nan")
        elif fn == "round":
            r = float(c_round(xs[0]))
        elif fn == "ceil":
            r = float(math.ceil(xs[0]))
        elif fn == "floor":
            r = float(math.floor(xs[0]))
        elif fn == "fabs":
            r = abs(xs[0])
        elif fn == "max":
            return xs[1] if xs[0] < xs[1] else xs[0]
        elif fn == "min":
            return xs[1] if xs[1] < xs[0] else xs[0]
        elif fn == "sign":
            return (xs[0] > 0) - (xs[0] < 0)
        elif fn == "upow2":
            v = (xs[0] - 1) & (2 ** 64 - 1)
            for s in (1, 2, 4, 8, 16, 32):
                v |= v >> s
            return (v + 1) & (2 ** 64 - 1)
        else:
            raise ValueError("function %s" % fn)
        return f32(r) if ty == "f32" else r
    if k == "cmp":
        a, b = ev(e[2], L), ev(e[3], L)
        return {"<": a < b, "<=": a <= b, "==": a == b, "!=": a != b}[e[1]]
    if k == "isclass":
        a = ev(e[2], L)
        if e[1] == "zero":
            return a == 0.0
        if e[1] == "normal":
            return a == a and not math.isinf(a) and abs(a) >= 2.2250738585072014e-308
        raise ValueError(e[1])
    if k == "not":
        return not ev(e[1], L)
    if k == "and":
        return ev(e[1], L) and ev(e[2], L)
    if k == "or":
        return ev(e[1], L) or ev(e[2], L)
    if k == "ite":
        return ev(e[3], L) if ev(e[2], L) else ev(e[4], L)
    if k == "vec":
        return [ev(x, L) for x in e[2]]
    raise ValueError("IR node %s" % k)


def subterms(e):
    if isinstance(e, tuple):
        if e and isinstance(e[0], str):
            yield e
        for x in e:
            if isinstance(x, tuple):
                yield from subterms(x)


def leaves_of(e):
    return sorted({(t[1], t[2]) for t in subterms(e) if t[0] == "leaf"})


def needed_options(e):
    """canonical option names an expression reads"""
    go = getter_options()
    return sorted({go[n[2:]] for n, _ in leaves_of(e) if n[:2] in ("O_", "N_") and n[2:] in go})


def cut_values(config):
    """{cut variable leaf name: double} of Gen_ScalingZ for a full configuration {option: value}"""
    inf = info("Gen_ScalingZ")
    res = {}
    for name, ir in inf["cuts"].items():
        e = unjson(ir)
        res[name] = ev(e, leaf_values(config, leaves_of(e)))
    return res


def cut_options():
    inf = info("Gen_ScalingZ")
    opts = set()
    for ir in inf["cuts"].values():
        opts |= set(needed_options(unjson(ir)))
    return sorted(opts)


def size_options():
    """canonical names of the options the generated sizes depend on (directly or through a cut variable)"""
    inf = info("Gen_ScalingZ")
    go = getter_options()
    opts = set(cut_options())
    for n in inf["zleaves"] + inf["qleaves"] + inf["bleaves"]:
        if n[:2] in ("O_", "N_") and n[2:] in go:
            opts.add(go[n[2:]])
    return sorted(opts)


def zleaf_inputs(config, cuts=None):
    """(zs, qs, bs): the argument lists of Gen_ScalingZ.gen_sizes_list for a configuration, in the order of the
    generated *_index functions; qs as floats (exact doubles)"""
    inf = info("Gen_ScalingZ")
    go = getter_options()
    cuts = cuts if cuts is not None else cut_values(config)

    def val(name):
        if name.startswith("V_"):
            return cuts[name]
        if name.endswith("_unused"):
            return 0
        opt = go[name[2:]]
        v = config[opt]
        return len(v) if name.startswith("N_") else v
    zs = [int(val(n)) for n in inf["zleaves"]]
    qs = [float(val(n)) for n in inf["qleaves"]]
    bs = [1 if val(n) else 0 for n in inf["bleaves"]]
    return zs, qs, bs


class LazyLeaves(dict):
    """leaf values looked up on demand: only the branch of a conditional that is taken needs its options"""

    def __init__(self, config, extra=None):
        super().__init__()
        self.config, self.extra = config, extra or {}

    def __missing__(self, name):
        if name in self.extra:
            v = self.extra[name]
        else:
            v = leaf_values(self.config, [(name, None)])[name]
        self[name] = v
        return v


def quantity(gen, name, config, extra=None):
    """double-precision value of one generated quantity of Gen_Scaling (e.g. 'angle', 'e1') for a configuration
    {option: value}; options of branches that are not taken need not be given (KeyError otherwise)"""
    e = unjson(info(gen)["quantities"][name])
    return ev(e, LazyLeaves(config, extra))
