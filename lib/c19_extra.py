"""C19, stages added by the `stdriver` strengthening (seeds C19-G, C19-H); called from lib/props/C19.py.

stage_layout  (C19-H class: a buffering / chunk-wise writer between getPastModulation() and the file)
    Program-level runs whose single flushes cross the STORAGE LAYOUT of /RFKicks/data.  The chunk dimensions are read
    from a results file of the binary under test (harness/h5cat prints `chunk <path> rank c0 c1 ..`), never assumed;
    outstep is m*c-1, m*c, m*c+1 for m = 1,2,3 (c = chunk rows), the run has two such flushes and a shorter final one;
    plus outstep 0 with 3c+1 steps (one flush of more than three chunks) and outstep 1 with more records than three chunks
    of every per-record dataset.  Oracle: the existing one - /RFKicks/data has one row per executed step and row k is
    (syncphase + A sin(2 pi f_mod dt k), 1); every per-record dataset has as many rows as the time axis.

stage_longrun  (C19-G class: the queue is generated / refilled piecewise, an index restarts)
    Program-level runs (8x8 grid, microseconds per step) of more than 2^16 and more than 2^17 steps: every row against the
    closed form with index k itself.  API level (harness/impl_dynq.cpp): one DynamicRFKickMap, `steps` > 2^16 (+ a few) and
    > 2^17 applies with flushes at random distances; records = one per apply, in order, row k against the closed form, queue
    length before the first apply = steps, queue length after j applies = steps - j (never refilled).
"""
import math, os, shutil, struct, subprocess, tempfile
from fractions import Fraction
from vp_common import *
import vp_build
import driver_cases as drv

F_S = 8000.0


def _f32(x):
    return struct.unpack("f", struct.pack("f", x))[0]


def run_bin(tg, out, lin, N, T, outstep, amp_deg, fmod, grid, timeout=180):
    if os.path.exists(out):
        os.remove(out)
    cmd = ["timeout", str(timeout), tg["inovesa"], "-s", str(grid), "-N", str(N), "-T", repr(T), "-n", str(outstep), "-f", repr(F_S),
           "--RFPhaseModAmplitude", repr(amp_deg), "--RFPhaseModFrequency", repr(fmod), "-o", out, "-I", "0.001",
           "--gui", "false", "--LinearRF", "true" if lin else "false", "-Z", "", "--UseCSR", "false", "--tracking", ""]
    r = subprocess.run(cmd, capture_output=True, text=True, env=vp_build.xdg_env())
    return r.returncode, r.stdout + r.stderr, " ".join(cmd[2:])


def read_layout(tg, path):
    """({dataset: dims}, {dataset: chunk dims}, rows of /RFKicks/data as hex tokens or None)"""
    r = subprocess.run(["timeout", "120", tg["h5cat"], path, "--values", "--only", "/RFKicks/data"], capture_output=True, text=True)
    dims, chunks, vals = {}, {}, None
    for line in r.stdout.splitlines():
        p = line.split()
        if len(p) >= 3 and p[0] == "dataset":
            dims[p[1]] = [int(x) for x in p[4:4 + int(p[3])]]
        elif len(p) >= 3 and p[0] == "chunk":
            chunks[p[1]] = [int(x) for x in p[3:3 + int(p[2])]]
        elif len(p) >= 2 and p[0] == "data" and p[1] == "/RFKicks/data":
            vals = p[2:]
    return dims, chunks, vals


def closed_form_bad(vals, n, lin, amp_deg, inc):
    """first row of the flat token list `vals` (phase, amplitude, phase, ...) that is not (ph0 + A sin(2 pi inc k), 1);
    None when all n rows are.  Floating point throughout: `_modtimedelta` and the index are binary32 in the code (2^-24 relative
    each on the argument), libm sine, A and the sum binary32: |error| <= A |arg| 2^-22 + 4*2^-24 (|ph0| + A); the tolerance used
    is that with 2^-21 (same constants as the short program runs of lib/props/C19.py)."""
    if vals is None or len(vals) < 2 * n:
        return dict(k=-1, why="fewer values than rows")
    ph0 = float.fromhex(vals[0])
    A = amp_deg / 360.0 * 2 * math.pi
    delta = _f32(2 * math.pi * inc)
    for k in range(n):
        ph, am = float.fromhex(vals[2 * k]), float.fromhex(vals[2 * k + 1])
        arg = delta * k
        e = ph0 + A * math.sin(arg)
        tol = abs(A) * max(1.0, abs(arg)) / 2 ** 21 + 4.0 / 2 ** 24 * (abs(ph0) + abs(A)) + 1e-30
        if not (abs(ph - e) <= tol) or am != 1.0 or (lin and ph0 != 0.0):
            return dict(k=k, phase=vals[2 * k], amplitude=vals[2 * k + 1], row0=vals[0], expected_phase=e, tol=tol)
    return None


def judge_run(ctx, tg, out, case, n, lin, amp, inc, outstep, kind, md):
    """the C19 oracle on one results file; returns True when the run was usable"""
    dims, chunks, vals = read_layout(tg, out)
    d = dims.get("/RFKicks/data")
    if d != [n, 2]:
        ctx.violation("impl-oracle", "/RFKicks/data has dims %s after %d executed steps (outstep %d): one row per executed step is required" % (d, n, outstep),
                      case=case, observed=d, expected=[n, 2], sig=dict(kind=kind, clause="row-count", model=md))
        return True
    bad = closed_form_bad(vals, n, lin, amp, inc)
    if bad is not None:
        ctx.violation("impl-oracle", "/RFKicks/data row %d of %d is not (syncphase + A sin(2 pi f_mod dt k), 1) with k the step number itself (outstep %d)" % (bad["k"], n, outstep),
                      case=case, observed=bad, expected="closed form, index k", sig=dict(kind=kind, clause="sinusoidal", model=md))
        return True
    # per-record datasets: as many rows as the time axis; the time axis has one entry per output step and the final one
    nt = (dims.get("/Info/AxisValues_t") or [None])[0]
    want_t = (0 if outstep <= 0 else (n - 1) // outstep + 1) + 1
    if nt != want_t:
        ctx.violation("impl-oracle", "/Info/AxisValues_t has %s entries after %d steps with outstep %d (expected %d)" % (nt, n, outstep, want_t),
                      case=case, observed=nt, expected=want_t, sig=dict(kind=kind, clause="record-count", model=md))
    for ds in drv.KIND_DATASETS["Def"] + drv.KIND_DATASETS["Csr"]:
        if ds in dims and dims[ds] and dims[ds][0] != nt:
            ctx.violation("impl-oracle", "%s has %d rows, the time axis %s (outstep %d, %d steps)" % (ds, dims[ds][0], nt, outstep, n),
                          case=case, observed=dims[ds], expected=nt, sig=dict(kind=kind, clause="record-count", model=md))
            break
    return True


def stage_layout(ctx, dis):
    rng = ctx.rng
    tg = ctx.build(harness=("h5cat",), want_binary=True)
    tmp = tempfile.mkdtemp(prefix="c19l_", dir=os.path.join(VERIF, ".cache"))
    try:
        grid = 16
        probe = os.path.join(tmp, "probe.h5")
        rc, so, cmdline = run_bin(tg, probe, False, 4, 1.0, 1, 0.05, 16000.0, grid)
        dims, chunks, _ = read_layout(tg, probe) if rc == 0 else ({}, {}, None)
        crf = (chunks.get("/RFKicks/data") or [None])[0]
        if rc != 0 or not crf:
            ctx.violation("impl-oracle", "probe run for the storage layout failed or /RFKicks/data is not chunked (rc=%s, chunk=%s)" % (rc, chunks.get("/RFKicks/data")),
                          case=dict(kind="layout", cmd=cmdline), observed=so[-300:], sig=dict(kind="layout", clause="probe"))
            return
        ctx.extra["rfkicks_chunk_dims"] = chunks.get("/RFKicks/data")
        per_record = {ds: chunks[ds][0] for ds in drv.KIND_DATASETS["Def"] + drv.KIND_DATASETS["Csr"] if ds in chunks}
        ctx.extra["per_record_chunk_rows"] = sorted(set(per_record.values()))
        cmax = max(per_record.values()) if per_record else crf
        plan = []
        for m in (1, 2, 3):
            for d in (-1, 0, 1):
                o = m * crf + d
                if o > 0:
                    plan.append((o, 2 * o + rng.randrange(1, max(2, o))))      # two flushes of `o` rows, a shorter final one
        plan.append((0, 3 * crf + 1))                                           # one flush of more than three chunks
        plan.append((1, 3 * cmax + 2))                                          # more records than three chunks of every per-record dataset
        if not ctx.quick():
            for m in (4, 5):
                plan.append((m * crf + rng.choice([-1, 0, 1]), (2 * m + 1) * crf + rng.randrange(1, crf)))
        for i, (outstep, n) in enumerate(plan):
            lin = (i % 2 == 0)
            md = "linear" if lin else "sinusoidal"
            N, nexec = n, n                    # -N n -T 1: exactly n steps
            amp, fmod = rng.choice([0.05, 0.2]), rng.choice([0.002, 0.0037, 0.011]) * F_S * N
            out = os.path.join(tmp, "l%d.h5" % i)
            rc, so, cmdline = run_bin(tg, out, lin, N, 1.0, outstep, amp, fmod, grid)
            case = dict(kind="layout", cmd=cmdline, LinearRF=lin, steps=nexec, outstep=outstep, chunk_rows=crf,
                        RFPhaseModAmplitude=amp, RFPhaseModFrequency=fmod, SynchrotronFrequency=F_S)
            if rc != 0 or not os.path.exists(out):
                ctx.violation("impl-oracle", "inovesa failed (rc=%d)" % rc, case=case, observed=so[-400:], sig=dict(kind="layout", clause="run", model=md))
                continue
            judge_run(ctx, tg, out, case, nexec, lin, amp, fmod / (F_S * N), outstep, "layout", md)
            ctx.case_done(("layout", i), nexec > crf)
            ctx.count("layout:flush_spans_%s_chunks" % ("all" if outstep == 0 else ("records" if outstep == 1 else str((outstep + crf - 1) // crf))))
    finally:
        shutil.rmtree(tmp, ignore_errors=True)


# ------------------------------------------------------------------------------------------------ long runs

def stage_longrun_program(ctx, dis):
    rng = ctx.rng
    tg = ctx.build(harness=("h5cat",), want_binary=True)
    tmp = tempfile.mkdtemp(prefix="c19g_", dir=os.path.join(VERIF, ".cache"))
    try:
        runs = [(2 ** 16 + rng.randrange(2, 40), rng.choice([0, 30011])), (2 ** 17 + rng.randrange(2, 40), rng.choice([0, 50021]))]
        if not ctx.quick():
            runs.append((3 * 2 ** 16 + rng.randrange(2, 400), 65536))
        for i, (n, outstep) in enumerate(runs):
            lin = (i + ctx.seed) % 2 == 0
            md = "linear" if lin else "sinusoidal"
            N, nexec = n, n                    # -N n -T 1: exactly n steps
            # a modulation period (1/0.37e-3, 1/0.61e-3 steps) that divides no power of two
            amp, fmod = 0.5, rng.choice([0.37e-3, 0.61e-3]) * F_S * N
            out = os.path.join(tmp, "g%d.h5" % i)
            rc, so, cmdline = run_bin(tg, out, lin, N, 1.0, outstep, amp, fmod, 8, timeout=300)
            case = dict(kind="longrun-program", cmd=cmdline, LinearRF=lin, steps=nexec, outstep=outstep,
                        RFPhaseModAmplitude=amp, RFPhaseModFrequency=fmod, SynchrotronFrequency=F_S)
            if rc != 0 or not os.path.exists(out):
                ctx.violation("impl-oracle", "inovesa failed (rc=%d)" % rc, case=case, observed=so[-400:], sig=dict(kind="longrun", clause="run", model=md))
                continue
            judge_run(ctx, tg, out, case, nexec, lin, amp, fmod / (F_S * N), outstep, "longrun", md)
            ctx.case_done(("longrun-program", i), nexec > 2 ** 16)
            ctx.count("longrun-program:%s" % (">2^17" if nexec > 2 ** 17 else ">2^16"))
    finally:
        shutil.rmtree(tmp, ignore_errors=True)


def stage_longrun_api(ctx, dis):
    """API level: one DynamicRFKickMap built for `steps` steps by main()'s constructor calls (harness/impl_dynq.cpp), applied
    `applies` <= steps times with getPastModulation() at random distances.  Oracles (the statement of
    C19_dynqueue_entry_k_is_consumed_by_apply_k evaluated on the implementation): queue length after construction = steps;
    queue length after j applies = steps - j (never refilled); every flush returns exactly the records since the last one;
    record k = (syncphase + A sin(dphi k), 1) with the index k itself - evaluated with the object's own binary32 members
    (A = _modampl, dphi = _modtimedelta) in emulated binary32, tolerance 4*2^-24*(|syncphase| + |A|): two roundings of the sum,
    one of the product, libm's sine within one unit in the last place."""
    import dynrf_cases as dc
    rng = ctx.rng
    tg = ctx.build(harness=("impl_dynq",), want_binary=False)
    plans = [(2 ** 16 + rng.randrange(2, 64), None), (2 ** 17 + rng.randrange(2, 64), None)]
    if not ctx.quick():
        plans += [(2 ** 18 + rng.randrange(2, 999), None), (2 ** 16, None), (2 ** 16 + 1, None)]
    for pi, (steps, _) in enumerate(plans):
        lin = (pi + ctx.seed) % 2 == 0
        c = dc.gen_rf(rng, "q%d" % pi, lin=lin, zero=False, noise=False, small=True)
        c.n, c.nb, c.it = 8, 1, rng.choice([1, 2, 3, 4])
        c.phasespread = c.amplspread = 0.0
        c.modampl = _f32(rng.uniform(0.01, 0.05))
        c.modinc = rng.choice([0.37e-3, 0.61e-3, 1.3e-3])
        c.steps = steps
        applies = steps if rng.random() < 0.5 else steps - rng.randrange(0, 3)
        fl, j = [], 0
        while True:
            j += rng.choice([1, 2, 777, 4096, 30011, 65535, 65536, 65537])
            if j >= applies:
                break
            fl.append(j)
        text = "longq %s %s %d %d %s\n" % (c.cid, c.args(), applies, len(fl), " ".join(str(x) for x in fl))
        rc, out, err = run_driver(tg["impl_dynq"], text, timeout=600)
        case = dict(kind="longrun-api", rf=c.describe(), steps=steps, applies=applies, flush_at=fl)
        md = "linear" if lin else "sinusoidal"
        if rc != 0:
            ctx.violation("impl-oracle", "impl_dynq failed (rc=%d)" % rc, case=case, observed=err[-400:], sig=dict(kind="longrun-api", clause="run", model=md))
            continue
        mem, qlen0, flushes, rec = None, None, [], None
        for line in out.splitlines():
            p = line.split()
            if not p:
                continue
            if p[0] == "members":
                mem = [float.fromhex(x) for x in p[1:]]
            elif p[0] == "qlen0":
                qlen0 = int(p[1])
            elif p[0] == "flush":
                flushes.append(tuple(int(x) for x in p[1:]))
            elif p[0] == "rec":
                rec = p[1:]
        ctx.count("longrun-api:%s" % (">2^17" if steps > 2 ** 17 else (">2^16" if steps > 2 ** 16 else "<=2^16")))
        ctx.case_done(("longrun-api", pi), applies > 2 ** 16)
        # the property needs a record for every step the caller may execute (`steps`) - a longer queue would be harmless, a shorter
        # one means front() on an empty queue (or a refill) before the run is over; the theorem says the code builds exactly `steps`
        if qlen0 is None or qlen0 < steps:
            ctx.violation("impl-oracle", "the queue built by the constructor for steps=%d holds only %s entries" % (steps, qlen0), case=case,
                          observed=qlen0, expected=steps, sig=dict(kind="longrun-api", clause="queue-length", model=md))
            continue
        if qlen0 != steps:
            dis.append(dict(case=case, detail="queue length after construction: implementation %d, model (C19_dynqueue_entry_k_is_consumed_by_apply_k) %d" % (qlen0, steps),
                            sig=dict(kind="longrun-api", stage="correspondence")))
        last = 0
        badf = None
        for (j, ql, chunk) in flushes:
            if ql != qlen0 - j or chunk != j - last:
                badf = (j, ql, chunk, last)
                break
            last = j
        if badf is not None:
            j, ql, chunk, last = badf
            ctx.violation("impl-oracle", "after %d applies (steps=%d) the queue holds %d entries (expected %d: it is never refilled) and the flush returned %d records (expected %d)" % (
                          j, steps, ql, qlen0 - j, chunk, j - last), case=case, observed=dict(queue=ql, chunk=chunk), expected=dict(queue=qlen0 - j, chunk=j - last),
                          sig=dict(kind="longrun-api", clause="queue-length", model=md))
            continue
        if rec is None or len(rec) != 2 * applies:
            ctx.violation("impl-oracle", "%s records for %d applies" % (None if rec is None else len(rec) // 2, applies), case=case,
                          observed=None if rec is None else len(rec) // 2, expected=applies, sig=dict(kind="longrun-api", clause="row-count", model=md))
            continue
        sync, A, dphi = mem
        tol = 4.0 / 2 ** 24 * (abs(sync) + abs(A)) + 1e-38
        for k in range(applies):
            e = _f32(_f32(sync) + _f32(A * _f32(math.sin(_f32(dphi * k)))))
            ph, am = float.fromhex(rec[2 * k]), float.fromhex(rec[2 * k + 1])
            if not (abs(ph - e) <= tol) or am != 1.0:
                ctx.violation("impl-oracle", "record %d of %d is not (syncphase + A sin(dphi k), 1) with the index k itself (steps=%d)" % (k, applies, steps), case=case,
                              observed=dict(k=k, phase=rec[2 * k], amplitude=rec[2 * k + 1]), expected=dict(phase=e, amplitude=1, tol=tol, syncphase=sync, A=A, dphi=dphi),
                              sig=dict(kind="longrun-api", clause="sinusoidal", model=md))
                break


def run_all(ctx, dis, coq):
    stage_layout(ctx, dis)
    stage_longrun_program(ctx, dis)
    stage_longrun_api(ctx, dis)
