"""Generators, runners, comparator and error budgets for the `moments` correspondence cases
(PhaseSpace: Simpson weights, projections, integral, normalize, average/variance, copy, assign).

A case: geometry (n, nb, extents of both axes, set filling), an operation history applied to
an object constructed from `data`, then the dumps printed by harness/impl_moments.cpp and
coq/Extract/md_moments.ml: s (object), c (copy), cv (copy after variance), t (second object of
geometry 2 / data2 after `t = s`), tv (t after variance)."""
import math
from fractions import Fraction
from vp_common import f32, fhex, qtok, parse_c, parse_q, parse_cases, run_driver
import vp_coq

U = Fraction(1, 2 ** 24)
OPS = {0: "updateXProjection", 1: "updateYProjection", 2: "integrate", 3: "normalize",
       4: "average(0)", 5: "average(1)", 6: "variance(0)", 7: "variance(1)", 8: "integrateAndNormalize"}
STATES = ("s", "c", "cv", "t", "tv")
TAGS = ("data", "px", "py", "fill", "int", "m00", "m01", "m10", "m11")


def ruler(n, mn, mx):
    """Ruler<float>: delta = (max-min)/float(n-1); at(i) = min + float(i)*delta.  Every step is one
    binary32 operation; evaluating it in binary64 and rounding once more is exact (53 >= 2*24+2)."""
    d = f32(f32(mx - mn) / float(n - 1))
    return d, [f32(mn + f32(float(i) * d)) for i in range(n)]


class Geo:
    def __init__(self, n, qmin, qmax, pmin, pmax, fs):
        self.n = n
        self.qmin, self.qmax, self.pmin, self.pmax = qmin, qmax, pmin, pmax
        self.fs = list(fs)
        self.d0, self.q = ruler(n, qmin, qmax)
        self.d1, self.p = ruler(n, pmin, pmax)

    def impl_tokens(self):
        return [fhex(self.qmin), fhex(self.qmax), fhex(self.pmin), fhex(self.pmax)] + [fhex(v) for v in self.fs]

    def model_tokens(self):
        return [qtok(Fraction(v)) for v in (self.qmin, self.d0, self.pmin, self.d1)] + [qtok(Fraction(v)) for v in self.fs]

    def same(self, o):
        return (self.qmin, self.qmax, self.pmin, self.pmax, self.fs) == (o.qmin, o.qmax, o.pmin, o.pmax, o.fs)

    def describe(self):
        return dict(q=[fhex(self.qmin), fhex(self.qmax)], p=[fhex(self.pmin), fhex(self.pmax)],
                    filling=[fhex(v) for v in self.fs], delta=[self.d0, self.d1])


class MCase:
    def __init__(self, cid, n, nb, geo, geo2, ops, data, data2, stream, kind, meta=None):
        self.cid, self.n, self.nb, self.geo, self.geo2 = cid, n, nb, geo, geo2
        self.ops, self.data, self.data2 = list(ops), data, data2
        self.stream, self.kind = stream, kind
        self.meta = meta or {}

    def impl_text(self):
        t = ["moments", self.cid, str(self.n), str(self.nb)] + self.geo.impl_tokens() + self.geo2.impl_tokens()
        t += [str(len(self.ops))] + [str(o) for o in self.ops]
        t += [fhex(v) for v in self.data] + [fhex(v) for v in self.data2]
        return " ".join(t) + "\n"

    def model_text(self):
        t = ["moments", self.cid, str(self.n), str(self.nb)] + self.geo.model_tokens() + self.geo2.model_tokens()
        t += [str(len(self.ops))] + [str(o) for o in self.ops]
        t += [qtok(Fraction(v)) for v in self.data] + [qtok(Fraction(v)) for v in self.data2]
        return " ".join(t) + "\n"

    def describe(self):
        return dict(kind="moments", stream=self.stream, data_kind=self.kind, n=self.n, nb=self.nb,
                    geometry=self.geo.describe(), same_geometry=self.geo.same(self.geo2),
                    ops=[OPS[o] for o in self.ops], meta=self.meta)

    def replay(self):
        return dict(kind="moments", cid=self.cid, n=self.n, nb=self.nb, stream=self.stream, data_kind=self.kind,
                    geo=[fhex(self.geo.qmin), fhex(self.geo.qmax), fhex(self.geo.pmin), fhex(self.geo.pmax)],
                    fs=[fhex(v) for v in self.geo.fs],
                    geo2=[fhex(self.geo2.qmin), fhex(self.geo2.qmax), fhex(self.geo2.pmin), fhex(self.geo2.pmax)],
                    fs2=[fhex(v) for v in self.geo2.fs], ops=self.ops,
                    data=[fhex(v) for v in self.data], data2=[fhex(v) for v in self.data2], meta=self.meta)


def from_replay(d):
    fl = float.fromhex
    g = Geo(d["n"], *[fl(v) for v in d["geo"]], [fl(v) for v in d["fs"]])
    g2 = Geo(d["n"], *[fl(v) for v in d["geo2"]], [fl(v) for v in d["fs2"]])
    return MCase(d.get("cid", "r0"), d["n"], d["nb"], g, g2, d["ops"], [fl(v) for v in d["data"]],
                 [fl(v) for v in d["data2"]], d.get("stream", "tol"), d.get("data_kind", "rand"), d.get("meta"))


# ------------------------------------------------------------------------------------ generators

def gen_filling(rng, nb, exact):
    if nb == 1:
        return [1.0]
    c = rng.random()
    if nb == 2:
        pats = [[0.5, 0.5], [1.0, 0.0], [0.0, 1.0], [0.75, 0.25], [0.25, 0.75], [0.125, 0.875]]
    else:
        pats = [[0.5, 0.25, 0.25], [0.5, 0.0, 0.5], [0.0, 1.0, 0.0], [0.25, 0.75, 0.0], [0.0, 0.0, 1.0],
                [0.125, 0.375, 0.5], [1.0, 0.0, 0.0], [0.25, 0.25, 0.5]]
    if exact or c < 0.55:
        return list(rng.choice(pats))
    # arbitrary shares (floats; the constructor accepts |sum-1| < 5e-6), maybe with an empty bucket
    w = [rng.random() + 0.05 for _ in range(nb)]
    if rng.random() < 0.35:
        w[rng.randrange(nb)] = 0.0
    s = sum(w)
    return [f32(v / s) for v in w]


def gen_geo(rng, n, nb, exact, fs=None):
    fs = fs if fs is not None else gen_filling(rng, nb, exact)
    if exact:
        # spacing 3*2^-k: h/3 and every Simpson weight are exact in binary32; dyadic origin
        d0 = 3.0 / 2 ** rng.randint(1, 4)
        d1 = d0 if rng.random() < 0.5 else rng.choice([3.0, 1.0, 5.0]) / 2 ** rng.randint(1, 4)
        ext = []
        for d in (d0, d1):
            if rng.random() < 0.5:
                mn = -(n - 1) * d / 2
            else:
                mn = -(n - 1) * d / 2 + rng.randint(-12, 12) * d / 4
            ext += [mn, mn + (n - 1) * d]
        g = Geo(n, ext[0], ext[1], ext[2], ext[3], fs)
        assert g.d0 == d0 and g.d1 == d1
        return g
    sym = rng.random()
    def one():
        if sym < 0.4:
            a = f32(rng.uniform(2, 9))
            return -a, a
        if sym < 0.8:
            c, h = rng.uniform(-4, 4), rng.uniform(2, 8)
            return f32(c - h), f32(c + h)
        lo = rng.uniform(0.5, 3)
        return f32(lo), f32(lo + rng.uniform(3, 9))
    q = one()
    c = rng.random()
    if c < 0.4:
        p = q
    else:
        p = one()
    return Geo(n, q[0], q[1], p[0], p[1], fs)


def gauss_params(rng, ax, d, n):
    """(mean, width, analytic_ok): analytic_ok (mean +- 5 sigma inside the axis, sigma >= 2 cells) marks the
    Gaussians that are compared with their analytic mean and width; the others only feed the
    correspondence and the algebraic oracles"""
    lo, hi = ax[0], ax[-1]
    L = hi - lo
    if rng.random() < 0.7 and L / 10.0 > 2.0 * d:
        s = rng.uniform(2.0 * d, L / 10.0)
        mu = rng.uniform(lo + 5 * s, hi - 5 * s)
        return mu, s, True
    s = rng.uniform(min(1.2 * d, L / 8.0), L / 6.0)
    mu = rng.uniform(lo + 3 * s, hi - 3 * s) if hi - 3 * s > lo + 3 * s else (lo + hi) / 2
    return mu, s, False


def gen_data(rng, geo, nb, kind, n, meta=None, tag="b"):
    data = [0.0] * (nb * n * n)
    for b in range(nb):
        k = kind
        if k == "int" or k == "signed":
            dens = rng.choice([0.15, 0.5, 1.0])
            lo = -3 if k == "signed" else 0
            nz = False
            for x in range(n):
                for y in range(n):
                    if rng.random() < dens:
                        v = float(rng.randint(lo, 4))
                        data[(b * n + x) * n + y] = v
                        nz = nz or v > 0
            if not nz:
                data[(b * n + rng.randrange(n)) * n + rng.randrange(n)] = 2.0
            if k == "signed":
                # keep the measured charge away from zero
                data[(b * n + n // 2) * n + n // 2] = 64.0
        elif k in ("gauss", "mix"):
            comps = []
            for _ in range(1 if k == "gauss" else 2):
                gx, gy = gauss_params(rng, geo.q, geo.d0, n), gauss_params(rng, geo.p, geo.d1, n)
                comps.append((f32(rng.uniform(0.05, 3.0)), gx, gy))
            for x in range(n):
                for y in range(n):
                    v = 0.0
                    for a, (mx, sx, _), (my, sy, _) in comps:
                        v += a * math.exp(-0.5 * ((geo.q[x] - mx) / sx) ** 2 - 0.5 * ((geo.p[y] - my) / sy) ** 2)
                    # fixed-point grid 2^-20 (keeps the exact rational model fast; tails below 1e-6 vanish)
                    data[(b * n + x) * n + y] = f32(round(v * 2 ** 20) / 2.0 ** 20)
            if meta is not None:
                meta.setdefault(tag, {})[str(b)] = [[a, list(gx), list(gy)] for a, gx, gy in comps]
        else:  # rand: arbitrary non-negative floats, dense or sparse
            dens = rng.choice([0.1, 0.5, 1.0])
            for x in range(n):
                for y in range(n):
                    if rng.random() < dens:
                        data[(b * n + x) * n + y] = f32(rng.random() * rng.choice([1.0, 1.0, 100.0, 1e-3]))
            if not any(data[(b * n + x) * n + y] > 0 for x in range(n) for y in range(n)):
                data[(b * n + rng.randrange(n)) * n + rng.randrange(n)] = 1.0
    return data


def _rebalance(rng, geo, nb, n, data):
    """rescale the bunches in place so that bunch b integrates (Simpson weights of PhaseSpace::simpsonWeights in both
    directions) to share_b*(1+e_b) with the e_b of both signs and the total equal to one to double precision"""
    h3 = geo.d0 / 3.0
    ws = [h3] + [h3 * (4.0 if x % 2 == 1 else 2.0) for x in range(1, n - 1)] + [h3]
    ints = []
    for b in range(nb):
        ints.append(sum(ws[x] * ws[y] * data[(b * n + x) * n + y] for x in range(n) for y in range(n)))
    filled = [b for b in range(nb) if geo.fs[b] > 0 and ints[b] > 0]
    if len(filled) < 2:
        return False
    tgt = list(geo.fs)
    a, c = filled[0], filled[-1]
    shift = rng.choice([0.1, 0.25, 0.4]) * min(tgt[a], tgt[c])
    tgt[a] += shift
    tgt[c] -= shift
    for b in range(nb):          # an empty bucket that holds charge takes it from a filled one
        if geo.fs[b] <= 0 and ints[b] > 0:
            tgt[b] = 0.1 * tgt[a]
            tgt[a] -= tgt[b]
    for b in range(nb):
        if ints[b] > 0:
            f = tgt[b] / ints[b]
            for x in range(n):
                for y in range(n):
                    data[(b * n + x) * n + y] = f32(data[(b * n + x) * n + y] * f)
    return True


HISTORIES = {
    "fresh": [],
    "share": [3, 0, 1, 2, 6, 7],          # normalize on a fresh cache, refresh, moments
    "raw-moments": [6, 7],
    "stale": [3],                          # normalize, caches not refreshed
    "double": [3, 3, 0, 1, 2, 6, 7],       # second normalize reads the cached (stale) filling
    "avg-only": [4, 5],
    "share-x": [3, 0, 2, 6],               # as the main loop does: x projection and integral only
    # the main loop's renormalisation (RenormalizeCharge > 0): updateXProjection(); integrateAndNormalize() -
    # the second round starts from caches that are stale after the first normalisation
    "loop-renorm": [0, 8, 0, 8, 0, 2, 6],
    "loop-renorm-stale": [3, 0, 8, 0, 1, 2, 6, 7],
}


def gen_case(rng, cid, stream, sizes=None, force=None):
    force = force or {}
    exact = stream == "exact"
    n = force.get("n") or rng.choice(sizes or list(range(5, 34)))
    nb = force.get("nb") or rng.choice([1, 2, 3])
    for _ in range(20):
        geo = gen_geo(rng, n, nb, exact)
        if exact:
            kind = force.get("kind") or rng.choice(["int", "int", "signed"])
        else:
            kind = force.get("kind") or rng.choice(["gauss", "mix", "rand", "rand"])
        meta = {}
        data = gen_data(rng, geo, nb, kind, n, meta, "gauss")
        if data is None:
            continue
        if force.get("other_geometry") or (force.get("other_geometry") is None and rng.random() < 0.12):
            geo2 = gen_geo(rng, n, nb, exact)
            if geo2.d0 == geo.d0:
                geo2 = Geo(n, geo.qmin, f32(geo.qmax + (geo.qmax - geo.qmin)), geo.pmin, geo.pmax, geo.fs)
        else:
            geo2 = geo
        k2 = "int" if exact else "rand"
        data2 = gen_data(rng, geo2, nb, k2, n)
        hname = force.get("hist") or rng.choice(list(HISTORIES) + ["random"])
        if nb >= 2 and not exact and kind != "signed" and (force.get("balance") or (force.get("balance") is None and rng.random() < 0.2)):
            # total charge exactly one, shares off: one bunch holds what another lacks.  integrateAndNormalize() must
            # still restore every bunch's own share (a renormalisation that looks at the total only does nothing here)
            if _rebalance(rng, geo, nb, n, data):
                hname = rng.choice(["loop-renorm", "loop-renorm-stale"])
                meta["balanced_total"] = True
        if kind == "signed":
            ops = [rng.choice([0, 1, 2]) for _ in range(rng.randint(0, 4))]
            hname = "linear"
        elif hname == "random":
            # cache operations in any order, then the moment calls (so that the dumped moments belong
            # to the dumped arrays and the tolerance can be computed from them)
            ops = [rng.choice([0, 1, 2, 3, 8]) for _ in range(rng.randint(1, 5))] + \
                  [rng.randint(4, 7) for _ in range(rng.randint(0, 3))]
        else:
            ops = HISTORIES[hname]
        meta["history"] = hname
        return MCase(cid, n, nb, geo, geo2, ops, data, data2, stream, kind, meta)
    raise RuntimeError("could not generate a case")


# ------------------------------------------------------------------------------------ running

def _cost(c):
    heavy = 1.0 if c.stream == "exact" else 6.0
    return heavy * c.nb * c.n ** 3 * (2 + len(c.ops))


def _run_model(cases, workers=14):
    """the extracted model is slow on 24-bit rationals: run balanced chunks in parallel"""
    from concurrent.futures import ThreadPoolExecutor
    chunks = [[] for _ in range(max(1, min(workers, len(cases))))]
    load = [0.0] * len(chunks)
    for c in sorted(cases, key=_cost, reverse=True):
        k = load.index(min(load))
        chunks[k].append(c)
        load[k] += _cost(c)
    def one(ch):
        rc, out, err = run_driver(vp_coq.model_path("moments"), "".join(c.model_text() for c in ch), timeout=3000)
        if rc != 0:
            raise RuntimeError("model_moments failed rc=%d: %s" % (rc, err[-2000:]))
        return parse_cases(out)
    model = {}
    with ThreadPoolExecutor(max_workers=len(chunks)) as ex:
        for r in ex.map(one, chunks):
            model.update(r)
    return model


def run_cases(ctx, cases, tg=None):
    tg = tg or ctx.build(harness=("impl_moments",))
    rc, out, err = run_driver(tg["impl_moments"], "".join(c.impl_text() for c in cases))
    if rc != 0:
        raise RuntimeError("impl_moments failed rc=%d: %s" % (rc, err[-2000:]))
    impl = parse_cases(out)
    model = _run_model(cases)
    res = {}
    for c in cases:
        i, m = impl.get(c.cid), model.get(c.cid)
        if i is None or m is None:
            raise RuntimeError("case %s missing in driver output" % c.cid)
        res[c.cid] = dict(impl={k: [parse_c(t) for t in v[0]] for k, v in i.items()},
                          model={k: [parse_q(t) for t in v[0]] for k, v in m.items()})
    return res


def run_impl(ctx, cases, tg=None):
    tg = tg or ctx.build(harness=("impl_moments",))
    rc, out, err = run_driver(tg["impl_moments"], "".join(c.impl_text() for c in cases))
    if rc != 0:
        raise RuntimeError("impl_moments failed rc=%d: %s" % (rc, err[-2000:]))
    impl = parse_cases(out)
    return {c.cid: {k: [parse_c(t) for t in v[0]] for k, v in impl[c.cid].items()} for c in cases}


# ------------------------------------------------------------------------------------ error budgets

class Budget:
    """relative error budgets (units of 2^-24) of the cached arrays of one object, propagated through
    the history.  Derivation (standard model fl(a.b) = (a.b)(1+e), |e| <= 2^-24; all data >= 0 so
    every sum of products has condition number 1):
      weight: delta/3 and the product with 4 or 2 -> 2;   projection: data + weight + product + (n-1) additions;
      filling: projection + weight + product + (n-1) additions;  integral: filling + nb additions;
      normalize: data + filling + quotient + product.
    `exact` says that every operation so far was exact (exact stream only)."""
    def __init__(self, n, nb, exact):
        self.n, self.nb = n, nb
        self.e = dict(data=0, px=0, py=0, fill=0, int=0)
        self.exact = dict(data=exact, px=exact, py=exact, fill=exact, int=exact)

    def refresh(self):
        for o in (0, 1, 2):
            self.op(o)

    def op(self, o):
        n, nb, e, x = self.n, self.nb, self.e, self.exact
        if o == 0:
            e["px"] = e["data"] + n + 2; x["px"] = x["data"]
        elif o == 1:
            e["py"] = e["data"] + n + 2; x["py"] = x["data"]
        elif o == 2:
            e["fill"] = e["px"] + n + 2; e["int"] = e["fill"] + nb
            x["fill"] = x["px"]; x["int"] = x["px"]
        elif o == 3:
            e["data"] = e["data"] + e["fill"] + 2; x["data"] = False
        elif o == 8:
            self.op(2)
            self.op(3)

    def copy_constructed(self):
        b = Budget(self.n, self.nb, False)
        b.e["data"] = self.e["data"]; b.exact["data"] = self.exact["data"]
        b.refresh()
        return b


def moment_tols(geo, axis, proj, fill, mean_m, b, bud, n):
    """tolerances of mean and variance of bunch b computed from the model's own (exact) arrays"""
    ax = geo.q if axis == 0 else geo.p
    mn = abs(Fraction(geo.qmin if axis == 0 else geo.pmin))
    d = Fraction(geo.d0 if axis == 0 else geo.d1)
    ep = bud.e["px" if axis == 0 else "py"]
    ef = bud.e["fill"]
    pr = proj[b * n:(b + 1) * n]
    qa = [mn + abs(Fraction(i) * d) + abs(Fraction(ax[i])) for i in range(n)]
    scale = abs(d / fill)
    k1 = ep + ef + n + 6
    tol_mean = 2 * k1 * U * scale * sum(abs(pr[i]) * qa[i] for i in range(n))
    acc = Fraction(0)
    var = Fraction(0)
    for i in range(n):
        dq = abs(Fraction(ax[i]) - mean_m)
        ei = U * qa[i] + tol_mean + U * dq
        acc += abs(pr[i]) * (2 * dq * ei + ei * ei)
        var += abs(pr[i]) * dq * dq
    tol_var = 2 * (scale * acc + k1 * U * scale * var)
    return tol_mean, tol_var


def compare_case(c, r):
    """model vs implementation on every dumped quantity; -> list of (what, detail)"""
    im, mo = r["impl"], r["model"]
    n, nb = c.n, c.nb
    dis = []
    exact = c.stream == "exact"
    signed = c.kind == "signed"

    def cmp(tag, tol_fn):
        a, m = im[tag], mo[tag]
        if len(a) != len(m):
            dis.append((tag, dict(what="length", impl=len(a), model=len(m))))
            return
        for k in range(len(a)):
            tol = tol_fn(k, m[k])
            if isinstance(a[k], str) or abs(a[k] - m[k]) > tol:
                dis.append((tag, dict(index=k, impl=str(a[k]), model=str(m[k]), tol=str(tol))))
                return

    # geometry: the float rulers are reproduced exactly by ruler(); weights: 2 roundings
    if im["geo.d"] != [Fraction(c.geo.d0), Fraction(c.geo.d1)]:
        dis.append(("geo.d", dict(impl=[str(v) for v in im["geo.d"]], expected=[c.geo.d0, c.geo.d1])))
    if im["geo.q"] != [Fraction(v) for v in c.geo.q] or im["geo.p"] != [Fraction(v) for v in c.geo.p]:
        dis.append(("geo.axis", dict(what="Ruler::at differs from min + i*delta evaluated in binary32")))
    cmp("geo.ws", lambda k, m: 0 if exact else 2 * U * abs(m))
    cmp("geo.q", lambda k, m: 0 if exact else U * (abs(Fraction(c.geo.qmin)) + 2 * abs(m)))
    cmp("geo.p", lambda k, m: 0 if exact else U * (abs(Fraction(c.geo.pmin)) + 2 * abs(m)))

    bs = Budget(n, nb, exact)
    bs.refresh()
    for o in c.ops:
        bs.op(o)
    bc = bs.copy_constructed()
    if exact:
        for k in ("px", "py", "fill", "int"):
            bc.exact[k] = bc.exact["data"]
    buds = dict(s=bs, c=bc, cv=bc, t=bc, tv=bc)
    geos = dict(s=c.geo, c=c.geo, cv=c.geo, t=c.geo2, tv=c.geo2)
    for st in STATES:
        bud = buds[st]
        for tag in ("data", "px", "py", "fill", "int"):
            e = bud.e[tag]
            ex = bud.exact[tag]
            cmp("%s.%s" % (st, tag), (lambda k, m, e=e, ex=ex: 0 if ex else 2 * (e + 1) * U * abs(m)))
        if signed:
            continue
        g = geos[st]
        for axis in (0, 1):
            proj = mo["%s.p%s" % (st, "xy"[axis])]
            for b in range(nb):
                fill = mo["%s.fill" % st][b]
                t0, t1 = "%s.m%d0" % (st, axis), "%s.m%d1" % (st, axis)
                if g.fs[b] > 0 and fill == 0:
                    # 0/0 in the code (NaN), x/0 in the field model: outside the model (only reachable by
                    # assigning a zeroed bucket to an object whose own pattern gives that bucket a share)
                    continue
                if g.fs[b] > 0:
                    tm, tv = moment_tols(g, axis, proj, fill, mo[t0][b], b, bud, n)
                else:
                    tm = tv = Fraction(0)
                for tag, tol in ((t0, tm), (t1, tv)):
                    a, m = im[tag][b], mo[tag][b]
                    if isinstance(a, str) or abs(a - m) > tol:
                        dis.append((tag, dict(bunch=b, impl=str(a), model=str(m), tol=str(tol))))
    return dis
