"""C11: split points given as decimal numbers (the way a user types them), not only dyadic ones.

The property quantifies over ALL split points T1.  The triples of lib/props/C11.py use dyadic run lengths only (exact in
binary32, laststep(T) = N*T).  Here the run lengths are decimal strings; the number of steps each run takes is predicted by
the exact mirror of main()'s `laststep` line (`h5_cases.Cfg.laststep`: IEEE double products, as in Python) and read back
from the time axis of the results file.  When the step counts add up (L1 + L2 = L3) the continuation must end in the same
phase space as the uninterrupted run (bit for bit with RenormalizeCharge < 0); when they do not, the statement of C11
fails on the implementation for this input.

History: on the pinned tree `rotations` was narrowed to float and `laststep = ceil(steps*rotations)`: `-N 100 -T 0.3` took
31 steps, `-T 0.6` 61, so 0.3 + 0.3 ended one step after 0.6 - found by this stage (finding
`split-step-count-not-additive`, fixed in the repo: doubles and a 1e-12 guard against rounding noise)."""
import os
from decimal import Decimal
from vp_common import *
import h5_cases as hc

FIXED = [(100, "0.3", "0.3"), (100, "0.07", "0.07"), (10, "0.3", "0.3"), (100, "0.25", "0.5"), (20, "0.35", "0.15"),
         (50, "0.1", "0.2"), (25, "0.2", "0.4")]


def cases(rng, quick):
    cs = list(FIXED)
    for _ in range(3 if quick else 40):
        N = rng.choice([10, 20, 25, 40, 50, 100])
        k1, k2 = rng.randint(1, N), rng.randint(1, N // 2)
        cs.append((N, str(Decimal(k1) / Decimal(N)), str(Decimal(k2) / Decimal(N))))
    return cs


def last_tag(h):
    ax = h.values("/PhaseSpace/axis0")
    return ax[-1], len(ax)


def run_splits(ctx, tg, dis):
    for i, (N, T1, T2) in enumerate(cases(ctx.rng, ctx.quick())):
        T3 = str(Decimal(T1) + Decimal(T2))
        kw = dict(n=16, steps=N, outstep=10 ** 6, save=1, gap=0, renorm=-1, padding=2, currents=[3e-4], zoom=1.3)
        wd = hc.workdir()
        try:
            f1, f2, f3 = (os.path.join(wd, x) for x in ("leg1.h5", "leg2.h5", "single.h5"))
            c1 = hc.Cfg(rot=T1, **kw)
            c2 = hc.Cfg(rot=T2, start=(f1, None), **kw)
            c3 = hc.Cfg(rot=T3, **kw)
            L = [c.laststep() for c in (c1, c2, c3)]
            case = dict(kind="decimal-split", N=N, T1=T1, T2=T2, T3=T3, predicted_steps=L,
                        cmd=[" ".join(str(a) for a in c.args(os.path.basename(f), None)) for c, f in ((c1, f1), (c2, f2), (c3, f3))])
            ok = True
            for c, f in ((c1, f1), (c2, f2), (c3, f3)):
                rc, so, se = hc.run_inovesa(tg, c.args(f, wd), timeout=300)
                if rc != 0 or not os.path.exists(f):
                    ctx.violation("impl-oracle", "inovesa failed (rc=%s) on %s" % (rc, os.path.basename(f)), case=case,
                                  observed=(so + se)[-500:], sig=dict(kind="restart", clause="run"))
                    ok = False
                    break
            if not ok:
                continue
            hs = [hc.h5cat(tg, f, only=["/PhaseSpace"]) for f in (f1, f2, f3)]
            tags = [last_tag(h)[0] for h in hs]
            # the mirror of main()'s laststep line against the file: final tag = float(laststep)/steps
            for Lk, tg_k, nm in zip(L, tags, ("leg 1", "leg 2", "single run")):
                if tg_k != hc.f32(Lk / float(N)):
                    dis.append(dict(case=case, detail="%s: final time tag %r, predicted %d steps of 1/%d" % (nm, tg_k, Lk, N),
                                    sig=dict(kind="restart", stage="correspondence", what="laststep")))
            n = 16
            fin2 = hs[1].values("/PhaseSpace/data")[-n * n:]
            fin3 = hs[2].values("/PhaseSpace/data")[-n * n:]
            first2 = hs[1].values("/PhaseSpace/data")[:n * n]
            last1 = hs[0].values("/PhaseSpace/data")[-n * n:]
            if first2 != last1:
                ctx.violation("impl-oracle", "the first phase space of the continued run is not the stored last record", case=case,
                              sig=dict(kind="restart", clause="loaded", split="decimal"))
            additive = L[0] + L[1] == L[2]
            ctx.count("decimal-split:%s" % ("additive" if additive else "not-additive"))
            if fin2 != fin3:
                nd = sum(1 for a, b in zip(fin2, fin3) if a != b)
                if additive:
                    ctx.violation("impl-oracle", "continued run and uninterrupted run end in different phase spaces (%d cells differ) although both take "
                                  "%d steps in all" % (nd, L[2]), case=case, sig=dict(kind="restart", clause="continuation", split="decimal"))
                else:
                    ctx.violation("impl-oracle", "continuing for T2=%s periods after T1=%s does not end where one run over %s periods ends: the two legs "
                                  "take %d+%d steps, the single run %d (ceil(steps*rotations) counts a step more where N*T exceeds a whole number "
                                  "by rounding)" % (T2, T1, T3, L[0], L[1], L[2]), case=case,
                                  observed=dict(cells_differ=nd, steps=L), expected="the same phase space",
                                  sig=dict(kind="restart", clause="continuation", cause="laststep-not-additive"))
            elif not additive:
                dis.append(dict(case=case, detail="step counts %s do not add up and yet the final phase spaces are equal" % L,
                                sig=dict(kind="restart", stage="correspondence", what="laststep")))
            ctx.case_done(("decimal-split", N, T1, T2), True)
        finally:
            hc.cleanup(wd)
