"""C11: split points given as decimal numbers (the way a user types them), not only dyadic ones.

The property quantifies over ALL split points T1.  The triples of lib/props/C11.py use dyadic run lengths only (exact in
binary32, laststep(T) = N*T).  Here the run lengths are decimal strings; the number of steps each run takes is predicted by
the exact mirror of main()'s `laststep` line (`h5_cases.Cfg.laststep`: IEEE double products, as in Python) and read back
from the time axis of the results file.  When the step counts add up (L1 + L2 = L3) the continuation must end in the same
phase space as the uninterrupted run (bit for bit with RenormalizeCharge < 0); when they do not, the statement of C11
fails on the implementation for this input.

History: on the pinned tree `rotations` was narrowed to float and `laststep = ceil(steps*rotations)`: `-N 100 -T 0.3` took
31 steps, `-T 0.6` 61, so 0.3 + 0.3 ended one step after 0.6 - found by this stage (finding
`split-step-count-not-additive`, fixed in the repo: doubles and a 1e-12 guard against rounding noise).

Family laststep (theorems C11_laststep_* / C11_source_laststep_*, Proofs/LastStepP.v, Gen/Gen_LastStep.v):
 * splits whose second leg is a fraction of a step (T1 = k1/N, T2 = f/N with f = 1e-3 .. 1e-10): the counts must be
   k1, 1, k1+1 - a guard factor that eats intended fractions, `std::round` or `std::floor` show here;
 * every run's executed step count (read from the final time tag) is compared with what the theorems say for run
   lengths in their domain (`spec_steps`): k for T = k/N, m+1 for m(1+2e-12) <= N*T <= m+1;
 * `model_pairs`: the mirror `h5_cases.laststep_of` against the extracted `Records.laststep` on 10^4 generated
   (steps, rotations) pairs - on the step grid up to 2^30, decimal run lengths, products within 1e-15..1e-9 (relative) of
   whole numbers on either side, non-integer steps per period - and both against the theorems where they apply."""
import math, os
from decimal import Decimal
from fractions import Fraction
from vp_common import *
import h5_cases as hc

FIXED = [(100, "0.3", "0.3"), (100, "0.07", "0.07"), (10, "0.3", "0.3"), (100, "0.25", "0.5"), (20, "0.35", "0.15"),
         (50, "0.1", "0.2"), (25, "0.2", "0.4"),
         # second leg = a fraction of a step (1e-5, 1e-7, 1e-10 steps): 30+1 = 31, 7+1 = 8, 3+1 = 4
         (1000, "0.03", "0.00000001"), (100, "0.07", "0.000000001"), (10, "0.3", "0.00000000001")]
MARGIN = Fraction(2, 10 ** 12)          # frac_margin of Proofs/LastStepP.v


def dec(x):
    return format(Decimal(x), "f")


def cases(rng, quick):
    cs = list(FIXED)
    for _ in range(3 if quick else 40):
        N = rng.choice([10, 20, 25, 40, 50, 100])
        k1, k2 = rng.randint(1, N), rng.randint(1, N // 2)
        cs.append((N, dec(Decimal(k1) / Decimal(N)), dec(Decimal(k2) / Decimal(N))))
    for _ in range(2 if quick else 30):
        N = rng.choice([10, 20, 25, 40, 50, 100, 1000])
        k1 = rng.randint(1, min(N, 60))
        f = Decimal(rng.choice([1, 2, 4, 5])) / Decimal(10) ** rng.randint(1, 9)        # 0.5 .. 1e-9 steps (relative excess >= 1.6e-11)
        cs.append((N, dec(Decimal(k1) / Decimal(N)), dec(f / Decimal(N))))
    return cs


def spec_steps(N, T):
    """number of steps the theorems give for a run over the decimal run length T at N (integer) steps per period, or None
    outside their domain: k for T = k/N exactly (C11_laststep_on_step_grid; the parser returns the double nearest to T),
    m+1 for m*(1+2e-12) <= N*double(T) <= m+1 with m >= 1 (C11_laststep_fractional_rounds_up), 1 for 0 < N*double(T) <= 1
    (C11_laststep_first_step)"""
    x = Fraction(N) * Fraction(Decimal(T))
    if x.denominator == 1 and 0 <= x <= 2 ** 30 and 1 <= N <= 2 ** 30:
        return int(x)
    xd = Fraction(N) * Fraction(float(T))
    m = xd.numerator // xd.denominator
    if m >= 1 and m * (1 + MARGIN) <= xd <= m + 1:
        return m + 1
    if Fraction(1, 2 ** 1000) <= xd <= 1:
        return 1
    return None


def last_tag(h):
    ax = h.values("/PhaseSpace/axis0")
    return ax[-1], len(ax)


def run_splits(ctx, tg, dis):
    for i, (N, T1, T2) in enumerate(cases(ctx.rng, ctx.quick())):
        T3 = dec(Decimal(T1) + Decimal(T2))
        kw = dict(n=16, steps=N, outstep=10 ** 6, save=1, gap=0, renorm=-1, padding=2, currents=[3e-4], zoom=1.3)
        wd = hc.workdir()
        try:
            f1, f2, f3 = (os.path.join(wd, x) for x in ("leg1.h5", "leg2.h5", "single.h5"))
            c1 = hc.Cfg(rot=T1, **kw)
            c2 = hc.Cfg(rot=T2, start=(f1, None), **kw)
            c3 = hc.Cfg(rot=T3, **kw)
            L = [c.laststep() for c in (c1, c2, c3)]
            case = dict(kind="decimal-split", N=N, T1=T1, T2=T2, T3=T3, predicted_steps=L,
                        cmd=[" ".join(str(a) for a in c.args(os.path.basename(f), None)) for c, f in ((c1, f1), (c2, f2), (c3, f3))])
            ok = True
            for c, f in ((c1, f1), (c2, f2), (c3, f3)):
                rc, so, se = hc.run_inovesa(tg, c.args(f, wd), timeout=300)
                if rc != 0 or not os.path.exists(f):
                    ctx.violation("impl-oracle", "inovesa failed (rc=%s) on %s" % (rc, os.path.basename(f)), case=case,
                                  observed=(so + se)[-500:], sig=dict(kind="restart", clause="run"))
                    ok = False
                    break
            if not ok:
                continue
            hs = [hc.h5cat(tg, f, only=["/PhaseSpace"]) for f in (f1, f2, f3)]
            tags = [last_tag(h)[0] for h in hs]
            # the mirror of main()'s laststep line against the file: final tag = float(laststep)/steps
            X = [int(round(t * N)) for t in tags]          # executed steps (tags are binary32 values of k/N, k small)
            case["executed_steps"] = X
            for Lk, tg_k, nm in zip(L, tags, ("leg 1", "leg 2", "single run")):
                if tg_k != hc.f32(Lk / float(N)):
                    dis.append(dict(case=case, detail="%s: final time tag %r, predicted %d steps of 1/%d" % (nm, tg_k, Lk, N),
                                    sig=dict(kind="restart", stage="correspondence", what="laststep")))
            # ... and the executed step counts against the theorems (run lengths in their domain)
            for Xk, Tk, nm in zip(X, (T1, T2, T3), ("leg 1", "leg 2", "single run")):
                sp = spec_steps(N, Tk)
                if sp is not None:
                    ctx.count("run-length:in-theorem-domain")
                    if sp != Xk:
                        ctx.violation("impl-oracle", "%s over T=%s synchrotron periods at %d steps per period executes %d steps; the requested time is "
                                      "covered after exactly %d steps (C11_laststep_on_step_grid / C11_laststep_fractional_rounds_up)" % (nm, Tk, N, Xk, sp),
                                      case=case, observed=Xk, expected=sp, sig=dict(kind="restart", clause="run-length", cause="laststep"))
            n = 16
            fin2 = hs[1].values("/PhaseSpace/data")[-n * n:]
            fin3 = hs[2].values("/PhaseSpace/data")[-n * n:]
            first2 = hs[1].values("/PhaseSpace/data")[:n * n]
            last1 = hs[0].values("/PhaseSpace/data")[-n * n:]
            if first2 != last1:
                ctx.violation("impl-oracle", "the first phase space of the continued run is not the stored last record", case=case,
                              sig=dict(kind="restart", clause="loaded", split="decimal"))
            additive = X[0] + X[1] == X[2]          # executed counts (equal to the mirror's L unless reported above)
            ctx.count("decimal-split:%s" % ("additive" if additive else "not-additive"))
            if fin2 != fin3:
                nd = sum(1 for a, b in zip(fin2, fin3) if a != b)
                if additive:
                    ctx.violation("impl-oracle", "continued run and uninterrupted run end in different phase spaces (%d cells differ) although both take "
                                  "%d steps in all" % (nd, X[2]), case=case, sig=dict(kind="restart", clause="continuation", split="decimal"))
                else:
                    ctx.violation("impl-oracle", "continuing for T2=%s periods after T1=%s does not end where one run over %s periods ends: the two legs "
                                  "take %d+%d steps, the single run %d (the step count main() derives from steps*rotations is not additive "
                                  "on the step grid)" % (T2, T1, T3, X[0], X[1], X[2]), case=case,
                                  observed=dict(cells_differ=nd, steps=X), expected="the same phase space",
                                  sig=dict(kind="restart", clause="continuation", cause="laststep-not-additive"))
            elif not additive:
                dis.append(dict(case=case, detail="step counts %s do not add up and yet the final phase spaces are equal" % X,
                                sig=dict(kind="restart", stage="correspondence", what="laststep")))
            ctx.case_done(("decimal-split", N, T1, T2), True)
        finally:
            hc.cleanup(wd)


# ------------------------------------------------------------------------------------------------------------------
# the mirror of main()'s laststep line against the extracted model (no binary involved)

def gen_pairs(rng, n):
    """(kind, steps: float, rot: float, expected or None)"""
    ps = [("grid", 100.0, float(Fraction(k, 100)), k) for k in (30, 60, 7, 14, 0, 1, 100)]
    def logint(hi):
        return max(1, int(2 ** (rng.random() * math.log2(hi))))
    while len(ps) < n:
        r = rng.random()
        if r < 0.35:
            # on the step grid: T = the double nearest to k/N (N, k up to 2^30)
            N, k = logint(2 ** 30), rng.choice([0, logint(2 ** 30), logint(2 ** 30), rng.randint(1, 4000)])
            ps.append(("grid", float(N), float(Fraction(k, N)), k))
        elif r < 0.5:
            # a decimal run length as typed: a few digits
            N = rng.choice([1, 2, 8, 10, 20, 25, 40, 50, 100, 125, 1000, rng.randint(1, 5000)])
            T = dec(Decimal(rng.randint(0, 10 ** rng.randint(1, 7))) / Decimal(10) ** rng.randint(1, 7))
            ps.append(("decimal", float(N), float(T), spec_steps(N, T)))
        elif r < 0.9:
            # N*T within 1e-15 .. 1e-9 (relative) of a whole number m, above or below
            N, m = logint(2 ** 20), logint(2 ** 24)
            d = Fraction(10) ** rng.randint(-15, -10) * rng.randint(1, 99) / 10 * rng.choice([1, 1, -1])
            T = float(Fraction(m, N) * (1 + d))
            xd = Fraction(N) * Fraction(T)
            exp = None
            if m * (1 + MARGIN) <= xd <= m + 1:
                exp = m + 1
            elif xd == m:
                exp = m
            ps.append(("near", float(N), T, exp))
        else:
            # non-integer steps per period (StepsPerRevolution given): mirror against model only
            ps.append(("real", rng.uniform(0.5, 5000.0), rng.uniform(0.0, 20.0), None))
    return ps


def model_pairs(ctx, dis, n=None):
    n = n or (10000 if ctx.quick() else 60000)
    ps = gen_pairs(ctx.rng, n)
    mt = "".join("laststep p%d %s %s\n" % (i, qtok(Fraction(s)), qtok(Fraction(r))) for i, (_, s, r, _) in enumerate(ps))
    m = hc.run_model(mt)
    nbad = 0
    for i, (kind, s, r, exp) in enumerate(ps):
        mod, mir = hc.pz(m["p%d" % i]["laststep"][0]), hc.laststep_of(s, r)
        ctx.evaluations += 1
        ctx.count("laststep-pair:" + kind + ("" if exp is None else "+theorem"))
        if (mod != mir or (exp is not None and exp != mod)) and nbad < 5:
            nbad += 1
            dis.append(dict(case=dict(kind="laststep-pair", sub=kind, steps=s.hex(), rotations=r.hex()),
                            detail=dict(model=mod, mirror=mir, theorem=exp),
                            sig=dict(kind="restart", stage="correspondence", what="laststep-model")))
    ctx.case_done("laststep-pairs", True)
