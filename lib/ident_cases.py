"""Identity map (inc/SM/Identity.hpp): main() uses it in place of the wake kick (no impedance) and of the
Fokker-Planck step (no damping).  The model is the copy loop with the element count and indices generated from the
source (Gen/Gen_Identity.v, Model/WakeUpdate.v: ident_apply; theorems C01_identity_* / C08_identity_slice).  Oracle on
the implementation: after apply() the target grid equals the source grid bit for bit for every bunch, whatever the
target held before, the plain sum over all cells of all bunches is the same (C01), and the source is untouched.
Correspondence: the extracted model (model_run, case kind `ident`) on the same source/target grids, exactly."""
from fractions import Fraction
from vp_common import *
import vp_coq


def ident_subcheck(ctx, pid):
    rng = ctx.rng
    tg = ctx.build(harness=("impl_ident",))
    cases = []
    for i in range(12 if ctx.quick() else 120):
        n = rng.choice([4, 5, 8, 16, 17])
        nb = rng.choice([1, 2, 2, 3, 3])
        tot = nb * n * n
        din = [f32(rng.uniform(-2, 2)) if rng.random() < 0.7 else 0.0 for _ in range(tot)]
        dout = [f32(rng.uniform(-2, 2)) for _ in range(tot)] if rng.random() < 0.7 else [0.0] * tot
        cases.append(("i%d" % i, n, nb, din, dout))
    text = "".join("ident %s %d %d %s %s\n" % (cid, n, nb, " ".join(fhex(v) for v in din), " ".join(fhex(v) for v in dout))
                   for cid, n, nb, din, dout in cases)
    rc, out, err = run_driver(tg["impl_ident"], text)
    if rc != 0:
        raise RuntimeError("impl_ident failed: " + err[-500:])
    res = parse_cases(out)
    for cid, n, nb, din, dout in cases:
        o = [parse_c(t) for t in res[cid]["out"][0]]
        i2 = [parse_c(t) for t in res[cid]["in"][0]]
        exp = [Fraction(v) for v in din]
        for b in range(nb):
            sl = slice(b * n * n, (b + 1) * n * n)
            if o[sl] != exp[sl]:
                k = next(j for j in range(n * n) if o[sl][j] != exp[sl][j])
                ctx.violation("impl-oracle", "the identity step does not hand bunch %d of a %d-bunch grid on unchanged (cell %d)" % (b, nb, k),
                              case=dict(kind="ident", n=n, nb=nb, data=[fhex(v) for v in din], target_before=[fhex(v) for v in dout]),
                              observed=str(o[sl][k]), expected=str(exp[sl][k]),
                              sig=dict(kind="ident", clause="copy" if pid != "C08" else "slice", b_ge1=b >= 1))
                break
        if pid == "C01" and all(not isinstance(v, str) for v in o) and sum(o) != sum(exp):
            ctx.violation("impl-oracle", "the identity step changes the total charge of a %d-bunch grid" % nb,
                          case=dict(kind="ident", n=n, nb=nb, data=[fhex(v) for v in din], target_before=[fhex(v) for v in dout]),
                          observed=str(sum(o)), expected=str(sum(exp)), sig=dict(kind="ident", clause="conservation"))
        if i2 != exp:
            ctx.violation("impl-oracle", "the identity step changes its input grid", case=dict(kind="ident", n=n, nb=nb),
                          sig=dict(kind="ident", clause="input"))
        ctx.case_done(("ident", cid), nb > 1 and any(v != 0 for v in din[n * n:]))
        ctx.count("ident:nb%d" % nb)
    # correspondence with the extracted copy model (exact: a copy does not round)
    dis = []
    mtext = "".join("ident %s %d %d %s %s\n" % (cid, n, nb, " ".join(qtok(Fraction(v)) for v in din), " ".join(qtok(Fraction(v)) for v in dout))
                    for cid, n, nb, din, dout in cases)
    try:
        rc, out, err = run_driver(vp_coq.model_path("run"), mtext)
        if rc != 0:
            raise RuntimeError(err[-300:])
        mres = parse_cases(out)
    except Exception as e:
        return [dict(case=dict(kind="ident"), detail="identity model unavailable: %s" % str(e)[:300],
                     sig=dict(kind="ident", stage="correspondence", clause="model-unavailable"))]
    for cid, n, nb, din, dout in cases:
        o = [parse_c(t) for t in res[cid]["out"][0]]
        m = [parse_q(t) for t in mres[cid]["out"][0]]
        if o != m:
            k = next(j for j in range(len(o)) if o[j] != m[j])
            dis.append(dict(case=dict(kind="ident", n=n, nb=nb, data=[fhex(v) for v in din], target_before=[fhex(v) for v in dout]),
                            detail=dict(cell=k, impl=str(o[k]), model=str(m[k])), sig=dict(kind="ident", stage="correspondence")))
    return dis
