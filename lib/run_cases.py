"""Family `run` (C08 run level, C01 identity map): several full transport steps on an nb-bunch grid at API level
(harness/impl_run.cpp, wired as main() wires the maps) against single-bunch runs of every slice (bit-exact, same binary)
and against the extracted run model (coq/Extract/md_run.ml: run_driver = the list program proved to compute Model/Run.v's
`run`).  Every random choice comes from ctx.rng."""
import math
from fractions import Fraction
from vp_common import *
import vp_coq


class RunCase:
    def __init__(self, cid, n, nb, it, steps, half, angle, dt, v, e1, wmode, data, inj=None, field=None, note=""):
        self.cid, self.n, self.nb, self.it, self.steps = cid, n, nb, it, steps
        self.half, self.angle, self.dt, self.v, self.e1 = half, angle, dt, v, e1
        self.wmode, self.data, self.inj, self.field, self.note = wmode, data, inj, field, note

    def impl_text(self):
        t = ["run", self.cid, self.n, self.nb, self.it, self.steps, fhex(self.half), fhex(self.angle), self.dt, self.v,
             fhex(self.e1), self.wmode]
        if self.wmode == "inject":
            for o in self.inj:
                t += [fhex(x) for x in o]
        elif self.wmode == "field":
            f = self.field
            t += [f["N"], f["spacing"]] + list(f["buckets"]) + [repr(float(f["scal"]))]
            t += [fhex(x) for x in f["zre"]] + [fhex(x) for x in f["zim"]]
        t += [fhex(x) for x in self.data]
        return " ".join(str(x) for x in t) + "\n"

    def with_(self, cid, **kw):
        c = RunCase(cid, self.n, self.nb, self.it, self.steps, self.half, self.angle, self.dt, self.v, self.e1,
                    self.wmode, self.data, self.inj, self.field, self.note)
        for k, val in kw.items():
            setattr(c, k, val)
        return c

    def describe(self):
        return dict(id=self.cid, n=self.n, nb=self.nb, it=self.it, steps=self.steps, angle=self.angle, dt=self.dt, v=self.v,
                    e1=self.e1, wake=self.wmode, note=self.note,
                    field=None if not self.field else dict(N=self.field["N"], spacing=self.field["spacing"],
                                                           buckets=self.field["buckets"], scal=self.field["scal"]))

    def replay(self):
        d = self.describe()
        d["kind"] = "run"
        d["data"] = [fhex(x) for x in self.data]
        if self.inj:
            d["inject"] = [[fhex(x) for x in o] for o in self.inj]
        if self.field:
            d["field"] = dict(self.field, zre=[fhex(x) for x in self.field["zre"]], zim=[fhex(x) for x in self.field["zim"]])
        return d


def blob_data(rng, n, nb, kind):
    """data of nb bunches: smooth off-centre blobs (float32) or signed noise"""
    d = []
    for b in range(nb):
        cx, cy = (n - 1) / 2 + rng.uniform(-n / 6, n / 6), (n - 1) / 2 + rng.uniform(-n / 6, n / 6)
        sx, sy = rng.uniform(n / 10, n / 5), rng.uniform(n / 10, n / 5)
        amp = rng.uniform(0.2, 2.0)
        for x in range(n):
            for y in range(n):
                if kind == "noise":
                    val = rng.uniform(-1, 1)
                else:
                    val = amp * math.exp(-((x - cx) ** 2 / (2 * sx * sx) + (y - cy) ** 2 / (2 * sy * sy)))
                    if kind == "dented":
                        val *= 1 + 0.3 * math.sin(0.9 * x + 0.4 * y + b)
                d.append(f32(val))
    return d


def gen_case(rng, cid, nbs=(2, 3), wmodes=("field", "none"), max_n=14, max_steps=3):
    nb = rng.choice(nbs)
    it = rng.choice([1, 2, 3, 4])
    dt = rng.choice([0, 3, 3, 4])
    n = rng.randint(8 if dt == 4 else 6, max_n)
    steps = rng.randint(1, max_steps)
    angle = f32(rng.uniform(0.05, 0.3))
    v = rng.choice([1, 2, 3, 3]) if dt else 0
    e1 = f32(rng.uniform(0.005, 0.08)) if dt else 0.0
    wmode = rng.choice(wmodes)
    data = blob_data(rng, n, nb, rng.choice(["blob", "blob", "dented", "noise"]))
    field = None
    if wmode == "field":
        spacing = n + rng.randint(0, n)
        bk = sorted(rng.sample(range(0, nb + 2), nb), reverse=True)
        need = bk[0] * spacing + n
        N = 1
        while N < 2 * need:
            N *= 2
        zre = [f32(rng.uniform(0, 1) / (1 + 0.05 * i)) for i in range(N)]
        zim = [f32(rng.uniform(-1, 1) / (1 + 0.05 * i)) for i in range(N)]
        field = dict(N=N, spacing=spacing, buckets=bk, scal=1.0, zre=zre, zim=zim, target=rng.uniform(0.4, 2.5))
    return RunCase(cid, n, nb, it, steps, 6.0, angle, dt, v, e1, wmode, data, None, field)


def run_impl(ctx, cases):
    """-> {cid: dict(axes, rfoff, droff, fptab, wp[k], woff[k], wtab, g[k])} (values: Fractions or 'nan'/'inf')"""
    tg = ctx.build(harness=("impl_run",))
    rc, out, err = run_driver(tg["impl_run"], "".join(c.impl_text() for c in cases))
    if rc != 0:
        raise RuntimeError("impl_run failed rc=%d: %s" % (rc, err[-1500:]))
    raw = parse_cases(out)
    res = {}
    for c in cases:
        r = raw.get(c.cid)
        if r is None:
            raise RuntimeError("case %s missing in impl_run output" % c.cid)
        d = dict(wp={}, woff={}, g={}, wtab=None)
        d["axes"] = [parse_c(t) for t in r["axes"][0]]
        d["rfoff"] = [parse_c(t) for t in r["rfoff"][0][1:]]
        d["droff"] = [parse_c(t) for t in r["droff"][0][1:]]
        ft = r["fptab"][0]
        d["fptab"] = [(int(ft[k]), parse_c(ft[k + 1])) for k in range(0, len(ft), 2)]
        for tag in ("wp", "woff", "g"):
            for row in r.get(tag, []):
                d[tag][int(row[0])] = [parse_c(t) for t in row[1:]]
        for row in r.get("wtab", []):
            t = row[1:]
            d["wtab"] = [(int(t[k]), parse_c(t[k + 1])) for k in range(0, len(t), 2)]
        res[c.cid] = d
    return res


def calibrate(ctx, cases):
    """field-mode cases: choose `scal` so that the first wake potential has the drawn magnitude (in cells)"""
    fc = [c for c in cases if c.wmode == "field"]
    if not fc:
        return
    probe = [c.with_(c.cid + "_p", steps=1) for c in fc]
    res = run_impl(ctx, probe)
    for c in fc:
        w = res[c.cid + "_p"]["wp"][0]
        m = max((abs(x) for x in w if not isinstance(x, str)), default=0)
        c.field = dict(c.field)
        c.field["scal"] = float(c.field["target"] / m) if m > 0 else 1.0


def finite(l):
    return not any(isinstance(x, str) for x in l)


# ------------------------------------------------------------------------------------------------ model side

def model_text(c, r, steps=None, data=None, first=0):
    """the run model on the implementation's own inputs: RF/drift fields = block 0 of the offset vectors the constructors
    built, Fokker-Planck table = the table the constructor built, wake potentials = what wakePotential() returned"""
    n, nb = c.n, c.nb
    steps = c.steps if steps is None else steps
    data = c.data if data is None else data
    ip = c.dt
    t = ["run", c.cid if first == 0 and steps == c.steps else "%s@%d" % (c.cid, first), n, nb, c.it, steps, ip]
    t += [qtok(x) for x in r["rfoff"][:n]] + [qtok(x) for x in r["droff"][:n]]
    for (i, w) in r["fptab"]:
        t += ["%x" % i, qtok(w)]
    if c.wmode == "none":
        t.append("none")
    else:
        t.append("some")
        src = r["wp"] if c.wmode == "field" else r["woff"]
        for k in range(first, first + steps):
            t += [qtok(x) for x in src[k][:nb * n]]
    t += [qtok(Fraction(x)) for x in data]
    return " ".join(str(x) for x in t) + "\n"


def run_model(texts):
    rc, out, err = run_driver(vp_coq.model_path("run"), "".join(texts), timeout=900)
    if rc != 0:
        raise RuntimeError("model_run failed rc=%d: %s" % (rc, err[-800:]))
    raw = parse_cases(out)
    res = {}
    for cid, r in raw.items():
        d = dict(woff={}, g={}, wtab=None)
        for row in r.get("woff", []):
            d["woff"][int(row[0])] = [parse_q(t) for t in row[1:]]
        for row in r.get("g", []):
            d["g"][int(row[0])] = [parse_q(t) for t in row[1:]]
        for row in r.get("wtab", []):
            t = row[1:]
            d["wtab"] = [(int(t[k], 16), parse_q(t[k + 1])) for k in range(0, len(t), 2)]
        res[cid] = d
    return res


def gains(c, r):
    """row sums of |weights|: kick tables (bound 5/4 for the interpolation orders used, 1 for it <= 2) and the
    Fokker-Planck table the constructor built"""
    gk = Fraction(1) if c.it <= 2 else Fraction(5, 4)
    gf = Fraction(1)
    if c.dt:
        rows = [sum(abs(w) for (_, w) in r["fptab"][j * c.dt:(j + 1) * c.dt]) for j in range(c.n)]
        gf = max([Fraction(1)] + rows)
    return gk, gf


def out_tol(c, r, steps, data):
    """K * 2^-24 * maps * gain * max|data| with K = 16 per map (4-point weighted sum incl. the rounding of the weights
    and of the offsets' integer/fraction split: 8, doubled for the Fokker-Planck weights built in float)"""
    gk, gf = gains(c, r)
    g = (gk ** 3 * gf) ** steps
    mx = max(abs(Fraction(x)) for x in data)
    return Fraction(16, 2 ** 24) * 4 * steps * g * mx


def compare_model(ctx, c, r, dis):
    """multi-bunch run: model vs implementation.  (i) all steps, compared after the last one; (ii) one step started from
    the implementation's grid before it (tight tolerance); offsets after update() exactly; table entry by entry."""
    n, nb = c.n, c.nb
    if not all(finite(r["g"][k]) for k in r["g"]) or any(i >= n for (i, _) in r["fptab"]):
        return
    texts = [model_text(c, r)]
    k1 = None
    if c.steps > 1:
        k1 = ctx.rng.randint(1, c.steps - 1)
        texts.append(model_text(c, r, steps=1, data=r["g"][k1 - 1], first=k1))
    try:
        m = run_model(texts)
    except Exception as e:      # the proof stage reports why the model is unavailable
        dis.append(dict(case=c.replay(), detail="run model unavailable: %s" % str(e)[:300],
                        sig=dict(kind="run", stage="correspondence", clause="model-unavailable")))
        return
    mm = m[c.cid]
    sig = dict(kind="run", stage="correspondence", wake=c.wmode)
    if c.wmode != "none":
        for k in range(c.steps):
            if mm["woff"][k] != r["woff"][k][:nb * n]:
                j = next(i for i in range(nb * n) if mm["woff"][k][i] != r["woff"][k][i])
                dis.append(dict(case=c.replay(), detail=dict(what="offset vector after update()", step=k, entry=j,
                                                             impl=str(r["woff"][k][j]), model=str(mm["woff"][k][j])), sig=sig))
                return
        if r["wtab"] is not None and mm["wtab"] is not None:
            for q, ((ii, iw), (mi, mw)) in enumerate(zip(r["wtab"], mm["wtab"])):
                tol = 0 if c.it <= 2 and False else Fraction(8, 2 ** 24) * max(1, abs(mw))
                if ii != mi or isinstance(iw, str) or abs(iw - mw) > tol:
                    dis.append(dict(case=c.replay(), detail=dict(what="kick table after update()", entry=q, impl=[ii, str(iw)],
                                                                 model=[mi, str(mw)]), sig=sig))
                    return
    last = c.steps - 1
    tol = out_tol(c, r, c.steps, c.data)
    for i, (iv, mv) in enumerate(zip(r["g"][last], mm["g"][last])):
        if abs(iv - mv) > tol:
            dis.append(dict(case=c.replay(), detail=dict(what="grid after %d step(s)" % c.steps, cell=i, impl=str(iv), model=str(mv),
                                                         tol=str(float(tol))), sig=sig))
            return
    if k1 is not None:
        m1 = m["%s@%d" % (c.cid, k1)]
        tol = out_tol(c, r, 1, r["g"][k1 - 1])
        for i, (iv, mv) in enumerate(zip(r["g"][k1], m1["g"][0])):
            if abs(iv - mv) > tol:
                dis.append(dict(case=c.replay(), detail=dict(what="step %d from the implementation's grid before it" % k1, cell=i,
                                                             impl=str(iv), model=str(mv), tol=str(float(tol))), sig=sig))
                return


# ------------------------------------------------------------------------------------------------ the subcheck

def single_of(c, r, b):
    """bunch b on its own: same maps, its own data, the wake slot driven by the potentials computed for bunch b"""
    n = c.n
    data = c.data[b * n * n:(b + 1) * n * n]
    if c.wmode == "none":
        return c.with_("%s_b%d" % (c.cid, b), nb=1, data=data)
    src = r["wp"] if c.wmode == "field" else r["woff"]
    inj = [[float(x) for x in src[k][b * n:(b + 1) * n]] for k in range(c.steps)]
    return c.with_("%s_b%d" % (c.cid, b), nb=1, data=data, wmode="inject", inj=inj, field=None)


def first_diff(a, b):
    return next((i for i in range(min(len(a), len(b))) if a[i] != b[i]), None)


def c08_run_subcheck(ctx):
    """returns the list of model/implementation disagreements; oracle violations go to ctx"""
    rng = ctx.rng
    dis = []
    nc = 10 if ctx.quick() else 120
    cases = []
    for i in range(nc):
        wm = ("field",) if i % 2 == 0 else ("none", "field")
        cases.append(gen_case(rng, "r%d" % i, wmodes=wm, max_n=12 if ctx.quick() else 20))
    # identical bunches without impedance (property: stay identical, reproduce the single-bunch run)
    for i in range(4 if ctx.quick() else 40):
        c = gen_case(rng, "t%d" % i, nbs=(2, 3, 4), wmodes=("none",), max_n=16, max_steps=5)
        n = c.n
        c.data = c.data[:n * n] * c.nb
        c.note = "identical bunches, no impedance"
        cases.append(c)
    # an empty bucket between bunches
    for i in range(4 if ctx.quick() else 40):
        c = gen_case(rng, "e%d" % i, nbs=(3,), wmodes=("field", "none"), max_n=12)
        n = c.n
        e = rng.randrange(c.nb)
        c.data = [0.0 if e * n * n <= j < (e + 1) * n * n else x for j, x in enumerate(c.data)]
        c.empty = e
        c.note = "bucket %d empty" % e
        cases.append(c)
    calibrate(ctx, cases)
    res = run_impl(ctx, cases)
    singles = [single_of(c, res[c.cid], b) for c in cases for b in range(c.nb)]
    # data in the empty bucket replaced: the other bunches must not notice (same injected potentials)
    variants = []
    for c in cases:
        if hasattr(c, "empty"):
            n, e = c.n, c.empty
            r = res[c.cid]
            other = blob_data(rng, n, 1, "dented")
            d2 = [other[j - e * n * n] if e * n * n <= j < (e + 1) * n * n else x for j, x in enumerate(c.data)]
            if c.wmode == "none":
                variants.append((c, c.with_(c.cid + "_v", data=d2), c))
            else:
                inj = [[float(x) for x in r["wp"][k]] for k in range(c.steps)]
                base = c.with_(c.cid + "_i", wmode="inject", inj=inj, field=None)
                variants.append((c, base.with_(c.cid + "_v", data=d2), base))
    extra = singles + [v for (_, v, _) in variants] + [b for (c, _, b) in variants if b is not c]
    res2 = run_impl(ctx, extra)
    for c in cases:
        r = res[c.cid]
        n, nb = c.n, c.nb
        ok = all(finite(r["g"][k]) for k in range(c.steps))
        # wake copy: the offset vector after update() is the array wakePotential() returned, and nothing else
        if c.wmode == "field":
            for k in range(c.steps):
                if len(r["woff"][k]) != nb * n or r["woff"][k] != r["wp"][k]:
                    j = first_diff(r["woff"][k], r["wp"][k])
                    ctx.violation("impl-oracle", "after WakePotentialMap::update() the kick map's offset vector is not the wake potential "
                                  "the field computed (step %d, entry %s of %d)" % (k, j, len(r["woff"][k])), case=c.replay(),
                                  observed=dict(offset=str(r["woff"][k][j]) if j is not None else None,
                                                wake=str(r["wp"][k][j]) if j is not None else None),
                                  sig=dict(kind="run", clause="wake-copy"))
                    break
        # RF / drift offset blocks: what the model is fed with is block 0
        if any(r["rfoff"][b * n:(b + 1) * n] != r["rfoff"][:n] for b in range(nb)):
            ctx.violation("impl-oracle", "the RF kick offsets differ between bunches", case=c.replay(), sig=dict(kind="run", clause="rf-blocks"))
        for b in range(nb):
            s = res2["%s_b%d" % (c.cid, b)]
            for k in range(c.steps):
                sl = r["g"][k][b * n * n:(b + 1) * n * n]
                if sl != s["g"][k]:
                    j = first_diff(sl, s["g"][k])
                    what = ("bunch %d of a %d-bunch run differs after step %d from the single-bunch run of the same data " % (b, nb, k + 1)) + \
                           ("(no impedance)" if c.wmode == "none" else "kicked by the wake potential computed for that bunch")
                    ctx.violation("impl-oracle", what, case=c.replay(), observed=dict(cell=j, multi=str(sl[j]), single=str(s["g"][k][j])),
                                  sig=dict(kind="run", clause="slice", wake=c.wmode != "none", b_ge1=b >= 1))
                    break
            nz = any(x != 0 for x in c.data[b * n * n:(b + 1) * n * n])
            ctx.case_done(("run", c.cid, b), ok and nz and b >= 1)
        if c.note.startswith("identical"):
            for k in range(c.steps):
                g = r["g"][k]
                for b in range(1, nb):
                    if g[b * n * n:(b + 1) * n * n] != g[:n * n]:
                        j = first_diff(g[b * n * n:(b + 1) * n * n], g[:n * n])
                        ctx.violation("impl-oracle", "identical bunches in a run without impedance differ after step %d (bunch %d vs bunch 0)" % (k + 1, b),
                                      case=c.replay(), observed=dict(cell=j), sig=dict(kind="run", clause="identical", b_ge1=True))
                        break
        if hasattr(c, "empty"):
            e = c.empty
            for k in range(c.steps):
                if any(x != 0 for x in r["g"][k][e * n * n:(e + 1) * n * n]):
                    ctx.violation("impl-oracle", "an empty bucket (%d of %d) holds charge after step %d" % (e, nb, k + 1), case=c.replay(),
                                  sig=dict(kind="run", clause="empty-stays-empty"))
                    break
        ctx.count("run:wake-" + c.wmode)
        ctx.count("run:nb%d" % nb)
        ctx.count("run:it%d" % c.it)
        ctx.count("run:fp%d" % c.dt)
    for (c, var, base) in variants:
        n, e = c.n, c.empty
        rb = res[base.cid] if base is c else res2[base.cid]
        rv = res2[var.cid]
        for k in range(c.steps):
            for b in range(c.nb):
                if b != e and rb["g"][k][b * n * n:(b + 1) * n * n] != rv["g"][k][b * n * n:(b + 1) * n * n]:
                    ctx.violation("impl-oracle", "filling bucket %d changes bunch %d (same wake potentials injected) after step %d" % (e, b, k + 1),
                                  case=var.replay(), sig=dict(kind="run", clause="bucket-inert", wake=c.wmode != "none"))
                    break
        ctx.case_done(("run-variant", c.cid), True)
    # model correspondence on the multi-bunch runs.  Exact rational arithmetic: the cost grows with the square of the
    # number of steps (numerators and denominators gain ~70 bits per map), about 1 ms per unit of nb*n*n*steps^2*it
    budget = 9000 if ctx.quick() else 150000
    for c in cases:
        cost = c.nb * c.n * c.n * c.steps ** 2 * c.it
        if cost <= budget and cost <= 7000:
            compare_model(ctx, c, res[c.cid], dis)
            budget -= cost
            ctx.count("run:model")
            ctx.count("run:model-steps%d" % c.steps)
    ctx.sample(cases[0].describe())
    return dis


# ------------------------------------------------------------------------------------------------ program level

PER_BUNCH = ["/BunchLength/data", "/EnergySpread/data", "/BunchPosition/data", "/EnergyAverage/data"]


def _columns(h, path):
    """dataset of dims (records, nb) -> list of nb columns (python floats)"""
    dims = h.dims(path)
    if dims is None or len(dims) != 2:
        return None
    vals = h.values(path)
    rec, nb = dims
    return [[vals[r * nb + b] for r in range(rec)] for b in range(nb)]


def c08_program_subcheck(ctx):
    """the inovesa binary without impedance (-G 0): a filling pattern of equal bunches (optionally with empty buckets
    between them) against the single-bunch run of the same machine.  What is compared, and why bit for bit:
    PhaseSpace's constructor gives bunch b the Gaussian scaled to its share filling[b] of the charge, and every
    transport step, projection and integral is linear in the data, so for a share that is a power of two (2 or 4 equal
    bunches) every float of the bunch's grid is the single-bunch float times the share, exactly; the per-bunch moments
    are normalised by the bunch's own measured charge, so /BunchLength, /EnergySpread, /BunchPosition, /EnergyAverage
    of every bunch at every record equal the single-bunch numbers, and /PhaseSpace/data of bunch b equals share times
    the single-bunch record (underflow aside: cells below 2^-120 are compared with an absolute 2^-140)."""
    import h5_cases as h5
    rng = ctx.rng
    tg = ctx.build(harness=("h5cat",), want_binary=True)
    wd = h5.workdir()
    dis = []
    nconf = 4 if ctx.quick() else 16
    try:
        for ci in range(nconf):
            n = rng.choice([24, 32, 40])
            steps = rng.choice([16, 20, 30])
            rot = rng.choice(["0.5", "0.75", "1"])
            outstep = rng.choice([3, 4, 5])
            renorm = rng.choice([0, 0, 4, -1])
            itp = rng.choice([2, 3, 4])
            der = rng.choice([3, 4])
            linrf = rng.choice([1, 1, 0])
            damp = rng.choice([None, None, 0, 0.002])
            sx, sy = rng.choice([0, 0, 1, -2]), rng.choice([0, 0, 1, -1])
            zoom = rng.choice([None, 1.5])
            cur = 1e-3
            patterns = [[cur], [cur, cur], [cur, 0.0, cur], [cur, cur, 0.0, cur, cur]] if ci % 2 == 0 else \
                       [[cur], [cur, cur], [0.0, cur, 0.0, 0.0, cur], [cur, cur, cur, cur]]
            base = ["-s", n, "-N", steps, "-T", rot, "-n", outstep, "--SavePhaseSpace", 1, "-G", 0, "--UseCSR", 0,
                    "--RenormalizeCharge", renorm, "--InterpolationPoints", itp, "--derivation", der, "--LinearRF", linrf,
                    "--PhaseSpaceShiftX", sx, "--PhaseSpaceShiftY", sy, "--gui", 0]
            if damp is not None:
                base += ["-d", damp]
            if zoom is not None:
                base += ["--InitialDistZoom", zoom]
            runs = []
            for pi, pat in enumerate(patterns):
                out = os.path.join(wd, "c%d_p%d.h5" % (ci, pi))
                args = base + ["-o", out, "-I"] + [repr(float(c)) for c in pat]
                rc, so, se = h5.run_inovesa(tg, args, timeout=120)
                case = dict(kind="program", options=[str(a) for a in base], currents=pat)
                if rc != 0 or not os.path.exists(out):
                    dis.append(dict(case=case, detail="inovesa rc=%d: %s" % (rc, (so + se)[-300:]),
                                    sig=dict(kind="run", stage="correspondence", clause="program")))
                    runs.append(None)
                    continue
                runs.append((pat, h5.h5cat(tg, out, only=PER_BUNCH + ["/PhaseSpace/data"]), case))
            if runs[0] is None:
                continue
            _, hs, case_s = runs[0]
            single = {p: _columns(hs, p) for p in PER_BUNCH}
            ps_s = hs.values("/PhaseSpace/data")
            dims_s = hs.dims("/PhaseSpace/data")
            if any(single[p] is None or len(single[p]) != 1 for p in PER_BUNCH) or not dims_s:
                dis.append(dict(case=case_s, detail="single-bunch results file lacks the per-bunch datasets",
                                sig=dict(kind="run", stage="correspondence", clause="program")))
                continue
            for run in runs[1:]:
                if run is None:
                    continue
                pat, h, case = run
                nb = sum(1 for c in pat if c > 0)
                share = 1.0 / nb          # equal currents: filling = 1/nb, a power of two here
                bad = None
                for p in PER_BUNCH:
                    cols = _columns(h, p)
                    if cols is None or len(cols) != nb or any(len(c) != len(single[p][0]) for c in cols):
                        bad = ("shape", p, None, None)
                        break
                    for b in range(nb):
                        if cols[b] != single[p][0]:
                            r = next(i for i in range(len(cols[b])) if cols[b][i] != single[p][0][i])
                            bad = ("value", p, b, dict(record=r, multi=cols[b][r].hex(), single=single[p][0][r].hex()))
                            break
                    if bad:
                        break
                if not bad:
                    dims = h.dims("/PhaseSpace/data")
                    ps = h.values("/PhaseSpace/data")
                    if not dims or dims != [dims_s[0], nb] + dims_s[2:]:
                        bad = ("shape", "/PhaseSpace/data", None, dict(dims=dims, single=dims_s))
                    else:
                        rec, cells = dims[0], dims[2] * dims[3]
                        for r in range(rec):
                            for b in range(nb):
                                m = ps[(r * nb + b) * cells:(r * nb + b + 1) * cells]
                                s = ps_s[r * cells:(r + 1) * cells]
                                j = next((i for i in range(cells) if m[i] != s[i] * share and
                                          not (abs(s[i]) < 2.0 ** -120 and abs(m[i] - s[i] * share) <= 2.0 ** -140)), None)
                                if j is not None:
                                    bad = ("value", "/PhaseSpace/data", b, dict(record=r, cell=j, multi=m[j].hex(), single=s[j].hex(), share=share))
                                    break
                            if bad:
                                break
                ctx.case_done(("program", ci, tuple(pat)), nb > 1)
                ctx.count("program:nb%d%s" % (nb, "+gaps" if len(pat) > nb else ""))
                if bad:
                    kind, p, b, obs = bad
                    what = ("program run without impedance, filling pattern %s: %s of bunch %s differs from the single-bunch run" % (pat, p, b)
                            if kind == "value" else "program run, filling pattern %s: %s has the wrong shape" % (pat, p))
                    ctx.violation("impl-oracle", what, case=case, observed=obs,
                                  sig=dict(kind="run", clause="program", dataset=p, b_ge1=bool(b)))
            if ci == 0:
                ctx.sample(dict(case_s, patterns=patterns, records=len(single[PER_BUNCH[0]][0])))
    finally:
        h5.cleanup(wd)
    return dis
