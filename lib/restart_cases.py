"""C17 sub-check: restarts from results files (strengthening after seeded change C17-G).

The number of bunches of the phase space (PhaseSpace::nb) comes from the start file's reader, the bucket list of the
field objects from the configured filling pattern; ElectricField indexes the second with every b below the first.
Runs: results files written by 1-, 2- and 3-bunch runs (one with an empty bucket between the bunches), each used as
InitialDistFile with filling patterns that have the file's number of buckets / fewer / more, with empty buckets among
them (in particular: as many BUCKETS as the file has bunches, but fewer FILLED ones) and with no filled bucket at all,
each with and without an impedance - all under ASan+UBSan (+ libstdc++ assertions), every report a failing input.
Tie to the model (family `restart`: Model/NbSource.v over Gen_NbSource / Gen_H5Index, extracted): for every run the
model says whether main() goes on and with which PhaseSpace::nb and bucket list; the program must stop with a message
exactly when the model says so, and where it goes on and writes results the number of bunches of /BunchProfile/data
and the contents of /Info/BucketNumbers must be the model's."""
import os, json
from vp_common import *
import vp_coq, vp_build
import bounds_cases as bc

REFUSALS = ("Error reading", "Grid size of initial distribution differs", "At least one bunch current has to be positive",
            "Number of bunches in initial distribution differs", "Will now quit")


def start_cfg(n, currents):
    cfg = dict(GridSize=n, BunchCurrent=list(currents), padding=2.0, RoundPadding=1, StepsPerTs=100, rotations=0.02, outstep=1)
    if len(currents) > 1:
        bc.tune_spacing(cfg, n + 1.0)
    return cfg


def patterns(k):
    """filling patterns for a file that holds k bunches: (tag, currents)"""
    a, b, c = 1e-3, 2e-3, 5e-4
    ps = [("equal", [a, b, c][:k]), ("single", [a]), ("more", [a, b, c, a][:k + 1]),
          ("more-with-empty", ([a, b, c][:k] + [0.0])[::-1] if k < 3 else [a, 0.0, b, c]),
          ("none-filled", [0.0] * k), ("none-filled-1", [0.0])]
    if k >= 2:
        ps += [("fewer", [a, b, c][:k - 1]),
               ("equal-buckets-one-empty-last", [a, b, c][:k - 1] + [0.0]),
               ("equal-buckets-one-empty-first", [0.0] + [a, b, c][:k - 1])]
    if k >= 3:
        ps += [("equal-buckets-one-filled", [0.0, a, 0.0])]
    else:
        ps += [("filled-equal-buckets-more", [a, 0.0, b][:3] if k == 2 else [0.0, a])]
    seen, out = set(), []
    for t, p in ps:
        key = tuple(p)
        if key not in seen:
            seen.add(key)
            out.append((t, p))
    return out


def model_text(cid, gridsize, dims, step, currents):
    sign = [1 if c > 0 else (-1 if c < 0 else 0) for c in currents]
    return "restart %s %d %d %s %d %d %s\n" % (cid, gridsize, len(dims), " ".join(map(str, dims)), step, len(sign), " ".join(map(str, sign)))


def run_model(text):
    rc, out, err = run_driver(vp_coq.model_path("restart"), text)
    if rc != 0:
        raise RuntimeError("model_restart: " + err[-500:])
    res = {}
    for cid, r in parse_cases(out).items():
        nb = r["nb"][0][0]
        res[cid] = dict(nb=None if nb == "none" else int(nb), buckets=[int(x) for x in r["buckets"][0]])
    return res


def make_files(ctx, tg, work, n):
    """results files with the phase space saved: {name: (path, prepare args, currents)}"""
    files = {}
    for name, cur in (("one", [1e-3]), ("two", [1e-3, 2e-3]), ("three", [1e-3, 5e-4, 2e-3]), ("two-gap", [1e-3, 0.0, 2e-3])):
        cfg = start_cfg(n, cur)
        cfg["SavePhaseSpace"] = 1
        p = os.path.join(work, "restart-%s.h5" % name)
        args = bc.cfg_args(cfg) + ["-o", "restart-%s.h5" % name]
        rc, so, err = bc.run_proc([tg["inovesa"]] + args, env=vp_build.xdg_env(), timeout=120, cwd=work)
        if os.path.exists(p):
            files[name] = (p, args, cur)
        else:
            ctx.notes.append("restart family: the start file of %s could not be produced (rc=%d): %s" % (name, rc, (so + err)[-200:]))
    return files


def judge(ctx, classify, case, rc, so, err, m, out, tg, dis, what):
    clean = classify(ctx, rc, err, {}, case, what)
    msg = so + err
    went_on = "Starting the simulation" in msg
    refused = any(r in msg for r in REFUSALS) and not went_on
    if clean:
        if m["nb"] is None and went_on:
            dis.append(dict(case=case, detail=dict(model="main() quits before the field objects exist", program="simulation started"),
                            sig=dict(stage="correspondence", kind="restart-accept")))
        if m["nb"] is not None and not went_on:
            dis.append(dict(case=case, detail=dict(model=dict(nb=m["nb"], buckets=m["buckets"]), program=msg[-300:]),
                            sig=dict(stage="correspondence", kind="restart-accept")))
        if m["nb"] is None and not refused and not went_on and rc not in (0, 1):
            pass        # judged by classify
        if went_on and out and os.path.exists(out):
            dims = bc.h5_dims(tg["h5cat"], out, "/")
            nb_file = (dims.get("/BunchProfile/data") or [None, None])[1]
            bn = bc.h5_data(tg["h5cat"], out, "/Info/BucketNumbers")
            bn = [int(x) for x in bn] if bn is not None else None
            if m["nb"] is not None and (nb_file != m["nb"] or bn != m["buckets"]):
                dis.append(dict(case=case, detail=dict(model=dict(nb=m["nb"], buckets=m["buckets"]), results_file=dict(bunches=nb_file, bucket_numbers=bn)),
                                sig=dict(stage="correspondence", kind="restart-nb")))
            ctx.count("restart:results-compared")
    return clean


def run(ctx, tg, tga, classify, work):
    rng = ctx.rng
    env = bc.san_env()
    dis = []
    n = rng.choice([16, 24, 32])
    files = make_files(ctx, tg, work, n)
    jobs, mtext = [], []
    for name, (path, prep, cur) in files.items():
        dims = bc.h5_dims(tg["h5cat"], path, "/PhaseSpace/data").get("/PhaseSpace/data")
        if not dims:
            ctx.notes.append("restart family: %s has no /PhaseSpace/data" % name)
            continue
        k = sum(1 for c in cur if c > 0)
        for tag, pat in patterns(k):
            for gap in (0.03, 0.0):
                cid = "rs_%s_%s_%s" % (name, tag, "z" if gap else "n")
                cfg = start_cfg(n, pat)
                cfg["VacuumGap"] = gap
                cfg["UseCSR"] = 1
                out = None
                args = bc.cfg_args(cfg) + ["-i", "restart-%s.h5" % name]
                if rng.random() < 0.5:
                    out = os.path.join(work, cid + ".h5")
                    args += ["-o", cid + ".h5"]
                case = dict(kind="program-restart", start_file=dict(name="restart-%s.h5" % name, bunches=k, written_by=prep, phase_space_dims=dims),
                            filling=pat, pattern=tag, impedance=bool(gap), gridsize=n, args=args)
                jobs.append((cid, case, args, out))
                mtext.append(model_text(cid, n, dims, -1, pat))
                ctx.count("restart:file=%s" % name)
                ctx.count("restart:pattern=%s" % tag)
    model = run_model("".join(mtext)) if mtext else {}

    def runjob(j):
        return bc.run_proc([tga["inovesa"]] + j[2], env=env, timeout=120, cwd=work)
    res = bc.pmap(runjob, jobs)
    for (cid, case, args, out), (rc, so, err) in zip(jobs, res):
        m = model[cid]
        case["model"] = dict(nb=m["nb"], buckets=m["buckets"])
        clean = judge(ctx, classify, case, rc, so, err, m, out, tg, dis, "inovesa restarted from %s with filling %s under ASan/UBSan" % (case["start_file"]["name"], case["filling"]))
        ctx.count("restart:%s" % ("clean" if clean else "report"))
        ctx.count("restart:model-%s" % ("goes-on" if m["nb"] is not None else "quits"))
        ctx.case_done(("restart", cid), True)
    if jobs:
        ctx.sample(dict(kind="program-restart", args=jobs[0][2], model=model[jobs[0][0]]))
    return dis


def replay(ctx, case, tg, tga, classify, work):
    """re-creates the start file with the recorded command, then repeats the restart under the sanitizers"""
    env = bc.san_env()
    prep = case["start_file"]["written_by"]
    bc.run_proc([tg["inovesa"]] + prep, env=vp_build.xdg_env(), timeout=120, cwd=work)
    rc, so, err = bc.run_proc([tga["inovesa"]] + case["args"], env=env, timeout=120, cwd=work)
    classify(ctx, rc, err, {}, case, "replay: inovesa restarted from %s with filling %s under ASan/UBSan" % (case["start_file"]["name"], case["filling"]))
