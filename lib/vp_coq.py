"""Tie 1 and the proof obligations: regenerate Gen_*.v from /repo's working tree, rebuild the
development (full .vo, make -k), re-check one Props file and read its Print Assumptions."""
import fcntl, glob, os, re, shutil, subprocess, sys, time

VERIF = os.path.dirname(os.path.dirname(os.path.abspath(__file__)))
COQ = os.path.join(VERIF, "coq")
TRANSLATORS = {
    "Gen_Coeffs": "coeffs2coq.py",
    "Gen_FPStencil": "stencil2coq.py",
    "Gen_MainLoop": "mainloop2coq.py",
    "Gen_Ctors": "ctors2coq.py",
    "Gen_Scaling": "scaling2coq.py",
}
# axioms the standard library itself declares and that DESIGN.md 4 names
ALLOWED_AXIOMS = [
    "ClassicalDedekindReals.sig_forall_dec", "ClassicalDedekindReals.sig_not_dec",
    "FunctionalExtensionality.functional_extensionality_dep", "Classical_Prop.classic",
    "ProofIrrelevance.proof_irrelevance", "ClassicalEpsilon.constructive_indefinite_description",
    "Eqdep.Eq_rect_eq.eq_rect_eq", "PrimInt63.", "Uint63.", "PrimFloat.", "FloatAxioms.", "JMeq.JMeq_eq",
    "Sint63.", "Uint63Axioms.", "Sint63Axioms.",
]
FORBIDDEN = re.compile(r"\b(Admitted|admit|Axiom|Axioms|Parameter|Parameters|Conjecture|Admit Obligations|bypass_check)\b|Unset Guard|Unset Positivity|Unset Universe|type-in-type|impredicative-set")


def _lock():
    os.makedirs(os.path.join(VERIF, ".cache"), exist_ok=True)
    f = open(os.path.join(VERIF, ".cache", "coq.lock"), "w")
    fcntl.flock(f, fcntl.LOCK_EX)
    return f


def regen(log=print):
    """run every translator that exists; returns {gen: status} with status in
    regenerated | unchanged | downgraded:<msg> | missing"""
    st = {}
    for gen, script in TRANSLATORS.items():
        sp = os.path.join(VERIF, "translate", script)
        dst = os.path.join(COQ, "Gen", gen + ".v")
        good = os.path.join(COQ, "GenLastGood", gen + ".v")
        if not os.path.exists(sp):
            continue
        r = subprocess.run([sys.executable, sp, dst], capture_output=True, text=True, timeout=600)
        out = (r.stdout + r.stderr).strip()
        if r.returncode == 0:
            st[gen] = "regenerated" if "regenerated" in out else "unchanged"
        else:
            st[gen] = "failed: " + out[-600:]
            if os.path.exists(good):
                # downgrade rule (DESIGN 2.2): keep the last-good file so the model still builds;
                # the caller must then rely on the correspondence run
                with open(good) as f:
                    txt = f.read()
                cur = open(dst).read() if os.path.exists(dst) else None
                if cur != txt:
                    with open(dst, "w") as f:
                        f.write(txt)
        log("translator %s: %s" % (gen, st[gen][:200]))
    return st


def forbidden_scan():
    bad = []
    for p in glob.glob(os.path.join(COQ, "**", "*.v"), recursive=True):
        txt = open(p).read()
        # strip comments (non-nested is enough here: nested comments are not used)
        body = re.sub(r"\(\*.*?\*\)", "", txt, flags=re.S)
        for m in FORBIDDEN.finditer(body):
            bad.append("%s: %s" % (os.path.relpath(p, COQ), m.group(0)))
    return bad


def ensure_makefile():
    mk = os.path.join(COQ, "Makefile")
    cp = os.path.join(COQ, "_CoqProject")
    if not os.path.exists(mk) or os.path.getmtime(mk) < os.path.getmtime(cp):
        subprocess.run(["coq_makefile", "-f", "_CoqProject", "-o", "Makefile"], cwd=COQ,
                       capture_output=True, text=True, check=True)


def make(log=print, timeout=1500):
    """full build of everything listed in _CoqProject (not the Props files); returns (ok, output)"""
    ensure_makefile()
    t0 = time.time()
    r = subprocess.run(["timeout", str(timeout), "make", "-k", "-j16"], cwd=COQ, capture_output=True, text=True)
    out = r.stdout + r.stderr
    log("coq make: rc=%d in %.1fs" % (r.returncode, time.time() - t0))
    return r.returncode == 0, out


def extract_model(log=print):
    """re-extract and rebuild the OCaml model driver when any model .vo is newer"""
    ex = os.path.join(COQ, "Extract")
    drv = os.path.join(ex, "model_driver")
    srcs = glob.glob(os.path.join(COQ, "Model", "*.vo")) + glob.glob(os.path.join(COQ, "Gen", "*.vo")) + \
        glob.glob(os.path.join(COQ, "Base", "*.vo")) + [os.path.join(ex, "Extract.v"), os.path.join(ex, "model_driver.ml")]
    if os.path.exists(drv) and all(os.path.getmtime(s) <= os.path.getmtime(drv) for s in srcs if os.path.exists(s)):
        return True, ""
    t0 = time.time()
    r = subprocess.run(["timeout", "600", "coqc", "-Q", "..", "Inovesa", "Extract.v"], cwd=ex, capture_output=True, text=True)
    if r.returncode != 0:
        return False, r.stdout + r.stderr
    r = subprocess.run(["ocamlfind", "ocamlopt", "-w", "-a", "-O2", "model.mli", "model.ml", "model_driver.ml",
                        "-o", "model_driver.tmp"], cwd=ex, capture_output=True, text=True)
    if r.returncode != 0:
        return False, r.stdout + r.stderr
    os.replace(os.path.join(ex, "model_driver.tmp"), drv)
    log("model extracted and compiled in %.1fs" % (time.time() - t0))
    return True, ""


def theorems_in(pid):
    p = os.path.join(COQ, "Props", "Properties_%s.v" % pid)
    txt = open(p).read()
    body = re.sub(r"\(\*.*?\*\)", "", txt, flags=re.S)
    ths = re.findall(r"^\s*Theorem\s+([A-Za-z0-9_']+)", body, flags=re.M)
    pas = re.findall(r"^\s*Print Assumptions\s+([A-Za-z0-9_']+)\s*\.", body, flags=re.M)
    return ths, pas, txt


def check_props(pid, log=print, timeout=900):
    """returns dict(theorems=[(name, discharged, assumptions)], ok, error, bad_axioms)"""
    ths, pas, txt = theorems_in(pid)
    res = {"theorems": [], "ok": False, "error": None, "bad_axioms": [], "failed_theorem": None}
    if set(ths) - set(pas):
        res["error"] = "theorems without Print Assumptions: %s" % sorted(set(ths) - set(pas))
    t0 = time.time()
    r = subprocess.run(["timeout", str(timeout), "coqc", "-Q", ".", "Inovesa", "Props/Properties_%s.v" % pid],
                       cwd=COQ, capture_output=True, text=True)
    out = r.stdout + r.stderr
    log("coqc Props/Properties_%s.v: rc=%d in %.1fs" % (pid, r.returncode, time.time() - t0))
    blocks = []
    cur = None
    for line in r.stdout.splitlines():
        if line.startswith("Closed under the global context"):
            blocks.append([])
            cur = None
        elif line.startswith("Axioms:"):
            cur = []
            blocks.append(cur)
        elif cur is not None:
            m = re.match(r"^([A-Za-z0-9_.']+)\s*:", line)
            if m:
                cur.append(m.group(1))
    failed_line = None
    if r.returncode != 0:
        m = re.search(r'line (\d+), characters', out)
        failed_line = int(m.group(1)) if m else 0
        res["error"] = out[-1500:]
    # map blocks to Print Assumptions in order
    lines = txt.splitlines()
    th_line = {}
    for i, l in enumerate(lines, 1):
        m = re.match(r"^\s*Theorem\s+([A-Za-z0-9_']+)", l)
        if m:
            th_line[m.group(1)] = i
    for i, name in enumerate(ths):
        if name in pas and pas.index(name) < len(blocks):
            ax = blocks[pas.index(name)]
            bad = [a for a in ax if not any(a.startswith(p) or a == p for p in ALLOWED_AXIOMS)]
            res["bad_axioms"] += bad
            res["theorems"].append((name, not bad, ax))
        else:
            res["theorems"].append((name, False, []))
            if res["failed_theorem"] is None:
                res["failed_theorem"] = name
    res["ok"] = r.returncode == 0 and not res["bad_axioms"] and all(t[1] for t in res["theorems"]) \
        and not (set(ths) - set(pas))
    return res


def full_check(pid, ctx):
    """translators -> make -> extraction -> Props file. Fills ctx.obligations; returns
    dict(ok, gen_status, make_ok, make_out, props)"""
    lk = _lock()
    try:
        gen = regen(ctx.log)
        bad = forbidden_scan()
        mk_ok, mk_out = make(ctx.log)
        ex_ok, ex_out = extract_model(ctx.log)
        pr = check_props(pid, ctx.log)
    finally:
        lk.close()
    for name, dis, ax in pr["theorems"]:
        ctx.obligations.append((name, bool(dis and not bad), ax))
        for a in ax:
            ctx.trusted.add("axiom (Coq standard library): " + a)
    ctx.trusted.add("Coq 8.16.1 kernel incl. vm_compute (no native_compute)")
    ctx.extra["translators"] = gen
    if bad:
        ctx.extra["forbidden_keywords"] = bad
    ok = pr["ok"] and mk_ok and not bad and ex_ok and not any(s.startswith("failed") for s in gen.values())
    return dict(ok=ok, gen=gen, make_ok=mk_ok, make_out=mk_out, props=pr, forbidden=bad,
                extract_ok=ex_ok, extract_out=ex_out)
