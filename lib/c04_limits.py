"""C04, program level: "converge to 1 ... then stay constant, INDEPENDENT OF THE INITIAL DISTRIBUTION" on the inovesa binary.

One configuration without impedance (`-G 0`, no impedance file, damping and diffusion on) is run from several starts,
`--InitialDistZoom` 0.2 ... 1.5, for >= 15/e1 steps (e1 the damping decrement per step; >= 40 synchrotron periods), one record per period.  The narrow starts matter: a
Gaussian of zoom <= 0.3 on a +-6 sigma grid underflows to exactly 0 in single precision beyond ~14.3*zoom sigma, i.e. INSIDE
the region the relaxed bunch occupies, so anything in the step that remembers the start (a cached profile of the initial
distribution, a support mask, a stale normalisation ...) shows up as a limit that depends on the start (seed C04-G: columns
whose profile was 0 at t = 0 are zero-filled for ever: limit 0.93 for zoom 0.2 against 0.9996 for zoom >= 0.4).

Oracles (all on /BunchLength/data and /EnergySpread/data, every bunch):
  * stationary: the last quarter of the records varies by < 2e-4;
  * independent of the start: the limits of all starts of a group agree within 2e-4 (measured on the unchanged tree: <= 1e-6);
  * 3-point stencil: the limit is the fixed point of the second-moment recurrence in natural units, `C04_fixed_point_natural_units`
    (sigma_E^2 = (2-d^2)(2-e1 a t)/(4-a t), sigma_z^2 = a(2-d^2)(2-e1)/(t(4-a t)), d the mesh width, a the angle main() passes, t = tan a,
    e1 = 2/(f_s t_d N) as a float) within 5e-4 (measured 1e-4); 4-point stencil (no exact recurrence): within 0.05 of 1.
A violation carries the group (common options + the zooms) as replay (`kind = program-limits`)."""
import math, os, shutil, tempfile
from vp_common import *
import scaling_cases as sc

FS = 8000.0
AGREE_TOL = 2e-4
STATIONARY_TOL = 2e-4
FIX_TOL = 5e-4


def group(n, N, it, P, der, T, e1t, zooms, cur=(1e-3,), note=""):
    delta = P / (n - 1.0)
    e1t = min(e1t, 0.4 * delta * delta)           # inside the explicit scheme's stable range (C04_fp3_stable_range)
    # the deviation from the fixed point contracts by about (1 - e1) per step (C04_contraction_factor_on_domain: rho <= 1 - 4 e1/5):
    # run for >= 15 e-folds so that what is left of a start 25 times too narrow is below 1e-5
    T = max(T, int(math.ceil(15.0 / (e1t * N))))
    td = 2.0 / (FS * e1t * N)
    opts = ["-s", str(n), "-I"] + [repr(c) for c in cur] + ["-G", "0", "-d", repr(td), "-f", str(FS), "-N", str(N), "-T", str(T), "-n", str(N),
            "--LinearRF", "1", "--InterpolationPoints", str(it), "-P", str(P), "--FPType", "3", "--derivation", str(der), "--StepsPerRevolution", "0"]
    return dict(kind="program-limits", options=opts, zooms=list(zooms), n=n, N=N, P=P, derivation=der, periods=T,
                e1=float(sc.spec_e1(FS, td, N)), nb=sum(1 for c in cur if c > 0), note=note)


def cases(ctx, quick):
    rng = ctx.rng
    gs = []
    # 3-point stencil: the limit is known exactly; narrow, matched and wide starts
    n, N = rng.choice([(48, 24), (64, 24), (48, 32)])
    gs.append(group(n, N, rng.choice([3, 4]), 12.0, 3, 40, 0.03, [0.2, 0.3, 0.7, 1.5], note="3-point stencil, +-6 sigma"))
    # default 4-point stencil, two bunches
    gs.append(group(rng.choice([48, 64]), rng.choice([24, 32]), rng.choice([3, 4]), 12.0, 4, 40, 0.03, [0.2, 0.25, 1.0, 1.5],
                    cur=(1e-3, 2e-3), note="4-point stencil, two bunches"))
    if not quick:
        for _ in range(4):
            der = rng.choice([3, 4])
            gs.append(group(rng.choice([48, 64, 96]), rng.choice([24, 32, 48]), rng.choice([3, 4]), rng.choice([12.0, 10.0]), der, 48,
                            rng.choice([0.02, 0.03]), [0.2, 0.3, 0.5, 1.0, 1.5], note="random, derivation %d" % der))
    return gs


def fixed_point_natural(g):
    """(sigma_z, sigma_E) of C04_fixed_point_natural_units for the configuration of the group"""
    d = g["P"] / (g["n"] - 1.0)
    a = sc.source_angle(g["N"], FS)
    t = float(f32(math.tan(a)))
    e1 = g["e1"]
    s2 = (2 - d * d) * (2 - e1 * a * t) / (4 - a * t)
    l2 = a * (2 - d * d) * (2 - e1) / (t * (4 - a * t))
    return math.sqrt(l2), math.sqrt(s2)


def run_group(ctx, tg, work, g, sigbase):
    lims = {}
    ok = True
    for z in g["zooms"]:
        opts = g["options"] + ["--InitialDistZoom", repr(z)]
        rec, args, msg = sc.run_records(tg, opts, work, "lim")
        case = dict(g, failing_zoom=z, command=" ".join(opts))
        if rec is None or rec.nrec < 8 or rec.nb != g["nb"]:
            ctx.violation("impl-oracle", "the program does not produce a results file with moment records for a configuration of the documented domain",
                          case=case, observed=msg, sig=dict(sigbase, clause="runs"))
            return False
        q = max(2, rec.nrec // 4)
        for b in range(rec.nb):
            for name, arr in (("BunchLength", rec.L), ("EnergySpread", rec.S)):
                tail = [arr[k][b] for k in range(rec.nrec - q, rec.nrec)]
                if not all(v == v and abs(v) < 1e30 for v in tail):
                    ctx.violation("impl-oracle", "bunch %d: %s is not finite at the end of the relaxation run" % (b, name), case=case,
                                  observed=tail[-3:], sig=dict(sigbase, clause="finite", what=name))
                    return False
                if max(tail) - min(tail) > STATIONARY_TOL:
                    ctx.violation("impl-oracle", "bunch %d: %s does not stay constant after %d synchrotron periods (>= 15/e1 steps) from InitialDistZoom %s"
                                  % (b, name, g["periods"], z), case=case, observed=tail[-4:], expected="variation < %g over the last quarter" % STATIONARY_TOL,
                                  sig=dict(sigbase, clause="limit-stationary", what=name))
                    ok = False
                lims[(z, b, name)] = tail[-1]
    # independent of the start (and of the bunch: all bunches start alike, whatever their current)
    for name in ("BunchLength", "EnergySpread"):
        vals = {k: v for k, v in lims.items() if k[2] == name}
        kmin, kmax = min(vals, key=vals.get), max(vals, key=vals.get)
        ctx.extra.setdefault("limit_spread_over_starts", []).append(round(vals[kmax] - vals[kmin], 8))
        if vals[kmax] - vals[kmin] > AGREE_TOL:
            # the odd one out: the start whose limit is farthest from the median
            med = sorted(vals.values())[len(vals) // 2]
            odd = max(vals, key=lambda k: abs(vals[k] - med))
            ctx.violation("impl-oracle", "the limit of %s depends on the initial distribution: %.6f from InitialDistZoom %s (bunch %d) against %.6f from the other starts"
                          % (name, vals[odd], odd[0], odd[1], med), case=dict(g, failing_zoom=odd[0], command=" ".join(g["options"] + ["--InitialDistZoom", repr(odd[0])])),
                          observed={"zoom %s bunch %d" % (k[0], k[1]): v for k, v in sorted(vals.items())}, expected="all limits within %g" % AGREE_TOL,
                          sig=dict(sigbase, clause="limit-independent-of-start", what=name))
            ok = False
    # the value of the limit
    lz, ls = fixed_point_natural(g)
    for (z, b, name), v in sorted(lims.items()):
        want = lz if name == "BunchLength" else ls
        tol = FIX_TOL if g["derivation"] == 3 else 0.05
        ref = want if g["derivation"] == 3 else 1.0
        if abs(v - ref) > tol:
            ctx.violation("impl-oracle", "the limit of %s (bunch %d, InitialDistZoom %s) is not %s" % (
                name, b, z, "the fixed point of the second-moment recurrence (C04_fixed_point_natural_units)" if g["derivation"] == 3 else "1 within the discretisation error"),
                case=dict(g, failing_zoom=z, command=" ".join(g["options"] + ["--InitialDistZoom", repr(z)])), observed=v, expected=dict(value=ref, tol=tol),
                sig=dict(sigbase, clause="limit-value", what=name))
            ok = False
            break
    return ok


def run(ctx, tg, groups, sigbase):
    work = tempfile.mkdtemp(prefix="plim-")
    try:
        for i, g in enumerate(groups):
            run_group(ctx, tg, work, g, sigbase)
            ctx.count("program-limits:%s" % (g.get("note") or "random"))
            # non-trivial: the group holds a start whose profile underflows to 0 inside +-3 sigma of the relaxed bunch, and a wide one
            ctx.case_done(("program-limits", i), min(g["zooms"]) * 14.3 < 3.5 and max(g["zooms"]) >= 1.0)
        if groups:
            ctx.sample({k: v for k, v in groups[0].items()})
    finally:
        shutil.rmtree(work, ignore_errors=True)
