"""Program-level machinery shared by C10 and C11: run the real `inovesa` binary on a generated
configuration, read the results file through harness/h5cat, and expose datasets as float lists.

Everything numeric coming out of the file is a float32/float64 value; h5cat prints C99 hex
floats, so no decimal printing is ever involved in a comparison."""
import os, shutil, subprocess, tempfile, struct, math
from fractions import Fraction
import vp_build


class H5:
    """parsed output of `h5cat FILE --values`"""

    def __init__(self, text):
        self.groups, self.ds, self.attrs, self.data, self.error = [], {}, {}, {}, None
        for line in text.splitlines():
            p = line.split()
            if not p:
                continue
            if p[0] == "group":
                self.groups.append(p[1])
            elif p[0] == "dataset":
                rank = int(p[3])
                self.ds[p[1]] = dict(type=p[2], dims=[int(x) for x in p[4:4 + rank]])
            elif p[0] == "attr":
                self.attrs[(p[1], p[2])] = (p[3], p[5:])
            elif p[0] == "data":
                self.data[p[1]] = p[2:]
            elif p[0] == "error":
                self.error = " ".join(p[1:])

    def dims(self, path):
        return self.ds[path]["dims"] if path in self.ds else None

    def values(self, path):
        """flat list of python floats (ints for integer datasets)"""
        d = self.ds[path]
        toks = self.data.get(path, [])
        if d["type"] in ("f32", "f64"):
            return [float.fromhex(t) for t in toks]
        return [int(t) for t in toks]

    def attr(self, path, name):
        a = self.attrs.get((path, name))
        if a is None:
            return None
        ty, toks = a
        if ty in ("f32", "f64"):
            return float.fromhex(toks[0])
        return int(toks[0])

    def param(self, name):
        return self.attr("/Info/Parameters", name)


def f32(x):
    return struct.unpack("f", struct.pack("f", x))[0]


def h5cat(tg, path, only=None, timeout=120):
    cmd = ["timeout", str(timeout), tg["h5cat"], path, "--values"]
    for o in only or []:
        cmd += ["--only", o]
    r = subprocess.run(cmd, capture_output=True, text=True)
    return H5(r.stdout)


def run_inovesa(tg, args, timeout=120, env_extra=None):
    """returns (rc, stdout, stderr).  rc 124 = timeout."""
    env = vp_build.xdg_env()
    if env_extra:
        env.update(env_extra)
    cmd = ["timeout", str(timeout), tg["inovesa"]] + [str(a) for a in args]
    r = subprocess.run(cmd, capture_output=True, text=True, env=env)
    return r.returncode, r.stdout, r.stderr


def laststep_of(steps, rot):
    """mirror of main(): uint32_t laststep = std::ceil(steps*rotations*(1.0-1e-12)), all doubles (IEEE products, as Python's)"""
    return int(math.ceil(steps * rot * (1.0 - 1e-12)))


class Cfg:
    """one generated configuration; `args()` is the command line, `replay()` the JSON form"""

    def __init__(self, **kw):
        self.n = kw.get("n", 16)
        self.steps = kw.get("steps", 20)          # StepsPerTs
        self.rot = kw.get("rot", 1.0)             # rotations (float32-exact decimal string)
        self.outstep = kw.get("outstep", 5)
        self.save = kw.get("save", 1)
        self.currents = kw.get("currents", [1e-3])    # BunchCurrent list (zeros = gaps)
        self.shiftx = kw.get("shiftx", 0)
        self.shifty = kw.get("shifty", 0)
        self.gap = kw.get("gap", 0.03)            # VacuumGap: >0 parallel plates, <0 free space, 0 none
        self.usecsr = kw.get("usecsr", 1)
        self.wallcond = kw.get("wallcond", 0)
        self.collimator = kw.get("collimator", 0)
        self.renorm = kw.get("renorm", 0)
        self.tracking = kw.get("tracking", None)  # list of (q,p) or None
        self.padding = kw.get("padding", 2)
        self.cutoff = kw.get("cutoff", None)
        self.extra = kw.get("extra", [])
        self.start = kw.get("start", None)        # (file, step or None)
        self.zoom = kw.get("zoom", None)
        # machine parameters that are not at their defaults (None = leave the default)
        self.bend = kw.get("bend", None)          # BendingRadius (m); default -1 = iso-magnetic ring
        self.alpha0 = kw.get("alpha0", None)
        self.fs = kw.get("fs", None)              # SynchrotronFrequency (Hz); default 0 = from alpha0
        self.vrf = kw.get("vrf", None)            # AcceleratingVoltage (V)
        self.pqsize = kw.get("pqsize", None)      # PhaseSpaceSize (sigma); default 12
        # StepsPerRevolution (> 0 overrides StepsPerTs: steps per synchrotron period = spr*f_rev/f_s, in general not a whole
        # number); None = option not given.  `steps_eff` is filled in by the check once the run's /Info/Parameters are known.
        self.spr = kw.get("spr", None)

    def eff_steps(self):
        """steps per synchrotron period the run really uses (main(): `steps`), as a double"""
        se = getattr(self, "steps_eff", None)
        return float(se) if se else float(self.steps)

    def has_wake(self):
        return (self.gap != 0 and self.usecsr) or self.wallcond > 0 or self.collimator > 0

    def nb(self):
        return sum(1 for c in self.currents if c > 0)

    def laststep(self):
        return laststep_of(self.eff_steps(), float(self.rot))

    def laststep_pinned(self):
        # before the repair: rotations narrowed to float, no guard factor
        return int(math.ceil(float(self.steps) * f32(float(self.rot))))

    def args(self, out, workdir=None):
        a = ["-s", self.n, "-N", self.steps, "-T", self.rot, "-n", self.outstep,
             "--SavePhaseSpace", self.save, "-o", out, "-G", self.gap, "--UseCSR", self.usecsr,
             "--RenormalizeCharge", self.renorm, "--padding", self.padding,
             "--PhaseSpaceShiftX", self.shiftx, "--PhaseSpaceShiftY", self.shifty]
        a += ["-I"] + [repr(float(c)) for c in self.currents]
        if self.wallcond:
            a += ["--WallConductivity", self.wallcond]
        if self.collimator:
            a += ["--CollimatorRadius", self.collimator]
        if self.cutoff is not None:
            a += ["--CutoffFreq", self.cutoff]
        if self.zoom is not None:
            a += ["--InitialDistZoom", self.zoom]
        for opt, v in (("--BendingRadius", self.bend), ("--alpha0", self.alpha0), ("--SynchrotronFrequency", self.fs),
                       ("--AcceleratingVoltage", self.vrf), ("--PhaseSpaceSize", self.pqsize), ("--StepsPerRevolution", self.spr)):
            if v is not None:
                a += [opt, repr(float(v))]
        if self.tracking is not None and workdir:
            tf = os.path.join(workdir, "track.txt")
            with open(tf, "w") as f:
                for q, p in self.tracking:
                    f.write("%r %r\n" % (q, p))
            a += ["--tracking", tf]
        if self.start is not None:
            a += ["-i", self.start[0]]
            if self.start[1] is not None:
                a += ["--InitialDistStep=%d" % self.start[1]]
        return a + list(self.extra)

    def replay(self):
        d = dict(self.__dict__)
        return d


def workdir():
    base = os.path.join(vp_build.CACHE, "h5tmp")
    os.makedirs(base, exist_ok=True)
    return tempfile.mkdtemp(dir=base)


def cleanup(d):
    shutil.rmtree(d, ignore_errors=True)


# ------------------------------------------------------------------------------ schedule (python mirror
# used only to cross-check the extracted Coq model's answers; the Coq model is the reference)

def chunks(flat, k):
    return [flat[i:i + k] for i in range(0, len(flat), k)]


# ------------------------------------------------------------------------------ model driver

DSETS = ["/Info/AxisValues_t", "/BunchProfile/data", "/BunchLength/data", "/BunchPosition/data",
         "/EnergyProfile/data", "/EnergySpread/data", "/EnergyAverage/data", "/BunchPopulation/data",
         "/CSR/Spectrum/data", "/CSR/Intensity/data", "/WakePotential/data", "/Particles/data",
         "/PhaseSpace/axis0", "/PhaseSpace/data", "/BunchProfile/padded", "/WakePotential/padded"]
# index = Records.dset_id


def zt(i):
    return ("-%x" % -i) if i < 0 else "%x" % i


def pz(t):
    return int(t, 16)


def run_model(text, timeout=600):
    import vp_coq
    r = subprocess.run([vp_coq.model_path("h5")], input=text, capture_output=True, text=True, timeout=timeout)
    if r.returncode != 0:
        raise RuntimeError("model_h5: " + r.stderr[-500:])
    res, cur = {}, None
    for line in r.stdout.splitlines():
        p = line.split()
        if not p:
            continue
        if p[0] == "case":
            cur = {}
            res[p[1]] = cur
        elif p[0] == "end":
            cur = None
        elif cur is not None:
            if p[0] in ("tags", "inner", "rowsok"):
                cur.setdefault(p[0], {})[pz(p[1])] = p[2:]
            else:
                cur[p[0]] = p[1:]
    return res


# ------------------------------------------------------------------------------ main.cpp in float64/float32

C_LIGHT = 2.99792458e8
EPS0 = 8.854187817e-12
QE = 1.602e-19
ME = 510998.9


def pow2ceil(v):
    p = 1
    while p < v:
        p *= 2
    return p


def derive(P, currents):
    """mirror of main.cpp 179-320 on the parameters stored under /Info/Parameters (P: name ->
    python number holding the exact stored value) and the bunch currents of the configuration
    (BunchCurrent is not stored in the file).  float64 throughout, float32 where the C++ is."""
    d = {}
    n = P["GridSize"]
    pq = P["PhaseSpaceSize"]                      # float
    d["qcenter"] = f32(f32(-P["PhaseSpaceShiftX"] * pq) / f32(n - 1))
    d["pcenter"] = f32(f32(-P["PhaseSpaceShiftY"] * pq) / f32(n - 1))
    pqhalf = f32(pq / 2)
    d["qmin"], d["qmax"] = f32(d["qcenter"] - pqhalf), f32(d["qcenter"] + pqhalf)
    d["pmin"], d["pmax"] = f32(d["pcenter"] - pqhalf), f32(d["pcenter"] + pqhalf)
    sE, E0 = P["BeamEnergySpread"], P["BeamEnergy"]
    dE = sE * E0
    f_rev = float(P["RevolutionFrequency"])
    R_bend = P["BendingRadius"] if P["BendingRadius"] > 0 else C_LIGHT / (2 * math.pi * f_rev)
    H = float(P["HarmonicNumber"])
    V_RF = P["AcceleratingVoltage"]
    gamma = E0 / ME
    V0 = QE * gamma ** 4 / (3 * EPS0 * R_bend)
    V_eff = math.sqrt(V_RF * V_RF - V0 * V0)
    fs = float(P["SynchrotronFrequency"])
    if fs == 0.0:
        fs = f_rev * math.sqrt(float(P["alpha0"]) * H * V_eff / (2 * math.pi * E0))
    bl = C_LIGHT * dE / H / f_rev ** 2.0 / V_eff * fs
    nbuckets = len(currents)
    Ib = 0.0
    for c in currents:
        if f32(c) > 0:
            Ib += f32(c)
    steps = float(max(P["StepsPerTs"], 1)) if P["StepsPerRevolution"] == 0 else P["StepsPerRevolution"] * f_rev / fs
    dt = 1.0 / (fs * steps)
    spacing_ps = (1.0 / (f_rev * H)) * C_LIGHT / bl / pq
    padding = max(P["padding"], 1.0)
    padded = pow2ceil(int(math.ceil(n * padding)))      # RoundPadding default 1
    spaced = pow2ceil(int(math.ceil(n * nbuckets * spacing_ps)))
    d.update(dE=dE, f_rev=f_rev, H=H, V_eff=V_eff, fs=fs, bl=bl, Ib=Ib, Qb=Ib / f_rev, steps=steps, dt=dt,
             revolutionpart=f_rev * dt, t_sync=1.0 / fs, padded=padded, spaced=spaced, nbuckets=nbuckets,
             spacing_bins=int(round(n * spacing_ps)), E0=E0, sE=sE)
    return d


def ruler32(n, lo, hi):
    """Ruler<float>: delta = (max-min)/float(steps-1); data[i] = min + float(i)*delta, all in binary32"""
    delta = f32(f32(hi - lo) / f32(n - 1))
    return [f32(lo + f32(f32(i) * delta)) for i in range(n)], delta


def simpson32(n, delta):
    """PhaseSpace::simpsonWeights in binary32"""
    h03 = f32(delta / f32(3.0))
    ws = [h03]
    dc = 1.0
    for x in range(1, n - 1):
        ws.append(f32(h03 * f32(3.0 + dc)))
        dc = -dc
    ws.append(h03)
    return ws[:n] if n > 1 else [h03]
