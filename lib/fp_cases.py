"""Generation, execution and comparison of `fp` cases (FokkerPlanckMap constructor + apply) shared
by C01, C04, C08.  Every random choice comes from ctx.rng."""
from fractions import Fraction
from vp_common import *
import vp_coq

VARIANTS = {0: "none", 1: "damping_only", 2: "diffusion_only", 3: "full"}


def ruler(n, lo, hi):
    """Ruler<float>(n, lo, hi): (delta, zerobin, axis) exactly as the constructor computes them in
    binary32 (every operation rounded once; the harness build has -ffp-contract=off)"""
    lo, hi = f32(lo), f32(hi)
    delta = f32(f32(hi - lo) / f32(n - 1))
    zb = f32(f32(f32(f32(f32(lo + hi) / f32(lo - hi)) + 1.0) * f32(n - 1)) / 2.0)
    axis = [f32(lo + f32(f32(j) * delta)) for j in range(n)]
    return delta, zb, axis


class FPCase:
    def __init__(self, cid, dt, v, n, nb, steps, pmin, pmax, e1, data, stream, note=""):
        self.cid, self.dt, self.v, self.n, self.nb, self.steps = cid, dt, v, n, nb, steps
        self.pmin, self.pmax, self.e1 = f32(pmin), f32(pmax), f32(e1)
        self.data, self.stream, self.note = data, stream, note
        self.delta, self.zb, self.axis = ruler(n, self.pmin, self.pmax)
        self.m = int(self.zb)                       # (meshindex_t) ycenter, ycenter >= 0

    def in_domain(self):
        """zero energy inside the grid, clear of both ends (outside: C17's business)"""
        return self.dt == 3 or (2 <= self.zb <= self.n - 2)

    def impl_text(self):
        return "fp %s %d %d %d %d %d %s %s %s\n%s\n" % (
            self.cid, self.dt, self.v, self.n, self.nb, self.steps, fhex(self.pmin), fhex(self.pmax),
            fhex(self.e1), " ".join(fhex(x) for x in self.data))

    def model_text(self):
        return "fp %s %d %d %d %d %d %d %s %s %s\n%s\n%s\n" % (
            self.cid, self.dt, self.v, self.n, self.n, self.nb, self.steps, qtok(Fraction(self.zb)),
            qtok(Fraction(self.e1)), qtok(Fraction(self.delta)),
            " ".join(qtok(Fraction(a)) for a in self.axis), " ".join(qtok(Fraction(x)) for x in self.data))

    def column(self, b, x):
        n = self.n
        o = b * n * n + x * n
        return [Fraction(self.data[o + y]) for y in range(n)]

    def describe(self):
        return dict(id=self.cid, dt=self.dt, variant=VARIANTS[self.v], n=self.n, nb=self.nb, steps=self.steps,
                    pmin=self.pmin, pmax=self.pmax, e1=self.e1, zerobin=self.zb, stream=self.stream, note=self.note)

    def replay(self):
        return dict(kind="fp", id=self.cid, dt=self.dt, v=self.v, n=self.n, nb=self.nb, steps=self.steps,
                    pmin=fhex(self.pmin), pmax=fhex(self.pmax), e1=fhex(self.e1), stream=self.stream,
                    note=self.note, data=[fhex(x) for x in self.data])


def from_replay(rp):
    c = rp
    return FPCase(c["id"], c["dt"], c["v"], c["n"], c["nb"], c["steps"], float.fromhex(c["pmin"]),
                  float.fromhex(c["pmax"]), float.fromhex(c["e1"]), [float.fromhex(x) for x in c["data"]],
                  c["stream"], c.get("note", ""))


# exactly representable axes: (n, pmin, pmax) with dyadic delta and zerobin integer / half-integer / shifted
EXACT_AXES = [(33, -4.0, 4.0), (17, -4.0, 4.0), (9, -2.0, 2.0), (65, -4.0, 4.0), (33, -3.0, 5.0), (33, -5.0, 3.0),
              (33, -3.875, 4.125), (17, -3.75, 4.25), (17, -1.0, 7.0), (17, -7.0, 1.0), (33, -6.0, 2.0),
              (9, -1.0, 3.0), (9, -1.25, 2.75), (17, -2.0, 2.0), (33, -8.0, 8.0), (17, -6.5, 1.5)]


def margin(dt):
    return 2 if dt == 3 else 3


def _data(rng, n, nb, dt, kind, exact):
    """support of every column inside [margin, n-margin)"""
    mg = margin(dt)
    d = [0.0] * (nb * n * n)
    if kind == "identity":
        # column x carries a unit impulse at row x: the output column sums are the operator's column sums
        for b in range(nb):
            for x in range(mg, n - mg):
                d[b * n * n + x * n + x] = float(b + 1) if exact else f32(1.0 + 0.37 * b)
        return d
    for b in range(nb):
        cols = range(n) if exact else sorted(rng.sample(range(n), min(n, 5)))
        for x in cols:
            lo = rng.randint(mg, max(mg, n // 3))
            hi = rng.randint(max(lo + 1, n - n // 3), n - mg)
            if kind == "wide":
                lo, hi = mg, n - mg
            for y in range(lo, hi):
                if kind == "impulse":
                    continue
                if exact:
                    val = float(rng.randint(-300, 300))
                else:
                    val = f32(rng.uniform(-1, 1) * 10 ** rng.randint(-3, 3))
                if kind == "nonneg":
                    val = abs(val)
                d[b * n * n + x * n + y] = val
            if kind == "impulse" and rng.random() < 0.6:
                y = rng.randint(lo, hi - 1)
                d[b * n * n + x * n + y] = float(rng.randint(1, 9)) if exact else f32(rng.uniform(0.1, 3))
    return d


def gen_cases(ctx, count, nbs=(1, 1, 1, 2, 3), prefix="f"):
    rng = ctx.rng
    cases = []
    combos = [(dt, v) for dt in (3, 4) for v in (0, 1, 2, 3)]
    for i in range(count):
        dt, v = combos[i % 8] if i < 16 else rng.choice(combos)
        nb = rng.choice(nbs)
        exact = dt == 3 and rng.random() < 0.5
        if exact or rng.random() < 0.3:
            n, pmin, pmax = rng.choice(EXACT_AXES if exact else [a for a in EXACT_AXES if a[0] <= 33])
            e1 = 2.0 ** -rng.randint(3, 7)
        else:
            n = rng.randint(10, 28)
            half = rng.uniform(2.0, 8.0)
            c = rng.choice([0.0, 0.0, rng.uniform(-0.5, 0.5) * half, rng.uniform(-0.8, 0.8) * half])
            pmin, pmax = f32(c - half), f32(c + half)
            e1 = f32(rng.choice([rng.uniform(1e-4, 0.2), 10 ** rng.uniform(-5, -1), 0.01]))
        if nb > 1 and n > 24:
            n2 = [a for a in EXACT_AXES if a[0] <= 17]
            if exact or (n, pmin, pmax) in EXACT_AXES:
                n, pmin, pmax = rng.choice(n2)
            else:
                n = rng.randint(10, 20)
        kind = "identity" if i % 8 == i % 16 and i < 8 else rng.choice(["signed", "nonneg", "impulse", "wide", "identity"])
        steps = 1 if exact or rng.random() < 0.8 else rng.randint(2, 3)
        c = FPCase("%s%d" % (prefix, i), dt, v, n, nb, steps, pmin, pmax, e1, _data(rng, n, nb, dt, kind, exact),
                   "exact" if exact else "tol", kind)
        if not c.in_domain():
            # keep the generator inside the documented domain: recentre the axis
            h = (c.pmax - c.pmin) / 2
            c = FPCase(c.cid, dt, v, n, nb, steps, -h, h, e1, c.data, c.stream, kind + " (recentred)")
        cases.append(c)
        ctx.count("fp:dt%d:%s:%s" % (dt, VARIANTS[v], c.stream))
    return cases


def run_model_parallel(chunks):
    """the extracted model on several case files at once (exact rational arithmetic is the slow side)"""
    from concurrent.futures import ThreadPoolExecutor
    chunks = [t for t in chunks if t]
    with ThreadPoolExecutor(max_workers=12) as ex:
        rs = list(ex.map(lambda t: run_driver(vp_coq.model_path("fp"), t), chunks))
    model = {}
    for rc, out, err in rs:
        if rc != 0:
            raise RuntimeError("model_fp: rc=%d %s" % (rc, err[-500:]))
        model.update(parse_cases(out))
    return model


def run_cases(ctx, cases):
    tg = ctx.build(harness=("impl_fp",))
    rc, out, err = run_driver(tg["impl_fp"], "".join(c.impl_text() for c in cases))
    if rc != 0:
        raise RuntimeError("impl_fp: rc=%d %s" % (rc, err[-500:]))
    impl = parse_cases(out)
    model = run_model_parallel("".join([c.model_text() for c in cases][k::12]) for k in range(12))
    res = {}
    for c in cases:
        i, m = impl[c.cid], model[c.cid]
        ax = [parse_c(t) for t in i["axis"][0]]
        mine = [Fraction(c.delta), Fraction(c.zb)] + [Fraction(a) for a in c.axis]
        if ax != mine:
            raise RuntimeError("harness: the Python mirror of Ruler disagrees with the implementation's axis for case %s" % c.cid)
        it = i["table"][0]
        mt = m["table"][0]
        res[c.cid] = dict(
            impl_table=[(int(it[2 * k]), parse_c(it[2 * k + 1])) for k in range(len(it) // 2)],
            model_table=[(int(mt[2 * k], 16) if not mt[2 * k].startswith("-") else -int(mt[2 * k][1:], 16), parse_q(mt[2 * k + 1]))
                         for k in range(len(mt) // 2)],
            impl_out=[parse_c(t) for t in i["out"][0]],
            model_out=[parse_q(t) for t in m["out"][0]],
            switch=[int(t, 16) if not t.startswith("-") else -int(t[1:], 16) for t in m["switch"][0]],
            cachedep=[int(t) for t in i["cachedep"][0]] if "cachedep" in i else None)
    return res


def oracle_cache_independent(ctx, c, r):
    """C04_fp_apply_column_local on the implementation: the harness applies the map a second time after zeroing everything the
    input grid caches besides its data (profiles, integral, filling, moments - none of which main() keeps current for the grid the
    Fokker-Planck map reads); the output must be the same bit for bit"""
    cd = r.get("cachedep")
    if cd is None:
        return
    if cd[0] != 0:
        n = c.n
        k = cd[1]
        ctx.violation("impl-oracle", "FokkerPlanckMap::apply gives a different result when the quantities cached in its input grid (bunch profile, "
                      "integral, moments) change while the data stay the same: %d cells differ, first at bunch %d column %d row %d"
                      % (cd[0], k // (n * n), (k // n) % n, k % n), case=c.replay(), observed=dict(cells_differing=cd[0]),
                      expected="output depends on data_in and the stencil table only (C04_fp_apply_column_local)",
                      sig=dict(kind="fp", clause="cache-independence", dt=c.dt))
        return
    ctx.case_done((c.cid, "cache-independent"), c.steps >= 1)


def row_cond(c, j):
    """upper bound of the sum of |partial terms| of any weight of row j (base + e1 + e1*|p|/delta + 2 e1/delta^2)"""
    e1, d, p = Fraction(c.e1), Fraction(c.delta), abs(Fraction(c.axis[j]))
    return 1 + e1 + e1 * p / d + 2 * e1 / (d * d)


def compare_case(c, r):
    """list of disagreements (strings); exact stream: bit equality; tolerance stream: K*2^-24*cond.
    K = 8 for a weight (division, product, up to three additions, the rounding of the inputs of the
    products), 16 per application for an output cell (weights' own error + products + additions)."""
    n, dt = c.n, c.dt
    dis = []
    if len(r["impl_table"]) != n * dt or len(r["model_table"]) != n * dt:
        return ["table length impl=%d model=%d" % (len(r["impl_table"]), len(r["model_table"]))]
    eps = Fraction(1, 2 ** 24)
    for k in range(n * dt):
        (ii, iw), (mi, mw) = r["impl_table"][k], r["model_table"][k]
        if ii != mi:
            dis.append("table[%d] (row %d entry %d) index impl=%d model=%d" % (k, k // dt, k % dt, ii, mi))
            continue
        tol = 0 if c.stream == "exact" else 8 * eps * row_cond(c, k // dt)
        if isinstance(iw, str) or abs(iw - mw) > tol:
            dis.append("table[%d] (row %d entry %d) weight impl=%s model=%s tol=%s" % (k, k // dt, k % dt, iw, float(mw), float(tol)))
        if len(dis) > 4:
            return dis
    amax = max([abs(Fraction(x)) for x in c.data] + [Fraction(0)])
    gain = max(sum(abs(r["model_table"][j * dt + i][1]) for i in range(dt)) for j in range(n))
    gain = max(gain, 1)
    for k, (a, b) in enumerate(zip(r["impl_out"], r["model_out"])):
        if c.stream == "exact":
            tol = 0
        else:
            tol = 16 * eps * c.steps * amax * gain ** c.steps * max(row_cond(c, k % n), 1)
        if isinstance(a, str) or abs(a - b) > tol:
            dis.append("out[%d] impl=%s model=%s tol=%s" % (k, a, float(b), float(tol)))
            if len(dis) > 6:
                break
    return dis


def switch_rows(c):
    """energy rows whose column sum the one-sided 4-point stencil leaves off one by O(e1)"""
    if c.dt != 4 or c.v in (0, 2):
        return set()
    return {c.m - 2, c.m - 1, c.m, c.m + 1}


def oracle_conservation(ctx, c, r, pid="C01"):
    """plain sum before/after apply() on the implementation, per column.  Tolerated: rounding, and for
    the 4-point stencil with damping a defect of at most e1*|in(k)| in each of the four switch rows
    (|c_k| <= (3|p_m|/delta+2)/6 < 1 because zero energy lies within one cell of row m)."""
    if c.steps != 1:
        return
    n, nb, dt = c.n, c.nb, c.dt
    mg = margin(dt)
    sw = switch_rows(c)
    eps = Fraction(1, 2 ** 24)
    e1 = Fraction(c.e1)
    for b in range(nb):
        for x in range(n):
            col = c.column(b, x)
            nz = [y for y, val in enumerate(col) if val != 0]
            if not nz:
                continue
            if nz[0] < mg or nz[-1] >= n - mg:
                continue
            if dt == 4 and not (5 <= c.m <= n - 5):
                # the switch rows overlap the border rows: the theorem's interior is empty there
                continue
            o = b * n * n + x * n
            out = r["impl_out"][o:o + n]
            if any(isinstance(t, str) for t in out):
                bad, s_out, tol = True, "nonfinite", 0
            else:
                s_in, s_out = sum(col), sum(out)
                cond = sum(abs(val) * max(row_cond(c, y), 1) * 3 for y, val in enumerate(col))
                exact3 = c.stream == "exact"
                tol = (0 if exact3 else 16 * eps * cond) + e1 * sum(abs(col[k]) for k in sw if 0 <= k < n)
                bad = abs(s_out - s_in) > tol
            if bad:
                ctx.violation("impl-oracle", "column sum changes under the Fokker-Planck step although the support is interior "
                              "(beyond rounding and the tolerated switch-row defect)",
                              case=c.replay(), observed=dict(b=b, column=x, sum_out=str(s_out), tol=str(tol)), expected=str(sum(col)),
                              sig=dict(kind="fp", clause="conservation", dt=dt, variant=VARIANTS[c.v]))
                return
            ctx.case_done((c.cid, b, x), c.v != 0 and c.e1 != 0)


def fploop_downgrade(ctx, coq, dis, validated, how):
    """downgrade rule of DESIGN 2.2 for Gen_FPLoop (translate/fploop2coq.py recognises one narrow loop idiom; a harmless rewrite of
    FokkerPlanckMap::apply - pointer loops, hoisted column pointers - makes it fail loudly): when it is the only failing translator, the
    development builds on the last-good file, every case of the run agrees (no disagreement, no violation) and the cases that stand
    for what the generated nest states were evaluated (`validated`: outputs of whole multi-bunch grids equal to the model's - every column
    processed -, the cache-independence probe on every case, and for C04 the narrow-start evolutions / relaxation runs), the property
    is shown through tie 2 and the downgrade is recorded"""
    failed = [g for g, s in coq["gen"].items() if s.startswith("failed")]
    kf = load_known()
    unlisted = [v for v in ctx.violations if match_known(kf, v) is None]      # listed open findings of the property do not count
    if failed == ["Gen_FPLoop"] and validated and coq["make_ok"] and coq["props"]["ok"] and not coq["forbidden"] and coq["extract_ok"] \
            and not dis and not unlisted and ctx.evaluations > 0:
        ctx.extra["translators"]["Gen_FPLoop"] = "downgraded-to-correspondence (" + coq["gen"]["Gen_FPLoop"][:200] + ")"
        ctx.notes.append("Gen_FPLoop: translator failed, last-good loop nest validated against the implementation (%s): downgraded to tie 2" % how)
        return dict(coq, ok=True)
    return coq
