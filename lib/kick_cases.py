"""Generation, execution and comparison of `kick` cases (KickMap::updateSM + apply) shared by
C01, C02, C08, C17.  Every random choice comes from ctx.rng."""
import math
from fractions import Fraction
from vp_common import *


def rnd32_frac(q):
    """exact round-to-nearest-even of a Fraction to binary32 (no overflow handling)"""
    q = Fraction(q)
    if q == 0:
        return q
    a = abs(q)
    e = a.numerator.bit_length() - a.denominator.bit_length()
    if Fraction(2) ** e > a:
        e -= 1
    elif Fraction(2) ** (e + 1) <= a:
        e += 1
    e = max(e, -126)
    m = a / Fraction(2) ** (e - 23)
    f = m.numerator // m.denominator
    r = m - f
    if r > Fraction(1, 2) or (r == Fraction(1, 2) and f % 2 == 1):
        f += 1
    v = f * Fraction(2) ** (e - 23)
    return v if q > 0 else -v


def split(n, o):
    p = rnd32_frac(Fraction(n // 2) + Fraction(o))
    t = int(p) if p >= 0 else -int(-p)     # truncation toward zero
    return t, p - t


def centre(it):
    return (it - 1) // 2


def row_ok(n, it, o, row):
    """the hypotheses of C01_row_kick_conserves for this row (list of Fractions)"""
    jd, _ = split(n, o)
    c = centre(it)
    if not (0 <= jd - c and jd + (it - 1) - c < n):
        return False, "stencil-out-of-table-range"
    nz = [i for i, v in enumerate(row) if v != 0]
    if not nz:
        return True, "empty"
    a, b = nz[0], nz[-1] + 1
    if 0 <= a - (jd + it - 1 - c - n // 2) and b - (jd - c - n // 2) <= n:
        return True, "interior"
    return False, "support-reaches-border"


class KickCase:
    def __init__(self, cid, d, n, nb, it, offs, data, stream, note=""):
        self.cid, self.dir, self.n, self.nb, self.it = cid, d, n, nb, it
        self.offs, self.data, self.stream, self.note = offs, data, stream, note

    def impl_text(self):
        return "kick %s %s %d %d %d\n%s\n%s\n" % (self.cid, self.dir, self.n, self.nb, self.it,
                                                  " ".join(fhex(o) for o in self.offs),
                                                  " ".join(fhex(v) for v in self.data))

    def model_text(self):
        return "kick %s %s %d %d %d\n%s\n%s\n" % (self.cid, self.dir, self.n, self.nb, self.it,
                                                  " ".join(qtok(Fraction(o)) for o in self.offs),
                                                  " ".join(qtok(Fraction(v)) for v in self.data))

    def row(self, b, k):
        """data row along the kick direction: for dir=y row k is x=k (cells y); for x, k is y"""
        n = self.n
        base = b * n * n
        if self.dir == "y":
            return [Fraction(self.data[base + k * n + y]) for y in range(n)]
        return [Fraction(self.data[base + x * n + k]) for x in range(n)]

    def row_offset(self, b, k):
        if self.dir == "y":
            return self.offs[min(b, self.nb - 1) * self.n + k]
        return self.offs[k]

    def describe(self):
        return dict(id=self.cid, dir=self.dir, n=self.n, nb=self.nb, it=self.it, stream=self.stream,
                    note=self.note, offs=[fhex(o) for o in self.offs[:8]], data_len=len(self.data))

    def replay(self):
        return dict(kind="kick", id=self.cid, dir=self.dir, n=self.n, nb=self.nb, it=self.it,
                    stream=self.stream, note=self.note, offs=[fhex(o) for o in self.offs],
                    data=[fhex(v) for v in self.data])


def _data(rng, n, nb, kind, exact):
    """interior-supported data; returns list of floats"""
    d = [0.0] * (nb * n * n)
    for b in range(nb):
        lo = rng.randint(1, max(1, n // 3))
        hi = rng.randint(max(lo + 1, 2 * n // 3), n - 1)
        lo2 = rng.randint(1, max(1, n // 3))
        hi2 = rng.randint(max(lo2 + 1, 2 * n // 3), n - 1)
        if kind == "full":
            lo = lo2 = 0
            hi = hi2 = n
        for x in range(lo, hi):
            for y in range(lo2, hi2):
                if kind == "impulse":
                    continue
                if exact:
                    v = float(rng.randint(-500, 500))
                else:
                    v = f32(rng.uniform(-1, 1) * 10 ** rng.randint(-3, 3))
                if kind == "nonneg":
                    v = abs(v)
                d[b * n * n + x * n + y] = v
        if kind == "impulse":
            for _ in range(rng.randint(1, 3)):
                x = rng.randint(lo, hi - 1)
                y = rng.randint(lo2, hi2 - 1)
                d[b * n * n + x * n + y] = float(rng.randint(1, 9)) if exact else f32(rng.uniform(0.1, 3))
    return d


def _offsets(rng, n, cnt, stream):
    """offset vector of length cnt for the given stream"""
    offs = []
    h = n // 2
    for i in range(cnt):
        if stream == "exact":
            m = rng.randint(-(h // 2), h // 2)
            o = m + rng.randint(0, 15) / 16.0
        elif stream == "whole":
            o = float(rng.randint(-h, n - h - 1))
        elif stream == "tol":
            o = f32(rng.uniform(-h / 2.0, h / 2.0))
            if rng.random() < 0.1:
                o = f32(rng.uniform(-1e-3, 1e-3))
        elif stream == "boundary":
            c = rng.random()
            if c < 0.3:
                o = float(rng.choice([-1, 1]) * (h + rng.randint(-3, 2)))
            elif c < 0.5:
                o = f32(rng.choice([-1, 1]) * (h + rng.randint(-3, 2)) + rng.randint(0, 15) / 16.0)
            elif c < 0.6:
                o = f32(-h - rng.randint(1, 15) / 16.0)          # poffs in (-1, 0)
            elif c < 0.7:
                o = float(rng.choice([-1, 1]) * (n + rng.randint(0, 5)))
            elif c < 0.8:
                o = f32(-h - 1 - rng.randint(0, 40) / 16.0)      # poffs <= -1: conversion undefined
            else:
                o = float(rng.randint(-2, 2))
        else:
            raise ValueError(stream)
        offs.append(o)
    return offs


def gen_cases(ctx, count, streams=("exact", "whole", "tol", "boundary"), nbs=(1, 2, 3), sizes=None, prefix="k"):
    rng = ctx.rng
    cases = []
    sizes = sizes or list(range(4, 34))
    for i in range(count):
        stream = streams[i % len(streams)]
        n = rng.choice(sizes)
        nb = rng.choice(nbs)
        d = rng.choice(["x", "y"])
        if stream == "exact":
            it = rng.choice([1, 2, 3])
        else:
            it = rng.choice([1, 2, 3, 4])
        exact = stream in ("exact", "whole")
        kind = rng.choice(["signed", "signed", "nonneg", "impulse"] + (["full"] if stream == "whole" else []))
        if stream == "whole" and rng.random() < 0.5:
            exact = False        # whole-cell shifts are exact for arbitrary float data
        data = _data(rng, n, nb, kind, exact)
        offs = _offsets(rng, n, n * nb, stream)
        if d == "x":
            # the x branch reads block 0 of the table for every bunch; keep the other blocks equal
            offs = offs[:n] * nb
        if rng.random() < 0.3:
            # uniform offset field: one shift for the whole grid
            offs = [offs[0]] * (n * nb)
        cases.append(KickCase("%s%d" % (prefix, i), d, n, nb, it, offs, data, stream, kind))
        ctx.count("kick:" + stream)
        ctx.count("kick:it%d" % it)
        ctx.count("kick:nb%d" % nb)
    return cases


def run_cases(ctx, cases):
    """-> {cid: dict(impl_table, impl_out, model_table, model_out, defined)} plus raw status"""
    tg = ctx.build()
    rc, out, err = run_driver(tg["impl_kick"], "".join(c.impl_text() for c in cases))
    if rc != 0:
        raise RuntimeError("impl_driver failed rc=%d: %s" % (rc, err[-2000:]))
    impl = parse_cases(out)
    rc, out, err = run_driver(model_driver_path(), "".join(c.model_text() for c in cases))
    if rc != 0:
        raise RuntimeError("model_driver failed rc=%d: %s" % (rc, err[-2000:]))
    model = parse_cases(out)
    res = {}
    for c in cases:
        i, m = impl.get(c.cid), model.get(c.cid)
        if i is None or m is None:
            raise RuntimeError("case %s missing in driver output" % c.cid)
        it = i["table"][0]
        mt = m["table"][0]
        res[c.cid] = dict(
            impl_table=[(int(it[k]), parse_c(it[k + 1])) for k in range(0, len(it), 2)],
            impl_out=[parse_c(t) for t in i["out"][0]],
            model_table=[(int(mt[k], 16), parse_q(mt[k + 1])) for k in range(0, len(mt), 2)],
            model_out=[parse_q(t) for t in m["out"][0]],
            defined=[t == "1" for t in m["defined"][0]])
    return res


def compare_case(c, r):
    """model vs implementation; returns list of (what, detail) disagreements"""
    dis = []
    n, nb, it = c.n, c.nb, c.it
    K = 16
    for i in range(n * nb):
        if not r["defined"][i]:
            continue       # float->unsigned conversion undefined: nothing to compare (C17)
        for j in range(it):
            (ii, iw), (mi, mw) = r["impl_table"][i * it + j], r["model_table"][i * it + j]
            if isinstance(iw, str):
                dis.append(("table-nonfinite", dict(row=i, j=j, impl=iw)))
                continue
            tol = 0 if c.stream in ("exact", "whole") and it < 4 else Fraction(8, 2 ** 24) * max(1, abs(mw))
            if ii != mi or abs(iw - mw) > tol:
                dis.append(("table", dict(row=i, j=j, impl=[ii, str(iw)], model=[mi, str(mw)])))
                if len(dis) > 5:
                    return dis
    for b in range(nb):
        for k in range(n):
            # row tolerance: K * 2^-24 * sum|w| * max|data|
            if c.dir == "y":
                ti = min(b, nb - 1) * n + k
            else:
                ti = k
            if not r["defined"][ti]:
                continue
            wsum = sum(abs(r["model_table"][ti * it + j][1]) for j in range(it))
            row = c.row(b, k)
            mx = max(abs(v) for v in row)
            exact = c.stream == "exact" or (c.stream == "whole")
            tol = 0 if exact and it < 4 else Fraction(K, 2 ** 24) * wsum * mx
            if c.stream == "whole":
                tol = 0
            for t in range(n):
                idx = b * n * n + (k * n + t if c.dir == "y" else t * n + k)
                iv, mv = r["impl_out"][idx], r["model_out"][idx]
                if isinstance(iv, str) or abs(iv - mv) > tol:
                    dis.append(("out", dict(b=b, row=k, cell=t, impl=str(iv), model=str(mv), tol=str(tol))))
                    if len(dis) > 5:
                        return dis
    return dis
