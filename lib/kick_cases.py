"""Generation, execution and comparison of `kick` cases (KickMap::updateSM + apply) shared by
C01, C02, C08, C17.  Every random choice comes from ctx.rng."""
import math, struct, random
from fractions import Fraction
from vp_common import *


def rnd32_frac(q):
    """exact round-to-nearest-even of a Fraction to binary32 (no overflow handling)"""
    q = Fraction(q)
    if q == 0:
        return q
    a = abs(q)
    e = a.numerator.bit_length() - a.denominator.bit_length()
    if Fraction(2) ** e > a:
        e -= 1
    elif Fraction(2) ** (e + 1) <= a:
        e += 1
    e = max(e, -126)
    m = a / Fraction(2) ** (e - 23)
    f = m.numerator // m.denominator
    r = m - f
    if r > Fraction(1, 2) or (r == Fraction(1, 2) and f % 2 == 1):
        f += 1
    v = f * Fraction(2) ** (e - 23)
    return v if q > 0 else -v


def split(n, o):
    p = rnd32_frac(Fraction(n // 2) + Fraction(o))
    t = int(p) if p >= 0 else -int(-p)     # truncation toward zero
    return t, p - t


def centre(it):
    return (it - 1) // 2


def row_ok(n, it, o, row):
    """the hypotheses of C01_row_kick_conserves for this row (list of Fractions)"""
    jd, _ = split(n, o)
    c = centre(it)
    if not (0 <= jd - c and jd + (it - 1) - c < n):
        return False, "stencil-out-of-table-range"
    nz = [i for i, v in enumerate(row) if v != 0]
    if not nz:
        return True, "empty"
    a, b = nz[0], nz[-1] + 1
    if 0 <= a - (jd + it - 1 - c - n // 2) and b - (jd - c - n // 2) <= n:
        return True, "interior"
    return False, "support-reaches-border"


class KickCase:
    def __init__(self, cid, d, n, nb, it, offs, data, stream, note=""):
        self.cid, self.dir, self.n, self.nb, self.it = cid, d, n, nb, it
        self.offs, self.data, self.stream, self.note = offs, data, stream, note

    def impl_text(self):
        if getattr(self, "fill", None) is not None:
            # probe form (harness command `kickp`): grids built with a filling pattern, stale caches, pre-filled target, clamp flag
            return "kickp %s %s %d %d %d %d\n%s\n%s\n%s\n" % (self.cid, self.dir, self.n, self.nb, self.it, int(getattr(self, "clamp", 0)),
                                                            " ".join(fhex(f) for f in self.fill),
                                                            " ".join(fhex(o) for o in self.offs),
                                                            " ".join(fhex(v) for v in self.data))
        return "kick %s %s %d %d %d\n%s\n%s\n" % (self.cid, self.dir, self.n, self.nb, self.it,
                                                  " ".join(fhex(o) for o in self.offs),
                                                  " ".join(fhex(v) for v in self.data))

    def model_text(self):
        return "kick %s %s %d %d %d\n%s\n%s\n" % (self.cid, self.dir, self.n, self.nb, self.it,
                                                  " ".join(qtok(Fraction(o)) for o in self.offs),
                                                  " ".join(qtok(Fraction(v)) for v in self.data))

    def row(self, b, k):
        """data row along the kick direction: for dir=y row k is x=k (cells y); for x, k is y"""
        n = self.n
        base = b * n * n
        if self.dir == "y":
            return [Fraction(self.data[base + k * n + y]) for y in range(n)]
        return [Fraction(self.data[base + x * n + k]) for x in range(n)]

    def row_offset(self, b, k):
        if self.dir == "y":
            return self.offs[min(b, self.nb - 1) * self.n + k]
        return self.offs[k]

    def describe(self):
        return dict(id=self.cid, dir=self.dir, n=self.n, nb=self.nb, it=self.it, stream=self.stream,
                    note=self.note, offs=[fhex(o) for o in self.offs[:8]], data_len=len(self.data))

    def replay(self):
        d = dict(kind="kick", id=self.cid, dir=self.dir, n=self.n, nb=self.nb, it=self.it,
                 stream=self.stream, note=self.note, offs=[fhex(o) for o in self.offs],
                 data=[fhex(v) for v in self.data])
        if getattr(self, "fill", None) is not None:
            # harness command `kickp`: filling pattern of both grids, clamp flag of the constructor; caches of the input grid
            # stale, target pre-filled (see harness/impl_kick.cpp)
            d["fill"] = [fhex(f) for f in self.fill]
            d["clamp"] = int(getattr(self, "clamp", 0))
        if getattr(self, "history", None) is not None:
            # a step of a sequence on ONE KickMap object: the offset vectors of the earlier swapOffset()+apply() steps
            d["history"] = [[fhex(o) for o in offs] for offs in self.history]
        return d


def _data(rng, n, nb, kind, exact):
    """interior-supported data; returns list of floats"""
    d = [0.0] * (nb * n * n)
    for b in range(nb):
        lo = rng.randint(1, max(1, n // 3))
        hi = rng.randint(max(lo + 1, 2 * n // 3), n - 1)
        lo2 = rng.randint(1, max(1, n // 3))
        hi2 = rng.randint(max(lo2 + 1, 2 * n // 3), n - 1)
        if kind == "full":
            lo = lo2 = 0
            hi = hi2 = n
        for x in range(lo, hi):
            for y in range(lo2, hi2):
                if kind == "impulse":
                    continue
                if exact:
                    v = float(rng.randint(-500, 500))
                else:
                    v = f32(rng.uniform(-1, 1) * 10 ** rng.randint(-3, 3))
                if kind == "nonneg":
                    v = abs(v)
                d[b * n * n + x * n + y] = v
        if kind == "impulse":
            for _ in range(rng.randint(1, 3)):
                x = rng.randint(lo, hi - 1)
                y = rng.randint(lo2, hi2 - 1)
                d[b * n * n + x * n + y] = float(rng.randint(1, 9)) if exact else f32(rng.uniform(0.1, 3))
    return d


def _offsets(rng, n, cnt, stream):
    """offset vector of length cnt for the given stream"""
    offs = []
    h = n // 2
    for i in range(cnt):
        if stream == "exact":
            m = rng.randint(-(h // 2), h // 2)
            o = m + rng.randint(0, 15) / 16.0
        elif stream == "whole":
            o = float(rng.randint(-h, n - h - 1))
        elif stream == "tol":
            o = f32(rng.uniform(-h / 2.0, h / 2.0))
            if rng.random() < 0.1:
                o = f32(rng.uniform(-1e-3, 1e-3))
        elif stream == "boundary":
            c = rng.random()
            if c < 0.3:
                o = float(rng.choice([-1, 1]) * (h + rng.randint(-3, 2)))
            elif c < 0.5:
                o = f32(rng.choice([-1, 1]) * (h + rng.randint(-3, 2)) + rng.randint(0, 15) / 16.0)
            elif c < 0.6:
                o = f32(-h - rng.randint(1, 15) / 16.0)          # poffs in (-1, 0)
            elif c < 0.7:
                o = float(rng.choice([-1, 1]) * (n + rng.randint(0, 5)))
            elif c < 0.8:
                o = f32(-h - 1 - rng.randint(0, 40) / 16.0)      # poffs <= -1: conversion undefined
            else:
                o = float(rng.randint(-2, 2))
        else:
            raise ValueError(stream)
        offs.append(o)
    return offs


def gen_cases(ctx, count, streams=("exact", "whole", "tol", "boundary"), nbs=(1, 2, 3), sizes=None, prefix="k"):
    rng = ctx.rng
    cases = []
    sizes = sizes or list(range(4, 34))
    for i in range(count):
        stream = streams[i % len(streams)]
        n = rng.choice(sizes)
        nb = rng.choice(nbs)
        d = rng.choice(["x", "y"])
        if stream == "exact":
            it = rng.choice([1, 2, 3])
        else:
            it = rng.choice([1, 2, 3, 4])
        exact = stream in ("exact", "whole")
        kind = rng.choice(["signed", "signed", "nonneg", "impulse"] + (["full"] if stream == "whole" else []))
        if stream == "whole" and rng.random() < 0.5:
            exact = False        # whole-cell shifts are exact for arbitrary float data
        data = _data(rng, n, nb, kind, exact)
        offs = _offsets(rng, n, n * nb, stream)
        if d == "x":
            # the x branch reads block 0 of the table for every bunch; keep the other blocks equal
            offs = offs[:n] * nb
        if rng.random() < 0.3:
            # uniform offset field: one shift for the whole grid
            offs = [offs[0]] * (n * nb)
        cases.append(KickCase("%s%d" % (prefix, i), d, n, nb, it, offs, data, stream, kind))
        ctx.count("kick:" + stream)
        ctx.count("kick:it%d" % it)
        ctx.count("kick:nb%d" % nb)
    return cases


def with_rng(ctx, salt, f, *a, **k):
    """runs a generator on its own PRNG (derived from the seed) so that a stream added later does not shift the draws of
    the streams that existed before"""
    saved = ctx.rng
    ctx.rng = random.Random(ctx.seed * 1000003 + salt)
    try:
        return f(*a, **k)
    finally:
        ctx.rng = saved


def edge_offsets(rng, n, it, cnt):
    """offsets aimed at the case splits of Proofs/UpdateSMGenP.v (usm_entry_model): the float sum n/2 + o has integer part
    exactly -2..1 (guard lower edge; -1 < sum < 0 truncates to -0 and passes the guard with a negative fraction), c-1..c+1
    (stencil touching cell 0), n-it+c-1..n-it+c+1 (stencil touching cell n-1), n-2..n+1 (guard upper edge: integer part
    exactly size-1 / size), far negative (beyond -n/2: the conversion the guard protects), each with fraction 0, 1/4, 3/4"""
    h, c = n // 2, centre(it)
    ints = [-2, -1, 0, 1, c - 1, c, c + 1, n - it + c - 1, n - it + c, n - it + c + 1, n - 2, n - 1, n, n + 1,
            -h - 3, -n - 1, -2 * n]
    cand = [(j, f) for j in ints for f in (0.0, 0.25, 0.75)]
    rng.shuffle(cand)
    return [float(j - h) + f for (j, f) in (cand[i % len(cand)] for i in range(cnt))]


EDGE_SIZES = [4, 5, 7, 8, 9, 12, 15, 16, 17, 24, 31, 32, 33]


def edge_cases(ctx, count, nbs=(1, 2), prefix="e"):
    """kick cases on the boundaries of the generated updateSM body (odd and even sizes, it = 1..4 in turn)"""
    rng = ctx.rng
    cases = []
    for i in range(count):
        n = EDGE_SIZES[(i // 4) % len(EDGE_SIZES)] if i < 4 * len(EDGE_SIZES) else rng.choice(EDGE_SIZES)
        it = 1 + i % 4
        nb = rng.choice(nbs)
        d = rng.choice(["x", "y"])
        kind = rng.choice(["signed", "nonneg", "impulse"])
        data = _data(rng, n, nb, kind, True)
        offs = edge_offsets(rng, n, it, n * nb)
        if d == "x":
            offs = offs[:n] * nb
        cases.append(KickCase("%s%d" % (prefix, i), d, n, nb, it, offs, data, "edges", kind))
        ctx.count("kick:edges")
        ctx.count("kick:it%d" % it)
        ctx.count("kick:%s-size" % ("odd" if n % 2 else "even"))
    return cases


# ------------------------------------------------------------------ offsets next to whole numbers (ulp stream)

def f32_step(x, k):
    """the binary32 value k steps above (k > 0) / below (k < 0) the binary32 value x (through zero and the denormals)"""
    b = struct.unpack("<i", struct.pack("<f", x))[0]
    if b < 0:
        b = -(b & 0x7fffffff)
    b += k
    bits = (0x80000000 | (-b)) if b < 0 else b
    return struct.unpack("<f", struct.pack("<I", bits))[0]


def ulp_candidates(n):
    """offsets 1, 2, 3 ulp below and above whole numbers - ulp of the float SUM n/2+offset (the sum just misses / just
    reaches the next whole number) and ulp of the OFFSET itself (much finer: the sum then rounds to the whole number, so
    integer and fractional part must both come from the rounded sum) - and tiny offsets down to the denormals"""
    h = n // 2
    out = []
    for k in range(-min(3, h - 1), min(3, n - h - 2) + 1):
        s = float(h + k)
        for j in (1, 2, 3):
            for sg in (1, -1):
                out.append((f32(f32_step(s, sg * j) - h), "sum%+d" % (sg * j)))
                out.append((f32_step(float(k), sg * j), "off%+d" % (sg * j)))
    out += [(f32(v), "tiny") for v in (1e-30, -1e-30, 1e-40, -1e-40, 1e-9, -1e-9, 6e-8, -6e-8)]
    return out


def ulp_cases(ctx, count, nbs=(1, 2), prefix="u"):
    """kick cases whose rows are displaced by the ulp candidates (table and output against the model, tolerance stream)"""
    rng = ctx.rng
    cases = []
    for i in range(count):
        n = rng.choice(EDGE_SIZES[2:])
        it = 1 + i % 4
        nb = rng.choice(nbs)
        d = rng.choice(["x", "y"])
        cand = ulp_candidates(n)
        data = _data(rng, n, nb, rng.choice(["signed", "nonneg"]), True)
        offs = [rng.choice(cand)[0] for _ in range(n * nb)]
        if d == "x":
            offs = offs[:n] * nb
        cases.append(KickCase("%s%d" % (prefix, i), d, n, nb, it, offs, data, "ulp", "ulp"))
        ctx.count("kick:ulp")
    return cases


# ------------------------------------------------------------------ probe cases: what must not matter to a kick

FILLS = {1: [[1.0]],
         2: [[0.5, 0.5], [1.0, 0.0], [0.0, 1.0], [0.25, 0.75]],
         3: [[0.5, 0.0, 0.5], [0.0, 0.5, 0.5], [0.25, 0.25, 0.5], [0.0, 0.0, 1.0], [0.5, 0.5, 0.0]],
         4: [[0.25, 0.0, 0.25, 0.5], [0.5, 0.0, 0.0, 0.5], [0.25, 0.25, 0.25, 0.25], [0.0, 0.5, 0.0, 0.5]]}


def probe_cases(ctx, count, nbs=(1, 2, 3, 4), prefix="p", clamps=(0, 0, 1), sizes=None, streams=("exact", "whole", "exact", "tol")):
    """kick cases run through the harness command `kickp`: the grids are built with a filling pattern (with and without
    empty buckets) and the data - interior-supported, non-zero in EVERY bunch, also in the buckets the pattern declares
    empty - are written explicitly; the input grid's caches (profiles, integral, filling) date from an earlier state with
    empty columns and rows; the target grid holds earlier charge; the clamp flag of the constructor is set in a third of the
    cases.  None of this is an input of KickMap::apply (C01_kick_apply_every_cell, C08_kick_apply_reads_no_clamp): the
    output must be the model's (compare_case), every property oracle of a plain kick case applies, and the second
    application with refreshed caches / uniform pattern / other target content must give the same cells (cachedep)."""
    rng = ctx.rng
    cases = []
    sizes = sizes or [6, 8, 9, 12, 13, 16, 17, 20, 24]
    for i in range(count):
        stream = streams[i % len(streams)]
        n = rng.choice(sizes)
        nb = nbs[i % len(nbs)]
        d = "y" if i % 3 != 2 else "x"
        it = rng.choice([1, 2, 3]) if stream == "exact" else rng.choice([1, 2, 3, 4])
        kind = rng.choice(["signed", "nonneg", "nonneg"])
        data = _data(rng, n, nb, kind, stream != "tol")
        h = n // 2
        # moderate displacements: the support stays inside (conservation hypotheses hold for most rows)
        offs = []
        for _ in range(n * nb):
            if stream == "whole":
                offs.append(float(rng.randint(-max(1, n // 6), max(1, n // 6))))
            elif stream == "exact":
                offs.append(rng.randint(-max(1, n // 8), max(1, n // 8)) + rng.randint(0, 15) / 16.0)
            else:
                offs.append(f32(rng.uniform(-n / 8.0, n / 8.0)))
        if d == "x":
            offs = offs[:n] * nb
        c = KickCase("%s%d" % (prefix, i), d, n, nb, it, offs, data, stream, "probe-" + kind)
        c.fill = list(rng.choice(FILLS[nb]))
        c.clamp = clamps[i % len(clamps)]
        cases.append(c)
        ctx.count("kick:probe")
        ctx.count("kick:probe-fill-with-empty-bucket" if 0.0 in c.fill else "kick:probe-fill-full")
        if c.clamp:
            ctx.count("kick:probe-clamp-flag")
    return cases


def oracle_cache_independent(ctx, c, r, clause="cache-independence"):
    """KickMap::apply has no input but data_in and the table (C01_kick_apply_every_cell): the second application of the
    probe - caches refreshed, uniform filling pattern, other earlier content of the target - must reproduce every cell"""
    cd = r.get("cachedep")
    if cd is None:
        return
    if cd[0] != 0:
        n = c.n
        i = cd[1]
        ctx.violation("impl-oracle", "KickMap::apply gives a different result when what its input grid caches besides the data (bunch profile, "
                      "integral, filling), the set filling pattern or the earlier content of the target grid change: %d cells differ, first (bunch %d, x %d, y %d)"
                      % (cd[0], i // (n * n), (i // n) % n, i % n), case=c.replay(), observed=dict(cells_differing=cd[0], first=i),
                      expected="0 cells", sig=dict(kind="kick", clause=clause, dir=c.dir))
    ctx.case_done((c.cid, "kick-cache-independent"), any(v != 0 for v in c.data))


def probes_evaluated(ctx):
    return sum(1 for k in ctx.nontrivial if isinstance(k, tuple) and len(k) == 2 and k[1] == "kick-cache-independent")


# ------------------------------------------------------------------ histories on one KickMap object

class KickSeq:
    """several swapOffset()+apply() steps on ONE KickMap object (harness command `kickseq`); the model has no state, so
    every step is compared with (and its oracles evaluated like) a fresh-map case"""
    def __init__(self, cid, steps):
        self.cid, self.steps = cid, steps
        for k, s_ in enumerate(steps):
            s_.cid = "%s_s%d" % (cid, k)
            s_.history = [t.offs for t in steps[:k]]

    def impl_text(self):
        c = self.steps[0]
        t = ["kickseq %s %s %d %d %d %d\n" % (self.cid, c.dir, c.n, c.nb, c.it, len(self.steps))]
        for s_ in self.steps:
            t.append(" ".join(fhex(o) for o in s_.offs) + "\n" + " ".join(fhex(v) for v in s_.data) + "\n")
        return "".join(t)

    def model_text(self):
        return "".join(s_.model_text() for s_ in self.steps)


def seq_cases(ctx, count, prefix="q"):
    """histories aimed at state that survives an update: rows whose offset is exactly 0 (+0 and -0) in one step, then the
    whole vector 0, then non-zero whole shifts (whole-shift oracle), then a polynomial field under a fractional shift
    (polynomial oracle) - all on the same map"""
    rng = ctx.rng
    seqs = []
    for i in range(count):
        n = rng.choice(range(8, 21))
        it = 1 + i % 4
        nb = rng.choice([1, 2])
        d = rng.choice(["x", "y"])
        h = n // 2
        cnt = n * nb

        def vec(gen):
            v = [gen() for _ in range(cnt)]
            return v[:n] * nb if d == "x" else v
        nonzero = lambda: float(rng.choice([m for m in range(-h, n - h) if m != 0]))
        steps = [
            KickCase("", d, n, nb, it, vec(lambda: rng.choice([0.0, -0.0, nonzero()])), _data(rng, n, nb, "full", True), "whole", "seq"),
            KickCase("", d, n, nb, it, [0.0] * cnt, _data(rng, n, nb, "signed", True), "whole", "seq"),
            KickCase("", d, n, nb, it, vec(nonzero), _data(rng, n, nb, "full", rng.random() < 0.5), "whole", "seq"),
        ]
        exact = it < 4
        o = rng.randint(-2, 2) + rng.randint(1, 15) / 16.0 if exact else f32(rng.uniform(-3, 3))
        deg = rng.randint(0, it - 1)
        coef = [rng.randint(-3, 3) for _ in range(deg)] + [rng.choice([-3, -2, -1, 1, 2, 3])]
        data = [0.0] * (nb * n * n)
        for b in range(nb):
            for x in range(n):
                for y in range(n):
                    t = y if d == "y" else x
                    data[b * n * n + x * n + y] = float(sum(c_ * t ** k for k, c_ in enumerate(coef)))
        pc = KickCase("", d, n, nb, it, [o] * cnt, data, "exact" if exact else "tol", "seq-poly")
        pc.coef = coef
        steps.append(pc)
        seqs.append(KickSeq("%s%d" % (prefix, i), steps))
        ctx.count("kick:sequence-on-one-map")
    return seqs


def downgrade_usm(ctx, coq, dis, validated):
    """DESIGN 2.2 for translate/updatesm2coq.py: when it no longer recognises KickMap::updateSM (a restructuring outside
    its idiom) the last-good Gen_UpdateSM.v keeps the development building.  If then every theorem still checks (about the
    last-good definitions) and the kick correspondence of this run - the table _hinfo entry by entry against the model the
    last-good definitions were proved equal to, on the streams aimed at the case splits, and every oracle - shows no
    disagreement and no unlisted violation, the property is shown through tie 2 as before the translator existed and the
    downgrade is recorded in the evidence.  `validated`: whether this run compared kick tables at all."""
    failed = [g for g, st_ in coq["gen"].items() if st_.startswith("failed")]
    if failed != ["Gen_UpdateSM"]:
        return coq
    kf = load_known()
    unlisted = [v for v in ctx.violations if match_known(kf, v) is None]
    if coq["make_ok"] and coq["props"]["ok"] and not coq["forbidden"] and coq["extract_ok"] and not dis and not unlisted \
            and validated and ctx.evaluations > 0:
        ctx.extra["translators"]["Gen_UpdateSM"] = "downgraded-to-correspondence (" + coq["gen"]["Gen_UpdateSM"][:200] + ")"
        ctx.notes.append("Gen_UpdateSM: translator failed; the last-good generated definitions (proved equal to the kick model) agree "
                         "with the implementation's table on every kick case of this run, the boundary streams included, and every "
                         "oracle holds: downgraded to tie 2")
        return dict(coq, ok=True)
    return coq


def kickloop_downgrade(ctx, coq, dis, validated, how):
    """downgrade rule of DESIGN 2.2 for Gen_KickLoop (translate/kickloop2coq.py recognises one narrow loop idiom of KickMap::apply;
    a harmless rewrite - pointer loops, hoisted row pointers, a merged branch - makes it fail loudly): when it is the only failing
    translator (besides those other rules of the check have already downgraded), the development builds on the last-good file, every
    theorem checks, every case of the run agrees (no disagreement, no unlisted violation) and the cases that stand for what the
    generated nests state were evaluated (`validated`: whole multi-bunch outputs equal to the model's - every cell written -, the
    probe stream with empty-bucket patterns, stale caches, pre-filled target and clamp flag, resp. the orbit runs wired as main()),
    the property is shown through tie 2 and the downgrade is recorded"""
    failed = [g for g, s_ in coq["gen"].items() if s_.startswith("failed")
              and not str(ctx.extra.get("translators", {}).get(g, "")).startswith("downgraded")]
    kf = load_known()
    unlisted = [v for v in ctx.violations if match_known(kf, v) is None]
    if failed == ["Gen_KickLoop"] and validated and coq["make_ok"] and coq["props"]["ok"] and not coq["forbidden"] and coq["extract_ok"] \
            and not dis and not unlisted and ctx.evaluations > 0:
        ctx.extra["translators"]["Gen_KickLoop"] = "downgraded-to-correspondence (" + coq["gen"]["Gen_KickLoop"][:200] + ")"
        ctx.notes.append("Gen_KickLoop: translator failed, last-good loop nests validated against the implementation (%s): downgraded to tie 2" % how)
        others = [g for g, s_ in coq["gen"].items() if s_.startswith("failed") and g != "Gen_KickLoop"
                  and not str(ctx.extra.get("translators", {}).get(g, "")).startswith("downgraded")]
        return dict(coq, ok=not others)
    return coq


def run_cases(ctx, cases):
    """-> {cid: dict(impl_table, impl_out, model_table, model_out, defined)} plus raw status"""
    tg = ctx.build()
    units = cases
    cases = [s_ for c in units for s_ in (c.steps if isinstance(c, KickSeq) else [c])]
    rc, out, err = run_driver(tg["impl_kick"], "".join(c.impl_text() for c in units))
    if rc != 0:
        raise RuntimeError("impl_driver failed rc=%d: %s" % (rc, err[-2000:]))
    impl = parse_cases(out)
    rc, out, err = run_driver(model_driver_path(), "".join(c.model_text() for c in cases))
    if rc != 0:
        raise RuntimeError("model_driver failed rc=%d: %s" % (rc, err[-2000:]))
    model = parse_cases(out)
    res = {}
    for c in cases:
        i, m = impl.get(c.cid), model.get(c.cid)
        if i is None or m is None:
            raise RuntimeError("case %s missing in driver output" % c.cid)
        it = i["table"][0]
        mt = m["table"][0]
        res[c.cid] = dict(
            impl_table=[(int(it[k]), parse_c(it[k + 1])) for k in range(0, len(it), 2)],
            impl_out=[parse_c(t) for t in i["out"][0]],
            model_table=[(int(mt[k], 16), parse_q(mt[k + 1])) for k in range(0, len(mt), 2)],
            model_out=[parse_q(t) for t in m["out"][0]],
            defined=[t == "1" for t in m["defined"][0]],
            cachedep=[int(t) for t in i["cachedep"][0]] if "cachedep" in i else None)
    return res


def compare_case(c, r):
    """model vs implementation; returns list of (what, detail) disagreements"""
    dis = []
    n, nb, it = c.n, c.nb, c.it
    K = 16
    for i in range(n * nb):
        if not r["defined"][i]:
            continue       # float->unsigned conversion undefined: nothing to compare (C17)
        for j in range(it):
            (ii, iw), (mi, mw) = r["impl_table"][i * it + j], r["model_table"][i * it + j]
            if isinstance(iw, str):
                dis.append(("table-nonfinite", dict(row=i, j=j, impl=iw)))
                continue
            tol = 0 if c.stream in ("exact", "whole", "edges") and it < 4 else Fraction(8, 2 ** 24) * max(1, abs(mw))
            if ii != mi or abs(iw - mw) > tol:
                dis.append(("table", dict(row=i, j=j, impl=[ii, str(iw)], model=[mi, str(mw)])))
                if len(dis) > 5:
                    return dis
    for b in range(nb):
        for k in range(n):
            # row tolerance: K * 2^-24 * sum|w| * max|data|
            if c.dir == "y":
                ti = min(b, nb - 1) * n + k
            else:
                ti = k
            if not r["defined"][ti]:
                continue
            wsum = sum(abs(r["model_table"][ti * it + j][1]) for j in range(it))
            row = c.row(b, k)
            mx = max(abs(v) for v in row)
            exact = c.stream in ("exact", "whole", "edges")
            tol = 0 if exact and it < 4 else Fraction(K, 2 ** 24) * wsum * mx
            if c.stream == "whole":
                tol = 0
            for t in range(n):
                idx = b * n * n + (k * n + t if c.dir == "y" else t * n + k)
                iv, mv = r["impl_out"][idx], r["model_out"][idx]
                if isinstance(iv, str) or abs(iv - mv) > tol:
                    dis.append(("out", dict(b=b, row=k, cell=t, impl=str(iv), model=str(mv), tol=str(tol))))
                    if len(dis) > 5:
                        return dis
    return dis
