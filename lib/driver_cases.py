"""Shared by C12 and C14 (family `driver`): running the real `inovesa` binary (hooks on) on short
configurations, reading its label trace and results file (through harness/h5cat), running the
extracted driver model (coq/Extract/bin/model_driver) on the same schedule parameters and
comparing the two.

A configuration is a dict:
  n        grid size            N   steps per synchrotron period     T  rotations (integer)
  outstep  -n                   h5save  --SavePhaseSpace             renorm  --RenormalizeCharge
  wake     bool (vacuum gap 0.03 / 0)      dynrf  bool (deterministic RF phase modulation, sinusoidal RF)
  tracking None | path of a particle file  verbose bool              name  file stem
laststep = ceil(N*T) = N*T."""
import os, re, subprocess, shutil, struct, math, time
from fractions import Fraction
import vp_build, vp_coq

VERIF = os.path.dirname(os.path.dirname(os.path.abspath(__file__)))

KIND_DATASETS = {
    "Def": ["/Info/AxisValues_t", "/BunchProfile/data", "/BunchLength/data", "/BunchPosition/data",
            "/EnergyProfile/data", "/EnergySpread/data", "/EnergyAverage/data", "/BunchPopulation/data"],
    "PS": ["/PhaseSpace/axis0", "/PhaseSpace/data"],
    "Csr": ["/CSR/Spectrum/data", "/CSR/Intensity/data"],
    "Wake": ["/WakePotential/data"],
    "Tracks": ["/Particles/data"],
    "RF": ["/RFKicks/data"],
    "Padded": ["/BunchProfile/padded", "/WakePotential/padded"],
}
ALL_RECORD_DATASETS = [d for ds in KIND_DATASETS.values() for d in ds]
# datasets whose rows belong to a record of the time axis (one row per output step)
TIME_INDEXED = KIND_DATASETS["Def"] + KIND_DATASETS["Csr"] + KIND_DATASETS["Wake"] + KIND_DATASETS["Tracks"]


def laststep(cfg):
    return int(math.ceil(cfg["N"] * cfg["T"]))


def point_tables():
    """(labels of the translated part by index, labels of the set-up) from Gen_MainLoop.v"""
    txt = open(os.path.join(VERIF, "coq", "Gen", "Gen_MainLoop.v")).read()
    m = re.search(r"Definition point_names.*?:=\s*\[(.*?)\]\.", txt, flags=re.S)
    pts = {int(i): l for i, l in re.findall(r'\((\d+), "([^"]*)"%string\)', m.group(1))}
    m = re.search(r"Definition setup_point_names.*?:=\s*\[(.*?)\]\.", txt, flags=re.S)
    setup = re.findall(r'"([^"]*)"%string', m.group(1))
    return [pts[i] for i in range(len(pts))], setup


_SETUP = [None]


def setup_info():
    """the set-up skeleton as the translator sees it (items, opaque conditions); None when the translation fails"""
    if _SETUP[0] is None:
        import importlib, sys
        sys.path.insert(0, os.path.join(VERIF, "translate"))
        try:
            m = importlib.import_module("mainloop2coq")
            _, info = m.translate()
            _SETUP[0] = dict(items=info["setup"], conds=info["setup_conds"], points=info["setup_points"], info=info, module=m)
        except Exception as e:
            _SETUP[0] = dict(error=str(e))
    return None if "error" in _SETUP[0] else _SETUP[0]


def observer_report():
    """what the translator found under the observer (verbosity) guards of main() that is not pure: list of strings
    (empty on a tree whose verbosity tests only report); None when the translation fails"""
    su = setup_info()
    if su is None:
        return None
    info, m = su["info"], su["module"]
    res = []
    for n, effs in sorted(info.get("setup_effects", {}).items()):
        bad = m.impure(effs)
        if bad:
            res.append("set-up, src/main.cpp:%d under a verbosity test: %s" % (n % 100000, "; ".join(m.show_oeff(e) for e in bad)))
    for o in info.get("loop_observers", []):
        bad = m.impure(o["effects"])
        if bad:
            res.append("simulation part (%s), src/main.cpp:%d `if (%s)`: %s" % (o["where"], o["line"], o["cond"], "; ".join(m.show_oeff(e) for e in bad)))
    return res


def setup_oracle(labels, reached_sim, rc=0):
    """which opaque conditions of the set-up held (and which opaque statements threw) in a real run, inferred from its
    label trace: depth-first search for an environment under which the skeleton passes exactly the set-up labels of
    the run and then reaches the simulation part (reached_sim) or returns.  Only used to *choose* the environment the
    extracted model is run with; a wrong choice shows up as a disagreement, never as a silent pass.
    Returns (true conditions, throwing statements) or None."""
    info = setup_info()
    if info is None:
        return None
    want = [l for l in labels if l.startswith("setup:")]
    pts = info["points"]

    def lab(it):
        return pts[-int(re.search(r"-?\d+", it[1]).group(0)) - 1]

    def seq(items, j, i, tl, xl, thrw, intry):
        """generator of (i', tl', xl', kind) for items[j:], kind in norm / ret / thr"""
        if j == len(items):
            yield (i, tl, xl, "norm")
            return
        it = items[j]
        if it[0] == "call":
            if it[1].startswith("(Point"):
                if i < len(want) and want[i] == lab(it):
                    yield from seq(items, j + 1, i + 1, tl, xl, thrw, intry)
                return
            yield from seq(items, j + 1, i, tl, xl, thrw, intry)
        elif it[0] == "setabort":
            yield from seq(items, j + 1, i, tl, xl, thrw, intry)
        elif it[0] == "return":
            yield (i, tl, xl, "ret%d" % it[1])
        elif it[0] == "opq":
            yield from seq(items, j + 1, i, tl, xl, thrw, intry)
            if thrw and intry:
                yield (i, tl, xl + [it[1]], "thr")
        elif it[0] == "if":
            m = re.match(r"\(COpq (\d+)\)", it[1])
            for val in (False, True):
                br = it[2] if val else it[3]
                tl2 = tl + [int(m.group(1))] if (m and val) else tl
                for (i2, tl3, xl3, kd) in seq(br, 0, i, tl2, xl, thrw, intry):
                    if kd == "norm":
                        yield from seq(items, j + 1, i2, tl3, xl3, thrw, intry)
                    else:
                        yield (i2, tl3, xl3, kd)
            if m and thrw and intry:
                yield (i, tl, xl + [int(m.group(1))], "thr")
        elif it[0] == "try":
            for (i2, tl2, xl2, kd) in seq(it[1], 0, i, tl, xl, thrw, True):
                if kd == "norm":
                    yield from seq(items, j + 1, i2, tl2, xl2, thrw, intry)
                elif kd.startswith("ret"):
                    yield (i2, tl2, xl2, kd)
                else:
                    for (i3, tl3, xl3, kd3) in seq(it[2], 0, i2, tl2, xl2, thrw, intry):
                        if kd3 == "norm":
                            yield from seq(items, j + 1, i3, tl3, xl3, thrw, intry)
                        else:
                            yield (i3, tl3, xl3, kd3)

    for thrw in (False, True):
        for (i, tl, xl, kd) in seq(info["items"], 0, 0, [], [], thrw, False):
            if i == len(want) and ((kd == "norm" and reached_sim) or (kd == "ret%d" % rc and not reached_sim)):
                return (tl, xl)
    return None


def with_oracle(cfg, real):
    """cfg extended by the environment of the set-up inferred from a real run of it (so that the model executes the
    generated set-up skeleton as well); unchanged when the skeleton is unavailable or no environment fits"""
    orc = setup_oracle(real["labels"], "sim:start" in real["labels"], real["rc"])
    return dict(cfg, _oracle=orc) if orc is not None else cfg


def cmdline(cfg, out):
    a = ["-s", str(cfg["n"]), "-N", str(cfg["N"]), "-T", str(cfg["T"]), "-n", str(cfg["outstep"]),
         "--SavePhaseSpace", str(cfg["h5save"]), "--RenormalizeCharge", str(cfg["renorm"]),
         "-I", "1e-3", "--gui", "0", "-G", "0.03" if cfg["wake"] else "0"]
    if cfg.get("dynrf"):
        a += ["--LinearRF", str(cfg.get("linrf", 0)), "--RFPhaseModAmplitude", "0.5", "--RFPhaseModFrequency", "1000"]
    if cfg.get("tracking"):
        a += ["--tracking", cfg["tracking"], "--FPTrack", str(cfg.get("fptrack", 1))]
    if cfg.get("verbose"):
        a += ["-v"]
    if out:
        a += ["-o", out]
    return a + list(cfg.get("extra", []))


def run_real(tg, cfg, out, sig_at=None, rep=False, timeout=60, want_trace=True, extra_env=None, trace_path=None):
    """runs the binary (always under timeout); returns dict rc, log (stdout+stderr), labels"""
    env = vp_build.xdg_env()
    for k in ("INOVESA_VERIF_SIGINT_AT", "INOVESA_VERIF_SIGINT_REPEAT", "INOVESA_VERIF_TRACE"):
        env.pop(k, None)
    trace = trace_path or ((out or os.path.join(VERIF, ".cache", "tmp_trace")) + ".trace")
    if want_trace:
        env["INOVESA_VERIF_TRACE"] = trace
    if sig_at is not None:
        env["INOVESA_VERIF_SIGINT_AT"] = str(sig_at)
        if rep:
            env["INOVESA_VERIF_SIGINT_REPEAT"] = "1"
    if extra_env:
        env.update(extra_env)
    for p in (out, (out or "") + ".cfg", trace):
        if p and os.path.isfile(p):
            os.remove(p)
    cmd = ["timeout", str(timeout), tg["inovesa"]] + cmdline(cfg, out)
    r = subprocess.run(cmd, capture_output=True, text=True, env=env)
    labels = []
    if want_trace and os.path.exists(trace):
        labels = open(trace).read().split()
    return dict(rc=r.returncode, log=r.stdout + r.stderr, labels=labels, cmd=" ".join(cmd))


def log_tail(log):
    """last message of the log (text after the time stamp)"""
    lines = [l for l in re.split(r"[\n]", log) if l.strip()]
    if not lines:
        return ""
    return re.sub(r"^\[[^\]]*\]:\s*", "", lines[-1]).strip()


def h5read(tg, path, values=True, only=None):
    """{dataset path: dict(type, dims, rows=[tuple of tokens], fnv)}; None when unreadable"""
    cmd = ["timeout", "60", tg["h5cat"], path] + (["--values"] if values else [])
    for o in (only or []):
        cmd += ["--only", o]
    r = subprocess.run(cmd, capture_output=True, text=True)
    if r.returncode != 0 or r.stdout.startswith("error"):
        return None
    res = {}
    for line in r.stdout.splitlines():
        p = line.split()
        if not p:
            continue
        if p[0] == "dataset":
            rank = int(p[3])
            dims = [int(x) for x in p[4:4 + rank]]
            res[p[1]] = dict(type=p[2], dims=dims, rows=None, fnv=p[4 + rank])
        elif p[0] == "data":
            d = res[p[1]]
            vals = p[2:]
            n0 = d["dims"][0] if d["dims"] else 1
            w = len(vals) // n0 if n0 else 0
            d["rows"] = [tuple(vals[i * w:(i + 1) * w]) for i in range(n0)]
    for d in res.values():
        if d["rows"] is None:
            d["rows"] = []
    return res


def nrows(h, ds):
    d = h.get(ds)
    if d is None:
        return None
    return d["dims"][0] if d["dims"] else 0


def f32(x):
    return struct.unpack("f", struct.pack("f", x))[0]


def run_model(cases):
    """cases: list of (id, cfg, at, rep, pc0) -> {id: dict(trace=[(label idx, k)], file=[(kind, step, rows)], log, status, k, abort, pc)}"""
    lines = []
    for (cid, cfg, at, rep, pc0) in cases:
        orc = cfg.get("_oracle")
        if orc is not None:
            # the whole program, set-up included (generated main_setup), under the environment inferred from the
            # uninterrupted run of this configuration
            tl, xl = orc
            lines.append("full %s %d %d %d %d %d %d %d %d %d %d %s %d %s" % (
                cid, laststep(cfg), cfg["outstep"], cfg["h5save"], cfg["renorm"], 1 if cfg.get("hdf", True) else 0,
                1 if cfg["wake"] else 0, 1 if cfg.get("dynrf") else 0, -1 if at is None else at, 1 if rep else 0,
                len(tl), " ".join(str(x) for x in tl), len(xl), " ".join(str(x) for x in xl)))
            continue
        lines.append("run %s %d %d %d %d %d %d %d %d %d %d" % (
            cid, laststep(cfg), cfg["outstep"], cfg["h5save"], cfg["renorm"], 1 if cfg.get("hdf", True) else 0,
            1 if cfg["wake"] else 0, 1 if cfg.get("dynrf") else 0, -1 if at is None else at, 1 if rep else 0, pc0))
    r = subprocess.run(["timeout", "300", vp_coq.model_path("driver")], input="\n".join(lines) + "\n",
                       capture_output=True, text=True)
    if r.returncode != 0:
        raise RuntimeError("model driver failed: %s" % r.stderr[-500:])
    res = {}
    cur = None
    for line in r.stdout.splitlines():
        p = line.split()
        if not p:
            continue
        if p[0] == "case":
            cur = {}
            res[p[1]] = cur
        elif p[0] == "end":
            cur = None
        elif p[0] == "trace":
            tr = [tuple(int(x) for x in t.split(":")) for t in p[1:]]
            cur["trace"] = [t for t in tr if t[0] >= 0]
            cur["setup_trace"] = [-t[0] - 1 for t in tr if t[0] < 0]      # indices into setup_point_names
        elif p[0] == "kind":
            cur["kind"] = int(p[1])
        elif p[0] == "file":
            cur["file"] = [(t.split(":")[0], int(t.split(":")[1]), int(t.split(":")[2])) for t in p[1:]]
        elif p[0] == "log":
            cur["log"] = p[1:]
        elif p[0] == "rf":
            cur["rf"] = [(int(t.split(":")[0]), [int(x) for x in t.split(":")[1].split(",") if x != ""]) for t in p[1:]]
        elif p[0] == "pending":
            cur["pending"] = [int(x) for x in p[1:]]
        elif p[0] in ("k", "abort", "pc"):
            cur[p[0]] = int(p[1])
        elif p[0] == "status":
            cur["status"] = p[1]
    return res


def model_rows(mfile):
    """rows per dataset predicted by the model's record list"""
    rows = {d: 0 for d in ALL_RECORD_DATASETS}
    for kind, step, n in mfile:
        for d in KIND_DATASETS[kind]:
            rows[d] += n
    return rows


def model_axis(mfile, kind):
    return [step for k, step, n in mfile if k == kind]


def compare_with_model(cfg, real, h, mo, points, nsetup):
    """label trace, exit status, closing message, dataset lengths and time axes of one real run
    against the model outcome; returns a list of human-readable differences (empty = agree)"""
    dif = []
    if cfg.get("_oracle") is not None and setup_info() is not None:
        # the model ran the generated set-up as well: its hook points must be the real run's
        spts = setup_info()["points"]
        ms = [spts[i] for i in mo.get("setup_trace", [])]
        rs = [l for l in real["labels"] if l.startswith("setup:")]
        if ms != rs:
            dif.append("set-up label trace differs: real %s..., model %s... (lengths %d/%d)" % (rs[-2:], ms[-2:], len(rs), len(ms)))
        if mo.get("kind") != 0:
            dif.append("model: the program does not reach the end of main (kind %s)" % mo.get("kind"))
    sim = real["labels"][nsetup:]
    mtrace = [points[i] for i, _ in mo["trace"]]
    if sim != mtrace:
        j = next((i for i, (a, b) in enumerate(zip(sim, mtrace)) if a != b), min(len(sim), len(mtrace)))
        dif.append("label trace differs at point %d: real %s, model %s (lengths %d/%d)" % (
            j, sim[j:j + 3], mtrace[j:j + 3], len(sim), len(mtrace)))
    if real["rc"] != 0 or mo["status"] != "0":
        dif.append("exit status real %s model %s" % (real["rc"], mo["status"]))
    tail = log_tail(real["log"])
    if not mo["log"] or tail != mo["log"][-1]:
        dif.append("closing message real %r model %r" % (tail, mo["log"][-1:] if mo["log"] else None))
    if cfg.get("hdf", True):
        if h is None:
            dif.append("results file unreadable")
            return dif
        want = model_rows(mo["file"])
        for d, nrow in want.items():
            got = nrows(h, d)
            if got != nrow:
                dif.append("dataset %s has %s rows, model %d" % (d, got, nrow))
        steps = float(cfg["N"])
        for ds, kind in (("/Info/AxisValues_t", "Def"), ("/PhaseSpace/axis0", "PS")):
            exp = [float(f32(k / steps)).hex() for k in model_axis(mo["file"], kind)]
            got = [float.fromhex(r[0]).hex() for r in h[ds]["rows"]] if ds in h else None
            if got != exp:
                dif.append("%s is %s, model %s" % (ds, got, exp))
    return dif


def time_steps(h, cfg, ds="/Info/AxisValues_t"):
    """step numbers of the records of a real file, recovered exactly from the stored float"""
    steps = float(cfg["N"])
    table = {float(f32(k / steps)).hex(): k for k in range(0, laststep(cfg) + 1)}
    return [table.get(float.fromhex(r[0]).hex()) for r in h[ds]["rows"]]


def records_by_step(h, cfg):
    """{dataset: {step: row}} for the datasets indexed by /Info/AxisValues_t and for /PhaseSpace/data"""
    res = {}
    ts = time_steps(h, cfg)
    for ds in TIME_INDEXED:
        if ds in h and h[ds]["dims"] and h[ds]["dims"][0] == len(ts):
            res[ds] = {}
            for i, k in enumerate(ts):
                res[ds].setdefault(k, []).append(h[ds]["rows"][i] if h[ds]["rows"] else ())
    tp = time_steps(h, cfg, "/PhaseSpace/axis0")
    res["/PhaseSpace/data"] = {}
    for i, k in enumerate(tp):
        res["/PhaseSpace/data"].setdefault(k, []).append(h["/PhaseSpace/data"]["rows"][i])
    return res, ts, tp


def compare_common(hA, cfgA, hB, cfgB, skip=(), final_only=False):
    """records of A and B that carry the same step number must be identical bit for bit (hex-float
    tokens).  A step that is an ordinary output step in one run and the final step in the other is
    compared as well (same instant).  Returns (differences, number of compared rows)."""
    ra, tsa, tpa = records_by_step(hA, cfgA)
    rb, tsb, tpb = records_by_step(hB, cfgB)
    dif, ncmp = [], 0
    if None in tsa or None in tsb:
        dif.append("time axis holds a value that is no step/steps: %s %s" % (tsa, tsb))
    for ds in ra:
        if ds in skip or ds not in rb:
            continue
        common = sorted(set(ra[ds]) & set(rb[ds]) - {None})
        if final_only:
            common = [k for k in common if k == max(common)] if common else []
        for k in common:
            # a step can occur twice in one file only as (loop record at k, final record at k) - impossible
            # since loop steps are < laststep; compare the first occurrence of each side
            ncmp += 1
            if ra[ds][k][0] != rb[ds][k][0]:
                a, b = ra[ds][k][0], rb[ds][k][0]
                j = next((i for i, (x, y) in enumerate(zip(a, b)) if x != y), -1)
                dif.append("%s record of step %d differs at element %d: %s vs %s" % (
                    ds, k, j, a[j] if j >= 0 else len(a), b[j] if j >= 0 else len(b)))
    return dif, ncmp


# ---------------------------------------------------------------------------------------------------------
# interrupt points INSIDE library calls (C14; harness/sigshim.c, an LD_PRELOAD shim built here - plain C, no repo code)

def build_shim():
    """path of the shared object built from harness/sigshim.c (cached by source text); raises RuntimeError when it does not build"""
    import hashlib
    src = os.path.join(VERIF, "harness", "sigshim.c")
    key = hashlib.sha1(open(src, "rb").read()).hexdigest()[:12]
    d = os.path.join(VERIF, ".cache", "shim")
    os.makedirs(d, exist_ok=True)
    so = os.path.join(d, "sigshim-%s.so" % key)
    if not os.path.exists(so):
        tmp = so + ".tmp%d" % os.getpid()
        r = subprocess.run(["timeout", "120", "gcc", "-shared", "-fPIC", "-O1", "-w", "-I/usr/include/hdf5/serial", src, "-o", tmp, "-ldl"],
                           capture_output=True, text=True)
        if r.returncode != 0:
            raise RuntimeError("sigshim.c does not build: %s" % r.stderr[-800:])
        os.replace(tmp, so)
    return so


def run_real_lib(tg, cfg, out, shim, lib_at=None, rep=False, after=False, timeout=60):
    """one run of the binary under the shim: logs every wrapped library call; with lib_at raises SIGINT inside that call.
    Returns the dict of run_real plus calls=[(index, function, points passed)] and raised=[...] (same triples)."""
    log = out + ".liblog"
    rsd = out + ".raised"
    for p in (log, rsd):
        if os.path.exists(p):
            os.remove(p)
    env = {"LD_PRELOAD": shim, "VERIF_LIBSIG_LOG": log, "VERIF_LIBSIG_RAISED": rsd}
    if lib_at is not None:
        env["VERIF_LIBSIG_AT"] = str(lib_at)
        if rep:
            env["VERIF_LIBSIG_REPEAT"] = "1"
        if after:
            env["VERIF_LIBSIG_WHEN"] = "after"
    r = run_real(tg, cfg, out, timeout=timeout, extra_env=env)

    def triples(p):
        res = []
        if os.path.exists(p):
            for line in open(p):
                q = line.split()
                if len(q) == 3:
                    res.append((int(q[0]), q[1], int(q[2])))
        return res
    r["calls"] = triples(log)
    r["raised"] = triples(rsd)
    return r
