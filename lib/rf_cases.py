"""rf family (C03, RF/drift part of C08): generation, execution and comparison of
  rfoffs  - offset tables of RFKickMap (both constructors, optionally after _calcKick(phase, ampl))
            and DriftMap, and the Ruler facts, implementation vs extracted model, entry by entry;
  rfiter  - RF kick + drift iterated on a blob: the implementation's first moments after every
            step vs M^k c0 evaluated exactly (dyadic integers) by the extracted model.
Every random choice comes from ctx.rng."""
import math
from fractions import Fraction
from vp_common import *
import vp_coq

E24 = Fraction(1, 2 ** 24)


def hz(z):
    return ("-" if z < 0 else "") + "%x" % abs(z)


def min_exp(*qs):
    """smallest e >= 0 with q*2^e integral for all q (dyadic Fractions)"""
    e = 0
    for q in qs:
        d = Fraction(q).denominator
        if d & (d - 1):
            raise ValueError("not dyadic: %s" % q)
        e = max(e, d.bit_length() - 1)
    return e


def to_int(q, e):
    v = Fraction(q) * 2 ** e
    assert v.denominator == 1
    return int(v)


# ------------------------------------------------------------------------------------ setups

class RFSetup:
    """one grid + RF map + drift map configuration (all numbers are binary32 values)"""

    def __init__(self, cid, n, nb, it, qmin, qmax, qscale, pmin, pmax, pscale, kind, rfpar, slip, E0):
        self.cid, self.n, self.nb, self.it = cid, n, nb, it
        self.qmin, self.qmax, self.qscale = qmin, qmax, qscale
        self.pmin, self.pmax, self.pscale = pmin, pmax, pscale
        self.kind, self.rfpar, self.slip, self.E0 = kind, rfpar, slip, E0
        self.note = ""
        self.shift = (0, 0)

    def header(self):
        t = [self.cid, str(self.n), str(self.nb), str(self.it), fhex(self.qmin), fhex(self.qmax), fhex(self.qscale),
             fhex(self.pmin), fhex(self.pmax), fhex(self.pscale), self.kind] + [fhex(v) for v in self.rfpar] + \
            [str(len(self.slip))] + [fhex(s) for s in self.slip] + [fhex(self.E0)]
        return " ".join(t)

    def describe(self):
        return dict(id=self.cid, n=self.n, nb=self.nb, it=self.it, q=[self.qmin, self.qmax], p=[self.pmin, self.pmax],
                    kind=self.kind, rfpar=[fhex(v) for v in self.rfpar], slip=[fhex(s) for s in self.slip],
                    E0=self.E0, scales=[self.qscale, self.pscale], note=self.note, shift=self.shift)

    # exact Ruler facts (what the model computes; recomputed here only to size tolerances)
    def delta(self, ax):
        mn, mx = (self.qmin, self.qmax) if ax == 0 else (self.pmin, self.pmax)
        return (Fraction(mx) - Fraction(mn)) / (self.n - 1)

    def zerobin(self, ax):
        mn, mx = (self.qmin, self.qmax) if ax == 0 else (self.pmin, self.pmax)
        return -Fraction(mn) / self.delta(ax)


def dyadic_axis(rng, n, delta, smax):
    """axis with dyadic spacing whose zero bin is (n-1)/2 + shift, shift integer or half-integer"""
    shift = Fraction(rng.randint(-2 * smax, 2 * smax), 2)
    xc = Fraction(n - 1, 2) + shift
    mn = -xc * delta
    mx = mn + (n - 1) * delta
    assert f32(float(mn)) == float(mn) and f32(float(mx)) == float(mx)
    return float(mn), float(mx), shift


def angle_of(steps):
    return f32(2 * math.pi / steps)


def gen_offs_cases(ctx, count, nbs=(1, 2, 3), prefix="o"):
    rng = ctx.rng
    cases = []
    for i in range(count):
        n = rng.choice([8, 12, 16, 17, 24, 32, 33, 48, 64])
        nb = rng.choice(nbs)
        it = rng.choice([1, 2, 3, 4])
        if rng.random() < 0.5:
            d0 = Fraction(rng.choice([1, 3, 5]), rng.choice([4, 8, 16]))
            d1 = d0 if rng.random() < 0.6 else Fraction(rng.choice([1, 3, 5]), rng.choice([4, 8, 16]))
            qmin, qmax, sx = dyadic_axis(rng, n, d0, max(1, n // 8))
            pmin, pmax, sy = dyadic_axis(rng, n, d1, max(1, n // 8))
            note = "dyadic-grid"
        else:
            qmin = f32(-rng.uniform(2, 8)); qmax = f32(rng.uniform(2, 8))
            pmin = f32(-rng.uniform(2, 8)); pmax = f32(rng.uniform(2, 8))
            if rng.random() < 0.2:      # zero outside the grid on one side
                qmin = f32(rng.uniform(0.5, 1.5)); qmax = f32(qmin + rng.uniform(3, 9))
            sx = sy = None
            note = "float-grid"
        qscale = f32(rng.choice([1e-3, 2.5e-3, 1.0, 7e-4]))
        pscale = f32(rng.choice([1.0, 1e3, 2.5e5, 1.3e6]))
        E0 = f32(rng.choice([1.0, 1.3e9, 2.5e9, 6.0e8]))
        steps = rng.choice([20, 25, 50, 64, 100, 128, 200, 400, rng.randint(20, 400), rng.randint(400, 6400)])
        a = angle_of(steps)
        if rng.random() < 0.55:
            kind, rfpar = "lin", [a, f32(rng.choice([5e8, 4.999e8, 1.3e9]))]
        else:
            vrf = f32(rng.choice([1e6, 1.4e6, 3.0e5]))
            v0 = f32(rng.choice([0, 0, 1e4, 4.5e4, -2e4]))
            kind, rfpar = "sin", [f32(rng.choice([1e-3, 2.3e-4, 7.7e-3])), vrf, f32(rng.choice([5e8, 1.3e9])), v0]
        c = rng.random()
        if c < 0.25:
            slip = [a]
        elif c < 0.4:
            slip = [a, 0.0, 0.0]
        elif c < 0.55:
            slip = [a, f32(a * rng.uniform(-3, 3))]          # two entries: the accumulation loop runs over slip.size()
        else:
            slip = [a, f32(a * rng.uniform(-3, 3)), f32(a * rng.uniform(-20, 20))]
        s = RFSetup("%s%d" % (prefix, i), n, nb, it, qmin, qmax, qscale, pmin, pmax, pscale, kind, rfpar, slip, E0)
        s.note = note
        s.shift = (str(sx), str(sy))
        s.calc = None
        if rng.random() < 0.4:
            s.calc = (f32(rng.uniform(-0.05, 0.05)), f32(1 + rng.uniform(-0.1, 0.1)))
        cases.append(s)
        ctx.count("rfoffs:" + kind)
        ctx.count("rfoffs:nb%d" % nb)
        ctx.count("rfoffs:" + note)
        ctx.count("rfoffs:nslip%d" % len(slip))
    return cases


def impl_offs_text(s):
    return "rfoffs " + s.header() + (" 1 %s %s" % (fhex(s.calc[0]), fhex(s.calc[1])) if s.calc else " 0") + "\n"


def model_offs_text(s, im):
    """model input built from the setup and the constants the implementation reports
    (tan(angle), _bl2phase, _syncphase, the scale of axis 1, the sine samples)"""
    t, bl, sync = [parse_c(x) for x in im["rfconst"][0]]
    scale1 = parse_c(im["scales"][0][1])
    tk = ["rfoffs", s.cid, str(s.n), str(s.nb), qtok(Fraction(s.qmin)), qtok(Fraction(s.qmax)),
          qtok(Fraction(s.pmin)), qtok(Fraction(s.pmax)), qtok(scale1)]
    phase, ampl = (s.calc if s.calc else (float(sync), 1.0))
    if s.kind == "lin":
        phaseoffs = Fraction(f32(float(sync) - phase))
        tk += ["lin", qtok(t), qtok(phaseoffs), qtok(bl), qtok(Fraction(ampl))]
    else:
        tk += ["sin", qtok(Fraction(s.rfpar[0])), qtok(Fraction(ampl)), qtok(Fraction(s.rfpar[1])), qtok(Fraction(s.rfpar[3]))]
        tk += [qtok(parse_c(x)) for x in im["sinv"][0]]
    tk += [str(len(s.slip))] + [qtok(Fraction(v)) for v in s.slip] + [qtok(Fraction(s.E0))]
    return " ".join(tk) + "\n"


def model_gen_text(s, im):
    """input of the GENERATED model (family rfgen: Gen/Gen_RFDrift.v run by Model/RFDriftGen.v): the constructor
    arguments themselves, the scales and constants, and from the implementation only the transcendental values
    (tan(angle), asin(V0/V_RF) = _syncphase, the sine samples)"""
    t, bl, sync = [parse_c(x) for x in im["rfconst"][0]]
    scm, sce = [parse_c(x) for x in im["scales"][0]]
    c, tp = [parse_c(x) for x in im["consts"][0]]
    tk = ["genoffs", s.cid + ".g", str(s.n), str(s.nb), qtok(Fraction(s.qmin)), qtok(Fraction(s.qmax)),
          qtok(Fraction(s.pmin)), qtok(Fraction(s.pmax)), qtok(scm), qtok(sce), qtok(c), qtok(tp), s.kind]
    tk += [qtok(Fraction(v)) for v in s.rfpar]
    tk += [qtok(t), qtok(sync)] + [qtok(parse_c(x)) for x in im["sinv"][0]]
    tk += ["1", qtok(Fraction(s.calc[0])), qtok(Fraction(s.calc[1]))] if s.calc else ["0"]
    tk += [str(len(s.slip))] + [qtok(Fraction(v)) for v in s.slip] + [qtok(Fraction(s.E0))]
    return " ".join(tk) + "\n"


def run_offs(ctx, cases):
    """-> (impl, model): model[cid] holds the output of the hand-written model (axis, rf, drift) and, merged in, of the
    generated model (gconst, grf, gdrift, gbuilt)"""
    tg = ctx.build(harness=("impl_rf",))
    rc, out, err = run_driver(tg["impl_rf"], "".join(impl_offs_text(s) for s in cases))
    if rc != 0:
        raise RuntimeError("impl_rf failed rc=%d: %s" % (rc, err[-1500:]))
    impl = parse_cases(out)
    rc, out, err = run_driver(vp_coq.model_path("rf"), "".join(model_offs_text(s, impl[s.cid]) + model_gen_text(s, impl[s.cid]) for s in cases),
                              timeout=1200)
    if rc != 0:
        raise RuntimeError("model_rf failed rc=%d: %s" % (rc, err[-1500:]))
    model = parse_cases(out)
    for s in cases:
        model[s.cid].update(model.get(s.cid + ".g", {}))
    return impl, model


def compare_offs(s, im, mo):
    """entry-by-entry comparison of Ruler facts and both offset vectors; returns disagreements.
    Tolerances: e = 2^-24 per float operation on the longest path of each expression."""
    dis = []
    n, nb = s.n, s.nb
    ax = [parse_c(x) for x in im["axis"][0]]            # zb0 d0 min0 max0 zb1 d1 min1 max1
    d0m, zb0m, d1m, zb1m = [parse_q(x) for x in mo["axis"][0]]
    tolzb = []
    for k, (zi, di, zm, dm) in enumerate([(ax[0], ax[1], zb0m, d0m), (ax[4], ax[5], zb1m, d1m)]):
        mn, mx = (Fraction(s.qmin), Fraction(s.qmax)) if k == 0 else (Fraction(s.pmin), Fraction(s.pmax))
        ratio = (mn + mx) / (mn - mx)
        tz = 8 * E24 * (1 + abs(ratio)) * Fraction(n - 1, 2)
        tolzb.append(tz)
        if isinstance(di, str) or abs(di - dm) > 3 * E24 * abs(dm):
            dis.append(("ruler-delta", dict(axis=k, impl=str(di), model=str(dm))))
        if isinstance(zi, str) or abs(zi - zm) > tz:
            dis.append(("ruler-zerobin", dict(axis=k, impl=str(zi), model=str(zm), tol=str(tz))))
    t, bl, sync = [parse_c(x) for x in im["rfconst"][0]]
    scale1 = parse_c(im["scales"][0][1])
    sizes = [int(x) for x in im["sizes"][0]]
    if sizes != [n * nb, n * nb]:
        dis.append(("offset-size", dict(impl=sizes, expected=n * nb)))
        return dis
    rf_i = [parse_c(x) for x in im["rf"][0]]
    dr_i = [parse_c(x) for x in im["drift"][0]]
    phase, ampl = (s.calc if s.calc else (float(sync), 1.0))
    ampl = Fraction(ampl)
    sinv = [parse_c(x) for x in im["sinv"][0]]

    def vectors(rf_m, dr_m, pre):
        """both offset vectors of the implementation, entry by entry, against one model's"""
        if len(rf_m) != n * nb or len(dr_m) != n * nb:
            dis.append((pre + "offset-size", dict(model=[len(rf_m), len(dr_m)], expected=n * nb)))
            return
        for i in range(n * nb):
            x = i % n
            if s.kind == "lin":
                phaseoffs = Fraction(f32(float(sync) - phase))
                tol = abs(ampl) * (abs(t) * tolzb[0] + 4 * E24 * abs(t) * (abs(zb0m) + x + 1)
                                   + 6 * E24 * abs(t * phaseoffs / (bl * d0m))) + 2 * E24 * abs(rf_m[i])
            else:
                term = abs(Fraction(s.rfpar[0])) * (abs(ampl * Fraction(s.rfpar[1]) * sinv[x]) + abs(Fraction(s.rfpar[3]))) / (d1m * scale1)
                tol = 10 * E24 * term
            if isinstance(rf_i[i], str) or abs(rf_i[i] - rf_m[i]) > tol:
                dis.append((pre + "rf-offset", dict(i=i, bunch=i // n, x=x, impl=str(rf_i[i]), model=str(rf_m[i]), tol=str(tol))))
                if len(dis) > 6:
                    return
        for i in range(n * nb):
            y = i % n
            pabs = abs(Fraction(s.pmin)) + y * d1m
            r = pabs * scale1 / Fraction(s.E0)
            cond = sum(abs(Fraction(sl)) * pabs * r ** k for k, sl in enumerate(s.slip)) / d0m
            tol = (8 + 6 * len(s.slip)) * E24 * cond
            if isinstance(dr_i[i], str) or abs(dr_i[i] - dr_m[i]) > tol:
                dis.append((pre + "drift-offset", dict(i=i, bunch=i // n, y=y, impl=str(dr_i[i]), model=str(dr_m[i]), tol=str(tol))))
                if len(dis) > 6:
                    return
    vectors([parse_q(x) for x in mo["rf"][0]], [parse_q(x) for x in mo["drift"][0]], "")
    if len(dis) > 6:
        return dis
    # the model GENERATED from RFKickMap.cpp / DriftMap.cpp (Gen/Gen_RFDrift.v): the same vectors, the member values the
    # generated initialisers give (_bl2phase: binary64 product of three factors, 3 roundings, stored as binary32: 2^-24 + 4*2^-53 relative), the table built
    # from the final offsets on both sides
    if "grf" not in mo:
        dis.append(("gen-missing", dict(what="the generated model produced no output for this case")))
        return dis
    vectors([parse_q(x) for x in mo["grf"][0]], [parse_q(x) for x in mo["gdrift"][0]], "gen-")
    gbl, gsync = [parse_q(x) for x in mo["gconst"][0]]
    if abs(gbl - bl) > (E24 + 4 * Fraction(1, 2 ** 53)) * abs(gbl):
        dis.append(("gen-bl2phase", dict(impl=str(bl), model=str(gbl))))
    if s.kind == "lin" and gsync != sync:
        dis.append(("gen-syncphase", dict(impl=str(sync), model=str(gsync))))
    if [int(x) for x in mo["gbuilt"][0]] != [1, 1]:
        dis.append(("gen-built", dict(model=mo["gbuilt"][0], what="in the generated statement order updateSM() does not follow the last write of _offset")))
    return dis


def oracle_offs(ctx, s, im):
    """property statements evaluated on the implementation's own tables:
    tan/angle, the sine samples, zero bin = index of coordinate 0, every bunch's block of the RF
    offsets equal to block 0 (C08), static linear kick = t*(xc-x), drift = a*(y-yc) for equal axes"""
    n, nb = s.n, s.nb
    ok = True
    t, bl, sync = [parse_c(x) for x in im["rfconst"][0]]
    ax = [parse_c(x) for x in im["axis"][0]]
    q = [parse_c(x) for x in im["q"][0]]
    rf_i = [parse_c(x) for x in im["rf"][0]]
    if s.kind == "lin":
        a = s.rfpar[0]
        if abs(float(t) - math.tan(a)) > 4 * 2.0 ** -24 * abs(math.tan(a)):
            ctx.violation("impl-oracle", "the linear RF kick does not use tan(angle)", case=s.describe(),
                          observed=float(t), expected=math.tan(a), sig=dict(kind="rf", clause="tan-angle"))
            ok = False
    else:
        # the sinusoidal model itself, evaluated in double precision on the implementation's axis
        phase, ampl = (s.calc if s.calc else (float(sync), 1.0))
        d1, sc1 = float(ax[5]), float(parse_c(im["scales"][0][1]))
        for x in range(n):
            arg = float(q[x]) * float(bl) + phase
            exp = s.rfpar[0] * (-ampl * s.rfpar[1] * math.sin(arg) + s.rfpar[3]) / d1 / sc1
            cond = abs(s.rfpar[0]) * (abs(ampl * s.rfpar[1] * math.sin(arg)) + abs(s.rfpar[3])) / d1 / sc1
            # the float argument q*bl2phase+phase carries 3 roundings; d sin <= d arg
            argerr = 3 * 2.0 ** -24 * (abs(float(q[x]) * float(bl)) + abs(phase))
            tol = 16 * 2.0 ** -24 * cond + abs(s.rfpar[0] * ampl * s.rfpar[1]) / d1 / sc1 * argerr
            if isinstance(rf_i[x], str) or abs(float(rf_i[x]) - exp) > tol:
                ctx.violation("impl-oracle", "sinusoidal RF kick is not revpart*(-ampl*V_RF*sin(q*bl2phase+phase)+V0)/delta_E/scale", case=dict(s.describe(), calc=s.calc),
                              observed=dict(x=x, offset=str(rf_i[x])), expected=exp, sig=dict(kind="rf", clause="sin-offsets"))
                ok = False
                break
        a_sync = math.asin(s.rfpar[3] / s.rfpar[1]) if abs(s.rfpar[3]) <= abs(s.rfpar[1]) else None
        if a_sync is not None and abs(float(sync) - a_sync) > 8 * 2.0 ** -24 * max(abs(a_sync), 2.0 ** -20):
            ctx.violation("impl-oracle", "the synchronous phase of the sinusoidal RF map is not asin(V0/V_RF)", case=s.describe(),
                          observed=float(sync), expected=a_sync, sig=dict(kind="rf", clause="syncphase"))
            ok = False
    if s.kind == "lin" and not isinstance(ax[0], str):
        # the linear kick itself on the implementation's own axis facts: ampl*(tan(a)*(xc - x) + tan(a)*(sync - phase)/bl2phase/delta0);
        # static map: tan(a)*(xc - x) - the rotation of C03 is this field (DESIGN 5/C03.2)
        phase, ampl = (s.calc if s.calc else (float(sync), 1.0))
        tt = math.tan(s.rfpar[0])
        zb0, d0 = float(ax[0]), float(ax[1])
        po = f32(float(sync) - phase)
        for i in range(n * nb):
            x = i % n
            cst = tt * po / float(bl) / d0
            exp = ampl * (tt * (zb0 - x) + cst)
            tol = 12 * 2.0 ** -24 * abs(ampl) * (abs(tt) * (abs(zb0) + x + 1) + abs(cst)) + 2.0 ** -126
            if isinstance(rf_i[i], str) or abs(float(rf_i[i]) - exp) > tol:
                ctx.violation("impl-oracle", "linear RF kick offset is not ampl*(tan(angle)*(zerobin_x - x) + tan(angle)*(syncphase - phase)/bl2phase/delta_x)",
                              case=dict(s.describe(), calc=s.calc), observed=dict(i=i, bunch=i // n, x=x, offset=str(rf_i[i])), expected=exp,
                              sig=dict(kind="rf", clause="lin-offsets", multibunch=i >= n))
                ok = False
                break
    # the drift field on the implementation's own axis facts: sum_k slip_k * p * (p*scale_E/E0)^k / delta_x, p = energy coordinate
    pc = [parse_c(x) for x in im["p"][0]]
    dr_i = [parse_c(x) for x in im["drift"][0]]
    if not isinstance(ax[1], str) and not any(isinstance(v, str) for v in pc):
        d0, sc1 = float(ax[1]), float(parse_c(im["scales"][0][1]))
        for y in range(n):
            p = float(pc[y])
            r = p * sc1 / s.E0
            exp = sum(sl * p * r ** k for k, sl in enumerate(s.slip)) / d0
            cond = sum(abs(sl * p * r ** k) for k, sl in enumerate(s.slip)) / abs(d0)
            tol = (10 + 6 * len(s.slip)) * 2.0 ** -24 * cond + 2.0 ** -126
            if isinstance(dr_i[y], str) or abs(float(dr_i[y]) - exp) > tol:
                ctx.violation("impl-oracle", "drift offset is not sum_k slip[k]*p*(p*scale/E0)^k / delta_x (p the energy coordinate of row y)",
                              case=s.describe(), observed=dict(y=y, offset=str(dr_i[y])), expected=exp,
                              sig=dict(kind="rf", clause="drift-offsets", nslip=len(s.slip), equal_spacing=ax[1] == ax[5]))
                ok = False
                break
    # the table apply() interpolates with must have been built from the final offsets (updateSM() after the loops)
    if "fresh" in im and [int(x) for x in im["fresh"][0]] != [1, 1]:
        ctx.violation("impl-oracle", "the interpolation table of the %s map was not rebuilt after its offsets were written (updateSM() does not follow the loops)" %
                      ("RF" if int(im["fresh"][0][0]) != 1 else "drift"), case=dict(s.describe(), calc=s.calc),
                      observed=dict(fresh=im["fresh"][0]), expected="table = updateSM() of the current offsets",
                      sig=dict(kind="rf", clause="table-fresh"))
        ok = False
    # zero bin: coordinate at the (fractional) index zerobin is 0, by linear interpolation of at()
    for k, (zb, dl, mn) in enumerate([(ax[0], ax[1], ax[2]), (ax[4], ax[5], ax[6])]):
        if isinstance(zb, str):
            continue
        val = mn + zb * dl
        tol = 16 * E24 * (abs(mn) + abs(zb * dl))
        if abs(val) > tol:
            ctx.violation("impl-oracle", "Ruler::zerobin is not the index of coordinate 0", case=s.describe(),
                          observed=dict(axis=k, zerobin=str(zb), coordinate=str(val)), expected="|coordinate| <= %s" % tol,
                          sig=dict(kind="rf", clause="zerobin"))
            ok = False
    # C08: all bunches carry the field of bunch 0
    for b in range(1, nb):
        if rf_i[b * n:(b + 1) * n] != rf_i[:n]:
            ctx.violation("impl-oracle", "RF kick offsets of bunch %d differ from those of bunch 0" % b, case=s.describe(),
                          observed=[str(v) for v in rf_i[b * n:b * n + 4]], expected=[str(v) for v in rf_i[:4]],
                          sig=dict(kind="rf", clause="rf-all-bunches", multibunch=True))
            ok = False
            break
    return ok


# ------------------------------------------------------------------------------------ iteration

class IterCase:
    def __init__(self, setup, K, data, a_eff_note=""):
        self.s, self.K, self.data = setup, K, data
        self.cid = setup.cid
        self.dump = 0
        self.blob = ""
        self.steps = None

    def impl_text(self):
        return "rfiter %s %d %d %s\n" % (self.s.header(), self.K, self.dump, " ".join(fhex(v) for v in self.data))

    def replay(self):
        return dict(kind="rfiter", setup=self.s.describe(), header=self.s.header(), K=self.K, blob=self.blob,
                    steps_per_period=self.steps, data=[fhex(v) for v in self.data])


def blob_data(rng, n, nb, xc, yc, rmax, kind):
    """compactly supported lumps, values multiples of 2^-20 (exactly representable, dyadic)"""
    data = [0.0] * (nb * n * n)
    info = []
    for b in range(nb):
        lumps = []
        nl = {"gauss": 1, "two": 2, "signed": 2}[kind]
        for j in range(nl):
            sg = rng.uniform(1.1, 1.9)
            rr = max(0.0, rmax - 4 * sg)
            r = rng.uniform(0.4 * rr, rr)
            ph = rng.uniform(0, 2 * math.pi)
            amp = 1.0 if j == 0 else (rng.uniform(0.3, 0.9) if kind == "two" else -rng.uniform(0.2, 0.5))
            lumps.append((float(xc) + r * math.cos(ph), float(yc) + r * math.sin(ph), sg, amp))
        for x in range(n):
            for y in range(n):
                v = 0.0
                for (cx, cy, sg, amp) in lumps:
                    d2 = (x - cx) ** 2 + (y - cy) ** 2
                    if d2 <= (4 * sg) ** 2:
                        v += amp * math.exp(-d2 / (2 * sg * sg))
                data[b * n * n + x * n + y] = math.floor(v * 2 ** 20) / 2.0 ** 20
        info.append([(round(l[0], 2), round(l[1], 2), round(l[2], 2), round(l[3], 2)) for l in lumps])
    return data, info


def gen_iter_cases(ctx, count, sizes=(32, 33, 48, 49, 64), nbs=(1,), prefix="r", full_period=True, kinds=("lin", "lin", "lin", "sin")):
    rng = ctx.rng
    cases = []
    for i in range(count):
        n = rng.choice(sizes)
        nb = rng.choice(nbs)
        it = rng.choice([2, 3, 4, 4])
        steps = rng.choice([20, 24, 30, 40, 50, 60, 64, 80, 100, 120, rng.randint(20, 200)])
        if rng.random() < (0.08 if ctx.quick() else 0.3):
            steps = rng.choice([200, 250, 300, 400])
        if it == 2:
            # linear interpolation is strongly diffusive (the variance grows by f(1-f) cells^2 per
            # kick): keep such runs short and on the larger grids so that the blob stays inside
            steps = min(steps, 64)
            n = max(n, 48) if 48 in sizes else n
        a = angle_of(steps)
        kind = rng.choice(kinds)
        d0 = Fraction(1, rng.choice([2, 4, 8]))
        ratio = Fraction(1) if (kind == "sin" or rng.random() < 0.7) else rng.choice([Fraction(2), Fraction(1, 2)])
        d1 = d0 * ratio
        smax = n // 16
        qmin, qmax, sx = dyadic_axis(rng, n, d0, smax)
        pmin, pmax, sy = dyadic_axis(rng, n, d1, smax)
        xc, yc = Fraction(n - 1, 2) + sx, Fraction(n - 1, 2) + sy
        pscale = 1.0
        if kind == "lin":
            rfpar = [a, f32(5e8)]
            qscale = f32(1e-3)
        else:
            # sinusoidal map with linear coefficient close to tan(a): t_eff = revpart*VRF*bl2phase/scale1
            # (equal spacings); phases stay below ~0.02 rad so that the cubic term is small
            qscale = f32(rng.choice([2.0 ** -12, 2.0 ** -13]))
            revpart = 2.0 ** -10
            vrf = float(2 ** 20)
            frf = f32(5e8)
            bl = f32(float(qscale) / 2.99792458e8 * frf * 2 * math.pi)
            # scale1 = power of two bringing t_eff near tan(a)
            pscale = 2.0 ** round(math.log2(revpart * vrf * bl / math.tan(a)))
            rfpar = [revpart, vrf, frf, 0.0]
        slip = [a] if rng.random() < 0.5 else [a, 0.0, 0.0]
        s = RFSetup("%s%d" % (prefix, i), n, nb, it, qmin, qmax, qscale, pmin, pmax, pscale, kind, rfpar, slip, f32(1.3e9))
        s.shift = (str(sx), str(sy))
        blob = rng.choice(["gauss", "two", "signed"])
        t_est = math.tan(a) * (2.0 if kind == "sin" else 1.0)
        ext = n / 2.0 - max(abs(float(sx)), abs(float(sy))) - 0.5
        # the orbit is an ellipse of axis ratio about (1 + a/2)/(1 - a/2); keep the lumps clear of the
        # border by the largest displacement of one kick plus 7 cells (stencil reach + numerical diffusion)
        om = max(a * float(ratio), t_est)
        rmax = (ext - 7 - om * ext) / (1 + 1.2 * om)
        data, info = blob_data(rng, n, nb, xc, yc, rmax, blob)
        K = steps if full_period else min(steps, rng.randint(3, 12))
        c = IterCase(s, K, data)
        c.blob, c.steps, c.info = blob, steps, info
        c.xc, c.yc, c.ratio = xc, yc, ratio
        cases.append(c)
        ctx.count("rfiter:" + kind)
        ctx.count("rfiter:it%d" % it)
        ctx.count("rfiter:n%d" % n)
        ctx.count("rfiter:" + blob)
        ctx.count("rfiter:steps<=%d" % (50 if steps <= 50 else 100 if steps <= 100 else 200 if steps <= 200 else 400))
        ctx.count("rfiter:shift-" + ("half" if (sx.denominator == 2 or sy.denominator == 2) else "int"))
    return cases


def run_iter(ctx, cases):
    """-> {cid: dict(...)}: implementation moments per step, model orbit per step (raw moments)"""
    tg = ctx.build(harness=("impl_rf",))
    rc, out, err = run_driver(tg["impl_rf"], "".join(c.impl_text() for c in cases), timeout=1200)
    if rc != 0:
        raise RuntimeError("impl_rf failed rc=%d: %s" % (rc, err[-1500:]))
    impl = parse_cases(out)
    # model: exact zero bins and spacings (rfoffs), exact initial raw moments (rfmom), orbit (rforbit)
    mtxt = []
    for c in cases:
        s = c.s
        ed = min_exp(*[Fraction(v) for v in c.data])
        mtxt.append("rfmom %s %d %d %s %s 1 %s\n" % (c.cid, s.n, s.nb, hz(to_int(c.xc, 1)), hz(to_int(c.yc, 1)),
                                                    " ".join(hz(to_int(Fraction(v), ed)) for v in c.data)))
        c.ed = ed
    rc, out, err = run_driver(vp_coq.model_path("rf"), "".join(mtxt), timeout=1200)
    if rc != 0:
        raise RuntimeError("model_rf (rfmom) failed rc=%d: %s" % (rc, err[-1500:]))
    mom = parse_cases(out)
    otxt = []
    for c in cases:
        s = c.s
        im = impl[c.cid]
        t, bl, sync = [parse_c(x) for x in im["rfconst"][0]]
        a = Fraction(s.slip[0]) * c.ratio                    # drift: o_y = a*(delta1/delta0)*(y - yc)
        if s.kind == "sin":
            # linear coefficient of the sinusoidal kick (V0 = 0): revpart*VRF*bl2phase*delta0/(delta1*scale1)
            t = Fraction(s.rfpar[0]) * Fraction(s.rfpar[1]) * bl * s.delta(0) / (s.delta(1) * Fraction(f32(s.pscale)))
        c.t, c.a, c.bl = t, a, bl
        E = min_exp(t, a)
        c.orb = []
        for b in range(s.nb):
            S0, U, V = [int(x, 16) for x in mom[c.cid]["m"][b]]
            otxt.append("rforbit %s.%d %d %s %s %s %s %d %d\n" % (c.cid, b, E, hz(to_int(t, E)), hz(to_int(a, E)), hz(U), hz(V), c.ed + 1, c.K))
            c.orb.append((Fraction(S0, 2 ** c.ed), Fraction(U, 2 ** (c.ed + 1)), Fraction(V, 2 ** (c.ed + 1))))
    rc, out, err = run_driver(vp_coq.model_path("rf"), "".join(otxt), timeout=2400)
    if rc != 0:
        raise RuntimeError("model_rf (rforbit) failed rc=%d: %s" % (rc, err[-1500:]))
    orb = parse_cases(out)
    res = {}
    for c in cases:
        s = c.s
        im = impl[c.cid]
        steps_i = []
        for line in im["m"]:
            v = [parse_c(x) for x in line]
            steps_i.append([v[4 * b:4 * b + 4] for b in range(s.nb)])
        mo = []
        for b in range(s.nb):
            tk = orb["%s.%d" % (c.cid, b)]["o"][0]
            mo.append([(Fraction(int(tk[2 * k], 16), 2 ** 64), Fraction(int(tk[2 * k + 1], 16), 2 ** 64)) for k in range(c.K + 1)])
        res[c.cid] = dict(impl=steps_i, model=mo, out=[parse_c(x) for x in im["out"][0]] if "out" in im else None,
                          axis=[parse_c(x) for x in im["axis"][0]])
    return res


def tol_orbit(c, k, b, edgecum, absmass):
    """tolerance of the raw first moments (units cell*charge) after k steps, from operation counts.
    One kick moves the first moment by sum_rows (effective offset)*(row charge); its float errors:
      - the float sum n/2+offset before the integer/fraction split: <= ulp(n)/2 <= n*2^-25 cells,
      - tan(a)*(xc-x) or slip*p/delta: 3 roundings, <= 3*2^-24*|offset|, |offset| <= omax,
      - the weights (cubic in the fraction, <= 6 roundings each): sum_j w_j (j-c) off by <= 6*2^-24,
      - every output cell is a sum of <= 4 products: <= 5*2^-24*(5/4)*|d| per cell, times its
        distance <= ext from the zero bin.
    Per step (two kicks): (n + 12 + 6*omax + 12.5*ext)*2^-24*sum|d|.  M has determinant 1 and
    |trace| < 2, its powers are bounded by the axis ratio of the invariant ellipse (<= 1 + omax/ext),
    so the errors add linearly in k.  What is clipped at the border was exposed before that step
    (edgecum, measured by the harness); each clipped unit moves the moment by <= (5/4)*2*ext.
    For the sinusoidal map the kick differs from its linearisation by <= t_eff*|u|*phi^2/6 per
    step (Props: C03_sin_rf_linearisation_partial), phi = bl2phase*delta0*|u| <= 1."""
    s = c.s
    ext = Fraction(s.n, 2) + 4
    omax = max(abs(c.t), abs(c.a)) * ext
    per_step = (s.n + 12 + 6 * omax + Fraction(25, 2) * ext) * E24 * absmass * (1 + omax / ext)
    tol = (k + 1) * per_step + Fraction(5, 2) * ext * edgecum + Fraction(1, 2 ** 60)
    if s.kind == "sin":
        phi = c.bl * s.delta(0) * ext
        tol += k * abs(c.t) * ext * phi * phi / 6 * absmass * Fraction(11, 10)
    return tol


def compare_iter(ctx, c, r):
    """implementation's raw first moments after every step vs the model orbit; returns
    (disagreements, stats)"""
    s = c.s
    dis = []
    worst = 0.0
    for b in range(s.nb):
        S0m, U0, V0 = c.orb[b]
        absmass = sum(abs(Fraction(v)) for v in c.data[b * s.n * s.n:(b + 1) * s.n * s.n])
        edgecum = Fraction(0)
        for k in range(c.K + 1):
            S0, Sx, Sy, edge = r["impl"][k][b]
            if any(isinstance(v, str) for v in (S0, Sx, Sy)):
                dis.append(("nonfinite", dict(step=k, bunch=b)))
                break
            U, V = Sx - c.xc * S0, Sy - c.yc * S0
            um, vm = r["model"][b][k]
            tol = tol_orbit(c, k, b, edgecum, absmass)
            err = max(abs(U - um), abs(V - vm))
            worst = max(worst, float(err / tol))
            if err > tol:
                dis.append(("orbit", dict(step=k, bunch=b, impl=[float(U / S0m), float(V / S0m)], model=[float(um / S0m), float(vm / S0m)],
                                          err=float(err), tol=float(tol))))
                break
            ctol = (k + 1) * 8 * E24 * absmass + edgecum
            if abs(S0 - S0m) > ctol:
                dis.append(("charge", dict(step=k, bunch=b, impl=float(S0), model=float(S0m), tol=float(ctol))))
                break
            edgecum += edge
    return dis, worst


def fit_map(cs):
    """least-squares 2x2 map c_{k+1} = M c_k from a centroid sequence (floats)"""
    sxx = sxy = syy = 0.0
    bx = [0.0, 0.0]
    by = [0.0, 0.0]
    for (u, v), (u1, v1) in zip(cs[:-1], cs[1:]):
        sxx += u * u; sxy += u * v; syy += v * v
        bx[0] += u1 * u; bx[1] += u1 * v
        by[0] += v1 * u; by[1] += v1 * v
    det = sxx * syy - sxy * sxy
    if det <= 1e-12 * (sxx + syy) ** 2:
        return None
    inv = [[syy / det, -sxy / det], [-sxy / det, sxx / det]]
    m = [[bx[0] * inv[0][0] + bx[1] * inv[1][0], bx[0] * inv[0][1] + bx[1] * inv[1][1]],
         [by[0] * inv[0][0] + by[1] * inv[1][0], by[0] * inv[0][1] + by[1] * inv[1][1]]]
    return m


def oracle_iter(ctx, c, r, clause_prefix=""):
    """the property itself on the implementation's centroids: one-step map (trace, determinant,
    sense) and closure after one period within the proved splitting-error bound"""
    s = c.s
    ok = True
    a, t = float(c.a), float(c.t)
    for b in range(s.nb):
        S0m, U0, V0 = c.orb[b]
        cs = []
        for k in range(c.K + 1):
            S0, Sx, Sy, edge = r["impl"][k][b]
            if any(isinstance(v, str) for v in (S0, Sx, Sy)) or S0 == 0:
                return False
            cs.append((float(Sx / S0 - c.xc), float(Sy / S0 - c.yc)))
        rad = max(math.hypot(u, v) for u, v in cs)
        nontriv = rad >= 1.5 and c.K >= 3
        if c.K * a >= 1.0 and rad >= 1.5:
            m = fit_map(cs)
            if m is not None:
                tr, det = m[0][0] + m[1][1], m[0][0] * m[1][1] - m[0][1] * m[1][0]
                tolf = 2e-3 if s.kind == "lin" else 4e-3
                bad = None
                if abs(tr - (2 - a * t)) > tolf:
                    bad = "trace %.6f, expected 2 - a*t = %.6f" % (tr, 2 - a * t)
                elif abs(det - 1) > tolf:
                    bad = "determinant %.6f, expected 1" % det
                elif not (m[1][0] > 0 and m[0][1] < 0):
                    bad = "sense of rotation: M10 = %.5f (expected +tan a), M01 = %.5f (expected -a)" % (m[1][0], m[0][1])
                elif abs(m[1][0] - t) > tolf or abs(m[0][1] + a) > tolf:
                    bad = "entries M10 = %.5f (expected %.5f), M01 = %.5f (expected %.5f)" % (m[1][0], t, m[0][1], -a)
                if bad:
                    ctx.violation("impl-oracle", "measured one-step centroid map is not [[1-a*t,-a],[t,1]]: " + bad,
                                  case=c.replay(), observed=dict(fit=m, bunch=b), expected=dict(M=[[1 - a * t, -a], [t, 1]]),
                                  sig=dict(kind="rf", clause=clause_prefix + "one-step-map", rf=s.kind))
                    ok = False
        if c.steps is not None and c.K == c.steps and rad >= 1.5 and s.kind == "lin":
            # closure: N*mu in [N*a, N*a + N*a^3/4] (phase_advance_bounds, a in [1/1024, 1/2]); the
            # conjugating matrix of the ellipse has condition number <= (1 + a)
            N = c.steps
            dphi = abs(N * a - 2 * math.pi) + N * max(a, t) ** 3 / 4
            bound = (1 + max(a, t)) * 2 * math.sin(min(dphi, math.pi) / 2) * rad
            absmass = sum(abs(Fraction(v)) for v in c.data[b * s.n * s.n:(b + 1) * s.n * s.n])
            tolN = float(tol_orbit(c, N, b, sum((r["impl"][k][b][3] for k in range(N)), Fraction(0)), absmass) / abs(S0m))
            gap = math.hypot(cs[N][0] - cs[0][0], cs[N][1] - cs[0][1])
            if gap > bound + 2 * tolN + 1e-9:
                ctx.violation("impl-oracle", "the centroid is not back after one synchrotron period (%d steps)" % N,
                              case=c.replay(), observed=dict(start=cs[0], end=cs[N], gap=gap, bunch=b),
                              expected="gap <= %.3g (splitting error) + %.3g (rounding)" % (bound, 2 * tolN),
                              sig=dict(kind="rf", clause=clause_prefix + "closure", rf=s.kind))
                ok = False
            # and it must really have gone around: the far point of the orbit is opposite the start
            far = max(math.hypot(u - cs[0][0], v - cs[0][1]) for u, v in cs)
            if far < 1.2 * rad:
                ctx.violation("impl-oracle", "the centroid does not go around the origin within one period", case=c.replay(),
                              observed=dict(max_distance_from_start=far, radius=rad), expected="about 2*radius",
                              sig=dict(kind="rf", clause=clause_prefix + "rotation", rf=s.kind))
                ok = False
        ctx.case_done(("rfiter", c.cid, b), nontriv)
    return ok


# ------------------------------------------------------------------------------------ C08 part

def c08_rf_subcheck(ctx):
    """RF/drift part of C08: (1) correspondence of the offset vectors of multi-bunch maps with the
    model (every bunch's block of the RF map carries the field; the drift writes block 0 only, which
    KickMap::apply's x branch reads for every bunch); (2) slice-vs-single oracle: bunch b of an
    nb-bunch RFKickMap+DriftMap iteration equals, bit for bit, the single-bunch run on that bunch's
    data.  Returns the list of correspondence disagreements (violations are filed on ctx)."""
    dis = []
    offs = gen_offs_cases(ctx, 24 if ctx.quick() else 300, nbs=(2, 3), prefix="c8o")
    impl, model = run_offs(ctx, offs)
    for s in offs:
        d = compare_offs(s, impl[s.cid], model[s.cid])
        ok = oracle_offs(ctx, s, impl[s.cid])
        if d:
            dis.append(dict(case=dict(kind="rfoffs", setup=s.describe(), header=s.header(), calc=s.calc), detail=d[:3],
                            sig=dict(kind="rf", stage="correspondence", clause="offsets", multibunch=True)))
        ctx.case_done(("c08-rfoffs", s.cid), s.nb > 1)
    multi = gen_iter_cases(ctx, 6 if ctx.quick() else 40, sizes=(32, 48), nbs=(2, 3), prefix="c8m", full_period=False)
    singles = []
    for c in multi:
        c.dump = 1
        s = c.s
        for b in range(s.nb):
            s1 = RFSetup("%s.s%d" % (c.cid, b), s.n, 1, s.it, s.qmin, s.qmax, s.qscale, s.pmin, s.pmax, s.pscale, s.kind, s.rfpar, s.slip, s.E0)
            s1.shift = s.shift
            c1 = IterCase(s1, c.K, c.data[b * s.n * s.n:(b + 1) * s.n * s.n])
            c1.dump, c1.blob, c1.steps = 1, c.blob, c.steps
            c1.xc, c1.yc, c1.ratio = c.xc, c.yc, c.ratio
            singles.append(c1)
    res = run_iter(ctx, multi + singles)
    for c in multi:
        s = c.s
        r = res[c.cid]
        d, worst = compare_iter(ctx, c, r)
        if d:
            dis.append(dict(case=c.replay(), detail=d[:3], sig=dict(kind="rf", stage="correspondence", clause="orbit", multibunch=True)))
        for b in range(s.nb):
            r1 = res["%s.s%d" % (c.cid, b)]
            sl = r["out"][b * s.n * s.n:(b + 1) * s.n * s.n]
            moved = r1["out"] != [Fraction(v) for v in c.data[b * s.n * s.n:(b + 1) * s.n * s.n]]
            if sl != r1["out"]:
                k = next(i for i in range(len(sl)) if sl[i] != r1["out"][i])
                ctx.violation("impl-oracle", "bunch %d of a %d-bunch RF kick + drift run differs from the single-bunch run on the same data" % (b, s.nb),
                              case=c.replay(), observed=dict(bunch=b, cell=[k // s.n, k % s.n], multi=str(sl[k]), single=str(r1["out"][k])),
                              expected="bit-for-bit equal", sig=dict(kind="rf", clause="rf-all-bunches", multibunch=True))
            ctx.case_done(("c08-rfslice", c.cid, b), moved)
            ctx.count("c08:rf-slice-vs-single")
    return dis
