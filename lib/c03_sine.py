"""C03, program level, SINUSOIDAL RF (family st3drv, seed C03-J).

The sinusoidal RF map takes its slope in grid units from three quantities main() derives separately - revolutionpart (f_rev dt),
the effective voltage, and the phase scale of the x axis (`scale("Meter")` = natural bunch length bl -> _bl2phase) - while the drift
takes angle = 2 pi/steps: the centroid turns by `angle` per step only if bl is the bunch length that belongs to the synchrotron
frequency IN USE.  With the default options (f_s derived from alpha0) every consistent and most inconsistent ways of computing bl
coincide; they differ when `--SynchrotronFrequency` is given and disagrees with the `alpha0` option (the usual way of using it), or
when alpha0 is given explicitly.  The runs here: inovesa, `--LinearRF false`, no impedance / damping, a small off-centre blob from a
particle file (small phases: the sine is linear to ~1e-3), one synchrotron period with a record at every step, for

    route "fs":      -f <fs> with fs in {0.45 .. 2} x the frequency that belongs to the default alpha0
    route "alpha0":  --alpha0 <a> (f_s derived), a in {0.25 .. 4} x default
    route "fs+alpha0": both given, contradicting each other (f_s wins)

Oracle (the property on the implementation's own records /BunchPosition/data, /EnergyAverage/data): the centroid goes round the
origin in a fixed sense, the accumulated turning angle over the N steps of one period is 2 pi within the splitting error
(|turns - 1| <= 0.02 + a^2/4, a = 2 pi/N: the kick-drift pair advances by acos(1 - a tan(a)/2) = a (1 + a^2/8 ...), the sum of the
geometric angles of an ellipse differs from the phase advance by O(a) of one step), and the centroid is back near its start
(gap <= (0.02 + a^2/4) 2 pi r + a r).  The theorem that makes this hold for every option set is C03_sinusoidal_slope_is_angle
(coq/Proofs/ScalingRFSlopeP.v over Gen_Scaling)."""
import math, os, subprocess, tempfile, shutil
from vp_common import *
import vp_build


def _blob(rng, path, n, pq):
    cx, cy = (n - 1) / 2.0 + rng.choice([-1, 1]) * rng.uniform(4, 8), (n - 1) / 2.0 + rng.choice([-1, 1]) * rng.uniform(3, 7)
    sg = rng.uniform(2.0, 2.8)
    lines = []
    for x in range(n):
        for y in range(n):
            k = int(round(1500 * math.exp(-((x - cx) ** 2 + (y - cy) ** 2) / (2 * sg * sg))))
            if k > 0:
                lines += ["%r %r" % ((x / n - 0.5) * pq / 2, (y / n - 0.5) * pq / 2)] * k
    with open(path, "w") as f:
        f.write("\n".join(lines) + "\n")
    return dict(centre=[cx, cy], sigma=sg, peak_particles=1500)


def turning(cs):
    tot, sense = 0.0, []
    for (x0, y0), (x1, y1) in zip(cs, cs[1:]):
        d = math.atan2(x0 * y1 - y0 * x1, x0 * x1 + y0 * y1)
        tot += d
        sense.append(d)
    return tot, sense


def run_case(ctx, tg, env, wd, tag, opts_route, steps, blobinfo, blob, case_extra, sig_extra):
    out = os.path.join(wd, "s_%s.h5" % tag)
    n = 64
    opts = ["--GridSize", str(n), "--StepsPerTs", str(steps), "--rotations", "1", "--outstep", "1", "--VacuumGap", "0",
            "--UseCSR", "false", "--DampingTime", "0", "--InitialDistFile", blob, "-o", out, "--gui", "false",
            "--InterpolationPoints", "4", "--LinearRF", "false", "--RenormalizeCharge", "0"] + opts_route
    case = dict(kind="program-sine", options=[o if o not in (blob, out) else os.path.basename(o) for o in opts], blob=blobinfo,
                steps=steps, **case_extra)
    r = subprocess.run(["timeout", "300", tg["inovesa"]] + opts, capture_output=True, text=True, env=env)
    h = subprocess.run(["timeout", "120", tg["h5cat"], out, "--values", "--only", "/BunchPosition/data", "--only", "/EnergyAverage/data"],
                       capture_output=True, text=True)
    d = {}
    for l in h.stdout.splitlines():
        p = l.split()
        if p and p[0] == "data":
            d[p[1]] = [parse_c(t) for t in p[2:]]
    q, pe = d.get("/BunchPosition/data"), d.get("/EnergyAverage/data")
    if os.path.exists(out):
        os.remove(out)
    if "Building static, nonlinear RFKickMap" not in r.stdout + r.stderr:
        ctx.notes.append("program-sine %s: the binary did not report a static sinusoidal RF map" % tag)
    if not q or not pe or len(q) != steps + 1 or len(pe) != steps + 1 or any(isinstance(v, str) for v in q + pe):
        ctx.violation("impl-oracle", "sinusoidal RF run: results file lacks %d finite centroid records (rc=%d)" % (steps + 1, r.returncode),
                      case=case, observed=(r.stdout + r.stderr)[-300:], sig=dict(kind="rf", clause="program-sine-run", **sig_extra))
        return
    cs = [(float(x), float(y)) for x, y in zip(q, pe)]
    rad = max(math.hypot(u, v) for u, v in cs)
    rmin = min(math.hypot(u, v) for u, v in cs)
    a = 2 * math.pi / steps
    tot, sense = turning(cs)
    turns = abs(tot) / (2 * math.pi)
    tol = 0.02 + a * a / 4
    fixed = all(s > 0 for s in sense) or all(s < 0 for s in sense)
    gap = math.hypot(cs[-1][0] - cs[0][0], cs[-1][1] - cs[0][1])
    r0 = math.hypot(*cs[0])
    ctx.count("program-sine:%s" % sig_extra["route"])
    ctx.case_done(("program-sine", tag), rmin > 0.02 and steps >= 3)
    if not fixed or abs(turns - 1) > tol:
        ctx.violation("impl-oracle", "sinusoidal RF, %s: the centroid makes %.4f turns in the %d steps of one synchrotron period (mean step angle "
                      "%.4f x 2 pi/steps)%s" % (sig_extra["route"], turns, steps, turns, "" if fixed else ", sense of rotation not fixed"),
                      case=case, observed=dict(turns=turns, start=cs[0], end=cs[-1], radius_min=rmin, radius_max=rad, fixed_sense=fixed),
                      expected="1 within %.3g (splitting error of the kick-drift pair)" % tol,
                      sig=dict(kind="rf", clause="program-sine-turns", **sig_extra))
    elif gap > tol * 2 * math.pi * rad + a * rad:
        ctx.violation("impl-oracle", "sinusoidal RF, %s: the centroid is not back after one synchrotron period" % sig_extra["route"], case=case,
                      observed=dict(start=cs[0], end=cs[-1], gap=gap, r0=r0), expected="gap <= %.3g" % (tol * 2 * math.pi * rad + a * rad),
                      sig=dict(kind="rf", clause="program-sine-closure", **sig_extra))
    return dict(case, turns=turns, radius=[rmin, rad], gap=gap)


# f_s that belongs to the default options (alpha0 4e-3 ...): only used to place the chosen frequencies away from it; the oracle does
# not depend on it
FS_DEFAULT_GUESS = 43.5e3


def run_program_sine(ctx, nruns):
    rng = ctx.rng
    tg = ctx.build(harness=("impl_rf", "h5cat"), want_binary=True)
    env = vp_build.xdg_env()
    wd = tempfile.mkdtemp(prefix="c03sine", dir=os.path.join(VERIF, ".cache"))
    try:
        blob = os.path.join(wd, "blob.txt")
        info = _blob(rng, blob, 64, 12.0)
        routes = ["fs", "fs", "alpha0", "fs+alpha0", "default"]
        for i in range(nruns):
            route = routes[i % len(routes)]
            if i and i % len(routes) == 0:
                info = _blob(rng, blob, 64, 12.0)
            steps = rng.choice([40, 60, 80, 100])
            if route == "fs":
                f = FS_DEFAULT_GUESS * rng.choice([0.45, 0.6, 0.7, 1.4, 1.7, 2.0])
                o, ce = ["-f", repr(f)], dict(SynchrotronFrequency=f)
            elif route == "alpha0":
                al = 4e-3 * rng.choice([0.25, 0.5, 2.0, 4.0])
                o, ce = ["--alpha0", repr(al)], dict(alpha0=al)
            elif route == "fs+alpha0":
                f = FS_DEFAULT_GUESS * rng.choice([0.5, 0.7, 1.5])
                al = 4e-3 * rng.choice([0.3, 3.0])
                o, ce = ["-f", repr(f), "--alpha0", repr(al)], dict(SynchrotronFrequency=f, alpha0=al)
            else:
                o, ce = [], {}
            s = run_case(ctx, tg, env, wd, "r%d" % i, o, steps, info, blob, ce, dict(route=route))
            if s and i < 2:
                ctx.sample(s)
    finally:
        shutil.rmtree(wd, ignore_errors=True)


def run(ctx):
    """the one call lib/props/C03.py makes (family st3drv)"""
    ctx.rule += (" program-sine (family st3drv): inovesa with --LinearRF false, no impedance/damping, a small off-centre blob, one period with a "
                 "record at every step, on the routes {-f given and disagreeing with the default alpha0 (0.45..2 x), --alpha0 given, both given and "
                 "contradicting, defaults}: the centroid turns in a fixed sense, 1 turn per period within 0.02 + a^2/4, and is back at its start.")
    run_program_sine(ctx, 5 if ctx.quick() else 25)
