"""Build of /repo's *current working tree* for the correspondence harnesses.

Objects are cached per (flags, headers, source text) under /verif/.cache/obj so that a
change to one translation unit costs one recompile; link results are cached per tree hash.
Nothing here reads /repo/_build: InovesaConfig.hpp is generated from the .in template and
the version numbers in CMakeLists.txt, the source list is the glob CMake uses.
"""
import hashlib, os, re, subprocess, sys, glob, shutil, time, fcntl
from concurrent.futures import ThreadPoolExecutor

REPO = os.environ.get("VERIF_REPO", "/repo")
VERIF = os.path.dirname(os.path.dirname(os.path.abspath(__file__)))
CACHE = os.path.join(VERIF, ".cache")
GUARD = "INOVESA_INOVESA_VERIF"

BASE_DEFS = ["-DINOVESA_ENABLE_INTERRUPT=1", "-DINOVESA_USE_HDF5=1", "-DINOVESA_USE_OPENCL=0",
             "-DINOVESA_USE_OPENGL=0", "-DINOVESA_USE_PNG=0", '-DGIT_BRANCH="verif"',
             '-DGIT_COMMIT="worktree"', "-D" + GUARD]
INC = ["-I/usr/include/hdf5/serial"]
LIBS = ["-lboost_filesystem", "-lboost_program_options", "-lboost_system", "-lfftw3", "-lfftw3f",
        "-L/usr/lib/x86_64-linux-gnu/hdf5/serial", "-Wl,-rpath,/usr/lib/x86_64-linux-gnu/hdf5/serial",
        "-lhdf5_cpp", "-lhdf5", "-lpthread", "-lz", "-ldl", "-lm"]
# Plain IEEE single precision, no FMA contraction: the exact stream relies on it (DESIGN 3).
FLAVOURS = {
    "std":  ["-std=c++14", "-fext-numeric-literals", "-O1", "-g0", "-w", "-ffp-contract=off"],
    "asan": ["-std=c++14", "-fext-numeric-literals", "-O1", "-g", "-w", "-ffp-contract=off",
             "-fsanitize=address,undefined,float-cast-overflow", "-fno-sanitize-recover=all",
             "-fno-omit-frame-pointer",
             # gcc 12's ASan does not instrument the inlined load of a std::complex element at -O1: libstdc++'s own
             # bounds assertions (vector::operator[], ...) catch an index past the end of a std::vector regardless
             "-D_GLIBCXX_ASSERTIONS"],
}


def sha(*parts):
    h = hashlib.sha1()
    for p in parts:
        h.update(p if isinstance(p, bytes) else p.encode())
        h.update(b"\0")
    return h.hexdigest()


def read(p):
    with open(p, "rb") as f:
        return f.read()


def repo_sources():
    srcs = sorted(glob.glob(os.path.join(REPO, "src", "**", "*.cpp"), recursive=True))
    return srcs


def headers_hash():
    hs = sorted(glob.glob(os.path.join(REPO, "inc", "**", "*.hpp"), recursive=True))
    hs = [h for h in hs if not h.endswith("local_cl.hpp")]
    parts = []
    for h in hs:
        parts.append(h)
        parts.append(read(h))
    parts.append(read(os.path.join(REPO, "InovesaConfig.hpp.in")))
    parts.append(read(os.path.join(REPO, "CMakeLists.txt")))
    return sha(*parts)


def tree_hash():
    parts = [headers_hash()]
    for s in repo_sources():
        parts.append(s)
        parts.append(read(s))
    return sha(*parts)


def gen_config(dst):
    os.makedirs(dst, exist_ok=True)
    cm = read(os.path.join(REPO, "CMakeLists.txt")).decode()
    tpl = read(os.path.join(REPO, "InovesaConfig.hpp.in")).decode()
    for k in ("MAJOR", "MINOR", "FIX"):
        m = re.search(r"set\s*\(\s*INOVESA_VERSION_%s\s+(-?\d+)\s*\)" % k, cm)
        tpl = tpl.replace("@INOVESA_VERSION_%s@" % k, m.group(1) if m else "0")
    p = os.path.join(dst, "InovesaConfig.hpp")
    if not os.path.exists(p) or read(p).decode() != tpl:
        with open(p, "w") as f:
            f.write(tpl)
    return dst


class BuildError(Exception):
    pass


class HookedBuildError(BuildError):
    """a translation unit of the repository compiles as the project itself builds it (guard off) but not with
    -DINOVESA_INOVESA_VERIF: a guarded hook no longer fits the code around it"""


class HarnessBuildError(BuildError):
    """every translation unit of the repository compiles (with and without the guard) but a harness program of the
    framework does not: the harness reaches into something (a private member, a signature) that has changed"""


def _compiles_unhooked(src, flags, incs):
    """does this repository source compile with the guard off (nothing cached, no object kept)?"""
    defs = [d for d in BASE_DEFS if d != "-D" + GUARD]
    r = subprocess.run(["g++"] + flags + defs + incs + ["-fsyntax-only", src], capture_output=True, text=True)
    return r.returncode == 0


def _compile(src, flags, incs, hh, extra_key=""):
    key = sha(" ".join(flags), " ".join(incs), hh, read(src), extra_key)
    objdir = os.path.join(CACHE, "obj")
    os.makedirs(objdir, exist_ok=True)
    obj = os.path.join(objdir, key + ".o")
    if os.path.exists(obj):
        return obj
    tmp = obj + ".tmp%d" % os.getpid()
    cmd = ["g++"] + flags + BASE_DEFS + incs + ["-c", src, "-o", tmp]
    r = subprocess.run(cmd, capture_output=True, text=True)
    if r.returncode != 0:
        raise BuildError("compile failed: %s\n%s" % (" ".join(cmd), r.stderr[-4000:]))
    os.replace(tmp, obj)
    return obj


def _lock():
    os.makedirs(CACHE, exist_ok=True)
    f = open(os.path.join(CACHE, "build.lock"), "w")
    fcntl.flock(f, fcntl.LOCK_EX)
    return f


def build(flavour="std", harness=("impl_kick",), want_binary=True, log=None):
    """Returns dict with paths: 'inovesa', and one entry per harness program."""
    lk = _lock()
    try:
        th = tree_hash()
        hh = headers_hash()
        flags = FLAVOURS[flavour]
        outdir = os.path.join(CACHE, "bin", flavour + "-" + sha(th, " ".join(flags))[:16])      # tree AND flags
        os.makedirs(outdir, exist_ok=True)
        cfgdir = gen_config(os.path.join(CACHE, "cfg", hh[:16]))
        incs = ["-I" + cfgdir, "-I" + os.path.join(REPO, "inc")] + INC
        srcs = repo_sources()
        res = {}
        need = []
        hsrcs = {h: os.path.join(VERIF, "harness", h + ".cpp") for h in harness}
        targets = {}
        if want_binary:
            targets["inovesa"] = os.path.join(outdir, "inovesa")
        common = b"".join(read(p) for p in sorted(glob.glob(os.path.join(VERIF, "harness", "*.hpp"))))
        for h in harness:
            hk = sha(read(hsrcs[h]), common)[:10]
            targets[h] = os.path.join(outdir, h + "-" + hk)
        if all(os.path.exists(t) for t in targets.values()):
            return targets
        t0 = time.time()
        with ThreadPoolExecutor(max_workers=16) as ex:
            futs = {s: ex.submit(_compile, s, flags, incs, hh) for s in srcs}
            hf = {h: ex.submit(_compile, hsrcs[h], flags, incs + ["-I" + os.path.join(VERIF, "harness")], hh,
                               sha(common)) for h in harness}
            objs, hobjs, rfail, hfail = {}, {}, {}, {}
            for s, f in futs.items():
                try:
                    objs[s] = f.result()
                except BuildError as e:
                    rfail[s] = e
            for h, f in hf.items():
                try:
                    hobjs[h] = f.result()
                except BuildError as e:
                    hfail[h] = e
        if rfail:
            # which kind of failure: the repository itself, or only its hooked (guarded) form
            src, err = sorted(rfail.items())[0]
            if all(_compiles_unhooked(x, flags, incs) for x in rfail):
                raise HookedBuildError("hooked build fails but unhooked build succeeds (%s compile(s) with -D%s off, not with it on): %s"
                                       % (", ".join(os.path.relpath(x, REPO) for x in sorted(rfail)), GUARD, err))
            raise BuildError("the repository does not build (also with the guard off): %s" % err)
        if hfail:
            h, err = sorted(hfail.items())[0]
            raise HarnessBuildError("harness build fails but the repository's own sources build, hooked and unhooked (%s does not compile against "
                                    "the current headers): %s" % (", ".join("harness/%s.cpp" % x for x in sorted(hfail)), err))
        lib = [o for s, o in objs.items() if not s.endswith("/main.cpp")]
        mainobj = [o for s, o in objs.items() if s.endswith("/main.cpp")]
        for name, tgt in targets.items():
            if os.path.exists(tgt):
                continue
            o = mainobj if name == "inovesa" else [hobjs[name]]
            cmd = ["g++"] + [f for f in flags if f.startswith("-fsanitize") or f.startswith("-fno-")] \
                + o + lib + LIBS + ["-o", tgt + ".tmp"]
            r = subprocess.run(cmd, capture_output=True, text=True)
            if r.returncode != 0:
                raise BuildError("link failed: %s\n%s" % (name, r.stderr[-4000:]))
            os.replace(tgt + ".tmp", tgt)
        if log:
            log("built %s flavour=%s in %.1fs" % (",".join(targets), flavour, time.time() - t0))
        _prune()
        return targets
    finally:
        lk.close()


def _prune(keep=6):
    """Disk is limited: keep the newest few link directories and a bounded object cache."""
    bdir = os.path.join(CACHE, "bin")
    if os.path.isdir(bdir):
        ds = sorted((os.path.join(bdir, d) for d in os.listdir(bdir)), key=os.path.getmtime)
        for d in ds[:-keep]:
            shutil.rmtree(d, ignore_errors=True)
    odir = os.path.join(CACHE, "obj")
    if os.path.isdir(odir):
        fs = sorted((os.path.join(odir, f) for f in os.listdir(odir)), key=os.path.getmtime)
        if len(fs) > 600:
            for f in fs[:-400]:
                try:
                    os.remove(f)
                except OSError:
                    pass


def xdg_env():
    """FFTW wisdom is kept inside the cache so bit-exact comparisons share one set of plans."""
    d = os.path.join(CACHE, "xdg")
    os.makedirs(os.path.join(d, "inovesa", "fftwisdom"), exist_ok=True)
    e = dict(os.environ)
    e["XDG_DATA_HOME"] = d
    e["HOME"] = os.path.join(CACHE, "home")
    os.makedirs(e["HOME"], exist_ok=True)
    return e


if __name__ == "__main__":
    fl = sys.argv[1] if len(sys.argv) > 1 else "std"
    hs = tuple(sys.argv[2:]) if len(sys.argv) > 2 else ()
    print(build(fl, harness=hs, log=print))
