"""C12, second sentence ("two runs with identical parameters and the same FFT wisdom produce bit-identical physics
datasets") with the wisdom directory as part of the input (strengthening driven by seed F1-I).

Every other program-level run of the framework shares one pre-created wisdom directory (vp_build.xdg_env).  Here each
configuration gets a data directory Inovesa has NEVER used (XDG_DATA_HOME points to an empty directory) and a history:

    run, run, run, delete one wisdom file, run, garbage in one file, run, copy one file over another, run,
    remove everything / create the empty directory, run

Oracle (implementation only):
  * after the first run every file named in a "Created some wisdom at .." line exists;
  * the second and third run (same directory, untouched in between) print no such line and rewrite no wisdom file - every
    planner call measures run times (generated `wisdom_planner_timed`), a run that plans again gets whatever plan the clock
    picks - and their physics datasets are bit-identical.
Correspondence: the extracted wisdom machine (coq/Model/Wisdom.v run over the GENERATED table of prepareFFT bodies,
family `wisdom`) is fed the same history; per run its `logged` list must be the run's "Created some wisdom" lines in order,
its `written` set the files whose content / mtime changed, its file set the directory listing."""
import os, re, shutil, subprocess, hashlib
import vp_coq
import driver_cases as dc

VERIF = os.path.dirname(os.path.dirname(os.path.abspath(__file__)))
PHYS_PREFIXES = ("/BunchLength", "/BunchPopulation", "/BunchPosition", "/BunchProfile", "/CSR", "/EnergyAverage",
                 "/EnergyProfile", "/EnergySpread", "/Particles", "/PhaseSpace", "/RFKicks", "/WakePotential", "/Info/AxisValues")


def table_kinds():
    """kinds of wisdom file in the order of the generated table (index = what the model driver takes); planner timed?"""
    txt = open(os.path.join(VERIF, "coq", "Gen", "Gen_Wisdom.v")).read()
    kinds = []
    for m in re.finditer(r"mkprep \[([^\]]*)\]", txt):
        kinds += re.findall(r'"([^"]+)"', m.group(1))
    timed = re.search(r"Definition wisdom_planner_timed : bool := (\w+)\.", txt)
    return kinds, (timed is None or timed.group(1) == "true")


def snapshot(wdir):
    res = {}
    if os.path.isdir(wdir):
        for f in sorted(os.listdir(wdir)):
            p = os.path.join(wdir, f)
            if os.path.isfile(p):
                res[f] = (os.stat(p).st_mtime_ns, hashlib.sha1(open(p, "rb").read()).hexdigest())
    return res


def key_of_name(name):
    m = re.match(r"^wisdom_([A-Za-z0-9]+)_(\d+)\.fftw$", os.path.basename(name))
    return (m.group(1), int(m.group(2))) if m else None


class History:
    """one data directory and what happens to it"""

    def __init__(self, tg, cfg, root):
        self.tg, self.cfg, self.root = tg, cfg, root
        self.xdg = os.path.join(root, "xdg")
        self.wdir = os.path.join(self.xdg, "inovesa", "fftwisdom")
        self.home = os.path.join(root, "home")
        os.makedirs(self.xdg)
        os.makedirs(self.home)
        self.acts = []            # (model text, description)
        self.runs = []            # observations of the real runs, in order
        self.nrun = 0

    def fname(self, key):
        return os.path.join(self.wdir, "wisdom_%s_%d.fftw" % key)

    def run(self):
        out = os.path.join(self.root, "run%d.h5" % self.nrun)
        before = snapshot(self.wdir)
        r = dc.run_real(self.tg, self.cfg, out, want_trace=False, extra_env={"XDG_DATA_HOME": self.xdg, "HOME": self.home})
        after = snapshot(self.wdir)
        created = re.findall(r"Created some wisdom at (\S+)", r["log"])
        obs = dict(rc=r["rc"], cmd=r["cmd"], log=r["log"], out=out, created_paths=created,
                   logged=[key_of_name(p) for p in created], files=sorted(k for k in (key_of_name(f) for f in after) if k),
                   written=sorted(k for k in (key_of_name(f) for f in after if before.get(f) != after[f]) if k),
                   dir=os.path.isdir(self.wdir), index=self.nrun)
        self.runs.append(obs)
        self.acts.append(("R", "run %d" % self.nrun))
        self.nrun += 1
        return obs

    def delete(self, key):
        os.remove(self.fname(key))
        self.acts.append(("D", key))

    def garbage(self, key):
        with open(self.fname(key), "w") as f:
            f.write("this is not (fftw wisdom\n")
        self.acts.append(("G", key))

    def copy(self, src, dst):
        shutil.copyfile(self.fname(src), self.fname(dst))
        self.acts.append(("C", src, dst))

    def rmdir(self):
        shutil.rmtree(self.xdg)
        os.makedirs(self.xdg)
        self.acts.append(("X",))

    def mkdir(self):
        os.makedirs(self.wdir, exist_ok=True)
        self.acts.append(("M",))

    def model_text(self, cid, kinds, reqs):
        ix = lambda k: "%d %d" % (kinds.index(k[0]), k[1])
        parts = []
        for a in self.acts:
            if a[0] == "R":
                parts.append("R %d %s" % (len(reqs), " ".join(ix(k) for k in reqs)))
            elif a[0] in ("D", "G"):
                parts.append("%s %s" % (a[0], ix(a[1])))
            elif a[0] == "C":
                parts.append("C %s %s" % (ix(a[1]), ix(a[2])))
            else:
                parts.append(a[0])
        return "hist %s %d %s\n" % (cid, len(self.acts), " ".join(parts))

    def describe(self):
        return [a[1] if a[0] == "R" else " ".join(str(x) for x in a) for a in self.acts]


def run_model(text):
    r = subprocess.run(["timeout", "120", vp_coq.model_path("wisdom")], input=text, capture_output=True, text=True)
    if r.returncode != 0:
        raise RuntimeError("wisdom model failed: %s" % r.stderr[-400:])
    res, cur = {}, None
    for line in r.stdout.splitlines():
        p = line.split()
        if not p:
            continue
        if p[0] == "case":
            cur = []
            res[p[1]] = cur
        elif p[0] == "run" and cur is not None:
            f = {}
            for seg in line[4:].split("|"):
                w = seg.split()
                f[w[0]] = w[1:]
            cur.append(f)
    return res


def physics_equal(tg, a, b):
    ha, hb = dc.h5read(tg, a, values=False), dc.h5read(tg, b, values=False)
    if ha is None or hb is None:
        return ["a results file is unreadable"]
    return ["dataset %s differs" % ds for ds in sorted(ha) if ds.startswith(PHYS_PREFIXES) and
            (ds not in hb or ha[ds]["fnv"] != hb[ds]["fnv"] or ha[ds]["dims"] != hb[ds]["dims"])]


def stage(ctx, tg, wd, use_model, dis):
    rng = ctx.rng
    try:
        kinds, timed = table_kinds()
    except Exception as e:
        kinds, timed = [], True
        ctx.notes.append("Gen_Wisdom.v unreadable: %s" % e)
    nconf = 2 if ctx.quick() else 6
    for ci in range(nconf):
        cfg = dict(n=rng.choice([16, 24, 32]), N=rng.choice([4, 5, 6]), T=1, renorm=rng.choice([-1, 0, 2]), wake=(ci != 1), dynrf=False,
                   outstep=rng.choice([1, 2]), h5save=1, tracking=None, verbose=False)
        root = os.path.join(wd, "wis%d" % ci)
        os.makedirs(root)
        h = History(tg, cfg, root)
        case = dict(cmd=" ".join(dc.cmdline(cfg, "run.h5")), data_directory="XDG_DATA_HOME = an empty directory (Inovesa never ran with it)")
        r1 = h.run()
        if r1["rc"] != 0:
            ctx.violation("impl-oracle", "run from an empty data directory failed", case=case, observed=r1["log"][-400:], sig={"oracle": "run-failed"})
            continue
        reqs = []
        for k in r1["logged"]:
            if k is not None and k not in reqs:
                reqs.append(k)
        # --- oracle: the wisdom the first run says it created is there
        missing = [p for p in r1["created_paths"] if not os.path.isfile(p)]
        if missing:
            ctx.violation("impl-oracle", "the first run in a fresh data directory reports 'Created some wisdom at %s' but no such file exists afterwards "
                          "(%d of %d files missing): the next run has to plan its FFTs again" % (missing[0].replace(root, "<data>"), len(missing), len(r1["created_paths"])),
                          case=case, observed=dict(files=[str(k) for k in r1["files"]], directory_exists=r1["dir"]), expected="one wisdom file per created line",
                          sig={"oracle": "wisdom", "clause": "wisdom-file-missing"})
        r2 = h.run()
        r3 = h.run()
        for r in (r2, r3):
            if r["created_paths"] and timed:
                ctx.violation("impl-oracle", "run %d in the same data directory plans %d FFT(s) again (FFTW_PATIENT: by measuring run times) although run 1 "
                              "had planned them: the wisdom of run 1 was not stored / not used" % (r["index"] + 1, len(r["created_paths"])),
                              case=dict(case, history=h.describe()), observed=[os.path.basename(p) for p in r["created_paths"]], expected="no 'Created some wisdom' line",
                              sig={"oracle": "wisdom", "clause": "replanned-with-stored-wisdom"})
                break
        if r2["rc"] == 0 and r3["rc"] == 0:
            d = physics_equal(tg, r2["out"], r3["out"])
            if d:
                ctx.violation("impl-oracle", "two runs with identical parameters in the same data directory differ: " + d[0], case=dict(case, history=h.describe()),
                              observed=d[:5], expected="bit-identical physics datasets", sig={"oracle": "wisdom", "clause": "repeat-differs", "dataset": d[0].split()[1]})
        ctx.count("wisdom:empty-directory:%s" % ("wake" if cfg["wake"] else "nowake"))
        # --- the history goes on: what the correspondence is for
        if reqs and all(os.path.isfile(h.fname(k)) for k in reqs):
            k = rng.choice(reqs)
            h.delete(k)
            h.run()
            k = rng.choice(reqs)
            h.garbage(k)
            h.run()
            if len(reqs) >= 2:
                a, b = rng.sample(reqs, 2)
                h.copy(a, b)
                h.run()
                h.run()
            if ci % 2 == 0:
                h.rmdir()
                h.mkdir()
            else:
                h.rmdir()
            h.run()
            h.run()
        ctx.case_done(("wisdom", ci), len(reqs) >= 1 and len(h.runs) >= 5)
        # --- correspondence with the extracted machine
        if use_model and kinds and reqs and all(k[0] in kinds for k in reqs):
            try:
                mo = run_model(h.model_text("w%d" % ci, kinds, reqs)).get("w%d" % ci, [])
            except Exception as e:
                dis.append(dict(case=case, detail=str(e)[-300:], sig={"stage": "correspondence", "what": "wisdom-model"}))
                mo = None
            if mo is not None:
                tok = lambda ks: ["%d:%d" % (kinds.index(k[0]), k[1]) for k in ks if k is not None and k[0] in kinds]
                if len(mo) != len(h.runs):
                    dis.append(dict(case=case, detail="model made %d runs, history has %d" % (len(mo), len(h.runs)), sig={"stage": "correspondence", "what": "wisdom-model"}))
                for m, r in zip(mo, h.runs):
                    bad = []
                    # the program may prepare a transform twice in one process: after the first time nothing happens in the model either
                    if m["logged"] != tok(r["logged"]):
                        bad.append("'Created some wisdom' lines: real %s, model %s" % (tok(r["logged"]), m["logged"]))
                    if sorted(m["written"]) != sorted(tok(r["written"])):
                        bad.append("files written: real %s, model %s" % (sorted(tok(r["written"])), sorted(m["written"])))
                    if sorted(x.rsplit(":", 1)[0] for x in m["files"]) != sorted(tok(r["files"])):
                        bad.append("files present: real %s, model %s" % (sorted(tok(r["files"])), sorted(m["files"])))
                    if (m["dir"] == ["1"]) != r["dir"]:
                        bad.append("wisdom directory exists: real %s, model %s" % (r["dir"], m["dir"]))
                    if bad:
                        dis.append(dict(case=dict(case, history=h.describe(), run=r["index"]), detail="; ".join(bad),
                                        sig={"stage": "correspondence", "what": "wisdom-history"}))
                        break
                for _ in h.runs:
                    ctx.count("wisdom:history-run-against-model")
        ctx.sample(dict(wisdom_history=h.describe(), transforms=[str(k) for k in reqs], cmd=case["cmd"],
                        created_per_run=[len(r["created_paths"]) for r in h.runs]))
