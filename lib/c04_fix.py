"""C04, second wave: the proved fixed point, contraction factor and norm of the coupled second-moment recurrence
(coq/Model/Moments2Fix.v: smq_fix, smq_rho, smq_N, extracted; theorems C04_fixed_point, C04_fixed_point_unique,
C04_coupled_contraction_one_step, C04_coupled_deviation_contracts_partial, C04_fixed_point_unit_width) against long
iterations of RFKickMap + DriftMap + FokkerPlanckMap through the repo's API (harness/impl_fp.cpp `evo`), from starts
wider and narrower than the equilibrium; and the exact law of linear interpolation (C04_linear_interpolation_numerical_diffusion,
C04_numerical_diffusion_bounds) against single steps of the implementation with it = 2.

Called from lib/props/C04.py with that module as `C` (EvoCase, make_data, run_evo, sm_step, fixpoint)."""
import math
from fractions import Fraction
from vp_common import *
import vp_coq


def _model_fixpt(cid, v, a, t, e1, d, triples):
    text = "fixpt %s %d %d\n%s %s %s %s\n%s\n" % (cid, v, len(triples), qtok(a), qtok(t), qtok(e1), qtok(d),
                                                 "\n".join(" ".join(qtok(x) for x in tr) for tr in triples))
    rc, out, err = run_driver(vp_coq.model_path("fp"), text)
    if rc != 0:
        raise RuntimeError("model_fp fixpt: " + err[-300:])
    r = parse_cases(out)[cid]
    fix = [parse_q(x) for x in r["fix"][0]]
    rho = parse_q(r["rho"][0][0])
    N = {int(l[0]): parse_q(l[1]) for l in r.get("N", [])}
    return fix, rho, [N[i + 1] for i in range(len(triples))]


def _fsqrt_up(q):
    """an upper bound of sqrt(q) as a Fraction (q >= 0)"""
    if q <= 0:
        return Fraction(0)
    return Fraction(math.sqrt(float(q))) * (1 + Fraction(1, 10 ** 12))


def _fsqrt_dn(q):
    if q <= 0:
        return Fraction(0)
    return Fraction(math.sqrt(float(q))) * (1 - Fraction(1, 10 ** 12))


def gen_fix(ctx, C):
    rng = ctx.rng
    q = ctx.quick()
    # (n, zoom, half): starts narrower (0.5) and wider (2) than the equilibrium, and one matched start
    base = [(64, 0.5, 7.0), (64, 2.0, 13.0), (48, 2.0, 13.0), (64, 0.5, 7.0), (64, 1.0, 7.0), (48, 0.5, 6.5)]
    if not q:
        base = base * 3
    cases = []
    for i, (n, zoom, half) in enumerate(base):
        # steps per synchrotron period: 64 lies inside the documented domain of C04_fixed_point_unit_width (a <= 1/10);
        # e1 <= a always (underdamped: the domain of the contraction theorem)
        P = 64 if i % 3 == 0 else rng.choice([24, 32, 48, 64])
        # the explicit 3-point Fokker-Planck step is stable only for e1/delta^2 <= 1/2 (the grid's Nyquist mode is multiplied by
        # 1 - 4 e1/delta^2 per step); beyond it rounding noise is amplified until the array overflows, while the moment
        # theorems, which hold in exact arithmetic, see nothing.  The runs stay inside e1/delta^2 <= 0.42.
        delta2 = (2 * half / (n - 1)) ** 2
        e1 = rng.choice([e for e in (1.0 / 32, 0.02, 0.03, 0.025, 1.0 / 64, 0.0125) if e / delta2 <= 0.42])
        it = rng.choice([3, 4])
        shape = rng.choice(["gauss", "flat", "tilted"]) if zoom >= 1 else rng.choice(["gauss", "tilted"])
        steps = int(12 / e1)
        c = C.EvoCase("x%d" % i, 3, 3, n, it, steps, 1, half, P, e1, zoom, shape, C.make_data(n, half, zoom, shape))
        cases.append(c)
        ctx.count("fixpt:it%d:zoom%s:P%d:%s" % (it, zoom, P, shape))
    return cases


def check_fix(ctx, C, c, r, dis):
    n = c.n
    tanv, dq, dp, xc, yc = r["setup"][:5]
    a, t, e1, d = Fraction(c.angle), tanv, Fraction(c.e1), dp
    M = r["m"]
    sig = dict(kind="fixpt", dt=c.dt, variant="full")
    K = c.steps
    # the quadratic form of Model/Moments2Fix.v, mirrored here only for the tolerance; tied to the extracted smq_N below
    g1, g12, g2 = (1 - e1) * t, (a * t - e1) / 2, a
    DG = g1 * g2 - g12 * g12
    if not (0 < e1 <= a <= t and a * t <= 1 and e1 <= Fraction(1, 10)):
        raise RuntimeError("generator: case outside the underdamped domain of C04_coupled_deviation_contracts_partial")
    ks = sorted(set(list(range(0, K + 1, max(1, K // 40))) + list(range(K - c.P, K + 1, max(1, c.P // 8))) + [K]))
    ks = [k for k in ks if k in M]
    if any(isinstance(x, str) for k in ks for x in M[k]):
        ctx.violation("impl-oracle", "non-finite moments in a fixed-point run", case=c.replay(), sig=dict(sig, clause="finite"))
        return
    # a first call gives the fixed point; the deviations need it
    fix, rho, probe = _model_fixpt(c.cid, c.v, a, t, e1, d, [(1, 0, 0), (0, 0, 1), (0, 1, 0)])
    if probe != [g1 * g1, g2 * g2, 4 * g12 * g12 + 2 * DG]:
        dis.append(dict(case=c.replay(), detail="Python mirror of the norm differs from Model/Moments2Fix.v",
                        sig=dict(kind="fixpt", stage="correspondence")))
        return
    # (i)+(ii): the closed form is THE solution of (I - A) m = b (Gauss elimination over Fractions, independent of the closed form)
    if list(C.fixpoint(c.v, a, t, e1, d)) != fix:
        dis.append(dict(case=c.replay(), detail="closed-form fixed point (smq_fix) is not the solution of the 3x3 system of the recurrence",
                        sig=dict(kind="fixpt", stage="correspondence")))
        return
    # and the recurrence (Python copy, tied to smq_step by the evo oracle) leaves it where it is
    fm = (fix[0], fix[1], fix[2], Fraction(1))
    if tuple(C.sm_step(c.v, a, t, e1, d, fm)) != fm:
        dis.append(dict(case=c.replay(), detail="smq_fix is not a fixed point of the recurrence", sig=dict(kind="fixpt", stage="correspondence")))
        return
    if not (0 < rho < 1 and DG > 0):
        raise RuntimeError("contraction factor of the case is not below 1")
    if rho > 1 - Fraction(4, 5) * e1:
        dis.append(dict(case=c.replay(), detail="smq_rho exceeds the proved bound 1 - 4 e1/5", sig=dict(kind="fixpt", stage="correspondence")))
        return
    devs = []
    for k in ks:
        g0, gu, gv, guu, guv, gvv, edge = M[k]
        devs.append((guu - g0 * fix[0], guv - g0 * fix[1], gvv - g0 * fix[2]))
    _, _, Ns = _model_fixpt(c.cid, c.v, a, t, e1, d, devs)
    if any(x < 0 for x in Ns):
        dis.append(dict(case=c.replay(), detail="N negative on a deviation (C04_norm_is_definite)", sig=dict(kind="fixpt", stage="correspondence")))
        return
    m00 = M[0][0]
    size = max(M[0][3], M[0][5], m00 * fix[0], m00 * fix[2])
    cN = _fsqrt_up((g1 + 2 * abs(g12) + g2) ** 2 + 4 * DG)      # sqrt N(eps) <= cN * max|eps|
    s0 = _fsqrt_up(Ns[0])
    cum_edge = Fraction(0)
    edges = {}
    for k in range(0, K + 1):
        if k in M:
            cum_edge += 2 * M[k][6]
        edges[k] = cum_edge
    worst = 0.0
    late = 0.0
    for k, Nk in zip(ks, Ns):
        if 2 * edges[k] * Fraction(n * n, 4) > Fraction(1, 100) * size:
            ctx.notes.append("%s: border-limited from step %d on; later steps not evaluated" % (c.cid, k))
            break
        # float accumulation (measured: at most 5e-6 of the moment scale after 12 damping times) + what the border can have cut
        tol = (Fraction(5, 10 ** 5) + k * Fraction(5, 10 ** 8)) * size + 2 * edges[k] * Fraction(n * n, 4)
        bound = rho ** k * s0 + cN * tol
        got = _fsqrt_dn(Nk)
        if k > 0:
            worst = max(worst, float(got / bound))
        if k >= K - c.P:
            late = max(late, float(got / (cN * tol)))
        if got > bound:
            ctx.violation("impl-oracle",
                          "deviation of the implementation's second moments from the proved fixed point does not contract as "
                          "C04_coupled_deviation_contracts_partial says (step %d of %d)" % (k, K), case=c.replay(),
                          observed=dict(step=k, sqrtN=float(got), Muu=float(M[k][3] / M[k][0]), Mvv=float(M[k][5] / M[k][0])),
                          expected=dict(bound=float(bound), rho=float(rho), fix_uu=float(fix[0]), fix_vv=float(fix[2])),
                          sig=dict(sig, clause="equilibrium" if k >= K - c.P else "contraction"))
            return
    # unit width where the documented domain of C04_fixed_point_unit_width applies (a <= 1/10, a <= t <= a + a^3, delta <= 1/2)
    if a <= Fraction(1, 10) and a <= t <= a + a ** 3 and 0 < d <= Fraction(1, 2) and K in M:
        last = M[K]
        sp2, sq2 = d * d * last[5] / last[0], d * d * last[3] / last[0]
        slack = Fraction(3, 1000) + 4 * rho ** K * max(Fraction(c.zoom) ** 2, 1)
        lo_p, lo_q, hi = 1 - d * d / 2, 1 - d * d / 2 - e1 / 2 - a * a, 1 + a * a
        if not (lo_p - slack <= sp2 <= hi + slack and lo_q - slack <= sq2 <= hi + slack):
            ctx.violation("impl-oracle", "equilibrium spreads of the implementation leave the interval of C04_fixed_point_unit_width",
                          case=c.replay(), observed=dict(energy_spread2=float(sp2), bunch_length2=float(sq2)),
                          expected=dict(energy=[float(lo_p), float(hi)], length=[float(lo_q), float(hi)]),
                          sig=dict(sig, clause="unit-width"))
            return
        ctx.count("fixpt-unit-width")
    ctx.extra.setdefault("fixpt_worst_ratio_to_bound", {})[c.cid] = round(worst, 4)
    ctx.extra.setdefault("fixpt_last_period_deviation_over_float_tolerance", {})[c.cid] = round(late, 4)
    ctx.extra.setdefault("fixpt_rho", {})[c.cid] = float(rho)
    ctx.case_done(("fixpt", c.cid), True)


# ------------------------------------------------------------------ linear interpolation: the exact law of one step

def gen_lin(ctx, C):
    rng = ctx.rng
    cases = []
    for i, v in enumerate([3, 0, 2] if ctx.quick() else [3, 0, 2, 1, 3, 0]):
        n, zoom, half = rng.choice([(64, 1.0, 7.0), (64, 2.0, 13.0), (48, 1.0, 6.5)])
        P = rng.choice([32, 48, 64])
        e1 = rng.choice([0.01, 0.02, 1.0 / 64])           # e1/delta^2 <= 0.41 on these grids: stable
        c = C.EvoCase("l%d" % i, 3, v, n, 2, 40, 1, half, P, e1, zoom, "gauss", C.make_data(n, half, zoom, "gauss"))
        cases.append(c)
        ctx.count("lin-interp:%s" % ("none", "damping", "diffusion", "full")[v])
    return cases


def check_lin(ctx, C, c, r):
    tanv, dq, dp, xc, yc = r["setup"][:5]
    a, t, e1, d = Fraction(c.angle), tanv, Fraction(c.e1), dp
    M = r["m"]
    dd = e1 if C.has_damp(c.v) else 0
    sig = dict(kind="lin-interp", variant=("none", "damping", "diffusion", "full")[c.v])
    worst = 0.0
    for k in range(0, c.steps):
        if k not in M or k + 1 not in M:
            continue
        g0, _, _, guu, guv, gvv, edge = M[k]
        h0, _, _, huu, huv, hvv, _ = M[k + 1]
        if edge * c.n * c.n > Fraction(1, 1000) * g0:
            break
        s = C.sm_step(c.v, a, t, e1, d, (guu, guv, gvv, g0))
        size = max(guu, gvv, g0)
        tol = Fraction(1, 10 ** 5) * size + 2 * edge * Fraction(c.n * c.n, 4)
        # C04_linear_interpolation_numerical_diffusion: Mvv' = s_vv + (1-2d) Nrf, Muv' = s_uv - (1-d) a Nrf, Muu' = s_uu + Ndr + a^2 Nrf
        Nrf = (hvv - s[2]) / (1 - 2 * dd)
        Ndr = (huu - s[0]) - a * a * Nrf
        res = (huv - s[1]) + (1 - dd) * a * Nrf
        worst = max(worst, float(abs(res) / tol))
        bad = None
        # C04_numerical_diffusion_bounds (data non-negative up to the rounding of the Fokker-Planck step)
        if not (-tol <= Nrf <= g0 / 4 + tol and -tol <= Ndr <= g0 / 4 + tol):
            bad = "variance added by linear interpolation outside [0, M0/4]"
        elif abs(res) > tol:
            bad = "cross moment does not carry the inflation of the RF kick as the exact law says"
        elif c.n >= 48 and not (Nrf >= g0 / 50 and Ndr >= g0 / 50):
            # a smooth bunch several cells wide samples the fractions f uniformly: mean f(1-f) = 1/6
            bad = "linear interpolation shows (almost) no numerical diffusion"
        if bad:
            ctx.violation("impl-oracle", bad + " (step %d)" % (k + 1), case=c.replay(),
                          observed=dict(Nrf_over_M0=float(Nrf / g0), Ndr_over_M0=float(Ndr / g0), residual=float(res)),
                          expected="0 <= Nrf, Ndr <= M0/4, residual 0 within %g" % float(tol), sig=dict(sig, clause="inflation-law"))
            return
    ctx.extra.setdefault("lin_interp_worst_residual_over_tol", {})[c.cid] = round(worst, 4)
    ctx.case_done(("lin", c.cid), True)


def run(ctx, dis, C):
    """entry point: one call from lib/props/C04.py run()"""
    fx = gen_fix(ctx, C)
    ln = gen_lin(ctx, C)
    res = C.run_evo(ctx, fx + ln)
    for c in fx:
        check_fix(ctx, C, c, res[c.cid], dis)
    for c in ln:
        check_lin(ctx, C, c, res[c.cid])
    ctx.sample(fx[1].describe())
    ctx.assumptions.append("fixed-point runs: tolerance = rho^k sqrt(N(dev_0)) (proved contraction, rho from the extracted smq_rho) + "
                           "cN * ((5e-5 + 5e-8 k) * moment scale + border bound) for float accumulation, cN = sqrt((g1+2|g12|+g2)^2 + 4 DG)")
