"""Generation, execution and comparison of `wake` and `csr` cases (ElectricField::wakePotential,
padBunchProfiles, updateCSR through the public API) shared by C06 and C07.
Every random choice comes from ctx.rng."""
import math
from decimal import Decimal, getcontext
from fractions import Fraction
from vp_common import *
import vp_coq
from kick_cases import rnd32_frac

U = Fraction(1, 2 ** 24)           # unit roundoff of binary32

# transform lengths of the quick tier: few and fixed, so that FFTW's (patient) planning is paid
# once per size and the wisdom under .cache/xdg is reused: powers of two, composite, odd, prime
QUICK_SIZES = [16, 27, 32, 45, 61, 64, 96, 97, 101, 128, 150, 169, 256]
THOROUGH_SIZES = QUICK_SIZES + [8, 9, 12, 17, 24, 25, 31, 33, 48, 49, 63, 81, 100, 121, 125, 127, 160, 192,
                                199, 200, 211, 243, 255]

_PI = Decimal("3.14159265358979323846264338327950288419716939937510582097494")
_tw_cache = {}


def _cos_sin(x):
    """Taylor series at 60 digits (|x| <= 2 pi: cancellation costs three digits)"""
    getcontext().prec = 60
    c, s = Decimal(1), x
    tc, ts = Decimal(1), x
    x2 = x * x
    k = 1
    while True:
        tc = -tc * x2 / ((2 * k - 1) * (2 * k))
        ts = -ts * x2 / ((2 * k) * (2 * k + 1))
        c += tc
        s += ts
        k += 1
        if abs(tc) < Decimal(10) ** -55 and abs(ts) < Decimal(10) ** -55:
            return c, s


def twiddles(N):
    """cos, sin(2 pi m/N), m = 0..N-1, rounded to multiples of 2^-60 (error <= 2^-61 each)"""
    if N not in _tw_cache:
        getcontext().prec = 60
        cs, sn = [], []
        for m in range(N):
            # exact symmetric reduction keeps the table's algebraic structure as good as it can be
            c, s = _cos_sin(2 * _PI * m / N)
            cs.append(Fraction(int((c * 2 ** 60).to_integral_value()), 2 ** 60))
            sn.append(Fraction(int((s * 2 ** 60).to_integral_value()), 2 ** 60))
        _tw_cache[N] = (cs, sn)
    return _tw_cache[N]


def Kfft(N):
    """rounding-path constant of the FFT-based wake, DESIGN 3 (justified in docs/built/C06.md)"""
    return 4 * math.ceil(math.log2(max(N, 2))) + 8


class DftCase:
    def __init__(self, cid, N, n, s, buckets, zre, zim, prof, axes, phys, note="", cutoff=0.0):
        self.cid, self.N, self.n, self.s = cid, N, n, s
        self.buckets, self.nb = list(buckets), len(buckets)
        self.zre, self.zim, self.prof = zre, zim, prof          # floats (binary32 values)
        self.axes, self.phys, self.note, self.cutoff = axes, phys, note, cutoff
        self.group = None

    def _setup_text(self, zscale=1.0):
        """zscale = 0.5: the object is CONSTRUCTED with half the impedance of the case; a `Z` operation of the history
        (`*impedance += *impedance`, an exact doubling in binary32) then brings the shared impedance object to the case's table"""
        a, p = self.axes, self.phys
        if zscale != 1.0:
            import copy
            h = copy.copy(self)
            h.zre, h.zim = [v * zscale for v in self.zre], [v * zscale for v in self.zim]
            return h._setup_text()
        return "%s %d %d %d %d\n%s\n%s %s %s %s %s %s\n%s\n%s\n%s\n%s\n" % (
            self.cid, self.N, self.n, self.s, self.nb, " ".join(str(b) for b in self.buckets),
            fhex(a["qmin"]), fhex(a["qmax"]), fhex(a["qscale"]), fhex(a["pmin"]), fhex(a["pmax"]), fhex(a["pscale"]),
            " ".join(fhex(p[k]) for k in ("Ib", "E0", "sd", "dt", "frev", "revpart")),
            " ".join(fhex(v) for v in self.zre), " ".join(fhex(v) for v in self.zim),
            " ".join(fhex(v) for pr in self.prof for v in pr))

    def impl_text(self, kind):
        if kind == "wake":
            return "wake " + self._setup_text()
        if kind == "wakeseq":
            # <nmore> <ops of call 0> [z sets of call 0]  then per further call: <ops> profiles [z sets]; see harness/impl_dft.cpp
            more = self.calls[1:]
            btw = self.ops()
            zadd = getattr(self, "zadd", None) or [[] for _ in self.calls]
            zt = lambda zs: "".join(" " + " ".join(fhex(v) for v in zr) + " " + " ".join(fhex(v) for v in zi) for zr, zi in zs)
            t = "wakeseq " + self._setup_text() + "%d %s%s\n" % (len(more), btw[0], zt(zadd[0]))
            for k, profs in enumerate(more):
                t += btw[k + 1] + " " + " ".join(fhex(v) for pr in profs for v in pr) + zt(zadd[k + 1]) + "\n"
            return t
        if kind == "csrmb":
            pre = getattr(self, "pre", [])
            t = "csrmb " + self._setup_text(0.5 if any(k == "Z" for k, _ in pre) else 1.0) + fhex(self.cutoff) + "\n%d\n" % len(pre)
            for k, profs in pre:
                t += "%s %s\n" % (k, " ".join(fhex(v) for pr in profs for v in pr))
            return t
        warm = getattr(self, "warm", None) or []
        return "csr " + self._setup_text() + fhex(self.cutoff) + "\n%d %d\n" % (len(warm), 1 if getattr(self, "same", False) else 0) + \
            "".join(" ".join(fhex(v) for pr in profs for v in pr) + "\n" for profs in warm)

    def bunch_case(self, b):
        """the single-bunch case 'bunch b alone' (what C07_multibunch_spectrum_row says row b is: the bunch at padded
        offset 0); the wake loss of the bunch is taken on an object that holds it in its own bucket (same bucket
        number and spacing), which is what `buckets`/`s` of the returned case say"""
        c = DftCase("%s_b%d" % (self.cid, b), self.N, self.n, self.s, [self.buckets[b]], self.zre, self.zim, [self.prof[b]], self.axes, self.phys,
                    note=self.note, cutoff=self.cutoff)
        c.passive = getattr(self, "passive", False)
        return c

    def ops(self):
        """per call: the string of operations run on the object before that wakePotential() (harness/impl_dft.cpp: W/- nothing,
        P padBunchProfiles, C updateCSR(0), Z impedance += next set of `zadd`; lower case: before the profiles of the call are set)"""
        return list(getattr(self, "between", None) or ["W"] * len(self.calls))

    def impedance_at(self, k):
        """the table the field's (shared, mutable) impedance object holds when call k is made: complex<float> += per Z"""
        zre, zim = list(self.zre), list(self.zim)
        zadd = getattr(self, "zadd", None) or []
        for j in range(min(k + 1, len(zadd))):
            for dre, dim in zadd[j]:
                zre = [f32(a + b) for a, b in zip(zre, dre)]
                zim = [f32(a + b) for a, b in zip(zim, dim)]
        return zre, zim

    def call_case(self, k):
        """call k of a sequence of wakePotential() calls on one object, as a wake case of its own: by
        C06_generated_wake_is_convolution the result is that of a fresh object given the profiles of call k
        (and the impedance the object holds at that moment)"""
        zre, zim = self.impedance_at(k)
        c = DftCase("%s@%d" % (self.cid, k), self.N, self.n, self.s, self.buckets, zre, zim, self.calls[k], self.axes, self.phys,
                    note=self.note)
        c.seq = (self, k)
        return c

    def model_cells(self):
        """cells of the padded wake the model prints: all for small N, else a spread of 24"""
        if self.N <= 64:
            return list(range(self.N))
        st = max(1, self.N // 24)
        return sorted(set(list(range(0, self.N, st)) + [self.N - 1, self.N // 2]))

    def model_wake_text(self, ir):
        """ir: parsed implementation record (the axis deltas/scales the constructor read)"""
        d0, d1, sz, c = ir["phys"]
        p = self.phys
        tc, ts = twiddles(self.N)
        ph = [Fraction(p["Ib"]), Fraction(p["dt"]), c, sz, d1, Fraction(p["sd"]), Fraction(p["E0"])]
        q = lambda l: " ".join(qtok(Fraction(v)) for v in l)
        cells = self.model_cells()
        return "wake %s %d %d %d %d\n%s\n%s\n%s\n%s\n%s\n%s\n%s\n%d %s\n" % (
            self.cid, self.N, self.n, self.s, self.nb, " ".join(str(b) for b in self.buckets),
            q(ph), q(tc), q(ts), q(self.zre), q(self.zim), q([v for pr in self.prof for v in pr]),
            len(cells), " ".join(str(c) for c in cells))

    def model_csr_text(self, ir, g):
        d0 = ir["phys"][0]
        tc, ts = twiddles(self.N)
        q = lambda l: " ".join(qtok(Fraction(v)) for v in l)
        return "csr %s %d %d %d\n%s %s\n%s\n%s\n%s\n%s\n%s%s\n" % (
            self.cid, self.N, self.n, 1 if g is not None else 0, qtok(d0 * d0), qtok(ir["df"][0]),
            q(tc), q(ts), q(self.zre), q(self.zim), (q(g) + "\n") if g is not None else "", q(self.prof[0]))

    def describe(self):
        return dict(id=self.cid, N=self.N, n=self.n, spacing=self.s, buckets=self.buckets, note=self.note,
                    cutoff=self.cutoff, z0=[fhex(self.zre[0]), fhex(self.zim[0])])

    def replay(self, kind="wake"):
        if getattr(self, "seq", None) is not None and kind == "wake":
            par, k = self.seq
            d = par.replay("wakeseq")
            d["call"] = k
            return d
        if kind == "wakeseq":
            d = self.replay("wake")
            d["kind"] = "wakeseq"
            d["calls"] = [[[fhex(v) for v in pr] for pr in profs] for profs in self.calls]
            d["between"] = self.ops()
            d["zadd"] = [[[[fhex(v) for v in zr], [fhex(v) for v in zi]] for zr, zi in zs] for zs in (getattr(self, "zadd", None) or [])]
            return d
        if kind == "csrmb":
            d = self.replay("csr")
            d["kind"] = "csrmb"
            d["pre"] = [dict(op=k, prof=[[fhex(v) for v in pr] for pr in profs]) for k, profs in getattr(self, "pre", [])]
            return d
        if kind == "csr" and (getattr(self, "warm", None) or getattr(self, "same", False)):
            d = dict(self.replay("csr-"), kind="csr")
            d["warm"] = [[[fhex(v) for v in pr] for pr in profs] for profs in (getattr(self, "warm", None) or [])]
            d["same_object"] = bool(getattr(self, "same", False))
            return d
        if kind == "csr-":
            kind = "csr"
        return dict(kind=kind, id=self.cid, N=self.N, n=self.n, spacing=self.s, buckets=self.buckets,
                    note=self.note, axes={k: fhex(v) for k, v in self.axes.items()},
                    phys={k: fhex(v) for k, v in self.phys.items()}, cutoff=fhex(self.cutoff),
                    zre=[fhex(v) for v in self.zre], zim=[fhex(v) for v in self.zim],
                    prof=[[fhex(v) for v in pr] for pr in self.prof])

    # ------------------------------------------------------------ reference quantities (exact inputs)
    def padded_true(self):
        """the zero-padded train the property speaks of: profile b at bucket_b*spacing"""
        p = [Fraction(0)] * self.N
        for b, bk in enumerate(self.buckets):
            for x in range(self.n):
                p[bk * self.s + x] = Fraction(self.prof[b][x])
        return p

    def cond(self):
        """sum of |terms| of the convolution: (|Z_0| + 2 sum_{0<k<N/2} |Z_k|) * sum_u |p_u|"""
        h = self.N // 2
        sz = abs(complex(self.zre[0], self.zim[0])) + 2 * sum(abs(complex(self.zre[k], self.zim[k])) for k in range(1, h))
        sp = sum(abs(v) for pr in self.prof for v in pr)
        return Fraction(sz) * Fraction(sp) + Fraction(1, 2 ** 100)

    def kernel(self):
        """kappa(m), m = 0..N-1, in double precision (independent of the Coq model)"""
        N, h = self.N, self.N // 2
        ker = []
        for m in range(N):
            v = self.zre[0]
            for k in range(1, h):
                a = 2 * math.pi * ((m * k) % N) / N
                v += 2 * (self.zre[k] * math.cos(a) - self.zim[k] * math.sin(a))
            ker.append(v)
        return ker

    def direct_wake(self, pad=None):
        """unscaled padded wake by direct summation in double precision"""
        N = self.N
        p = [float(v) for v in (pad if pad is not None else self.padded_true())]
        ker = self.kernel()
        nz = [(u, v) for u, v in enumerate(p) if v != 0.0]
        return [math.fsum(v * ker[(j - u) % N] for u, v in nz) for j in range(N)]

    def spectrum_true(self, pad=None):
        """|F_k|^2 for k = 0..N/2, double precision, profile b=0 at offset 0 unless pad is given"""
        N, h = self.N, self.N // 2
        if pad is None:
            pad = [float(v) for v in self.prof[0]] + [0.0] * (N - self.n)
        nz = [(u, float(v)) for u, v in enumerate(pad) if v != 0]
        out = []
        for k in range(h + 1):
            re = math.fsum(v * math.cos(2 * math.pi * ((u * k) % N) / N) for u, v in nz)
            im = math.fsum(v * math.sin(2 * math.pi * ((u * k) % N) / N) for u, v in nz)
            out.append(re * re + im * im)
        return out


# ---------------------------------------------------------------------------------- generators

def _axes_phys(rng):
    axes = dict(qmin=f32(-rng.uniform(4, 12)), qmax=f32(rng.uniform(4, 12)), qscale=rng.uniform(0.5, 5),
                pmin=f32(-rng.uniform(4, 12)), pmax=f32(rng.uniform(4, 12)), pscale=rng.uniform(0.5, 5))
    phys = dict(Ib=rng.uniform(0.5, 2) * 1e-3, E0=rng.uniform(0.5, 2) * 1e9, sd=rng.uniform(0.5, 2) * 1e-3,
                dt=rng.uniform(0.5, 2) * 1e-3, frev=rng.uniform(0.5, 2) * 1e6, revpart=rng.uniform(0.01, 0.5))
    return axes, phys


def _profile(rng, n, kind):
    if kind == "impulse":
        p = [0.0] * n
        p[rng.randrange(n)] = float(rng.randint(1, 4))
        return p
    if kind == "int":
        return [float(rng.randint(-8, 8)) for _ in range(n)]
    if kind == "narrow":
        p = [0.0] * n
        lo = rng.randint(0, n // 3)
        for x in range(lo, lo + max(2, n // 3)):
            p[x] = float(rng.randint(1, 16)) / 8.0
        return p
    if kind == "gauss":
        c, w = rng.uniform(0.3, 0.7) * n, rng.uniform(0.08, 0.25) * n
        return [f32(math.exp(-0.5 * ((x - c) / w) ** 2)) for x in range(n)]
    if kind == "signed":
        return [f32(rng.uniform(-1, 1)) for _ in range(n)]
    return [f32(rng.random()) for _ in range(n)]


def _impedance(rng, N, kind):
    """random complex, not Hermitian, non-zero above N/2; 'passive' has Re >= 0"""
    if kind == "passive":
        zre = [f32(rng.random() * 10 ** rng.randint(-1, 1)) for _ in range(N)]
    elif kind == "smooth":
        zre = [f32(1.0 + k ** (1 / 3.0)) for k in range(N)]
    else:
        zre = [f32(rng.uniform(-1, 1)) for _ in range(N)]
    zim = [f32(rng.uniform(-1, 1)) for _ in range(N)]
    if kind == "smooth":
        zim = [f32(-0.5 * k ** (1 / 3.0) + 0.25) for k in range(N)]
    return zre, zim


BANDS = ("full", "half", "trailing", "leading", "interior", "lead+trail", "boundary", "sparse")


def _apply_band(rng, N, zre, zim, band):
    """EXACT zeros in the impedance table.  full: none (non-zero on the whole range 0..N-1); half: given on the half range
    0..N/2 only (zero above); trailing: band-limited, zero from some k0 < N/2 on (an impedance file that lists fewer
    harmonics than N/2); leading: zero below some k1 (Z_0 included); interior: a stop band inside (0, N/2); lead+trail:
    a pass band strictly inside; boundary: non-zero only in the cells N/2-1, N/2, N/2+1 (and Z_0 in half of the cases);
    sparse: every cell zero with probability 1/2.  At least one cell below N/2 stays non-zero."""
    h = N // 2
    zre, zim = list(zre), list(zim)
    keep = [True] * N
    if band == "half":
        keep = [k <= h for k in range(N)]
    elif band == "trailing":
        k0 = rng.randint(1, max(1, h - 1))
        keep = [k < k0 for k in range(N)]
    elif band == "leading":
        k1 = rng.randint(1, max(1, h - 1))
        keep = [k >= k1 for k in range(N)]
    elif band == "interior":
        k1 = rng.randint(1, max(1, h - 2))
        k2 = rng.randint(k1 + 1, max(k1 + 1, h - 1))
        keep = [not (k1 <= k < k2) for k in range(N)]
    elif band == "lead+trail":
        k1 = rng.randint(1, max(1, h - 2))
        k2 = rng.randint(k1 + 1, max(k1 + 1, h - 1))
        keep = [k1 <= k < k2 for k in range(N)]
    elif band == "boundary":
        z0 = rng.random() < 0.5
        keep = [(k in (h - 1, h, h + 1)) or (k == 0 and z0) for k in range(N)]
    elif band == "sparse":
        keep = [rng.random() < 0.5 for k in range(N)]
    if not any(keep[k] and (zre[k] != 0 or zim[k] != 0) for k in range(h)):
        k = rng.randrange(h)
        keep[k] = True
        if zre[k] == 0 and zim[k] == 0:
            zre[k] = 1.0
    for k in range(N):
        if not keep[k]:
            zre[k], zim[k] = 0.0, 0.0
    return zre, zim


def _layout_main(rng, N, nbmax=4):
    """bucket numbers as main() derives them from a filling pattern: entry i of the pattern is bucket
    (pattern length - 1 - i), so the list is descending and a pattern whose LAST entries are empty ({1,0}, {1,0,0},
    {1,0,1,0}) has its lowest filled bucket above 0"""
    lo, hi = max(8, -(-N // 8)), min(32, N)
    n = rng.randint(min(lo, hi), hi)
    for _ in range(50):
        s = n + rng.choice([0, 1, 2, 3, 5, n // 2, n])
        L = (N - n) // s + 1            # longest admissible pattern
        if L >= 2:
            break
    else:
        return None
    L = rng.randint(2, min(L, 6))
    tail = rng.choice([0, 1, 1, 2]) if L > 2 else rng.choice([0, 1])     # empty entries at the end of the pattern
    tail = min(tail, L - 1)
    pat = [1 if (i == 0 or rng.random() < 0.6) else 0 for i in range(L - tail)] + [0] * tail
    pat[L - tail - 1] = 1
    bks = [L - 1 - i for i, f in enumerate(pat) if f]
    if len(bks) > nbmax:
        bks = bks[:1] + sorted(rng.sample(bks[1:-1], nbmax - 2), reverse=True) + bks[-1:] if nbmax >= 2 else bks[-1:]
    return n, s, bks


def _layout_end(rng, N, nbmax=4):
    """the window of the highest bucket ends at (or one/two cells before) the end of the padded range"""
    lo, hi = max(8, -(-N // 8)), min(32, N)
    for _ in range(50):
        n = rng.randint(min(lo, hi), hi)
        top = rng.randint(1, 4)
        r = rng.choice([0, 0, 1, 2])
        if (N - n - r) % top == 0 or rng.random() < 0.5:
            s = (N - n - r) // top
        else:
            continue
        if s < n or top * s + n > N:
            continue
        nb = rng.randint(1, min(nbmax, top + 1))
        bks = [top] + rng.sample(range(top), nb - 1)
        o = rng.random()
        if o < 0.4:
            bks.sort(reverse=True)
        elif o < 0.6:
            bks.sort()
        else:
            rng.shuffle(bks)
        return n, s, bks
    return None


def layout(rng, N, nbmax=4):
    """-> (n, s, buckets, kind): random (any order, empty buckets), main (numbered like main() does, often with the
    lowest filled bucket above 0), end (train reaching the end of the padded range), low (lowest bucket forced >= 1)"""
    kind = rng.choice(["random", "random", "main", "main", "end", "low"])
    r = None
    if kind == "main":
        r = _layout_main(rng, N, nbmax)
    elif kind == "end":
        r = _layout_end(rng, N, nbmax)
    elif kind == "low":
        n, s, bks = _layout(rng, N, nbmax)
        mb = (N - n) // s
        if mb >= len(bks):
            bks2 = rng.sample(range(1, mb + 1), len(bks))
            if bks == sorted(bks, reverse=True):
                bks2.sort(reverse=True)
            r = (n, s, bks2)
    if r is None:
        kind = "random"
        r = _layout(rng, N, nbmax)
    return r[0], r[1], r[2], kind


def count_coverage(ctx, pre, N, n, s, bks, band, mixed=False, ncalls=1):
    """coverage counters reported in the evidence (one line per category the brief of the case generators names)"""
    h = N // 2
    ctx.count(pre + ":N-odd" if N % 2 else pre + ":N-even")
    ctx.count(pre + ":N-power-of-two" if N & (N - 1) == 0 else pre + ":N-not-power-of-two")
    ctx.count(pre + ":impedance-band=" + band)
    if band == "full":
        ctx.count(pre + ":impedance-on-full-range")
    if band == "half":
        ctx.count(pre + ":impedance-on-half-range")
    if band == "boundary":
        ctx.count(pre + ":only-the-N/2-boundary-bins")
    if min(bks) > 0:
        ctx.count(pre + ":lowest-filled-bucket-not-0")
    if min(bks) * s > 0:
        ctx.count(pre + ":first-bunch-not-at-cell-0")
    if max(bks) * s + n >= N - 2:
        ctx.count(pre + ":train-reaches-end-of-padded-range")
    if len(bks) > 1:
        ctx.count(pre + ":multibunch")
        if mixed:
            ctx.count(pre + ":multibunch-different-profile-kinds")
    if max(bks) + 1 > len(bks):
        ctx.count(pre + ":empty-buckets")
    if ncalls > 1:
        ctx.count(pre + ":calls-on-one-object=%d" % ncalls)


PROFILE_KINDS = ["random", "signed", "impulse", "int", "gauss", "narrow"]


def _profiles(rng, n, nb):
    """one profile per bunch: the same kind for all in half of the cases, a kind of its own per bunch otherwise
    (the draws always differ) -> (profiles, kinds, mixed)"""
    if nb > 1 and rng.random() < 0.5:
        kinds = [rng.choice(PROFILE_KINDS) for _ in range(nb)]
    else:
        kinds = [rng.choice(PROFILE_KINDS)] * nb
    return [_profile(rng, n, k) for k in kinds], kinds, len(set(kinds)) > 1


def _layout(rng, N, nbmax=4):
    """n, spacing, buckets with bucket*s + n <= N, N <= 8n, s >= n, empty buckets, any order"""
    lo, hi = max(8, -(-N // 8)), min(32, N)
    if lo > hi:
        lo = hi
    n = rng.randint(lo, hi)
    for _ in range(50):
        nb = rng.randint(1, nbmax)
        s = n + rng.choice([0, 0, 1, 2, 3, 5, n // 2, n])
        mb = (N - n) // s           # largest admissible bucket number
        if mb + 1 >= nb:
            break
    else:
        nb, s, mb = 1, n, (N - n) // n
    bks = rng.sample(range(mb + 1), nb)
    o = rng.random()
    if o < 0.4:
        bks.sort(reverse=True)      # the order main() produces (time and space antiparallel)
    elif o < 0.6:
        bks.sort()
    return n, s, bks


def gen_wake_cases(ctx, count, sizes, prefix="w"):
    rng = ctx.rng
    cases = []
    for i in range(count):
        N = sizes[i % len(sizes)] if i < 2 * len(sizes) else rng.choice(sizes)
        n, s, bks, lk = layout(rng, N)
        zk = rng.choice(["random", "random", "passive", "smooth"])
        band = rng.choice(["full", "full", "full"] + list(BANDS))
        zre, zim = _apply_band(rng, N, *_impedance(rng, N, zk), band)
        prof, pks, mixed = _profiles(rng, n, len(bks))
        axes, phys = _axes_phys(rng)
        c = DftCase("%s%d" % (prefix, i), N, n, s, bks, zre, zim, prof, axes, phys, note="%s[%s]/%s/%s" % (zk, band, "+".join(pks), lk))
        cases.append(c)
        ctx.count("wake:N=%d" % N)
        ctx.count("wake:nb=%d" % len(bks))
        ctx.count("wake:profile=" + pks[0])
        ctx.count("wake:impedance=" + zk)
        ctx.count("wake:layout=" + lk)
        count_coverage(ctx, "cover-wake", N, n, s, bks, band, mixed)
    return cases


OPS_FIRST = ["W"] * 5 + ["C", "C", "P", "PC", "CP", "Z", "ZC"]
OPS_LATER = ["W"] * 4 + ["C", "P", "PC", "PC", "CP", "PCP", "p", "c", "pC", "pc", "cP", "Z", "Z", "ZC", "PCZ", "pZ"]
OPS_NAMES = {"W": "nothing", "-": "nothing", "C": "updateCSR", "P": "padBunchProfiles", "Z": "impedance+=",
             "p": "padBunchProfiles(before the profiles change)", "c": "updateCSR(before the profiles change)"}


def ops_text(ops, change=""):
    """'pC', '<profiles change>; ' -> 'padBunchProfiles(); <profiles change>; updateCSR(); ' (for messages)"""
    lo = "".join(OPS_NAMES[o].split("(")[0] + "(); " for o in ops if o.islower())
    up = "".join((OPS_NAMES[o] + " ..; " if o == "Z" else OPS_NAMES[o] + "(); ") for o in ops if o.isupper() and o != "W")
    return lo + change + up


def gen_wakeseq_cases(ctx, count, sizes, prefix="s"):
    """2-3 wakePotential() calls on ONE object with changing profiles (the last one sometimes the first again, or empty);
    impedances mostly with exact zeros (band-limited, stop band, leading zeros, single cells), so that a cell of the loss
    spectrum the code does not rewrite on a later call would show.  Every call is judged by the direct-DFT oracle.
    Strengthening st3weak (seeds C06-I, C06-J, C07-I): what happens on the object between two calls is a STRING of
    operations (padBunchProfiles / updateCSR in both orders, before and after the profiles change, also ahead of the very
    first call), the impedance OBJECT the field shares with its creator is changed between calls (operator+=), and a call
    repeats the profiles of the call before bit for bit (alone or together with the former two)."""
    rng = ctx.rng
    cases = []
    for i in range(count):
        N = sizes[i % len(sizes)] if i < len(sizes) else rng.choice(sizes)
        n, s, bks, lk = layout(rng, N)
        zk = rng.choice(["random", "random", "passive", "smooth"])
        band = rng.choice(["trailing", "trailing", "trailing", "interior", "leading", "lead+trail", "sparse", "boundary", "half", "full"])
        zre, zim = _apply_band(rng, N, *_impedance(rng, N, zk), band)
        ncalls = rng.choice([2, 2, 3])
        calls, kinds, mixed = [], [], False
        for k in range(ncalls):
            pr, pks, mx = _profiles(rng, n, len(bks))
            calls.append(pr)
            kinds.append("+".join(pks))
            mixed = mixed or mx
        if ncalls == 3 and rng.random() < 0.3:
            calls[2] = [list(pr) for pr in calls[0]]          # the first profiles again
            kinds[2] = "first-again"
        elif rng.random() < 0.1:
            calls[-1] = [[0.0] * n for _ in bks]               # an empty last call
            kinds[-1] = "zero"
        same = []
        for k in range(1, ncalls):
            if rng.random() < 0.3:
                calls[k] = [list(pr) for pr in calls[k - 1]]  # bit-identical to the call before
                kinds[k] = "same-as-before"
                same.append(k)
        axes, phys = _axes_phys(rng)
        c = DftCase("%s%d" % (prefix, i), N, n, s, bks, zre, zim, calls[0], axes, phys,
                    note="%s[%s]/%s/%s" % (zk, band, " ; ".join(kinds), lk))
        c.calls = calls
        # what else happens to the object ahead of each wakePotential() call (interleavings as such belong to C18; here
        # only the wake is judged, against the CURRENT profiles and the CURRENT table of the impedance object)
        c.between = [rng.choice(OPS_FIRST)] + [rng.choice(OPS_LATER) for _ in calls[1:]]
        for k in same:          # same profiles: what else can have changed is the impedance object / the shared buffers
            if rng.random() < 0.6:
                c.between[k] = rng.choice(["Z", "Z", "ZC", "CZ", "C", "PC"])
        c.zadd = []
        for k, ops in enumerate(c.between):
            zs = []
            for o in ops:
                if o == "Z":
                    dre, dim = _impedance(rng, N, rng.choice(["random", "passive"]))
                    if rng.random() < 0.4:
                        dre, dim = _apply_band(rng, N, dre, dim, rng.choice(["trailing", "interior", "sparse", "half"]))
                    zs.append((dre, dim))
            c.zadd.append(zs)
        cases.append(c)
        for k, ops in enumerate(c.between):
            for o in set(ops):
                ctx.count("wakeseq:%s=%s" % ("before-first-call" if k == 0 else "between-calls", OPS_NAMES[o]))
            if len(ops) > 1:
                ctx.count("wakeseq:several-operations-between-calls")
            if "Z" in ops and k in same:
                ctx.count("wakeseq:impedance-changed-profiles-identical")
            if k > 0 and "C" in ops.upper() and "P" in ops.upper():
                ctx.count("wakeseq:padBunchProfiles-and-updateCSR-between-calls")
        for k in same:
            ctx.count("wakeseq:profiles-identical-to-the-call-before")
        ctx.count("wakeseq:N=%d" % N)
        ctx.count("wakeseq:nb=%d" % len(bks))
        ctx.count("wakeseq:impedance=" + zk)
        ctx.count("wakeseq:layout=" + lk)
        count_coverage(ctx, "cover-wakeseq", N, n, s, bks, band, mixed, ncalls)
    return cases


def call_record(r, k):
    """the part of a parsed wakeseq record that belongs to call k, shaped like a wake record"""
    d = {t: v for t, v in r.items() if t != "calls"}
    d.update(r["calls"][k])
    return d


def gen_relation_groups(ctx, count, sizes, prefix="r"):
    """groups of cases on one set-up for the oracles evaluated on the implementation alone:
    ('lin', p, q, a*p+q), ('shift', p, p moved by d cells), ('half', Z, Z changed above N/2 and Im Z_0)"""
    rng = ctx.rng
    groups = []
    for i in range(count):
        N = rng.choice(sizes)
        n, s, bks, _lk = layout(rng, N, nbmax=3)
        zre, zim = _impedance(rng, N, rng.choice(["random", "passive"]))
        if i % 3 != 2 and rng.random() < 0.3:      # (the 'half' relation changes the upper cells itself)
            zre, zim = _apply_band(rng, N, zre, zim, rng.choice(BANDS))
        axes, phys = _axes_phys(rng)
        kind = ["lin", "shift", "half"][i % 3]
        mk = lambda tag, prof, zr=zre, zi=zim: DftCase("%s%d%s" % (prefix, i, tag), N, n, s, bks, zr, zi, prof, axes, phys, note=kind)
        if kind == "lin":
            p = [_profile(rng, n, "int") for _ in bks]
            q = [_profile(rng, n, rng.choice(["int", "narrow", "impulse"])) for _ in bks]
            a = float(rng.choice([2, -3, 0.5, 4]))
            r = [[a * x + y for x, y in zip(pp, qq)] for pp, qq in zip(p, q)]      # exact in binary32
            g = dict(kind="lin", a=a, cases=[mk("p", p), mk("q", q), mk("r", r)])
        elif kind == "shift":
            p, r, ds = [], [], []
            for _ in bks:
                w = rng.randint(1, max(1, n // 2))
                lo = rng.randint(0, n - w - 1)
                d = rng.randint(1, n - w - lo)
                body = [f32(rng.uniform(-1, 1)) for _ in range(w)]
                p.append([0.0] * lo + body + [0.0] * (n - w - lo))
                r.append([0.0] * (lo + d) + body + [0.0] * (n - w - lo - d))
                ds.append(d)
            # one common displacement: the whole train moves
            d = min(ds)
            r = []
            for pp in p:
                r.append([0.0] * d + pp[:n - d])
            g = dict(kind="shift", d=d, cases=[mk("p", p), mk("s", r)])
        else:
            p = [_profile(rng, n, rng.choice(["random", "signed", "gauss"])) for _ in bks]
            h = N // 2
            zre2 = list(zre[:h]) + [f32(rng.uniform(-5, 5)) for _ in range(N - h)]
            zim2 = [f32(rng.uniform(-5, 5))] + list(zim[1:h]) + [f32(rng.uniform(-5, 5)) for _ in range(N - h)]
            g = dict(kind="half", cases=[mk("a", p), mk("b", p, zre2, zim2)])
        groups.append(g)
        ctx.count("relation:" + kind)
    return groups


def gen_csr_cases(ctx, count, sizes, prefix="c"):
    """single bunch (the stale-buffer behaviour of updateCSR for nb > 1 belongs to C18); pairs
    (cutoff off, cutoff on) share everything else"""
    rng = ctx.rng
    cases = []
    for i in range(count):
        N = sizes[i % len(sizes)] if i < len(sizes) else rng.choice(sizes)
        lo, hi = max(8, -(-N // 8)), min(32, N)
        n = rng.randint(min(lo, hi), hi)
        s = n + rng.choice([0, 1, 4, n // 2, n])
        mb = (N - n) // s               # largest admissible bucket number
        # the bunch sits in bucket 0 in a third of the cases only: a filling pattern with empty entries at its end
        # ({1,0}, {1,0,0}: main() numbers the buckets from the end of the pattern) puts the only bunch in bucket 1, 2, ...
        bk = rng.choice([0, 0, 1, 1, 2, 3, mb, mb])
        if bk > mb:
            bk = mb
        if bk >= 1 and rng.random() < 0.3:
            s = (N - n - rng.choice([0, 0, 1])) // bk      # the window of the bunch ends at the end of the padded range
            if s < n:
                s = n + 1 if bk * (n + 1) + n <= N else n
            if bk * s + n > N:
                bk = (N - n) // s
        zk = rng.choice(["passive", "passive", "smooth", "random"])
        band = rng.choice(["full", "full", "full", "full"] + list(BANDS))
        zre, zim = _apply_band(rng, N, *_impedance(rng, N, zk), band)
        pk = rng.choice(["random", "gauss", "impulse", "signed", "int"])
        prof = [_profile(rng, n, pk)]
        axes, phys = _axes_phys(rng)
        c0 = DftCase("%s%da" % (prefix, i), N, n, s, [bk], zre, zim, prof, axes, phys, note="%s[%s]/%s" % (zk, band, pk))
        c1 = DftCase("%s%db" % (prefix, i), N, n, s, [bk], zre, zim, prof, axes, phys, note="%s[%s]/%s" % (zk, band, pk),
                     cutoff=-1.0)          # filled in by the runner: needs the frequency axis
        c1.cut_frac = rng.uniform(0.15, 1.2)
        c0.passive = c1.passive = zk in ("passive", "smooth")
        if rng.random() < 0.4:
            # the object that gives the wake for Parseval has served 1-2 other profiles before
            c0.warm = c1.warm = [[_profile(rng, n, rng.choice(["random", "signed", "int", "gauss"]))] for _ in range(rng.choice([1, 1, 2]))]
            ctx.count("csr:wake-object-with-%d-earlier-calls" % len(c0.warm))
        # the wake for Parseval from the SAME object right after updateCSR() (they share the padded buffer) in half of the cases
        c0.same = c1.same = rng.random() < 0.5
        ctx.count("csr:wake-from-" + ("the-same-object-after-updateCSR" if c0.same else "a-second-object"))
        if c0.same and bk * s > 0:
            ctx.count("csr:wake-from-the-same-object-after-updateCSR,bunch-not-at-cell-0")
        cases.append((c0, c1))
        ctx.count("csr:N=%d" % N)
        ctx.count("csr:impedance=" + zk)
        ctx.count("csr:profile=" + pk)
        ctx.count("csr:bucket=%s" % (bk if bk < 3 else ">=3"))
        count_coverage(ctx, "cover-csr", N, n, s, [bk], band)
    return cases


def gen_csrmb_cases(ctx, count, sizes, prefix="m"):
    """updateCSR on one object with nb = 1..3 bunches (mostly 2..3), spacing zero (the program's radiation field) and
    non-zero, buckets in any order with empty buckets, after 0..3 earlier calls (wakePotential / padBunchProfiles /
    updateCSR) with other profiles; pairs (cutoff off, cutoff on) share everything else"""
    rng = ctx.rng
    cases = []
    for i in range(count):
        N = sizes[i % len(sizes)] if i < len(sizes) else rng.choice(sizes)
        nb = rng.choice([1, 2, 2, 3, 3])
        low = rng.random() < 0.35
        for _ in range(100):
            lo, hi = max(4, -(-N // 8)), min(32, N)
            n = rng.randint(min(lo, hi), hi)
            if rng.random() < 0.4:
                s = 0
            else:
                s = rng.choice([n, n + 1, n + 3, max(1, n // 2), 1])
            bks = rng.sample(range(0, nb + 2), nb)
            if low:
                bks = rng.sample(range(1, nb + 3), nb)      # lowest filled bucket above 0 (pattern ending in empty entries)
            o = rng.random()
            if o < 0.4:
                bks.sort(reverse=True)
            elif o < 0.6:
                bks.sort()
            if max(bks) * s + n <= N:
                break
        else:
            n, s, bks = min(8, N), 0, list(range(nb))
        zk = rng.choice(["passive", "passive", "smooth", "random"])
        band = rng.choice(["full", "full", "full", "full"] + list(BANDS))
        zre, zim = _apply_band(rng, N, *_impedance(rng, N, zk), band)
        pks = [rng.choice(["random", "gauss", "impulse", "signed", "int", "narrow"]) for _ in bks]
        prof = [_profile(rng, n, pk) for pk in pks]
        if nb > 1 and rng.random() < 0.2:
            prof[rng.randrange(nb)] = [0.0] * n          # an empty bunch
        axes, phys = _axes_phys(rng)
        pre = []
        for _ in range(rng.choice([0, 0, 1, 2, 3])):
            pre.append((rng.choice("WPC"), [_profile(rng, n, rng.choice(["random", "signed", "int"])) for _ in bks]))
        c0 = DftCase("%s%da" % (prefix, i), N, n, s, bks, zre, zim, prof, axes, phys, note="%s[%s]/%s" % (zk, band, "+".join(pks)))
        c1 = DftCase("%s%db" % (prefix, i), N, n, s, bks, zre, zim, prof, axes, phys, note="%s[%s]/%s" % (zk, band, "+".join(pks)), cutoff=-1.0)
        c1.cut_frac = rng.uniform(0.15, 1.2)
        if rng.random() < 0.25:
            # the impedance object shared with the field is changed IN PLACE between two updateCSR() calls with the same cut-off
            # (`c` = updateCSR(cutoff of the case), `Z` = impedance doubled in place; the object starts with half the table): what
            # updateCSR() derives from the impedance must not survive the change (seed C07-E)
            mk = lambda: [_profile(rng, n, rng.choice(["random", "signed", "int"])) for _ in bks]
            pre = pre + [("c", mk()), ("Z", mk())] + ([("c", mk())] if rng.random() < 0.3 else [])
            ctx.count("csrmb:impedance-changed-in-place")
        c0.pre = c1.pre = pre
        c0.passive = c1.passive = zk in ("passive", "smooth")
        cases.append((c0, c1))
        ctx.count("csrmb:nb=%d" % nb)
        ctx.count("csrmb:spacing=" + ("zero" if s == 0 else "nonzero"))
        ctx.count("csrmb:history=%d" % len(pre))
        ctx.count("csrmb:impedance=" + zk)
        count_coverage(ctx, "cover-csrmb", N, n, s, bks, band, len(set(pks)) > 1)
    return cases


# ---------------------------------------------------------------------------------- runners

def _fl(tokens):
    return [parse_c(t) for t in tokens]


def parse_impl(rec):
    r = {}
    ncalls = max([len(v) for v in rec.values()] or [1])
    for k, v in rec.items():
        if k == "nmax":
            r[k] = int(v[0][0])
        elif k.startswith("["):
            continue
        else:
            r[k] = _fl(v[0])
    if ncalls > 1:          # wakeseq: line j of a repeated tag belongs to call j
        r["calls"] = [{k: _fl(v[j]) for k, v in rec.items() if len(v) == ncalls and k != "nmax" and not k.startswith("[")}
                      for j in range(ncalls)]
    return r


def run_impl(ctx, text, cases=None, kind=None):
    """cases/kind (optional): the case objects `text` was made of - when the harness dies, the first case that kills it
    by itself is reported as a failing input (the implementation crashed on it) before the error is raised"""
    tg = ctx.build(harness=("impl_dft",))
    rc, out, err = run_driver(tg["impl_dft"], text, env=vp_build.xdg_env(), timeout=1800)
    if rc != 0:
        for c in (cases or []):
            rc1, _, err1 = run_driver(tg["impl_dft"], c.impl_text(kind), env=vp_build.xdg_env(), timeout=600)
            if rc1 != 0:
                ctx.violation("impl-oracle", "the implementation does not survive this input (harness exit status %d%s)"
                              % (rc1, ": killed by signal %d" % -rc1 if rc1 < 0 else ""), case=c.replay(kind),
                              observed=err1[-400:], sig=dict(kind=kind, clause="crash"))
                break
        raise RuntimeError("impl_dft failed rc=%d: %s" % (rc, err[-2000:]))
    return {k: parse_impl(v) for k, v in parse_cases(out).items()}


def run_model(ctx, texts):
    """texts: one case text each; the exact-rational model is slow (no machine integers in the
    extracted code), so the cases are spread over up to 12 processes"""
    from concurrent.futures import ThreadPoolExecutor
    if isinstance(texts, str):
        texts = [texts]

    def one(t):
        rc, out, err = run_driver(vp_coq.model_path("dft"), t, timeout=3600)
        if rc != 0:
            raise RuntimeError("model_dft failed rc=%d: %s" % (rc, err[-2000:]))
        return {k: {tg: [parse_q(x) for x in v[0]] for tg, v in rec.items()} for k, rec in parse_cases(out).items()}
    res = {}
    # longest first
    order = sorted(texts, key=len, reverse=True)
    with ThreadPoolExecutor(max_workers=12) as ex:
        for r in ex.map(one, order):
            res.update(r)
    return res


def nonfinite(vals):
    return any(isinstance(v, str) for v in vals)


def compare_wake(c, ir, mr):
    """correspondence of one wake case: exact stream (layout, read-back, getter) and tolerance stream"""
    dis = []
    N, n, s = c.N, c.n, c.s
    for tag in ("padded", "wakepad", "wake", "wake2", "scaling"):
        if nonfinite(ir[tag]):
            return [("nonfinite", dict(which=tag))]
    if ir["nmax"] != N:
        dis.append(("nmax", dict(impl=ir["nmax"], model=N)))
    # exact: the padded buffer
    if ir["padded"] != mr["padded"]:
        bad = [i for i in range(N) if ir["padded"][i] != mr["padded"][i]][:4]
        dis.append(("padded", dict(cells=bad, impl=[str(ir["padded"][i]) for i in bad], model=[str(mr["padded"][i]) for i in bad])))
    # exact: read-back index and scaling product on the implementation's own padded wake
    sc = ir["scaling"][0]
    for b, bk in enumerate(c.buckets):
        for x in range(n):
            exp = rnd32_frac(sc * ir["wakepad"][bk * s + x])
            got = ir["wake"][b * n + x]
            if got != exp or ir["wake2"][b * n + x] != got:
                dis.append(("readback", dict(b=b, x=x, impl=str(got), getter=str(ir["wake2"][b * n + x]),
                                             expected_from_padded_wake=str(exp))))
                break
    # tolerance: scaling formula (double evaluation, rounded to float, divided by float(N))
    ms = mr["scaling"][0]
    if abs(sc - ms) > 3 * U * abs(ms):
        dis.append(("scaling", dict(impl=str(sc), model=str(ms))))
    # tolerance: padded wake and wake
    cond = c.cond()
    K = Kfft(N)
    tolp = K * U * cond + N * cond * Fraction(1, 2 ** 58)
    worst = Fraction(0)
    for j, mv in zip(c.model_cells(), mr["wakepad"]):
        e = abs(ir["wakepad"][j] - mv)
        worst = max(worst, e)
        if e > tolp:
            dis.append(("wakepad", dict(cell=j, impl=str(ir["wakepad"][j]), model=float(mv), tol=float(tolp))))
            break
    # exact: the read-back cells
    rb = [bk * s + x for bk in c.buckets for x in range(n)]
    if [int(v) for v in mr["readback"]] != rb:
        dis.append(("readback-index", dict(model=[int(v) for v in mr["readback"]][:8], expected=rb[:8])))
    tolw = (K + 4) * U * cond * abs(ms) + N * cond * abs(ms) * Fraction(1, 2 ** 58)
    for i in range(len(c.buckets) * n):
        if abs(ir["wake"][i] - mr["wake"][i]) > tolw:
            dis.append(("wake", dict(b=i // n, x=i % n, impl=str(ir["wake"][i]), model=float(mr["wake"][i]), tol=float(tolw))))
            break
    c.err_ratio = float(worst / (U * cond))
    return dis


def cutoff_factors(ir, cutoff):
    """g_i = 1 - exp(-(scale*f_i/f_c)^2) from the implementation's frequency axis, double precision"""
    sc = float(ir["df"][1])
    return [Fraction(-math.expm1(-((sc * float(f) / cutoff) ** 2))) for f in ir["freq"]]
