"""C17 sub-check: the text start-distribution reader makePSFromTXT (src/PS/PhaseSpaceFactory.cpp).

Model (coq/Model/TxtReader.v with the generated declared types / guard / subscripts of Gen_TxtReader, extracted as
family `txt`) against the implementation (harness/impl_txt.cpp) run under ASan+UBSan: for generated particle files the
set of non-zero cells after makePSFromTXT must be exactly the set of cells the model deposits in, and no sanitizer report
may appear.  Particles are aimed at the case split of the bounds theorem: left of / below the grid (negative lround:
wraps around for the declared unsigned type and must be skipped), exactly on the lower and upper edges, half-way ties of
lround, far outside (|c| up to 1e9 grid widths), and ordinary interior ones."""
import os, tempfile, shutil
from fractions import Fraction
from vp_common import *
import vp_coq, vp_build
import bounds_cases as bc


def gen_cases(ctx, count):
    rng = ctx.rng
    cases = []
    for i in range(count):
        n = rng.choice([4, 8, 16, 17, 31, 32, 33, 64])
        qmax = f32(rng.choice([6.0, 3.0, 5.5, 12.0, 0.75]))
        pmax = f32(rng.choice([6.0, 4.0, 7.25, 12.0]))
        k = rng.randint(1, 12)
        ps = []
        for _ in range(k):
            def coord(cmax):
                c = rng.random()
                if c < 0.30:        # interior
                    return f32(rng.uniform(-0.5, 0.5) * cmax)
                if c < 0.50:        # just left of / below the grid: lround gives -1, -2, ...
                    return f32((-0.5 - rng.uniform(0.6, 3.4) / n) * cmax)
                if c < 0.60:        # around the lower edge (cell 0 / -1 boundary, incl. the exact tie)
                    return f32((-0.5 + rng.choice([-0.5, -0.49, -0.51, 0.0, 0.49]) / n) * cmax)
                if c < 0.72:        # around the upper edge (cell n-1 / n boundary)
                    return f32((0.5 + rng.choice([-0.5, -0.51, -0.49, 0.0, -1.0, 0.5]) / n) * cmax)
                if c < 0.80:        # exact half-way ties inside
                    return f32(((rng.randrange(n) + 0.5) / n - 0.5) * cmax)
                if c < 0.90:        # far outside, both signs (lround stays far inside the range of long)
                    return f32(rng.choice([-1, 1]) * cmax * 10.0 ** rng.randint(1, 9))
                return f32((0.5 + rng.uniform(0.1, 4.0) / n) * cmax)      # beyond the upper edge
            ps.append((coord(qmax), coord(pmax)))
        cases.append(dict(id="x%d" % i, n=n, qmax=qmax, pmax=pmax, ps=ps))
    # fixed boundary corpus (runs first): one particle each, left of, below, on the corners
    fixed = []
    for j, (x, y) in enumerate([(-3.2, 0.0), (0.0, -3.2), (-3.0, -3.2), (-3.2, 2.9), (-7.0, 0.0), (0.0, -7.0), (-3.0, -3.0),
                                (2.9, 2.9), (3.0, 3.0), (-1e9, 0.5), (0.5, -1e9), (-2.99, -2.99)]):
        fixed.append(dict(id="f%d" % j, n=32, qmax=3.0, pmax=3.0, ps=[(f32(x), f32(y))]))
    return fixed + cases


def impl_text(c, work):
    return "txt %s %d %s %s %d %s %s\n" % (c["id"], c["n"], fhex(c["qmax"]), fhex(c["pmax"]), len(c["ps"]),
                                           " ".join("%s %s" % (fhex(x), fhex(y)) for x, y in c["ps"]), work)


def model_text(c):
    return "txt %s %d %s %s %d %s\n" % (c["id"], c["n"], qtok(Fraction(c["qmax"])), qtok(Fraction(c["pmax"])), len(c["ps"]),
                                        " ".join("%s %s" % (qtok(Fraction(x)), qtok(Fraction(y))) for x, y in c["ps"]))


def run(ctx, tga, classify, count):
    """returns the list of correspondence disagreements; sanitizer reports become impl-oracle violations"""
    dis = []
    cases = gen_cases(ctx, count)
    rc, out, err = run_driver(vp_coq.model_path("txt"), "".join(model_text(c) for c in cases))
    if rc != 0:
        raise RuntimeError("model_txt: " + err[-500:])
    model = parse_cases(out)
    work = tempfile.mkdtemp(prefix="vp-txt-")
    env = bc.san_env()

    def runjob(c):
        return bc.run_proc([tga["impl_txt"]], text=impl_text(c, work), env=env, timeout=60)
    try:
        res = bc.pmap(runjob, cases)
    finally:
        shutil.rmtree(work, ignore_errors=True)
    for c, (rc, so, err) in zip(cases, res):
        case = dict(kind="txt", n=c["n"], qmax=fhex(c["qmax"]), pmax=fhex(c["pmax"]), particles=[[fhex(x), fhex(y)] for x, y in c["ps"]],
                    file_text="".join("%.9g %.9g\n" % (x, y) for x, y in c["ps"]))
        m = model.get(c["id"], {}).get("p", [])
        want = set()
        outside, negative = False, False
        for row in m:
            if row[1] == "-":
                vx, vy = int(row[2], 16), int(row[3], 16)
                negative = negative or vx < 0 or vy < 0
                continue
            b, x, y, ok = int(row[1], 16), int(row[2], 16), int(row[3], 16), row[4] == "1"
            if not ok:
                outside = True
            else:
                want.add((x, y))
        clean = classify(ctx, rc, err, {}, case, "makePSFromTXT on a generated particle file under ASan/UBSan")
        ctx.count("txt:%s" % ("left-or-below" if negative else "upper-or-inside"))
        ctx.case_done(("txt", c["id"], c["n"]), negative or bool(want))
        if not clean:
            continue
        if outside:
            # the model itself says the generated reader deposits outside the array (the bounds theorem is broken): the
            # implementation ran clean only because the stray write hit mapped memory the sanitizer does not guard
            ctx.violation("impl-oracle", "makePSFromTXT deposits a particle outside the phase-space array (model of the generated reader; "
                          "the stray write is not flagged by the sanitizer)", case=case, observed=m, expected="every accepted particle inside the n x n array",
                          sig=dict(stage="oracle", cause="txt-deposit-outside", where="makePSFromTXT"))
            continue
        got = set()
        for line in so.splitlines():
            p = line.split()
            if p and p[0] == "cell":
                got.add((int(p[1], 16), int(p[2], 16)))
        if got != want:
            dis.append(dict(case=case, detail=dict(model_cells=sorted(want), impl_cells=sorted(got)), sig=dict(kind="txt")))
    return dis
