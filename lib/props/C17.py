"""C17 - no configuration or input file makes the program touch memory it does not own (partial).

Theorems: size/index arithmetic (coq/Props/Properties_C17.v).  Tie: extracted model vs the
repo's objects (sizes, table indices, extreme written cells) and vs the program's results
file (padded lengths).  Search (the oracle): the same objects at their extremes and the
program on random configurations / malformed input files under ASan+UBSan; every report is a
concrete failing input.  The model predicts *which* defect a configuration can hit; a report
the model does not predict is never matched to a known finding."""
import json, os, shutil, tempfile
from fractions import Fraction
from vp_common import *
import vp_coq, vp_build
import bounds_cases as bc
import txt_cases
import kick_cases as kc

REPO_DIR = os.path.realpath(REPO)

# which functions a known cause can surface in (a report elsewhere is never matched to it).  Every cause is fixed on the
# current tree, so run() predicts nothing: any sanitizer report is 'unpredicted'.  The table serves the replays.
PRED = {
    "fp-zerobin-outside-grid": {"FokkerPlanckMap": "fp-zerobin-outside-grid"},
    "pad-overflow": {"padBunchProfiles": "pad-overflow", "wakePotential": "pad-overflow"},
    "track-outside-grid": {"appendTracks": "track-outside-grid"},
    "startfile-size-mismatch": {k: "startfile-size-mismatch" for k in
                                ("main", "FokkerPlanckMap", "KickMap", "PhaseSpace", "SourceMap", "HDF5File", "ElectricField", "assert")},
}
FP_REFUSAL = "Zero energy has to lie on the grid"
SIZE_REFUSAL = "Grid size of initial distribution differs"
TRACK_EDGE = "6 6\n-6 -6\n6 -6\n0 0\n5.9 5.9\n"


# ---------------------------------------------------------------------------------- helpers

def run_model(text):
    rc, out, err = run_driver(vp_coq.model_path("bounds"), text)
    if rc != 0:
        raise RuntimeError("model_bounds: " + err[-500:])
    return parse_cases(out)


def hexz(tok):
    return int(tok, 16)


def classify(ctx, rc, err, predicted, case, what_prefix):
    """sanitizer report / crash -> violation; returns True when clean.
    predicted: {function-substring: cause} that the model/configuration explains"""
    rep = bc.parse_sanitizer(err, REPO_DIR)
    if rep is None and rc in (0, 1):
        return True
    if rep is None:
        if rc in (137, -9, 124):
            # FFTW_PATIENT planning of a long odd length under ASan can exceed any sensible limit: a timeout is
            # recorded, it is not evidence of a memory error
            ctx.count("timeout")
            ctx.notes.append("timeout (not counted as a violation): %s" % json.dumps(case)[:300])
            return True
        else:
            rep = dict(error="exit-%d" % rc, where="?", file="?", text=err[-600:])
    cause = "unpredicted"
    for key, c in predicted.items():
        if key in rep["where"]:
            cause = c
            break
    ctx.count("report:%s:%s" % (cause, rep["where"].replace("vfps::", "")))
    ctx.violation("impl-oracle", "%s: %s in %s (%s)" % (what_prefix, rep["error"], rep["where"], rep["file"]),
                  case=case, observed=rep["text"][:1200], expected="no sanitizer report, no crash",
                  sig=dict(stage="sanitizer", cause=cause, where=rep["where"]))
    return False


# ---------------------------------------------------------------------------------- API level

def api_correspondence(ctx, tg, tga):
    rng = ctx.rng
    dis = []
    quick = ctx.quick()
    env = bc.san_env()
    mtext, itext = [], []
    # --- upper_power_of_two
    vs = [0, 1, 2, 3, 2 ** 63, 2 ** 63 - 1, 2 ** 63 + 1, 2 ** 64 - 1, 2 ** 32, 2 ** 32 + 1]
    for k in range(1, 63):
        vs += [2 ** k - 1, 2 ** k, 2 ** k + 1]
    vs += [rng.getrandbits(rng.randint(1, 64)) for _ in range(100 if quick else 5000)]
    mtext.append("upt u %d %s\n" % (len(vs), " ".join("%x" % v for v in vs)))
    itext.append("upt u %d %s\n" % (len(vs), " ".join("%x" % v for v in vs)))
    # --- float -> unsigned on its defined domain
    fs = [0.0, 0.5, -0.5, -0.99, 1.0, 4294967040.0, 16777216.0, 255.75] + \
         [f32(rng.uniform(-0.999, 70000)) for _ in range(60 if quick else 2000)]
    mtext.append("f2u c 32 %d %s\n" % (len(fs), " ".join(qtok(Fraction(f)) for f in fs)))
    itext.append("f2u c %d %s\n" % (len(fs), " ".join(fhex(f) for f in fs)))
    # --- padding cases: in-bounds ones are executed, the others only have their offsets read
    # (lengths "as main would choose them" come from the extracted GENERATED size functions, Gen_ScalingZ)
    pre, gq = [], []
    for i in range(40 if quick else 600):
        n = rng.randint(4, 40)
        nbk = rng.randint(1, 9)
        filled = [rng.random() < 0.7 for _ in range(nbk)]
        if not any(filled):
            filled[rng.randrange(nbk)] = True
        buckets = [nbk - 1 - j for j, f in enumerate(filled) if f]
        sp = rng.choice([0, n, n, n + 1, n + 2, rng.randint(n, 3 * n)])
        need = max(buckets) * sp + n
        choice = rng.randrange(7)
        alts = [need, need, need + 1, need + rng.randint(0, 40), need - 1, need - rng.randint(1, n), None]
        pre.append(("p%d" % i, n, buckets, alts[choice], sp, len(gq) if alts[choice] is None else None))
        if alts[choice] is None:
            gq.append((n, nbk, sp / n + 0.01, 1.0, True))
    dq = []
    for i in range(30 if quick else 400):
        n = rng.randint(4, 40)
        nbk = rng.randint(2, 9 if rng.random() < 0.8 else 40)
        filled = [rng.random() < 0.8 for _ in range(nbk)]
        filled[0] = filled[0] or rng.random() < 0.7
        if not any(filled):
            filled[-1] = True
        buckets = [nbk - 1 - j for j, f in enumerate(filled) if f]
        s = n + rng.choice([0, 0.25, 0.5, 0.5625, 0.75, 1.0, 1.5, rng.randint(0, 8 * nbk) / 16.0, rng.uniform(0, n)])
        sps = s / n
        rp = rng.random() < 0.4
        dq.append(("d%d" % i, n, buckets, nbk, sps, rp))
    gres = bc.gen_sizes_batch(vp_coq.model_path("bounds"), gq + [(n, nbk, sps, 1.0, rp) for (_, n, _, nbk, sps, rp) in dq])
    pads = []
    for (cid, n, buckets, nmax, sp, gi) in pre:
        if gi is not None:
            nmax = gres[gi][2]
        pads.append((cid, n, buckets, max(2, nmax), sp))
    pads.append(("pwrap", 8, [3, 0], 64, 2 ** 31))     # 3*2^31: a 64-bit product (size_t member), no uint32 wrap
    # what main can hand to the field: sizes derived from (n, pattern, spacing_ps, RoundPadding), buckets not overlapping
    dpads = []
    for (cid, n, buckets, nbk, sps, rp), (sp, padded, nmax) in zip(dq, gres[len(gq):]):
        dpads.append((cid, n, buckets, nmax, sp))
    pads += dpads
    for (cid, n, buckets, nmax, sp) in pads:
        mtext.append("pad %s %d %d %d %d 0 %s\n" % (cid, n, len(buckets), nmax, sp, " ".join(map(str, buckets))))
    # --- Fokker-Planck constructor
    fps = []
    for i in range(40 if quick else 600):
        n = rng.randint(4, 40)
        dt = rng.choice([3, 4, 4])
        # axis [-a, b] with a+b = 8: zerobin = a(n-1)/8, every float operation exact for a = k/16
        a = Fraction(rng.randint(-16, 144), 16)
        pmin, pmax = -a, 8 - a
        zb = a * (n - 1) / 8
        fps.append(("f%d" % i, n, dt, pmin, pmax, zb, rng.choice([0, 1, 2, 3])))
    for (cid, n, dt, pmin, pmax, zb, fpt) in fps:
        mtext.append("fp %s %d %d %s %d\n" % (cid, n, dt, qtok(zb), 1 if fpt in (1, 3) else 0))
    # --- kick tables with offsets up to far beyond the grid (defined conversions only in the std run)
    kicks = []
    for i in range(12 if quick else 200):
        n = rng.randint(4, 24)
        nb = rng.choice([1, 1, 2])
        it = rng.randint(1, 4)
        offs = []
        for _ in range(n * nb):
            c = rng.random()
            if c < 0.4:
                offs.append(f32(rng.uniform(-n / 2, n / 2)))
            elif c < 0.6:
                offs.append(f32(rng.uniform(-3 * n, -n / 2 + 1)))
            elif c < 0.8:
                offs.append(f32(rng.uniform(n / 2 - 2, 3 * n)))
            else:
                offs.append(f32(rng.choice([1e6, 3e9, 4.2e9, 1e12, 2.0 ** 31, 2.0 ** 32 - 300, -1e6, -5e9, -1e30])))
        kicks.append(("k%d" % i, rng.choice("xy"), n, nb, it, offs))
    # aimed at the case splits of the generated updateSM body (Proofs/UpdateSMGenP.v): integer part of n/2+offset exactly at
    # the guard / stencil / table boundaries, negative beyond -n/2; odd and even sizes; own PRNG (the older streams keep their draws)
    import random
    erng = random.Random(ctx.seed * 1000003 + 171)
    for i in range(5 if quick else 70):
        n = kc.EDGE_SIZES[i % len(kc.EDGE_SIZES)]
        it = 1 + i % 4
        nb = erng.choice([1, 1, 2])
        kicks.append(("ke%d" % i, erng.choice("xy"), n, nb, it, kc.edge_offsets(erng, n, it, n * nb)))
    for (cid, d, n, nb, it, offs) in kicks:
        mtext.append("kick %s %d %d %d %s\n" % (cid, n, nb, it, " ".join(qtok(Fraction(o)) for o in offs)))
    # --- impedance sum, tracks
    imps = [(256, 10), (10, 256), (16, 16), (1, 0), (0, 5)] + [(rng.randint(1, 300), rng.randint(0, 300)) for _ in range(10)]
    for j, (l, r) in enumerate(imps):
        mtext.append("imp i%d %d %d\n" % (j, l, r))
        itext.append("imp i%d %d %d\n" % (j, l, r))
    tn = 12
    txs = [0.0, 0.5, 11.0, 11.999, -0.5, 7.25] + [f32(rng.uniform(-0.99, tn - 0.001)) for _ in range(20)]
    mtext.append("track t %d %d %s\n" % (tn, len(txs), " ".join(qtok(Fraction(x)) for x in txs)))
    itext.append("track t %d %d %s\n" % (tn, len(txs), " ".join(fhex(x) for x in txs)))

    model = run_model("".join(mtext))

    # implementation, std flavour: execute only what the model declares in bounds / defined
    for (cid, n, buckets, nmax, sp) in pads:
        ok = model[cid]["ok"][0][0] == "1" and cid != "pwrap"
        itext.append("pad %s %d %d %d %d %d %s\n" % (cid, n, len(buckets), nmax, sp, 1 if ok else 0, " ".join(map(str, buckets))))
    for (cid, n, dt, pmin, pmax, zb, fpt) in fps:
        ok = model[cid]["ok"][0][1] == "1"          # accesses in bounds (index values may still be off-grid)
        allok = model[cid]["ok"][0][0] == "1"
        itext.append("fp %s %d %d %s %s %d %d\n" % (cid, n, dt, fhex(float(pmin)), fhex(float(pmax)), fpt, 1 if (ok and allok) else 0))
    kick_defined = {}
    for (cid, d, n, nb, it, offs) in kicks:
        kick_defined[cid] = True        # since fix fbbfcf6 every offset is handled without a conversion outside its domain
        itext.append("kick %s %s %d %d %d %s\n" % (cid, d, n, nb, it, " ".join(fhex(o) for o in offs)))
    rc, out, err = run_driver(tg["impl_bounds"], "".join(itext), env=vp_build.xdg_env())
    if rc != 0:
        # the harness died on one of the cases the model declares in bounds / defined: locate it and report it with its input
        bad = None
        for line in itext:
            r2, _, e2 = run_driver(tg["impl_bounds"], line, env=vp_build.xdg_env())
            if r2 != 0:
                bad, err = line, e2 or err
                rc = r2
                break
        ctx.violation("impl-oracle", "the API harness (plain build) dies with status %d on a case the model declares in bounds / defined" % rc,
                      case=dict(kind="api-crash", line=(bad or "(not reproduced case by case)")[:400]), observed=(err or "")[-400:],
                      sig=dict(stage="api-crash", case=(bad or "").split(" ")[0]))
        return dis
    impl = parse_cases(out)

    def disagree(kind, cid, detail, case):
        dis.append(dict(case=dict(kind=kind, id=cid, **case), detail=detail, sig=dict(stage="correspondence", kind=kind)))

    # compare
    mu, iu = [hexz(t) for t in model["u"]["r"][0]], [hexz(t) for t in impl["u"]["r"][0]]
    for v, a, b in zip(vs, mu, iu):
        if a != b:
            disagree("upt", "u", dict(v=hex(v), model=hex(a), impl=hex(b)), dict(v=hex(v)))
        ctx.case_done(("upt", v), 1 < v <= 2 ** 63)
    ctx.count("upt", len(vs))
    mc, ic = [hexz(t) for t in model["c"]["r"][0]], [int(t) for t in impl["c"]["r"][0]]
    for f, a, b in zip(fs, mc, ic):
        if a != b:
            disagree("f2u", "c", dict(f=fhex(f), model=a, impl=b), dict(f=fhex(f)))
        ctx.case_done(("f2u", f), f >= 1)
    ctx.count("f2u", len(fs))
    for (cid, n, buckets, nmax, sp) in pads:
        m, im = model[cid], impl[cid]
        case = dict(n=n, buckets=buckets, nmax=nmax, spacing=sp)
        mp = [hexz(t) for t in m["pad"][0]]
        starts = [int(t) for t in im["start"][0]]
        if mp[0::2] != starts or [int(t) for t in im["sizes"][0]] != [nmax, sp]:
            disagree("pad", cid, dict(model_starts=mp[0::2], impl_starts=starts, impl_sizes=im["sizes"][0]), case)
        ok = m["ok"][0][0] == "1"
        if "written" in im:
            first, last = [int(t) for t in im["written"][0]]
            if (first, last) != (min(mp[0::2]), hexz(m["maxlast"][0][0])):
                disagree("pad", cid, dict(model_first=min(mp[0::2]), model_last=hexz(m["maxlast"][0][0]), impl=[first, last]), case)
        ctx.count("pad:" + ("in" if ok else "out"))
        ctx.case_done(("pad", cid), ok and len(buckets) > 1 and sp > 0)
    for (cid, n, dt, pmin, pmax, zb, fpt) in fps:
        m, im = model[cid], impl[cid]
        case = dict(n=n, dt=dt, pmin=str(pmin), pmax=str(pmax), zerobin=str(zb), fptype=fpt)
        izb = parse_c(im["zerobin"][0][0])
        if izb != zb:
            disagree("fp", cid, dict(model_zerobin=str(zb), impl_zerobin=str(izb)), case)
        if "table" in im:
            mt = [hexz(t) for t in m["table"][0]][:n * dt]
            it_ = [int(t) for t in im["table"][0]]
            if mt != it_:
                disagree("fp", cid, dict(model=mt[:40], impl=it_[:40]), case)
        ctx.count("fp:dt%d:%s" % (dt, "in" if m["ok"][0][0] == "1" else "out"))
        ctx.case_done(("fp", cid), "table" in im and dt == 4)
    for (cid, d, n, nb, it, offs) in kicks:
        if not kick_defined[cid]:
            ctx.count("kick:undefined-conversion")
            continue
        mt = [hexz(t) for t in model[cid]["table"][0]]
        it_ = [int(t) for t in impl[cid]["table"][0]]
        if mt != it_:
            disagree("kick", cid, dict(model=mt[:40], impl=it_[:40]), dict(n=n, nb=nb, it=it, dir=d, offs=[fhex(o) for o in offs]))
        if any(not (0 <= t < n) for t in it_):
            ctx.violation("impl-oracle", "KickMap table index outside the grid row", case=dict(kind="kick", n=n, it=it, offs=[fhex(o) for o in offs]),
                          observed=it_, sig=dict(stage="api", cause="kick-table-index"))
        ctx.count("kick:defined")
        ctx.extra["kick_tables_compared"] = ctx.extra.get("kick_tables_compared", 0) + 1
        ctx.case_done(("kick", cid), any(abs(o) > n / 2 for o in offs))
    for j, (l, r) in enumerate(imps):
        s = [parse_c(t) for t in impl["i%d" % j].get("sum", [[]])[0]]
        exp = [Fraction(1) if i < min(l, r) else Fraction(0) for i in range(l)]
        nreads = hexz(model["i%d" % j]["nreads"][0][0])
        if s != exp or nreads != max(0, min(l, r)):
            ctx.violation("impl-oracle", "Impedance::operator+= of a %d-entry table into %d frequencies: cells beyond the shorter "
                          "operand are not left untouched" % (r, l), case=dict(kind="imp", lhs=l, rhs=r),
                          observed=[str(x) for x in s[:min(len(s), r + 6)]], expected="ones up to min(lhs,rhs), then zeros",
                          sig=dict(stage="api", cause="impedance-sum-overread"))
        ctx.case_done(("imp", l, r), r < l)
    ax = [parse_c(t) for t in impl["t"]["axis"][0]]
    iq = [parse_c(t) for t in impl["t"]["q"][0]]
    for x, tokm, qv in zip(txs, model["t"]["r"][0], iq):
        okm, idx = tokm.split(":")
        if okm != "1" or ax[hexz(idx)] != qv:
            disagree("track", "t", dict(x=fhex(x), model=tokm, impl=str(qv)), dict(x=fhex(x)))
        ctx.case_done(("track", x), x >= 1)
    ctx.sample(dict(kind="pad", n=pads[0][1], buckets=pads[0][2], nmax=pads[0][3], spacing=pads[0][4], model=model[pads[0][0]]))
    ctx.sample(dict(kind="fp", n=fps[0][1], dt=fps[0][2], zerobin=str(fps[0][5]), model_ok=model[fps[0][0]]["ok"][0]))

    # ---------------- the same objects at their extremes under ASan+UBSan, one process per case
    jobs = []
    for (cid, n, buckets, nmax, sp) in dpads:
        ok = model[cid]["ok"][0][0] == "1"
        txt = "pad %s %d %d %d %d 1 %s\n" % (cid, n, len(buckets), nmax, sp, " ".join(map(str, buckets)))
        jobs.append((txt, ok, {"padBunchProfiles": "pad-overflow", "wakePotential": "pad-overflow"},
                     dict(kind="pad", n=n, buckets=buckets, nmax=nmax, spacing=sp)))
    for (cid, n, dt, pmin, pmax, zb, fpt) in fps[: (24 if quick else 300)]:
        ok = model[cid]["ok"][0][0] == "1"
        if dt == 4 and model[cid]["guard"][0][0] != "1":
            # main refuses such an axis (fix de00324); the constructor is not reachable with it
            ctx.count("fp:outside-main-guard")
            if ok and n >= 4:
                pass                      # guard stricter than necessary here: harmless
            continue
        if not ok and n >= 4:
            dis.append(dict(case=dict(kind="fp", id=cid, n=n, dt=dt, zerobin=str(zb)), detail="guard holds but the model's constructor is out of bounds",
                            sig=dict(stage="correspondence", kind="fp-guard-theorem")))
        txt = "fp %s %d %d %s %s %d 1\n" % (cid, n, dt, fhex(float(pmin)), fhex(float(pmax)), fpt)
        jobs.append((txt, ok, {"FokkerPlanckMap": "fp-zerobin-outside-grid"},
                     dict(kind="fp", n=n, dt=dt, pmin=str(pmin), pmax=str(pmax), zerobin=str(zb), fptype=fpt)))
    for (cid, d, n, nb, it, offs) in kicks:
        txt = "kick %s %s %d %d %d %s\n" % (cid, d, n, nb, it, " ".join(fhex(o) for o in offs))
        jobs.append((txt, kick_defined[cid], {"KickMap::updateSM": "kick-negative-offset-conversion"},
                     dict(kind="kick", n=n, nb=nb, it=it, dir=d, offs=[fhex(o) for o in offs])))
    for x, ok in [(11.5, True), (11.999, True), (-0.5, True), (0.0, True)]:      # the lookup is only ever given what the maps produce
        jobs.append(("track tx 12 1 %s\n" % fhex(x), ok, {"Ruler": "track-outside-grid", "impl_bounds": "track-outside-grid"},
                     dict(kind="track", n=12, x=fhex(x))))
    jobs.append(("imp ix 256 10\n", True, {}, dict(kind="imp", lhs=256, rhs=10)))
    jobs.append(("kick kinf y 4 1 4 inf -inf nan 1e38\n", True, {}, dict(kind="kick", n=4, nb=1, it=4, dir="y", offs=["inf", "-inf", "nan", "1e38"])))

    def runjob(j):
        return bc.run_proc([tga["impl_bounds"]], text=j[0], env=env, timeout=60)
    res = bc.pmap(runjob, jobs)
    for (txt, ok, pred, case), (rc, out, err) in zip(jobs, res):
        clean = classify(ctx, rc, err, pred if not ok else {}, case, "API case under ASan/UBSan")
        ctx.count("asan-api:%s:%s" % (case["kind"], "model-in" if ok else "model-out"))
        if clean and not ok and case["kind"] in ("pad", "fp", "kick", "track"):
            # the model says out of bounds / undefined but the sanitizers saw nothing
            ctx.notes.append("model predicts a violation the sanitizers did not report: %s" % json.dumps(case)[:300])
            ctx.count("asan-api:silent-on-model-out")
        ctx.case_done(("asan", txt[:60]), not ok)
    return dis


# ---------------------------------------------------------------------------------- program level

def gen_config(rng, i, quick):
    n = rng.choice([8, 12, 16, 17, 24, 32, 33, 48] if quick else [8, 12, 16, 17, 24, 32, 33, 48, 64, 100])
    cfg = dict(GridSize=n)
    multi = rng.random() < 0.5
    if multi:
        nbk = rng.randint(2, 8 if quick else 34)
        fill = [rng.random() < 0.7 for _ in range(nbk)]
        if not any(fill):
            fill[0] = True
        cur = [rng.choice([1e-4, 1e-3, 1e-2]) if f else 0.0 for f in fill]
    else:
        cur = [rng.choice([1e-4, 1e-3, 5e-2, 1.0])]
    cfg["BunchCurrent"] = cur
    cfg["padding"] = rng.choice([0.5, 1.0, 1.5, 2.0, 3.3, 8.0])
    cfg["RoundPadding"] = rng.choice([0, 1])
    target = None
    if multi and rng.random() < 0.7:
        target = n + rng.choice([0.0, 0.25, 0.5, 0.6, 1.0, 1.4, 2.0, rng.uniform(0, len(cur))])
        bc.tune_spacing(cfg, target)
    elif multi and quick:
        # untuned physics gives ~55 phase-space widths per bucket: tens of thousands of padded cells; FFTW_PATIENT planning of
        # such a length that is not a power of two costs minutes on a cold wisdom cache (cost control, quick tier only)
        cfg["RoundPadding"] = 1
    cfg["InterpolationPoints"] = rng.randint(1, 4)
    cfg["InterpolateClamped"] = rng.choice([0, 0, 1])
    cfg["derivation"] = rng.choice([3, 4])
    cfg["FPType"] = rng.randint(0, 3)
    cfg["FPTrack"] = rng.randint(0, 3)
    cfg["LinearRF"] = rng.choice([0, 1])
    if rng.random() < 0.3:
        cfg["RFPhaseModAmplitude"] = rng.choice([0.0, 1.0, 30.0])
        cfg["RFPhaseModFrequency"] = rng.choice([0.0, 1e4])
    if rng.random() < 0.2:
        cfg["RFPhaseSpread"] = rng.choice([0.1, 5.0])
    if rng.random() < 0.2:
        cfg["RFAmplitudeSpread"] = rng.choice([1e-3, 0.1])
    c = rng.random()
    if c < 0.5:
        cfg["PhaseSpaceShiftY"] = float(rng.choice([0, 0, 0.5, 1, -1, 2.5, -3]))
        cfg["PhaseSpaceShiftX"] = float(rng.choice([0, 0, 0.5, 1, -2]))
    elif c < 0.75:
        cfg["PhaseSpaceShiftY"] = float(rng.choice([n // 2 - 2, -(n // 2) + 2, n // 2, -(n // 2), n // 2 + 2, n, -n, 2 * n]))
    steps = rng.choice([1, 2, 3, 4, 5, 7, 10, 50, 100, 1000])
    cfg["StepsPerTs"] = steps
    nsteps = rng.randint(1, 12)
    cfg["rotations"] = nsteps / steps
    cfg["outstep"] = rng.choice([1, 1, 2, 5])
    cfg["VacuumGap"] = rng.choice([0.03, -1.0, 0.0, 0.01])
    if rng.random() < 0.2:
        cfg["WallConductivity"] = 5e7
    if rng.random() < 0.2:
        cfg["CollimatorRadius"] = 0.005
    cfg["_out"] = rng.random() < 0.8
    cfg["_track"] = rng.random() < 0.35
    return cfg


def predict(cfg, m_sizes, m_pad, m_fp):
    """{function substring: cause} for the defects the model says this configuration can reach: none on the tree after
    the fixes (padded length 899923d, Fokker-Planck guard de00324, kick conversion fbbfcf6, tracking clamp f5243ba)"""
    return {}


def write_tracking(path, cfg, rng):
    P = cfg.get("PhaseSpaceSize", 12.0)
    pts = [(0, 0), (P / 2, P / 2), (-P / 2, -P / 2), (P / 2, -P / 2), (P, -P), (-3 * P, 0.1), (0.3, -0.7)]
    pts += [(rng.uniform(-P / 2, P / 2), rng.uniform(-P / 2, P / 2)) for _ in range(4)]
    with open(path, "w") as f:
        for q, p in pts:
            f.write("%r %r\n" % (q, p))


def program_runs(ctx, tg, tga):
    rng = ctx.rng
    quick = ctx.quick()
    env = bc.san_env()
    work = tempfile.mkdtemp(prefix="c17-")
    dis = []
    try:
        cfgs = [gen_config(rng, i, quick) for i in range(36 if quick else 400)]
        # the designed witnesses, always present
        w1 = dict(GridSize=16, BunchCurrent=[1e-3] * 5, padding=2.0, RoundPadding=0, StepsPerTs=100, rotations=0.02, outstep=1, _out=True, _track=False)
        bc.tune_spacing(w1, 16.6)
        w2 = dict(GridSize=32, BunchCurrent=[1e-3] * 5, padding=2.0, RoundPadding=0, StepsPerTs=100, rotations=0.02, outstep=1, _out=True, _track=False)
        bc.tune_spacing(w2, 33.0)
        w3 = dict(GridSize=32, PhaseSpaceShiftY=20.0, StepsPerTs=100, rotations=0.02, outstep=1, _out=False, _track=False)
        w4 = dict(GridSize=32, StepsPerTs=3, rotations=1.0, outstep=1, _out=False, _track=False)
        w5 = dict(GridSize=16, BunchCurrent=[1e-3] * 31, padding=2.0, RoundPadding=1, StepsPerTs=100, rotations=0.02, outstep=1, _out=False, _track=False)
        bc.tune_spacing(w5, 16.5001)
        w6 = dict(GridSize=32, StepsPerTs=100, rotations=1.0, outstep=1, FPTrack=3, DampingTime=1e-6, _out=True, _track=True, _trackfile=TRACK_EDGE)
        w7 = dict(GridSize=32, PhaseSpaceShiftY=17.5, StepsPerTs=100, rotations=0.02, outstep=1, _out=False, _track=False)    # zerobin 33: just above the grid
        w8 = dict(GridSize=32, PhaseSpaceShiftY=-15.0, StepsPerTs=100, rotations=0.02, outstep=1, _out=False, _track=False)   # zerobin 0.5: row 0 would store index 2^32-1
        w9 = dict(GridSize=32, PhaseSpaceShiftY=14.0, StepsPerTs=100, rotations=0.02, outstep=1, _out=False, _track=False)    # zerobin 29.5: accepted
        # a lone bunch with empty buckets listed after / around it, machine-default spacing (far larger than the padded single-bunch
        # length), wake on: the padded buffers must be sized by the number of BUCKETS, not of bunches (seeds C17-A, C17-C)
        w10 = dict(GridSize=32, BunchCurrent=[1e-3, 0.0, 0.0], padding=2.0, RoundPadding=0, StepsPerTs=100, rotations=0.02, outstep=1, _out=True, _track=False)
        w11 = dict(GridSize=16, BunchCurrent=[0.0, 3e-3, 0.0], padding=8.0, RoundPadding=1, StepsPerTs=100, rotations=0.02, outstep=1, _out=False, _track=False)
        w12 = dict(GridSize=24, BunchCurrent=[3e-3, 0.0], padding=1.5, RoundPadding=0, StepsPerTs=100, rotations=0.02, outstep=1, _out=True, _track=False)
        cfgs = [w1, w2, w3, w4, w5, w6, w7, w8, w9, w10, w11, w12] + cfgs
        mtext = []
        for i, cfg in enumerate(cfgs):
            n = cfg["GridSize"]
            cur = cfg.get("BunchCurrent", [1.0])
            # inputs of the generated size functions: options as given on the command line, spacing_ps from the
            # double-precision evaluation of the expression the translator read from main() (lib/scaling_eval.py)
            zs, qs, bs = bc.gen_size_inputs(cfg)
            sps = bc.main_spacing_ps(cfg)
            cfg["_sps"] = sps
            pad = cfg.get("padding", 8.0)
            rp = cfg.get("RoundPadding", 1)
            mtext.append(bc.gsizes_text("s%d" % i, zs, qs, bs))
            mtext.append("sizes h%d %d %d %s %s %d\n" % (i, n, len(cur), qtok(Fraction(sps)), qtok(Fraction(max(pad, 1.0))), rp))
            zb = f32(f32((n - 1) / 2.0) + f32(cfg.get("PhaseSpaceShiftY", 0.0)))
            cfg["_zb"] = zb
            mtext.append("fp f%d %d %d %s %d\n" % (i, n, cfg.get("derivation", 4), qtok(Fraction(zb)), 1))
        model = run_model("".join(mtext))
        m2 = []
        for i, cfg in enumerate(cfgs):
            n = cfg["GridSize"]
            cur = cfg.get("BunchCurrent", [1.0])
            g = [int(t, 16) if t != "-1" else -1 for t in model["s%d" % i]["sizes"][0]]
            # [spacing_bins, radiation-field length, wake-field length] of the generated model (binary64 arithmetic mirrored)
            sz = [g[0], g[1], g[2] if len(cur) > 1 else g[1], g[2]]
            cfg["_model_sizes"] = sz
            # the hand-written copy of the sizing (Model/Bounds.v main_sizes, theorem pad_in_bounds_fixed) is only compared
            hz = [int(t, 16) if t != "-1" else -1 for t in model["h%d" % i]["sizes"][0]]
            if [hz[0], hz[1], hz[3]] != [g[0], g[1], g[2]]:
                ctx.count("program:hand-model-differs")
                if not any(x.startswith("hand-written size model") for x in ctx.notes):
                    ctx.notes.append("hand-written size model (Bounds.main_sizes) %s differs from the generated one %s for %s" %
                                     (hz, g, {k: v for k, v in cfg.items() if not k.startswith('_')}))
            buckets = [len(cur) - 1 - j for j, c in enumerate(cur) if c > 0]
            cfg["_buckets"] = buckets
            if len(cur) > 1 and g[0] >= 0 and g[2] >= 0:
                m2.append("pad p%d %d %d %d %d 0 %s\n" % (i, n, len(buckets), g[2], g[0], " ".join(map(str, buckets))))
        model2 = run_model("".join(m2)) if m2 else {}
        jobs = []
        for i, cfg in enumerate(cfgs):
            args = bc.cfg_args(cfg)
            out = None
            if cfg.get("_out"):
                out = os.path.join(work, "r%d.h5" % i)
                args += ["-o", out]
            if cfg.get("_track"):
                tf = os.path.join(work, "t%d.txt" % i)
                if cfg.get("_trackfile"):
                    open(tf, "w").write(cfg["_trackfile"])
                else:
                    write_tracking(tf, cfg, rng)
                args += ["--tracking", tf]
            wake = cfg.get("VacuumGap", 0.03) != 0
            m_pad = model2["p%d" % i]["ok"][0][0] if ("p%d" % i) in model2 and wake else None
            m_fp = model["f%d" % i]["ok"][0]
            jobs.append((i, cfg, args, out, predict(cfg, cfg["_model_sizes"], m_pad, m_fp), m_pad, m_fp))

        def runjob(j):
            return bc.run_proc([tga["inovesa"]] + j[2], env=env, timeout=120, cwd=work)
        res = bc.pmap(runjob, jobs)
        for (i, cfg, args, out, pred, m_pad, m_fp), (rc, so, err) in zip(jobs, res):
            pub = {k: v for k, v in cfg.items() if not k.startswith("_")}
            case = dict(kind="program", args=args, config=pub, tracking_file=cfg.get("_trackfile"), model=dict(sizes=cfg["_model_sizes"], pad_ok=m_pad, fp_ok=m_fp, zerobin=cfg["_zb"], spacing_ps=cfg["_sps"]))
            clean = classify(ctx, rc, err, pred, case, "inovesa under ASan/UBSan")
            ctx.count("program:%s" % ("clean" if clean else "report"))
            # the model's verdicts for this configuration: the padded buffers hold every block (pad_in_bounds_fixed) ...
            if m_pad is not None and m_pad != "1":
                dis.append(dict(case=case, detail="model: the fixed sizing does not hold the last block", sig=dict(stage="correspondence", kind="model-pad")))
            # ... and main's guard decides whether the cubic Fokker-Planck map is built at all
            guard = model["f%d" % i]["guard"][0][0] == "1"
            refused = FP_REFUSAL in (so + err)
            if clean and cfg.get("derivation", 4) == 4:
                ctx.count("program:fp-guard:%s" % ("passes" if guard else "refuses"))
                if refused != (not guard):
                    if refused:
                        dis.append(dict(case=case, detail=dict(model_guard=guard, program_refused=refused), sig=dict(stage="correspondence", kind="fp-guard")))
                    else:
                        ctx.violation("impl-oracle", "zero energy outside the cubic stencil's range (zerobin %r, GridSize %d) is not refused" % (cfg["_zb"], cfg["GridSize"]),
                                      case=case, observed=(so + err)[-400:], expected="the message '%s ...' and a stop" % FP_REFUSAL,
                                      sig=dict(stage="oracle", cause="fp-guard-missing"))
            nontriv = len(cfg.get("BunchCurrent", [1])) > 1 or abs(cfg.get("PhaseSpaceShiftY", 0)) > 1 or cfg.get("StepsPerTs", 1000) < 10
            ctx.case_done(("program", i), nontriv)
            # size correspondence through the results file (the file keeps nmax/2 columns)
            if clean and out and os.path.exists(out):
                dims = bc.h5_dims(tg["h5cat"], out, "/")
                sz = cfg["_model_sizes"]
                wake = "/BunchProfile/padded" in dims and dims["/BunchProfile/padded"][0] > 0
                obs = dict(padded=dims.get("/BunchProfile/padded"), csr=dims.get("/CSR/Spectrum/data"))
                bad = False
                if wake and dims["/BunchProfile/padded"][1] != sz[3] // 2:
                    bad = True
                if "/CSR/Spectrum/data" in dims and dims["/CSR/Spectrum/data"][-1] != sz[1] // 2:
                    bad = True
                if bad:
                    dis.append(dict(case=case, detail=dict(observed=obs, model_sizes=sz), sig=dict(stage="correspondence", kind="program-sizes")))
                ctx.count("program:sizes-compared")
        ctx.sample(dict(kind="program", args=jobs[5][2], model_sizes=jobs[5][1]["_model_sizes"]))
        malformed_files(ctx, tg, tga, work, env)
        valgrind_runs(ctx, tg, work, quick)
    finally:
        shutil.rmtree(work, ignore_errors=True)
    return dis


def malformed_files(ctx, tg, tga, work, env):
    rng = ctx.rng
    base = ["--run_anyway", "1", "--gui", "0", "--GridSize", "32", "--StepsPerTs", "100", "--rotations", "0.03", "--outstep", "1"]
    files = {}

    def mk(name, text):
        p = os.path.join(work, name)
        with open(p, "w") as f:
            f.write(text)
        files[name] = p
        return p
    good = "".join("%d %r %r\n" % (i, 100.0 / (1 + i), -3.0 * i) for i in range(128))
    jobs = []
    for name, text in [("z_good.txt", good), ("z_empty.txt", ""), ("z_ws.txt", "\n\n  \n"),
                       ("z_short.txt", "".join("%d 1.0 0.5\n" % i for i in range(10))),
                       ("z_long.txt", "".join("%d 1.0 0.5\n" % i for i in range(5000))),
                       ("z_junk.txt", "hello world\nfoo bar baz\n1 2\n"), ("z_dup.txt", "0 1 1\n0 2 2\n1 3 3\n1 4 4\n"),
                       ("z_partial.txt", "0 1.0 0.0\n1 2.0\n"), ("z_neg.txt", "-1 1e40 nan\n-2 inf -inf\n")]:
        p = mk(name, text)
        # the file on top of the CSR impedance, with several buckets, and as the ONLY impedance source (-G 0: the
        # factory result is then whatever it makes of the file alone - shorter or longer than the frequency grid)
        for extra in ([], ["--BunchCurrent", "1e-3", "0", "1e-3"], ["-G", "0"], ["-G", "0", "--BunchCurrent", "1e-3", "2e-3"]):
            jobs.append((dict(kind="program", file=name, contents=text[:200], args=base + extra + ["-Z", p]), base + extra + ["-Z", p], {}))
    for name, text in [("t_edge.txt", "6 6\n-6 -6\n6 -6\n0 0\n"), ("t_out.txt", "100 100\n-100 3\n1e30 -1e30\n"), ("t_empty.txt", ""),
                       ("t_junk.txt", "a b\n1\n"), ("t_nan.txt", "nan nan\ninf -inf\n"), ("t_odd.txt", "1 2 3\n")]:
        p = mk(name, text)
        for ft in (0, 1, 2, 3):
            a = base + ["--tracking", p, "--FPTrack", str(ft), "-o", os.path.join(work, "%s-%d.h5" % (name, ft))]
            jobs.append((dict(kind="program", file=name, contents=text, args=a), a, {}))
    for name, text in [("s_empty.txt", ""), ("s_one.txt", "0.1 0.2\n"), ("s_far.txt", "1e9 1e9\n-1e9 3\n"), ("s_junk.txt", "x y z\n"),
                       ("s_grid.txt", "".join("%r " % (i * 0.01) for i in range(64 * 64)) + "\n"), ("s_nan.txt", "nan nan\n"),
                       ("s_below.txt", "-6.4 0.3\n0.3 -6.4\n-6.1 -6.1\n0 0\n-7 5.9\n"), ("s_left1.txt", "-6.3 0\n")]:
        p = mk(name, text)
        jobs.append((dict(kind="program", file=name, contents=text[:200], args=base + ["-i", p]), base + ["-i", p], {}))
        if name in ("s_one.txt", "s_below.txt", "s_grid.txt"):
            # a start file always gives a single-bunch phase space, while main() still hands one bucket per configured
            # current to the field objects
            a = base + ["--BunchCurrent", "1e-3", "0", "2e-3", "-i", p]
            jobs.append((dict(kind="program", file=name, contents=text[:200], args=a), a, {}))
    # start files in HDF5: produced by the program itself at other grid sizes
    for sz in (32, 16, 48):
        p = os.path.join(work, "start%d.h5" % sz)
        rc, so, err = bc.run_proc([tg["inovesa"], "--run_anyway", "1", "--gui", "0", "--GridSize", str(sz), "--StepsPerTs", "100", "--rotations", "0.02",
                                   "--outstep", "1", "--SavePhaseSpace", "1", "-o", p], env=vp_build.xdg_env(), timeout=60, cwd=work)
        if os.path.exists(p):
            pred = {}
            a = base + ["-i", p, "-o", os.path.join(work, "cont%d.h5" % sz)]
            jobs.append((dict(kind="program", file="start%d.h5 (a results file of GridSize %d used with --GridSize 32)" % (sz, sz), args=a, mismatch=(sz != 32)), a, pred))
            if sz == 32:
                a = base + ["--BunchCurrent", "1e-3", "2e-3", "-i", p, "-o", os.path.join(work, "cont%d-2.h5" % sz)]
                jobs.append((dict(kind="program", file="start%d.h5 (single-bunch results file continued with two configured currents)" % sz, args=a, mismatch=False), a, pred))
    p = os.path.join(work, "trunc.h5")
    if os.path.exists(os.path.join(work, "start32.h5")):
        with open(os.path.join(work, "start32.h5"), "rb") as f:
            raw = f.read()
        with open(p, "wb") as f:
            f.write(raw[: len(raw) // 3])
        jobs.append((dict(kind="program", file="trunc.h5 (first third of a results file)", args=base + ["-i", p]), base + ["-i", p], {}))
    p = mk("text.h5", "this is not hdf5\n")
    jobs.append((dict(kind="program", file="text.h5", args=base + ["-i", p]), base + ["-i", p], {}))

    def runjob(j):
        return bc.run_proc([tga["inovesa"]] + j[1], env=env, timeout=120, cwd=work)
    res = bc.pmap(runjob, jobs)
    for (case, args, pred), (rc, so, err) in zip(jobs, res):
        clean = classify(ctx, rc, err, pred, case, "inovesa with input file %s under ASan/UBSan" % case["file"])
        if clean and case.get("mismatch"):
            msg = so + err
            if SIZE_REFUSAL not in msg or "Starting the simulation" in msg:
                ctx.violation("impl-oracle", "a start file whose grid size differs from GridSize is not refused", case=case,
                              observed=msg[-400:], expected="the message '%s ...' and a stop" % SIZE_REFUSAL,
                              sig=dict(stage="sanitizer", cause="startfile-size-mismatch", where="main"))
        if clean and case.get("mismatch") is False and SIZE_REFUSAL in (so + err):
            ctx.violation("impl-oracle", "a start file of the right grid size is refused", case=case, observed=(so + err)[-400:],
                          sig=dict(stage="oracle", cause="startfile-refused"))
        ctx.count("files:%s:%s" % (case["file"].split("_")[0][:6], "clean" if clean else "report"))
        ctx.case_done(("file", case["file"], " ".join(args[-6:])), True)


def valgrind_runs(ctx, tg, work, quick=False):
    """memcheck on the plain build (-O1, no -march=native: valgrind can run it).  Thorough tier: the text readers (uninitialised
    reads) and whole runs; quick tier: two whole runs with a wake (single bunch, three buckets with an empty one) - memory errors
    INSIDE the uninstrumented libraries (FFTW, HDF5: a plan destroyed after fftwf_cleanup, a buffer freed twice) are invisible to
    the sanitizer build, which only instruments the repository's own code (seed F1-J)."""
    if not shutil.which("valgrind"):
        ctx.notes.append("valgrind not found")
        return
    base = ["--run_anyway", "1", "--gui", "0", "--GridSize", "16", "--StepsPerTs", "100", "--rotations", "0.02", "--outstep", "1"]
    jobs = []
    for name, text in [("vz_empty.txt", ""), ("vz_short.txt", "0 1 1\n1 2 2\n"), ("vz_junk.txt", "junk\n")]:
        p = os.path.join(work, name)
        open(p, "w").write(text)
        jobs.append((name, text, base + ["-Z", p]))
    for name, text in [("vt_empty.txt", ""), ("vt_edge.txt", "6 6\n-6 -6\n")]:
        p = os.path.join(work, name)
        open(p, "w").write(text)
        jobs.append((name, text, base + ["--tracking", p, "-o", os.path.join(work, name + ".h5")]))
    for name, text in [("vs_empty.txt", ""), ("vs_one.txt", "0.1 0.2\n")]:
        p = os.path.join(work, name)
        open(p, "w").write(text)
        jobs.append((name, text, base + ["-i", p]))
    jobs.append(("plain", "", base))
    jobs.append(("plain_train", "", base + ["-I", "1e-3", "0", "5e-4", "-o", os.path.join(work, "vtrain.h5")]))
    if quick:
        jobs = [j for j in jobs if j[0] in ("plain", "plain_train")]

    res = bc.pmap(lambda j: run_valgrind(tg, j[2], work), jobs)
    for (name, text, args), (rc, so, err) in zip(jobs, res):
        report_valgrind(ctx, name, text, args, rc, err)
        ctx.case_done(("valgrind", name), True)


def run_valgrind(tg, args, work):
    return bc.run_proc(["valgrind", "-q", "--error-exitcode=99", "--track-origins=no", tg["inovesa"]] + args,
                       env=vp_build.xdg_env(), timeout=600, cwd=work)


def report_valgrind(ctx, name, text, args, rc, err):
    import re
    ctx.count("valgrind:%s" % ("clean" if rc != 99 else "report"))
    if rc != 99:
        return
    kind = "uninitialised" if "uninitialised" in err else ("invalid-access" if "Invalid" in err else "memcheck")
    m = re.search(r"(?:at|by) 0x[0-9A-F]+: (vfps::[\w:~]+|main)", err)
    where = m.group(1) if m else "?"
    inp = {"-Z": "impedance", "--tracking": "tracking", "-i": "startdist"}
    ikind = next((v for k, v in inp.items() if k in args), "none")
    ctx.violation("impl-oracle", "valgrind memcheck: %s in %s with %s file %s" % (kind, where, ikind, name),
                  case=dict(kind="program-valgrind", file=name, contents=text, args=[("@" + name if a.endswith("/" + name) else a) for a in args]),
                  observed=err[:1500], expected="no memcheck error", sig=dict(stage="valgrind", cause=kind, input=ikind, where=where))


# ---------------------------------------------------------------------------------- entry points

def run(ctx):
    ctx.rule = ("API: upper_power_of_two on 0..2^64, float->unsigned on its defined domain, padding (n 4..40, 1..9 buckets, spacing/nmax around the exact bound), "
                "Fokker-Planck constructor (n 4..40, both stencils, zero bin from below 0 to above n), kick tables (offsets to +-1e12, and offsets placing the integer part of n/2+offset at the guard / stencil / table boundaries of the generated updateSM body), impedance sums, track lookups: "
                "model vs repo objects bit for bit; then the same objects at their extremes under ASan+UBSan, one process per case. Program: random configurations of the "
                "documented domain (grid sizes, filling patterns, spacings down to touching buckets, padding with/without power-of-two rounding, interpolation/derivation orders, "
                "FP/tracking variants, RF models and modulation, grid shifts up to 2n, 1..1000 steps per period) and malformed impedance/tracking/start files under ASan+UBSan; "
                "padded lengths read back from the results file against the model. Non-trivial: multi-bucket / shifted / large-kick configurations, out-of-domain model verdicts, file cases.")
    coq = vp_coq.full_check("C17", ctx, fams=("bounds", "txt"))
    tg = ctx.build(harness=("impl_bounds", "h5cat"), want_binary=True)
    tga = ctx.build("asan", harness=("impl_bounds", "impl_txt"), want_binary=True)
    dis = api_correspondence(ctx, tg, tga)
    # text start distribution: generated reader (Gen_TxtReader) vs makePSFromTXT under the sanitizers
    dis += txt_cases.run(ctx, tga, classify, 60 if ctx.quick() else 600)
    dis += program_runs(ctx, tg, tga)
    dis += restart_runs(ctx, tg, tga)
    ctx.extra["correspondence_disagreements"] = len(dis)
    ctx.trusted.add("sanitizers (gcc 12 ASan+UBSan float-cast-overflow; note: gcc's ASan does not instrument std::complex loads) and valgrind memcheck: search only")
    ctx.trusted.add("lib/scaling_eval.py: double-precision evaluator (CPython floats, struct, libm sqrt/pow) of the spacing_ps expression the translator reads from main() "
                    "on every run - no hand-written copy of main()'s formulas; validated by the padded lengths read from the results file")
    ctx.assumptions += ["PARTIAL: memory safety of C++ is not a theorem about a Gallina model; the theorems cover the size/index arithmetic of the modelled buffers only",
                        "the generated size model rounds every double operation to binary64 (rnd53, proved equal to Flocq's round-to-nearest-even): it is the program's arithmetic, ties included",
                        "everything that is not index arithmetic (library internals, lifetime, uninitialised locals of the text readers) is only searched"]
    coq = kc.downgrade_usm(ctx, coq, dis, validated=ctx.extra.get("kick_tables_compared", 0) > 0)
    conclude_c17(ctx, coq, dis)


def restart_runs(ctx, tg, tga):
    """restarts from results files of 1-, 2-, 3-bunch runs with filling patterns of equal / fewer / more buckets, empty buckets
    and no filled bucket, with and without impedance (lib/restart_cases.py; model family `restart`: Model/NbSource.v)"""
    import restart_cases
    ok, why = vp_coq.extract_model(("restart",), ctx.log)
    if not ok:
        ctx.notes.append("restart family: model not available (%s)" % why[-300:])
        return [dict(case=None, detail="the start-up model (family restart) could not be extracted: %s" % why[-300:],
                     sig=dict(stage="correspondence", kind="restart-model"))]
    work = tempfile.mkdtemp(prefix="c17s-")
    try:
        return restart_cases.run(ctx, tg, tga, classify, work)
    finally:
        shutil.rmtree(work, ignore_errors=True)


def conclude_c17(ctx, coq, dis):
    """Decision rule of DESIGN 2.4, with one difference from vp_common.conclude: impl-oracle violations that are *known
    findings* do not count as 'a failing input was found' for a broken proof or a correspondence disagreement (this
    property always carries known findings on the pinned tree; they must not mask a new breakage)."""
    kf = load_known()
    new_oracle = [v for v in ctx.violations if v["kind"] == "impl-oracle" and match_known(kf, v) is None]
    saved = ctx.violations
    ctx.violations = list(new_oracle)
    conclude(ctx, coq, [])                       # proof / translator / extraction stage
    added = [v for v in ctx.violations if v not in new_oracle]
    ctx.violations = saved + added
    seen = set()
    for d in dis:                                # every kind of disagreement is reported once
        k = json.dumps(d.get("sig"), sort_keys=True)
        if k in seen:
            continue
        seen.add(k)
        n = sum(1 for e in dis if json.dumps(e.get("sig"), sort_keys=True) == k)
        ctx.violation("correspondence", "model and implementation disagree on %d %s case(s)" % (n, (d.get("sig") or {}).get("kind", "")),
                      case=d.get("case"), observed=d.get("detail"), no_input=not new_oracle, sig=d.get("sig"))


def replay(ctx, rp):
    """re-run the recorded case on the current tree under the sanitizers"""
    case = rp.get("case") or {}
    sig = rp.get("sig") or rp.get("match") or {}
    tga = ctx.build("asan", harness=("impl_bounds", "impl_txt"), want_binary=True)
    tg = ctx.build(harness=("impl_bounds", "h5cat"), want_binary=True)
    env = bc.san_env()
    pred = PRED.get(sig.get("cause"), {})
    kind = case.get("kind")
    work = tempfile.mkdtemp(prefix="c17r-")
    try:
        if kind == "program":
            args = list(case["args"])
            for k, v in (case.get("files") or {}).items():
                p = os.path.join(work, k)
                with open(p, "w") as f:
                    f.write(v)
                args = [p if a == "@" + k else a for a in args]
            if case.get("prepare"):
                bc.run_proc([tg["inovesa"]] + case["prepare"], env=vp_build.xdg_env(), timeout=120, cwd=work)
            rc, so, err = bc.run_proc([tga["inovesa"]] + args, env=env, timeout=120, cwd=work)
            clean = classify(ctx, rc, err, pred, case, "replay: inovesa under ASan/UBSan")
            if clean and sig.get("cause") == "startfile-size-mismatch" and "Starting the simulation" in so + err:
                ctx.violation("impl-oracle", "a start file whose grid size differs from GridSize is accepted and the run continues", case=case,
                              observed=(so + err)[-400:], sig=dict(stage="sanitizer", cause="startfile-size-mismatch", where="main"))
        elif kind in ("pad", "fp", "kick", "track", "imp"):
            if kind == "pad":
                txt = "pad r %d %d %d %d 1 %s\n" % (case["n"], len(case["buckets"]), case["nmax"], case["spacing"], " ".join(map(str, case["buckets"])))
            elif kind == "fp":
                txt = "fp r %d %d %s %s %d 1\n" % (case["n"], case["dt"], fhex(float(Fraction(case["pmin"]))), fhex(float(Fraction(case["pmax"]))), case["fptype"])
            elif kind == "kick":
                txt = "kick r %s %d %d %d %s\n" % (case["dir"], case["n"], case["nb"], case["it"], " ".join(case["offs"]))
            elif kind == "track":
                txt = "track r %d 1 %s\n" % (case["n"], case["x"])
            else:
                txt = "imp r %d %d\n" % (case["lhs"], case["rhs"])
            rc, so, err = bc.run_proc([tga["impl_bounds"]], text=txt, env=env, timeout=60)
            classify(ctx, rc, err, pred, case, "replay: API case under ASan/UBSan")
            if kind == "imp":
                res = parse_cases(so)
                s = [parse_c(t) for t in res["r"]["sum"][0]]
                exp = [Fraction(1) if i < min(case["lhs"], case["rhs"]) else Fraction(0) for i in range(case["lhs"])]
                if s != exp:
                    ctx.violation("impl-oracle", "Impedance::operator+= reads past the shorter operand", case=case, observed=[str(x) for x in s[:20]],
                                  sig=dict(stage="api", cause="impedance-sum-overread"))
        elif kind == "txt":
            c = dict(id="r", n=case["n"], qmax=float.fromhex(case["qmax"]), pmax=float.fromhex(case["pmax"]),
                     ps=[(float.fromhex(a), float.fromhex(b)) for a, b in case["particles"]])
            rc, so, err = bc.run_proc([tga["impl_txt"]], text=txt_cases.impl_text(c, work), env=env, timeout=60)
            classify(ctx, rc, err, pred, case, "replay: makePSFromTXT under ASan/UBSan")
        elif kind == "program-restart":
            import restart_cases
            restart_cases.replay(ctx, case, tg, tga, classify, work)
        elif kind == "program-valgrind":
            p = os.path.join(work, case["file"])
            with open(p, "w") as f:
                f.write(case.get("contents") or "")
            args = [p if a == "@" + case["file"] else a for a in case["args"]]
            rc, so, err = run_valgrind(tg, args, work)
            report_valgrind(ctx, case["file"], case.get("contents") or "", args, rc, err)
        else:
            run(ctx)
            return
        ctx.case_done(("replay", kind), True)
        ctx.rule = "replay of one recorded case under ASan+UBSan"
    finally:
        shutil.rmtree(work, ignore_errors=True)
