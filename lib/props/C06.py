"""C06 - wake potential = discrete convolution of the bunch profiles with the impedance."""
import math
from fractions import Fraction
from vp_common import *
import vp_coq, dft_cases as dc

U = dc.U


def oracle_wake(ctx, c, ir):
    """the property statement evaluated on the implementation's output of one wake case"""
    N, n, s = c.N, c.n, c.s
    ok = True
    for tag in ("padded", "wakepad", "wake", "scaling"):
        if dc.nonfinite(ir[tag]):
            ctx.violation("impl-oracle", "non-finite %s" % tag, case=c.replay(), sig=dict(kind="wake", clause="finite"))
            return False
    # placement: every bunch at bucket*spacing, nothing anywhere else
    pt = c.padded_true()
    if ir["padded"] != pt:
        bad = [i for i in range(N) if ir["padded"][i] != pt[i]][:4]
        ctx.violation("impl-oracle", "padded train differs from 'profile b at bucket_b*spacing, zero elsewhere'",
                      case=c.replay(), observed=dict(cells=bad, values=[str(ir["padded"][i]) for i in bad]),
                      expected=[str(pt[i]) for i in bad], sig=dict(kind="wake", clause="placement"))
        ok = False
    # scaling: Ib*dt*c/(sigma_z*dE_cell)/N
    d0, d1, sz, cc = ir["phys"]
    p = c.phys
    ref = Fraction(p["Ib"]) * Fraction(p["dt"]) * cc / sz / (d1 * Fraction(p["sd"]) * Fraction(p["E0"])) / N
    sc = ir["scaling"][0]
    if abs(sc - ref) > 3 * U * abs(ref):
        ctx.violation("impl-oracle", "getWakeScaling() is not Ib*dt*c/(sigma_z*dE_cell)/N", case=c.replay(),
                      observed=str(float(sc)), expected=str(float(ref)), sig=dict(kind="wake", clause="scaling"))
        ok = False
    # convolution: double-precision direct DFT of the property's padded train
    dw = c.direct_wake(pt)
    cond = c.cond()
    tol = (dc.Kfft(N) + 4) * U * cond * abs(ref)
    worst = 0.0
    for b, bk in enumerate(c.buckets):
        for x in range(n):
            exp = float(ref) * dw[bk * s + x]
            got = ir["wake"][b * n + x]
            e = abs(float(got) - exp)
            worst = max(worst, e)
            if e > float(tol):
                k = c.seq[1] if getattr(c, "seq", None) is not None else 0
                hist = ""
                if getattr(c, "seq", None) is not None:
                    par = c.seq[0]
                    ops = par.ops()
                    hist = " (history on this object: " + "".join(
                        dc.ops_text(ops[j], "" if j == 0 else ("<same profiles>; " if par.calls[j] == par.calls[j - 1] else "<profiles change>; "))
                        + "wakePotential(); " for j in range(k + 1)).rstrip() + \
                        " - judged against the CURRENT profiles and the CURRENT table of the impedance object)"
                ctx.violation("impl-oracle", "wakePotential() differs from scaling * (direct DFT convolution) read at bucket*spacing+x"
                              + (" on call %d on the same object (call 1 of this object %s)"
                                 % (k + 1, "agreed" if getattr(c.seq[0], "first_ok", None) else "differed too") if k else "") + hist,
                              case=c.replay(), observed=dict(b=b, x=x, value=float(got), call=k + 1), expected=dict(value=exp, tol=float(tol)),
                              sig=dict(kind="wake", clause="convolution", later_call=k > 0))
                if getattr(c, "seq", None) is not None and k == 0:
                    c.seq[0].first_ok = False
                return False
    c.oracle_ratio = worst / float(U * cond * abs(ref))
    if getattr(c, "seq", None) is not None and c.seq[1] == 0:
        c.seq[0].first_ok = ok
    return ok


def oracle_groups(ctx, groups, ir):
    for g in groups:
        cs = g["cases"]
        c0 = cs[0]
        N, n = c0.N, c0.n
        K = dc.Kfft(N) + 4
        rs = [ir[c.cid] for c in cs]
        if any(dc.nonfinite(r["wake"]) or dc.nonfinite(r["wakepad"]) for r in rs):
            ctx.violation("impl-oracle", "non-finite wake", case=c0.replay(), sig=dict(kind="wake", clause="finite"))
            continue
        sc = abs(rs[0]["scaling"][0])
        if g["kind"] == "lin":
            a = Fraction(g["a"])
            tol = K * U * sc * (abs(a) * cs[0].cond() + cs[1].cond() + cs[2].cond())
            for i in range(c0.nb * n):
                d = rs[2]["wake"][i] - (a * rs[0]["wake"][i] + rs[1]["wake"][i])
                if abs(d) > tol:
                    ctx.violation("impl-oracle", "wake potential is not linear in the profiles: W(a*p+q) != a*W(p)+W(q)",
                                  case=dict(kind="wake-lin", a=g["a"], p=cs[0].replay(), q=cs[1].replay()),
                                  observed=dict(b=i // n, x=i % n, diff=float(d)), expected=dict(tol=float(tol)),
                                  sig=dict(kind="wake", clause="linear"))
                    break
        elif g["kind"] == "shift":
            d = g["d"]
            tol = 2 * K * U * cs[0].cond()
            for j in range(N):
                e = rs[1]["wakepad"][(j + d) % N] - rs[0]["wakepad"][j]
                if abs(e) > tol:
                    ctx.violation("impl-oracle", "moving every profile by %d cells does not move the padded wake by %d cells" % (d, d),
                                  case=dict(kind="wake-shift", d=d, p=cs[0].replay()),
                                  observed=dict(cell=j, diff=float(e)), expected=dict(tol=float(tol)),
                                  sig=dict(kind="wake", clause="shift"))
                    break
        else:
            tol = K * U * sc * (cs[0].cond() + cs[1].cond())
            for i in range(c0.nb * n):
                e = rs[1]["wake"][i] - rs[0]["wake"][i]
                if abs(e) > tol:
                    ctx.violation("impl-oracle", "the wake depends on the impedance above N/2 or on Im Z_0",
                                  case=dict(kind="wake-half", a=cs[0].replay(), b=cs[1].replay()),
                                  observed=dict(b=i // n, x=i % n, diff=float(e)), expected=dict(tol=float(tol)),
                                  sig=dict(kind="wake", clause="half-spectrum"))
                    break
        ctx.case_done(("rel", g["kind"], c0.cid), True)


def pow2_cases(ctx, count):
    rng = ctx.rng
    vs = [1, 2, 3, 4, 5, 255, 256, 257, 2 ** 31, 2 ** 31 + 1, 2 ** 32 - 1, 2 ** 32, 2 ** 32 + 1, 2 ** 62 + 1, 2 ** 63 - 1, 2 ** 63]
    while len(vs) < count:
        e = rng.randint(1, 62)
        vs.append(rng.choice([2 ** e, 2 ** e + 1, 2 ** e - 1, rng.randint(2 ** e, 2 ** (e + 1))]))
    return vs


def run_pow2(ctx, vs):
    tg = ctx.build(harness=("impl_dft",))
    rc, out, err = run_driver(tg["impl_dft"], "pow2 p %d %s\n" % (len(vs), " ".join(str(v) for v in vs)), env=vp_build.xdg_env())
    if rc != 0:
        raise RuntimeError("impl_dft pow2: " + err[-500:])
    iv = [int(t) for t in parse_cases(out)["p"]["out"][0]]
    rc, out, err = run_driver(vp_coq.model_path("dft"), "pow2 p %d %s\n" % (len(vs), " ".join("%x" % v for v in vs)))
    if rc != 0:
        raise RuntimeError("model_dft pow2: " + err[-500:])
    mv = [int(t, 16) for t in parse_cases(out)["p"]["out"][0]]
    dis = []
    for v, a, b in zip(vs, iv, mv):
        if a != b:
            dis.append(dict(case=dict(kind="pow2", v=v), detail=dict(impl=a, model=b), sig=dict(kind="pow2", stage="correspondence")))
        if not (a >= v and a < 2 * v and a & (a - 1) == 0):
            ctx.violation("impl-oracle", "upper_power_of_two(v) is not the least power of two >= v", case=dict(kind="pow2", v=v),
                          observed=a, sig=dict(kind="pow2", clause="padded-length"))
        ctx.case_done(("pow2", v), v & (v - 1) != 0)
    return dis


def program_padding(ctx):
    """(family scaling) the padded lengths and the bucket spacing main() derives, observed in the results file of the
    binary and compared with the formulas of the property text for that command line (lib/scaling_cases.py).  The
    statements of main() themselves are tied by the translator Gen_ScalingZ (theorems C06_main_*)."""
    import scaling_cases as sc
    tg = ctx.build(harness=("impl_dft", "h5cat"), want_binary=True)
    sc.program_padding(ctx, tg, 5 if ctx.quick() else 40)


def run(ctx, only=None):
    ctx.rule = ("wake cases on ElectricField through its public API: n 8..32, N in {n..8n} from a fixed list (powers of two, "
                "composite, odd, prime) so FFTW plans are reused, 1-4 bunches in distinct buckets with empty buckets, any order, "
                "spacing >= n, random complex non-Hermitian impedance non-zero above N/2, profiles random/signed/impulse/integer/"
                "gauss/narrow. Streams: exact (padded buffer, read-back index, getter, nmax: bit equality), tolerance (padded wake, "
                "wake, scaling: K*2^-24*cond, K = 4 log2 N + 8, cond = (|Z_0|+2 sum_{0<k<N/2}|Z_k|) * sum|p|). Oracles on the "
                "implementation alone: double-precision direct DFT, placement, scaling formula, linearity, shift, half spectrum. "
                "Strengthening (seeds C06-G, C07-H): impedances with EXACT zeros (given on the half range only, band-limited, leading zeros, "
                "stop band, pass band, only the N/2 boundary cells, single cells) in about half of the cases; layouts numbered as main() does for "
                "filling patterns ending in empty entries (lowest filled bucket above 0), trains reaching the end of the padded range, a profile "
                "kind of its own per bunch; and sequences of 2-3 wakePotential() calls on ONE object with changing profiles, every call judged by "
                "the direct-DFT oracle (and, for 3 sequences, by the extracted model). "
                "Every case is non-trivial (non-zero profile, non-constant impedance).")
    coq = vp_coq.full_check("C06", ctx, fams=("dft",))
    sizes = dc.QUICK_SIZES if ctx.quick() else dc.THOROUGH_SIZES
    msizes = [N for N in sizes if N <= (169 if ctx.quick() else 256)]
    mcases = dc.gen_wake_cases(ctx, 10 if ctx.quick() else 120, msizes, prefix="m")
    ocases = dc.gen_wake_cases(ctx, 260 if ctx.quick() else 5000, sizes, prefix="w")
    groups = dc.gen_relation_groups(ctx, 90 if ctx.quick() else 2000, sizes)
    # several calls on ONE object: the statement holds for every call (C06_generated_wake_is_convolution is for every history)
    mseqs = dc.gen_wakeseq_cases(ctx, 3 if ctx.quick() else 20, [N for N in msizes if N <= 101], prefix="ms")
    oseqs = dc.gen_wakeseq_cases(ctx, 140 if ctx.quick() else 2500, sizes, prefix="s")
    allc = mcases + ocases + [c for g in groups for c in g["cases"]]
    ir = dc.run_impl(ctx, "".join(c.impl_text("wake") for c in allc), allc, "wake")
    ctx.log("implementation ran %d wake cases" % len(allc))
    sr = dc.run_impl(ctx, "".join(c.impl_text("wakeseq") for c in mseqs + oseqs), mseqs + oseqs, "wakeseq")
    ncalls = 0
    mcalls, ocalls = [], []
    for lst, seqs in ((mcalls, mseqs), (ocalls, oseqs)):
        for q in seqs:
            for k in range(len(q.calls)):
                ck = q.call_case(k)
                ir[ck.cid] = dc.call_record(sr[q.cid], k)
                lst.append(ck)
                ncalls += 1
    ctx.log("implementation ran %d sequences of wakePotential() calls on one object (%d calls)" % (len(mseqs) + len(oseqs), ncalls))
    mcases = mcases + mcalls
    ocases = ocases + ocalls
    mr = dc.run_model(ctx, [c.model_wake_text(ir[c.cid]) for c in mcases])
    ctx.log("model ran %d wake cases" % len(mcases))
    dis = []
    ratios = []
    for c in mcases:
        d = dc.compare_wake(c, ir[c.cid], mr[c.cid])
        if d:
            dis.append(dict(case=c.replay(), detail=[dict(what=w, **x) for w, x in d[:3]],
                            sig=dict(kind="wake", stage="correspondence", what=d[0][0])))
        ratios.append(getattr(c, "err_ratio", 0.0))
        ctx.evaluations += 1
    oratios = []
    for c in mcases + ocases:
        oracle_wake(ctx, c, ir[c.cid])
        oratios.append(getattr(c, "oracle_ratio", 0.0))
        ctx.case_done(("wake", c.cid), True)
        # the cell the loop i < nmax/2 never writes must stay zero in a fresh object (theorem hypothesis fresh_top)
        if ir[c.cid]["top"] != [0, 0]:
            if getattr(c, "seq", None) is not None and c.seq[1] > 0:
                # after an earlier call: hypothesis (B) of the generated-program theorems (what the inverse transform leaves
                # in the never rewritten cell); a failing input only together with a wrong wake, which the oracle above decides
                dis.append(dict(case=c.replay(), detail=[dict(what="_wakelosses[nmax/2] is not zero after call %d on one object (hypothesis (B))" % c.seq[1],
                                                               top=[str(v) for v in ir[c.cid]["top"]])],
                                sig=dict(kind="wake", stage="correspondence", what="hypB-top")))
            else:
                ctx.violation("impl-oracle", "_wakelosses[nmax/2] is not zero in a fresh object", case=c.replay(),
                              observed=[str(v) for v in ir[c.cid]["top"]], sig=dict(kind="wake", clause="fresh-top"))
    oracle_groups(ctx, groups, ir)
    dis += run_pow2(ctx, pow2_cases(ctx, 200 if ctx.quick() else 5000))
    program_padding(ctx)
    ctx.sample(mcases[0].describe())
    ctx.sample(ocases[0].describe())
    ctx.sample(dict(sequence_of_calls=len(oseqs[0].calls), **oseqs[0].describe()))
    ctx.sample(dict(relation=groups[0]["kind"], **groups[0]["cases"][0].describe()))
    ctx.extra["correspondence_disagreements"] = len(dis)
    ctx.extra["max_error_over_2^-24cond_model"] = max(ratios) if ratios else None
    ctx.extra["max_error_over_2^-24cond_oracle"] = max(oratios) if oratios else None
    ctx.extra["tolerance_K"] = "4*ceil(log2 N)+8 (+4 for the scaling product)"
    ctx.assumptions += ["exact-arithmetic model over Qc with a 60-bit dyadic twiddle table from the case file (error 2^-61 per entry, added to the tolerance)",
                        "FFTW's planner and kernels are not modelled: an FFT is the abstract DFT (r2c/c2r definitions of the FFTW manual)",
                        "fresh object: cell nmax/2 of _wakelosses is zero (monitored on every case)",
                        "bucket_b*spacing + n <= nmax (writes beyond the buffer belong to C17)",
                        "main()'s padded-length statements are read by the translator Gen_ScalingZ on every run (theorems C06_main_*); the double spacing_ps "
                        "is an input of that model (its expression is evaluated in double precision for the program-level runs, lib/scaling_eval.py)"]
    conclude(ctx, coq, dis)


def replay(ctx, rp):
    c = rp.get("case") or {}
    if c.get("kind") == "program-padding":
        import scaling_cases as sc, tempfile, shutil
        tg = ctx.build(harness=("impl_dft", "h5cat"), want_binary=True)
        work = tempfile.mkdtemp(prefix="c06pad-")
        try:
            sc.check_padding_run(ctx, tg, dict(c["config"]), work, "r")
        finally:
            shutil.rmtree(work, ignore_errors=True)
        ctx.case_done(("program-padding", "replay"), True)
        ctx.rule = "replay of one recorded program-level padding case"
        return
    if c.get("kind") not in ("wake", "wakeseq"):
        return run(ctx)
    fx = lambda l: [float.fromhex(v) for v in l]
    case = dc.DftCase(c["id"], c["N"], c["n"], c["spacing"], c["buckets"], fx(c["zre"]), fx(c["zim"]),
                      [fx(p) for p in c["prof"]], {k: float.fromhex(v) for k, v in c["axes"].items()},
                      {k: float.fromhex(v) for k, v in c["phys"].items()}, note=c.get("note", ""))
    coq = vp_coq.full_check("C06", ctx, fams=("dft",))
    if c["kind"] == "wakeseq":
        # the recorded sequence of calls on one object; every call judged by the oracle and the model
        case.calls = [[fx(p) for p in profs] for profs in c["calls"]]
        case.between = c.get("between")
        case.zadd = [[(fx(zr), fx(zi)) for zr, zi in zs] for zs in c.get("zadd", [])]
        sr = dc.run_impl(ctx, case.impl_text("wakeseq"))
        cks = [case.call_case(k) for k in range(len(case.calls))]
        ir = {ck.cid: dc.call_record(sr[case.cid], k) for k, ck in enumerate(cks)}
        mr = dc.run_model(ctx, [ck.model_wake_text(ir[ck.cid]) for ck in cks])
        dis = []
        for ck in cks:
            d = dc.compare_wake(ck, ir[ck.cid], mr[ck.cid])
            if d:
                dis.append(dict(case=ck.replay(), detail=[dict(what=w, **x) for w, x in d[:3]], sig=dict(kind="wake", stage="correspondence", what=d[0][0])))
            oracle_wake(ctx, ck, ir[ck.cid])
            ctx.case_done(("wake", ck.cid), True)
        ctx.rule = "replay of one recorded sequence of wakePotential() calls on one object"
        ctx.sample(case.describe())
        conclude(ctx, coq, dis)
        return
    ir = dc.run_impl(ctx, case.impl_text("wake"))
    mr = dc.run_model(ctx, [case.model_wake_text(ir[case.cid])])
    d = dc.compare_wake(case, ir[case.cid], mr[case.cid])
    dis = [dict(case=case.replay(), detail=[dict(what=w, **x) for w, x in d[:3]], sig=dict(kind="wake", stage="correspondence", what=d[0][0]))] if d else []
    oracle_wake(ctx, case, ir[case.cid])
    ctx.case_done(("wake", case.cid), True)
    ctx.sample(case.describe())
    conclude(ctx, coq, dis)
