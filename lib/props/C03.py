"""C03 - the bunch centroid rotates by 2*pi/steps per step and the orbit closes."""
import glob, math, os, subprocess, tempfile
from fractions import Fraction
from vp_common import *
import vp_coq, vp_build, rf_cases as rc


def run_api(ctx, n_offs, n_iter):
    dis = []
    offs = rc.gen_offs_cases(ctx, n_offs)
    impl, model = rc.run_offs(ctx, offs)
    for s in offs:
        d = rc.compare_offs(s, impl[s.cid], model[s.cid])
        rc.oracle_offs(ctx, s, impl[s.cid])
        if d:
            dis.append(dict(case=dict(kind="rfoffs", setup=s.describe(), header=s.header(), calc=s.calc), detail=d[:3],
                            sig=dict(kind="rf", stage="correspondence", clause="offsets")))
        ctx.case_done(("rfoffs", s.cid), True)
    ctx.sample(dict(offs[0].describe(), calc=offs[0].calc))
    its = rc.gen_iter_cases(ctx, n_iter)
    res = rc.run_iter(ctx, its)
    worst = 0.0
    for c in its:
        d, w = rc.compare_iter(ctx, c, res[c.cid])
        worst = max(worst, w)
        ok = rc.oracle_iter(ctx, c, res[c.cid])
        if d:
            dis.append(dict(case=c.replay(), detail=d[:3], sig=dict(kind="rf", stage="correspondence", clause="orbit", rf=c.s.kind)))
            if ok:
                # search (DESIGN 2.4): the step at which the trajectory leaves the tolerance tube is
                # itself a failing input of the property (centroid != M^k c0)
                ctx.violation("impl-oracle", "the centre of charge leaves the orbit M^k c0, M = [[1-a*t,-a],[t,1]]",
                              case=c.replay(), observed=d[0][1], expected="within the computed rounding tolerance",
                              sig=dict(kind="rf", clause="orbit", rf=c.s.kind, what=d[0][0]))
    ctx.sample(dict(its[0].s.describe(), steps=its[0].steps, K=its[0].K, blob=its[0].blob, lumps=its[0].info))
    ctx.extra["orbit_worst_error_over_tolerance"] = round(worst, 4)
    return dis


def run(ctx):
    ctx.rule = ("rfoffs: RFKickMap (linear / sinusoidal constructor, optionally after _calcKick(phase, ampl)) + DriftMap "
                "(1..3 slip factors) + Ruler on grids n 8..64, nb 1..3, dyadic and arbitrary float axes: every entry of both offset "
                "vectors and the Ruler facts vs the extracted model. rfiter: RF kick + drift iterated over a full period "
                "(steps 20..400) on n in {32,48,64}, it 2..4, integer and half-integer zero-bin shifts in x and y, Gaussian / two-lump / "
                "signed blobs: raw first moments after every step vs the exact orbit M^k c0 of the model; fit of the one-step map; "
                "closure after one period. Non-trivial: centroid at least 1.5 cells from the zero bin and >= 3 steps.")
    coq = vp_coq.full_check("C03", ctx, fams=("rf",))
    if ctx.quick():
        dis = run_api(ctx, 80, 36)
    else:
        dis = run_api(ctx, 1200, 400)
    ctx.extra["correspondence_disagreements"] = len(dis)
    ctx.assumptions += ["exact-arithmetic model; float rounding is carried by tolerances derived from operation counts (lib/rf_cases.py: tol_orbit, compare_offs)",
                        "tan(angle), _bl2phase, the sine samples and the scale of axis 1 are taken from the implementation as exact dyadic numbers; "
                        "tan and sin are cross-checked against libm on the Python side",
                        "grid-level theorems assume the float sum n/2+offset is exact (rnd32 identity); its rounding (<= ulp(n)/2 per row) is in the tolerance"]
    conclude(ctx, coq, dis)


def replay(ctx, rp):
    run(ctx)
