"""C03 - the bunch centroid rotates by 2*pi/steps per step and the orbit closes."""
import glob, math, os, subprocess, tempfile
from fractions import Fraction
from vp_common import *
import vp_coq, vp_build, rf_cases as rc


def run_api(ctx, n_offs, n_iter):
    dis = []
    offs = rc.gen_offs_cases(ctx, n_offs)
    impl, model = rc.run_offs(ctx, offs)
    for s in offs:
        d = rc.compare_offs(s, impl[s.cid], model[s.cid])
        rc.oracle_offs(ctx, s, impl[s.cid])
        if d:
            dis.append(dict(case=dict(kind="rfoffs", setup=s.describe(), header=s.header(), calc=s.calc), detail=d[:3],
                            sig=dict(kind="rf", stage="correspondence", clause="offsets")))
        ctx.case_done(("rfoffs", s.cid), True)
    ctx.sample(dict(offs[0].describe(), calc=offs[0].calc))
    its = rc.gen_iter_cases(ctx, n_iter)
    res = rc.run_iter(ctx, its)
    worst = 0.0
    for c in its:
        d, w = rc.compare_iter(ctx, c, res[c.cid])
        worst = max(worst, w)
        ok = rc.oracle_iter(ctx, c, res[c.cid])
        if d:
            dis.append(dict(case=c.replay(), detail=d[:3], sig=dict(kind="rf", stage="correspondence", clause="orbit", rf=c.s.kind)))
            if ok:
                # search (DESIGN 2.4): the step at which the trajectory leaves the tolerance tube is
                # itself a failing input of the property (centroid != M^k c0)
                ctx.violation("impl-oracle", "the centre of charge leaves the orbit M^k c0, M = [[1-a*t,-a],[t,1]]",
                              case=c.replay(), observed=d[0][1], expected="within the computed rounding tolerance",
                              sig=dict(kind="rf", clause="orbit", rf=c.s.kind, what=d[0][0]))
    ctx.sample(dict(its[0].s.describe(), steps=its[0].steps, K=its[0].K, blob=its[0].blob, lumps=its[0].info))
    ctx.extra["orbit_worst_error_over_tolerance"] = round(worst, 4)
    return dis


def program_multibunch(ctx):
    """(family scaling) several bunches without impedance and without the Fokker-Planck term: main() then runs Identity
    maps in both places; every bunch's squared length/spread must follow the kick-drift recurrence with angle 2 pi/N
    (a centred Gaussian is all main() offers as a multi-bunch start, so the rotation is observed through the second
    moments of an unmatched round start; lib/scaling_cases.py)"""
    import scaling_cases as sc
    tg = ctx.build(harness=("impl_rf", "h5cat"), want_binary=True)
    sc.run_moments(ctx, tg, sc.c03_multibunch_cases(ctx, 3 if ctx.quick() else 12), dict(kind="rf", stage="program"))


def run_program(ctx, nruns):
    """program level (thorough): the inovesa binary without impedance and damping, one period,
    /BunchPosition/data and /EnergyAverage/data of every step vs M^k c0 (model, dyadic orbit).
    The program's averages are Simpson-weighted projections, not the plain sums of the theorem:
    tolerance 3e-3 of the orbit radius (observed <= 7e-4 for smooth blobs)."""
    rng = ctx.rng
    tg = ctx.build(harness=("impl_rf", "h5cat"), want_binary=True)
    env = vp_build.xdg_env()
    dis = []
    wd = tempfile.mkdtemp(prefix="c03prog", dir=os.path.join(VERIF, ".cache"))
    n, pq = 64, 12.0
    for i in range(nruns):
        steps = rng.choice([24, 30, 40, 60, 80, 100])
        it = rng.choice([3, 4])
        sx, sy = rng.randint(-6, 6) / 2.0, rng.randint(-6, 6) / 2.0
        if sx == sy:
            sy = sx - 1.5 if sx > 0 else sx + 2.5          # the two axes always carry different shifts
        cx, cy = 31.5 + sx + rng.uniform(-9, 9), 31.5 + sy + rng.uniform(-9, 9)
        sg = rng.uniform(2.0, 3.0)
        dl = pq / (n - 1)
        qmax, pmax = pq / 2 - sx * dl, pq / 2 - sy * dl
        lines = []
        for x in range(n):
            for y in range(n):
                k = int(round(2000 * math.exp(-((x - cx) ** 2 + (y - cy) ** 2) / (2 * sg * sg))))
                if k > 0:
                    lines += ["%r %r" % ((x / n - 0.5) * qmax, (y / n - 0.5) * pmax)] * k
        blob, out = os.path.join(wd, "blob%d.txt" % i), os.path.join(wd, "out%d.h5" % i)
        with open(blob, "w") as f:
            f.write("\n".join(lines) + "\n")
        opts = ["--GridSize", str(n), "--StepsPerTs", str(steps), "--rotations", "1", "--outstep", "1", "--VacuumGap", "0",
                "--UseCSR", "false", "--DampingTime", "0", "--InitialDistFile", blob, "--PhaseSpaceShiftX", str(sx),
                "--PhaseSpaceShiftY", str(sy), "-o", out, "--gui", "false", "--InterpolationPoints", str(it),
                "--LinearRF", "true", "--RenormalizeCharge", "0"]
        case = dict(kind="program", options=[o if o != blob and o != out else os.path.basename(o) for o in opts],
                    blob=dict(centre=[cx, cy], sigma=sg, peak_particles=2000))
        r = subprocess.run(["timeout", "300", tg["inovesa"]] + opts, capture_output=True, text=True, env=env)
        h = subprocess.run(["timeout", "120", tg["h5cat"], out, "--values"], capture_output=True, text=True)
        d = {}
        for l in h.stdout.splitlines():
            p = l.split()
            if p and p[0] == "data":
                d[p[1]] = [parse_c(t) for t in p[2:]]
        q, pe = d.get("/BunchPosition/data"), d.get("/EnergyAverage/data")
        if not q or not pe or len(q) != steps + 1 or len(pe) != steps + 1 or any(isinstance(v, str) for v in q + pe):
            dis.append(dict(case=case, detail="results file lacks %d finite centroid records (rc=%d): %s" % (steps + 1, r.returncode, (r.stdout + r.stderr)[-300:]),
                            sig=dict(kind="rf", stage="correspondence", clause="program")))
            continue
        a = Fraction(rc.angle_of(steps))
        t = Fraction(f32(math.tan(float(a))))
        E = rc.min_exp(t, a)
        s = rc.min_exp(q[0], pe[0])
        txt = "rforbit p%d %d %s %s %s %s %d %d\n" % (i, E, rc.hz(rc.to_int(t, E)), rc.hz(rc.to_int(a, E)),
                                                     rc.hz(rc.to_int(q[0], s)), rc.hz(rc.to_int(pe[0], s)), s, steps)
        rcode, mout, merr = run_driver(vp_coq.model_path("rf"), txt)
        if rcode != 0:
            raise RuntimeError("model_rf: " + merr[-500:])
        tk = parse_cases(mout)["p%d" % i]["o"][0]
        orb = [(int(tk[2 * k], 16) / 2.0 ** 64, int(tk[2 * k + 1], 16) / 2.0 ** 64) for k in range(steps + 1)]
        cs = [(float(x), float(y)) for x, y in zip(q, pe)]
        rad = max(math.hypot(u, v) for u, v in cs)
        bad = None
        for k in range(steps + 1):
            e = math.hypot(cs[k][0] - orb[k][0], cs[k][1] - orb[k][1])
            if e > 3e-3 * rad + 1e-7:
                bad = (k, e)
                break
        ctx.count("program:steps%d" % steps)
        ctx.case_done(("program", i), rad > 0.02)
        if bad:
            dis.append(dict(case=case, detail=dict(step=bad[0], err=bad[1], radius=rad), sig=dict(kind="rf", stage="correspondence", clause="program")))
            ctx.violation("impl-oracle", "program run: (/BunchPosition, /EnergyAverage) leaves the orbit M^k c0 at step %d" % bad[0],
                          case=case, observed=dict(record=cs[bad[0]], err=bad[1]), expected=dict(model=orb[bad[0]], tol=3e-3 * rad),
                          sig=dict(kind="rf", clause="program-orbit"))
        N = steps
        af, tf = float(a), float(t)
        gap = math.hypot(cs[N][0] - cs[0][0], cs[N][1] - cs[0][1])
        bound = (1 + tf) * 2 * math.sin((abs(N * af - 2 * math.pi) + N * tf ** 3 / 4) / 2) * rad + 6e-3 * rad
        if gap > bound:
            ctx.violation("impl-oracle", "program run: the centroid is not back after one synchrotron period", case=case,
                          observed=dict(start=cs[0], end=cs[N], gap=gap), expected="gap <= %.3g" % bound,
                          sig=dict(kind="rf", clause="program-closure"))
        if i == 0:
            ctx.sample(dict(case, radius=rad, records=steps + 1))
    for f in glob.glob(os.path.join(wd, "*")):
        os.remove(f)
    os.rmdir(wd)
    return dis


def run(ctx):
    ctx.rule = ("rfoffs: RFKickMap (linear / sinusoidal constructor, optionally after _calcKick(phase, ampl)) + DriftMap "
                "(1..3 slip factors) + Ruler on grids n 8..64, nb 1..3, dyadic and arbitrary float axes: every entry of both offset "
                "vectors and the Ruler facts vs the extracted hand-written model AND vs the model generated from RFKickMap.cpp / DriftMap.cpp "
                "(Gen_RFDrift: constructors and _calcKick run from the constructor arguments; _bl2phase to one binary32 rounding; the table must be built from the "
                "final offsets on both sides); oracles on the implementation: linear kick, sinusoidal kick, drift field, synchronous phase. rfiter: RF kick + drift iterated over a full period "
                "(steps 20..400) on n in {32,48,64}, it 2..4, integer and half-integer zero-bin shifts in x and y, Gaussian / two-lump / "
                "signed blobs: raw first moments after every step vs the exact orbit M^k c0 of the model; fit of the one-step map; "
                "closure after one period. Non-trivial: centroid at least 1.5 cells from the zero bin and >= 3 steps. "
                "The rfiter grids are wired as main() wires a run (grid_t2/grid_t3 copies carrying the START distribution's cached profiles, Identity stand-ins for wake "
                "and Fokker-Planck, only grid_t1's profile refreshed per step); the blobs have compact support, so the orbit carries charge into columns that were "
                "exactly empty at the start (C03_rf_kick_every_column).")
    coq = vp_coq.full_check("C03", ctx, fams=("rf",))
    if ctx.quick():
        dis = run_api(ctx, 240, 90)
        dis += run_program(ctx, 2)
    else:
        dis = run_api(ctx, 1200, 400)
        dis += run_program(ctx, 10)
    program_multibunch(ctx)
    __import__("c03_sine").run(ctx)      # (family st3drv) sinusoidal RF, SynchrotronFrequency / alpha0 routes
    ctx.extra["correspondence_disagreements"] = len(dis)
    # downgrade rule of DESIGN 2.2 for the offset-field translator (family rfgen): when translate/rfdrift2coq.py no longer
    # recognises RFKickMap.cpp / DriftMap.cpp (a restructuring outside its idioms) the last-good Gen_RFDrift.v keeps the
    # development building; if then every theorem still checks (about the last-good definitions) AND this run's full
    # correspondence - every entry of both offset vectors of every rfoffs case against the hand-written model AND against the
    # last-good generated model, the member values, the table-built-from-the-final-offsets flags, the iterated maps against
    # the exact orbit, the binary - shows no disagreement and no oracle fires, the property is shown through tie 2 as before
    # the translator existed, and the downgrade is recorded.
    failed = [g for g, st in coq["gen"].items() if st.startswith("failed")]
    if failed == ["Gen_RFDrift"] and coq["make_ok"] and coq["props"]["ok"] and not coq["forbidden"] and coq["extract_ok"] \
            and not dis and not ctx.violations and ctx.evaluations > 0:
        ctx.extra["translators"]["Gen_RFDrift"] = "downgraded-to-correspondence (" + coq["gen"]["Gen_RFDrift"][:200] + ")"
        ctx.notes.append("Gen_RFDrift: translator failed; the last-good generated offset fields and the hand-written model agree with the "
                         "implementation on every entry of every case of this run and every oracle holds: downgraded to tie 2")
        coq = dict(coq, ok=True)
    # (family st3kick) Gen_KickLoop: the loop nest of the RF kick; validated by the orbit runs wired as main() wires a run (stale caches)
    import kick_cases as kc
    coq = kc.kickloop_downgrade(ctx, coq, dis, ctx.dist.get("rfiter:lin", 0) + ctx.dist.get("rfiter:sin", 0) >= 20,
                                "RF kick + drift iterated over full periods on grids wired as main() wires them (copies with the start distribution's caches, "
                                "only grid_t1's profile refreshed), compact blobs carried into columns that were empty at the start: orbit, one-step map, closure")
    ctx.assumptions += ["exact-arithmetic model; float rounding is carried by tolerances derived from operation counts (lib/rf_cases.py: tol_orbit, compare_offs)",
                        "tan(angle), _bl2phase, the sine samples and the scale of axis 1 are taken from the implementation as exact dyadic numbers; "
                        "tan and sin are cross-checked against libm on the Python side",
                        "grid-level theorems assume the float sum n/2+offset is exact (rnd32 identity); its rounding (<= ulp(n)/2 per row) is in the tolerance"]
    conclude(ctx, coq, dis)


def replay(ctx, rp):
    c = rp.get("case") or {}
    if c.get("kind") == "program-moments":
        import scaling_cases as sc, shutil
        tg = ctx.build(harness=("impl_rf", "h5cat"), want_binary=True)
        work = tempfile.mkdtemp(prefix="pmom-")
        try:
            sc.run_moments_case(ctx, tg, work, c, dict(kind="rf", stage="program"))
        finally:
            shutil.rmtree(work, ignore_errors=True)
        ctx.case_done(("program-moments", "replay"), True)
        ctx.rule = "replay of one recorded program-level case"
        return
    run(ctx)
