"""C16 - impedance models are well-formed, passive, correctly scaled and causal (partial).

Proved (Coq): shape of every model's sample vector, operator+= and the factory's selection for all
n and all value functions; the analytic laws of free space / wall / collimator over R; and all of this
about the definitions GENERATED from src/Z on every run (translate/imp2coq.py -> Gen/Gen_Imp.v: closed-form
sample expressions, loop bounds, resize lengths, std::min of operator+=, the factory's conditions and
constructor arguments), incl. passivity of the factory for every gap sign and the phases +pi/6 / -pi/4.
Tie: the translator (every run) and: every model class and the factory of the repo are run
(harness/impl_imp.cpp) for all sample counts 2..65 and all switch combinations and compared exactly with the
extracted model, hand-written AND generated (shape, sum, selection); sample values are validated
relationally by the extracted Gallina validators in exact rational arithmetic against the constants of
the specification the generated expressions are proved equal to.  Explored only (numerical oracle on the
implementation, thresholds stated below): parallel plates -> free space / shielding suppression,
one-sidedness of the impulse responses (free space ahead, wall behind, collimator symmetric; sums additive)."""
import math, os, re, tempfile, shutil, decimal
from fractions import Fraction
from vp_common import *
import vp_coq, vp_build
from kick_cases import rnd32_frac

C_LIGHT = 2.99792458e8
Z0_IMP = 376.730313461                   # Impedance::Z0
PI_Q = Fraction(decimal.Decimal("3.14159265358979323846264338327950288419716939937510"))
TOL_ROOT = Fraction(1, 2 ** 17)          # relational tolerance of cube/square-root samples (see docs/built/C16.md)
TOL_LN = Fraction(1, 2 ** 21)            # relative tolerance of the collimator constant against the reference


def loguni(rng, lo, hi):
    return math.exp(rng.uniform(math.log(lo), math.log(hi)))


def dyadic(rng, lo, hi, bits=12):
    """a double with a short mantissa in [lo, hi] (exact rational with small numerator)"""
    x = loguni(rng, lo, hi)
    m, e = math.frexp(x)
    return math.ldexp(round(m * 2 ** bits) / 2 ** bits, e)


def cvec(tokens):
    """re im re im ... -> list of (re, im), each a Fraction or 'nan'/'inf'/'-inf'"""
    v = [parse_c(t) for t in tokens]
    return list(zip(v[0::2], v[1::2]))


def finite(v):
    return all(not isinstance(a, str) and not isinstance(b, str) for a, b in v)


def qvec(v):
    """model input: non-finite samples (only ever in contributions that are not selected) become 0"""
    return " ".join("%s %s" % (qtok(0 if isinstance(a, str) else a), qtok(0 if isinstance(b, str) else b)) for a, b in v)


def mvec(tokens):
    v = [parse_q(t) for t in tokens]
    return list(zip(v[0::2], v[1::2]))


def sv(v, k=6):
    return [[str(a) if isinstance(a, str) else float(a), str(b) if isinstance(b, str) else float(b)] for a, b in v[:k]]


# ----------------------------------------------------------------------------- case generation

class MCase:
    """one model class run: kind in fs rw coll const pp"""
    def __init__(self, cid, kind, n, p):
        self.cid, self.kind, self.n, self.p = cid, kind, n, p

    def impl_text(self):
        p = self.p
        if self.kind == "fs":
            a = [p["frev"], p["fmax"]]
        elif self.kind == "rw":
            a = [p["f0"], p["fmax"], p["L"], p["s"], p["xi"], p["b"]]
        elif self.kind == "coll":
            a = [p["fmax"], p["outer"], p["inner"]]
        elif self.kind == "const":
            a = [p["fmax"], p["re"], p["im"]]
        else:
            a = [p["f0"], p["fmax"], p["g"]]
        return "model %s %s %d %s\n" % (self.cid, self.kind, self.n, " ".join(fhex(x) for x in a))

    def replay(self):
        return dict(kind="model", model=self.kind, n=self.n, params={k: fhex(v) for k, v in self.p.items()},
                    params_decimal={k: repr(v) for k, v in self.p.items()})


def model_params(rng, kind, special=None):
    fmax = f32(loguni(rng, 1e9, 5e12))
    if kind == "fs":
        return dict(frev=f32(loguni(rng, 1e5, 3e7)), fmax=fmax)
    if kind == "rw":
        frev = f32(loguni(rng, 1e5, 3e7))
        xi = rng.choice([0.0, -1.0, 1.0, rng.uniform(-1, 3), -0.5])
        return dict(f0=frev, fmax=fmax, L=C_LIGHT / frev, s=loguni(rng, 1e4, 6e7), xi=xi, b=loguni(rng, 0.002, 0.05))
    if kind == "coll":
        inner = math.ldexp(rng.randint(1, 64), -12)
        ratio = special if special else rng.choice([1.001, 1.25, 1.5, 2.0, 4.0, 10.0, rng.uniform(1.01, 30)])
        return dict(fmax=fmax, outer=inner * ratio, inner=inner)
    if kind == "const":
        return dict(fmax=fmax, re=f32(rng.uniform(0, 500)), im=f32(rng.uniform(-500, 500)))
    return dict(f0=f32(C_LIGHT / (2 * math.pi * loguni(rng, 0.5, 50))), fmax=fmax, g=loguni(rng, 0.005, 0.1))


class FCase:
    """one factory call"""
    def __init__(self, cid, n, p, filedata, tags):
        self.cid, self.n, self.p, self.filedata, self.tags = cid, n, p, filedata, tags
        self.path = "-"

    def impl_text(self):
        p = self.p
        return "factory %s %d %s %s %s %s %d %s %s %s %s\n" % (
            self.cid, self.n, fhex(p["fmax"]), fhex(p["R"]), fhex(p["frev"]), fhex(p["gap"]), int(p["use_csr"]),
            fhex(p["s"]), fhex(p["xi"]), fhex(p["rc"]), self.path)

    def switches(self):
        """the property text's switches, evaluated independently of the model (exact on the doubles)"""
        p = self.p
        gap, s, xi, rc = Fraction(p["gap"]), Fraction(p["s"]), Fraction(p["xi"]), Fraction(p["rc"])
        on = []
        if gap != 0:
            if p["use_csr"]:
                on.append("pp" if gap > 0 else "fs")
            if s > 0 and xi >= -1:
                on.append("rw")
            if 0 < rc < abs(gap) / 2:
                on.append("coll")
        if self.filedata is not None:
            on.append("file")
        return on

    def replay(self):
        return dict(kind="factory", n=self.n, params={k: (fhex(v) if not isinstance(v, bool) else v) for k, v in self.p.items()},
                    params_decimal={k: repr(v) for k, v in self.p.items()},
                    file=None if self.filedata is None else [[fhex(a), fhex(b)] for a, b in self.filedata],
                    tags=self.tags)


def factory_cases(ctx, count):
    rng = ctx.rng
    cases = []
    combos = []
    for gk in ("pos", "neg", "zero"):
        for csr in (True, False):
            for wk in ("on", "s0", "sneg", "xilow", "xim1"):
                for ck in ("on", "zero", "big", "neg", "edge"):
                    for fk in ("none", "exact", "longer", "short", "half"):
                        combos.append((gk, csr, wk, ck, fk))
    rng.shuffle(combos)
    # every switch value at least once and, in the quick tier, a seeded sample of the 750 products
    chosen = combos[:count]
    for i, (gk, csr, wk, ck, fk) in enumerate(chosen):
        n = rng.randint(2, 65)
        g = dyadic(rng, 0.004, 0.1)
        gap = {"pos": g, "neg": -g, "zero": 0.0}[gk]
        s = {"on": dyadic(rng, 1e4, 6e7), "s0": 0.0, "sneg": -dyadic(rng, 1e4, 6e7), "xilow": dyadic(rng, 1e4, 6e7),
             "xim1": dyadic(rng, 1e4, 6e7)}[wk]
        xi = {"on": rng.choice([0.0, 0.5, 2.0]), "s0": 0.0, "sneg": 0.0, "xilow": -1.0 - 2.0 ** -rng.randint(1, 52),
              "xim1": -1.0}[wk]
        r = abs(gap / 2) if gap != 0 else 0.01
        rc = {"on": r * rng.choice([0.5, 0.25, 0.75, 1 - 2.0 ** -20]), "zero": 0.0, "big": r * rng.choice([1.5, 2.0, 1 + 2.0 ** -20]),
              "neg": -r / 2, "edge": r}[ck]
        p = dict(fmax=f32(loguni(rng, 1e9, 5e12)), R=dyadic(rng, 0.5, 50), frev=dyadic(rng, 1e5, 3e7), gap=gap,
                 use_csr=csr, s=s, xi=xi, rc=rc)
        m = {"none": None, "exact": n, "longer": n + rng.randint(1, 9), "short": rng.randint(1, max(1, n - 1)),
             "half": n // 2 + 1}[fk]
        fd = None
        if m is not None:
            # a file impedance: passive, zero above the half (as every model), arbitrary floats below
            fd = [(f32(rng.uniform(0, 300)), f32(rng.uniform(-300, 300))) if k <= n // 2 else (0.0, 0.0) for k in range(m)]
        c = FCase("f%d" % i, n, p, fd, dict(gap=gk, csr=csr, wall=wk, coll=ck, file=fk))
        cases.append(c)
        ctx.count("factory:gap=%s" % gk); ctx.count("factory:wall=%s" % wk)
        ctx.count("factory:coll=%s" % ck); ctx.count("factory:file=%s" % fk)
    return cases


def write_files(cases, d):
    for c in cases:
        if c.filedata is not None:
            c.path = os.path.join(d, c.cid + ".dat")
            with open(c.path, "w") as f:
                for k, (a, b) in enumerate(c.filedata):
                    # %.9g round-trips binary32
                    f.write("%d\t%.9g\t%.9g\n" % (k, a, b))


# ----------------------------------------------------------------------------- oracles (on the implementation)

def shape_oracle(ctx, c, v, nf, sz, zero_from, what):
    """the property text: exactly n finite samples, zero above the half, Re >= 0"""
    n = c.n
    sig = dict(kind=c.replay()["kind"], clause="shape", model=getattr(c, "kind", "factory"))
    if nf != n or sz != n or len(v) != n:
        ctx.violation("impl-oracle", "%s does not return exactly n samples" % what, case=c.replay(),
                      observed=dict(nFreqs=nf, size=sz), expected=n, sig=dict(sig, clause="count"))
        return False
    if not finite(v):
        ctx.violation("impl-oracle", "%s has non-finite samples" % what, case=c.replay(), observed=sv(v, 8), sig=dict(sig, clause="finite"))
        return False
    for i in range(n):
        if i >= zero_from and (v[i][0] != 0 or v[i][1] != 0):
            ctx.violation("impl-oracle", "%s: sample %d above the half length is not zero" % (what, i), case=c.replay(),
                          observed=dict(index=i, value=sv([v[i]])), expected="0 for indices >= %d" % zero_from, sig=dict(sig, clause="zero-above-half"))
            return False
        if v[i][0] < 0:
            ctx.violation("impl-oracle", "%s: negative real part at sample %d" % (what, i), case=c.replay(),
                          observed=dict(index=i, value=sv([v[i]])), expected="Re >= 0", sig=dict(sig, clause="passive"))
            return False
    return True


def ln_reference(outer, inner):
    """ln(outer/inner) to 50 digits"""
    decimal.getcontext().prec = 50
    r = decimal.Decimal(outer) / decimal.Decimal(inner)
    return Fraction(r.ln())


def certified_ln(ctx):
    """the `interval`-certified bounds of Props/Properties_C16.v: {(p, q): (lo, hi)} for ln(p/q)"""
    txt = open(os.path.join(vp_coq.COQ, "Props", "Properties_C16.v")).read()
    res = {}
    for m in re.finditer(r"(\d+) / (\d+) <= ln \((\d+) / (\d+)\) <= (\d+) / (\d+)", txt):
        a, b, p, q, c, d = (int(x) for x in m.groups())
        res[Fraction(p, q)] = (Fraction(a, b), Fraction(c, d))
    return res


def cutoff_harmonic(R, g):
    """harmonic of the shielding cutoff of parallel plates with gap g on a bend of radius R"""
    return math.sqrt(2.0 / 3.0) * (math.pi * R / g) ** 1.5


# ----------------------------------------------------------------------------- main parts

def run_models(ctx, tg, dis, only=None):
    rng = ctx.rng
    cases = list(only) if only is not None else []
    reps = 0 if only is not None else 1 if ctx.quick() else 12
    k = 0
    cert = certified_ln(ctx)
    for rep in range(reps):
        for n in range(2, 66):
            for kind in ("fs", "rw", "coll", "const", "pp"):
                special = None
                if kind == "coll" and cert and (n + rep) % 3 == 0:
                    special = float(rng.choice(sorted(cert)))
                cases.append(MCase("m%d" % k, kind, n, model_params(rng, kind, special)))
                k += 1
                ctx.count("model:" + kind)
    rc, out, err = run_driver(tg["impl_imp"], "".join(c.impl_text() for c in cases), timeout=1200)
    if rc != 0:
        raise RuntimeError("impl_imp (models): rc=%d %s" % (rc, err[-500:]))
    impl = parse_cases(out)
    mtext = []
    for c in cases:
        r = impl[c.cid]
        c.v = cvec(r["vec"][0])
        c.nf, c.sz = int(r["vec_n"][0][0]), int(r["vec_n"][0][1])
        zero_from = c.n // 2 if c.kind in ("coll", "const") else c.n // 2 + 1
        c.ok = shape_oracle(ctx, c, c.v, c.nf, c.sz, zero_from, "model " + c.kind)
        if c.kind == "pp" and c.ok:
            # explored: from half the shielding cutoff upwards every sample 1..n/2 carries resistance
            # (observed Re Z_pp / Re Z_fs = 0.15 at n_c/2; far below the cutoff the Airy terms underflow to 0)
            R = C_LIGHT / (2 * math.pi * c.p["f0"])
            nc = cutoff_harmonic(R, c.p["g"])
            delta = c.p["fmax"] / c.p["f0"] / (c.n - 1)
            for i in range(1, c.n // 2 + 1):
                if i * delta >= 0.5 * nc and not c.v[i][0] > 0:
                    ctx.violation("impl-oracle", "parallel-plates sample %d (%.3g times the shielding cutoff) carries no resistance" % (i, i * delta / nc),
                                  case=c.replay(), observed=sv([c.v[i]]), expected="Re Z > 0 for harmonics >= n_c/2",
                                  sig=dict(kind="model", clause="pp-sample-present", model="pp"))
                    c.ok = False
                    break
        if not finite(c.v):
            continue
        m = len(c.v)
        if c.kind in ("fs", "rw"):
            mtext.append("shape %s push %d %d %s\n" % (c.cid, c.n, m, qvec(c.v)))
        elif c.kind == "pp":
            mtext.append("shape %s pp %d %d %s\n" % (c.cid, c.n, m, qvec(c.v)))
        elif c.kind == "const":
            mtext.append("shape %s const %d %s %s\n" % (c.cid, c.n, qtok(Fraction(c.p["re"])), qtok(Fraction(c.p["im"]))))
        else:
            z = c.v[0] if c.n >= 2 else (Fraction(0), Fraction(0))
            mtext.append("shape %s const %d %s %s\n" % (c.cid, c.n, qtok(z[0]), qtok(z[1])))
        # relational validation of the values by the extracted validators
        # (prefactor, frequency step, squared wall constant, Z0/pi come from Model/ImpedanceSpec.v through the
        #  extracted accept_*_spec; the parameters are passed as the exact rationals of the floats/doubles)
        if c.kind == "fs":
            mtext.append("accept %s_a fss %s %d %s %s %d %s\n" % (c.cid, qtok(TOL_ROOT), c.n, qtok(Fraction(c.p["frev"])),
                                                                  qtok(Fraction(c.p["fmax"])), m, qvec(c.v)))
        elif c.kind == "rw":
            p = c.p
            mtext.append("accept %s_a rws %s %s %s %s %d %s %s %s %s %s %s %d %s\n" % (
                c.cid, qtok(TOL_ROOT), qtok(PI_Q), qtok(Fraction(C_LIGHT)), qtok(Fraction(Z0_IMP)), c.n,
                qtok(Fraction(p["f0"])), qtok(Fraction(p["fmax"])), qtok(Fraction(p["L"])), qtok(Fraction(p["s"])),
                qtok(Fraction(p["xi"])), qtok(Fraction(p["b"])), m, qvec(c.v)))
        elif c.kind == "coll":
            ratio = Fraction(c.p["outer"]) / Fraction(c.p["inner"])
            if ratio in cert and Fraction(c.p["outer"] / c.p["inner"]) == ratio:
                lo, hi = cert[ratio]
                c.lnsrc = "interval-certified"
                ctx.count("coll:certified-ln")
            else:
                lo = hi = ln_reference(c.p["outer"], c.p["inner"])
                c.lnsrc = "decimal-reference"
            mtext.append("accept %s_a colls %s %s %s %s %s %d %d %s\n" % (c.cid, qtok(TOL_LN), qtok(PI_Q), qtok(Fraction(Z0_IMP)),
                                                                          qtok(lo), qtok(hi), c.n, m, qvec(c.v)))
    rc, out, err = run_driver(vp_coq.model_path("imp"), "".join(mtext), timeout=1200)
    if rc != 0:
        raise RuntimeError("model_imp (models): rc=%d %s" % (rc, err[-500:]))
    model = parse_cases(out)
    for c in cases:
        if c.cid not in model:
            continue
        mv = mvec(model[c.cid]["vec"][0])
        if "gvec" in model[c.cid] and mvec(model[c.cid]["gvec"][0]) != c.v:
            # the GENERATED ConstImpedance::__calcImpedance (Gen_Imp.v) on the same constant
            dis.append(dict(case=c.replay(), detail=dict(impl_len=len(c.v), generated_model_len=len(mvec(model[c.cid]["gvec"][0]))),
                            sig=dict(kind="model", stage="correspondence", clause="shape-generated", model=c.kind)))
        if mv != c.v:
            bad = [i for i in range(max(len(mv), len(c.v))) if i >= len(mv) or i >= len(c.v) or mv[i] != c.v[i]]
            dis.append(dict(case=c.replay(), detail=dict(first_index=bad[0], impl_len=len(c.v), model_len=len(mv)),
                            sig=dict(kind="model", stage="correspondence", clause="shape", model=c.kind)))
        acc = model.get(c.cid + "_a")
        nontriv = c.kind != "const"
        if acc is not None and acc["ok"][0][0] != "1":
            # the validator rejects: a sample is not the root / constant the law says (or the shape is off)
            what = {"fs": "free-space samples are not (306.3,176.9)*(i*delta)^(1/3) within 2^-17",
                    "rw": "resistive-wall samples are not Z1*(1-i)*sqrt(i*delta) within 2^-17",
                    "coll": "collimator constant is not (Z0/pi)*ln(r_o/r_i) within 2^-21"}[c.kind]
            if c.ok:
                ctx.violation("impl-oracle", what, case=c.replay(), observed=sv(c.v, 5),
                              expected="relational validator accept_%s (Model/Impedance.v)" % c.kind,
                              sig=dict(kind="model", clause="value", model=c.kind))
                c.ok = False
        ctx.case_done(("model", c.cid), nontriv and c.n >= 3)
    for c in cases[:2]:
        ctx.sample(dict(c.replay(), first_samples=sv(c.v, 3)))
    return cases


def f32add(a, b):
    return rnd32_frac(a + b)


def run_factory(ctx, tg, dis, tmp, only=None):
    cases = only if only is not None else factory_cases(ctx, 260 if ctx.quick() else 750)
    write_files(cases, tmp)
    rc, out, err = run_driver(tg["impl_imp"], "".join(c.impl_text() for c in cases), timeout=1200)
    if rc != 0:
        raise RuntimeError("impl_imp (factory): rc=%d %s" % (rc, err[-500:]))
    impl = parse_cases(out)
    mtext = []
    for c in cases:
        r = impl[c.cid]
        n = c.n
        c.out = None if "null" in r else cvec(r["out"][0])
        c.parts = {k: cvec(r[k][0]) for k in ("pp", "fs", "rw", "coll", "file") if k in r}
        on = c.switches()
        # the file as read must be the file as written (readData)
        if c.filedata is not None:
            want = [(Fraction(a), Fraction(b)) for a, b in c.filedata]
            if c.parts.get("file") != want:
                ctx.violation("impl-oracle", "impedance file is not read back as written", case=c.replay(),
                              observed=sv(c.parts.get("file", []), 4), expected=sv(want, 4), sig=dict(kind="factory", clause="file-read"))
        # property oracle: result == pointwise binary32 sum of exactly the selected contributions
        if not on:
            if c.out is not None:
                ctx.violation("impl-oracle", "factory returns an impedance although no contribution is selected", case=c.replay(),
                              observed=sv(c.out, 4), expected="nullptr", sig=dict(kind="factory", clause="none-selected"))
        elif c.out is None:
            ctx.violation("impl-oracle", "factory returns nothing although contributions are selected", case=c.replay(),
                          observed="nullptr", expected=on, sig=dict(kind="factory", clause="selection", selected="+".join(on)))
        else:
            nf, sz = int(r["out_n"][0][0]), int(r["out_n"][0][1])
            if all(finite(c.parts[k]) for k in on):
                exp = [(Fraction(0), Fraction(0))] * n
                for k in on:
                    pv = c.parts[k]
                    exp = [(f32add(exp[i][0], pv[i][0]), f32add(exp[i][1], pv[i][1])) if i < len(pv) else exp[i] for i in range(n)]
                if nf != n or sz != n or c.out != exp:
                    bad = [i for i in range(n) if i >= len(c.out) or c.out[i] != exp[i]]
                    short = c.filedata is not None and len(c.filedata) < n
                    ctx.violation("impl-oracle", "factory result is not the pointwise sum of the selected contributions (%s)" % "+".join(on),
                                  case=c.replay(), observed=dict(nFreqs=nf, first_bad_index=bad[:1], got=sv([c.out[i] for i in bad[:3]] if bad else []),
                                                                 want=sv([exp[i] for i in bad[:3]] if bad else [])),
                                  expected="pointwise sum", sig=dict(kind="factory", clause="sum", short_file=short,
                                                                     first_bad_above_file=bool(bad and short and bad[0] >= len(c.filedata))))
                else:
                    shape_oracle(ctx, c, c.out, nf, sz, n // 2 + 1, "factory result")
        # model: same parts, same switches (as exact rationals)
        p = c.p
        z = [(Fraction(0), Fraction(0))]

        def part(k):
            v = c.parts.get(k, [])
            return "%d %s" % (len(v), qvec(v))
        collv = c.parts["coll"][0] if n >= 2 else (Fraction(0), Fraction(0))
        collz = "%s %s" % (qtok(0 if isinstance(collv[0], str) else collv[0]), qtok(0 if isinstance(collv[1], str) else collv[1]))
        mtext.append("factory %s %d %s %d %s %s %s %s %s %s %s %s\n" % (
            c.cid, n, qtok(Fraction(p["gap"])), int(p["use_csr"]), qtok(Fraction(p["s"])), qtok(Fraction(p["xi"])), qtok(Fraction(p["rc"])),
            part("pp"), part("fs"), part("rw"), collz, "-1" if c.filedata is None else part("file")))
    rc, out, err = run_driver(vp_coq.model_path("imp"), "".join(mtext), timeout=1200)
    if rc != 0:
        raise RuntimeError("model_imp (factory): rc=%d %s" % (rc, err[-500:]))
    model = parse_cases(out)
    for c in cases:
        m = model[c.cid]
        mo = None if "null" in m else mvec(m["out"][0])
        on = c.switches()
        go = None if "gnull" in m else mvec(m["gout"][0])      # the generated makeImpedance (Gen_Imp.v)
        if c.out is None or mo is None or go is None:
            agree = c.out is None and mo is None and go is None
        else:
            agree = finite(c.out) and c.out == mo and c.out == go
        if not agree:
            dis.append(dict(case=c.replay(), detail=dict(impl="null" if c.out is None else sv(c.out, 4), model="null" if mo is None else sv(mo, 4),
                                                         generated_model="null" if go is None else sv(go, 4), selected=on),
                            sig=dict(kind="factory", stage="correspondence")))
        ctx.case_done(("factory", c.cid), len(on) >= 1)
    if only is None:
        ctx.sample(dict(cases[0].replay(), selected=cases[0].switches()))
    return cases


def run_sums(ctx, tg, dis):
    rng = ctx.rng
    itext, mtext, meta = [], [], {}
    for i in range(60 if ctx.quick() else 600):
        n = rng.randint(1, 40)
        m = rng.choice([n, n, n + rng.randint(1, 5), rng.randint(0, n)])
        gen = (lambda: float(rng.randint(-8, 8))) if i % 2 == 0 else (lambda: f32(rng.uniform(-1e4, 1e4) * 10.0 ** -rng.randint(0, 6)))
        a = [(gen(), gen()) for _ in range(n)]
        b = [(gen(), gen()) for _ in range(m)]
        cid = "s%d" % i
        meta[cid] = (n, m, a, b)
        flat = lambda v: " ".join("%s %s" % (fhex(x), fhex(y)) for x, y in v)
        qflat = lambda v: " ".join("%s %s" % (qtok(Fraction(x)), qtok(Fraction(y))) for x, y in v)
        itext.append("sum %s %d %d %s %s\n" % (cid, n, m, flat(a), flat(b)))
        mtext.append("sum %s %d %d %s %s\n" % (cid, n, m, qflat(a), qflat(b)))
        ctx.count("sum:" + ("equal" if m == n else "longer" if m > n else "shorter"))
    # equal, longer and shorter right-hand sides run in separate processes: a loop bound beyond one of the two vectors is
    # undefined behaviour and may kill the process, which is reported as a failing input of its group
    ids = list(meta)
    groups = {"equal": [k for k, cid in enumerate(ids) if meta[cid][1] == meta[cid][0]],
              "longer": [k for k, cid in enumerate(ids) if meta[cid][1] > meta[cid][0]],
              "shorter": [k for k, cid in enumerate(ids) if meta[cid][1] < meta[cid][0]]}
    impl = {}
    for gname, ks in groups.items():
        if not ks:
            continue
        rc, out, err = run_driver(tg["impl_imp"], "".join(itext[k] for k in ks))
        impl.update(parse_cases(out))
        if rc != 0:
            done = [cid for cid in meta if cid in impl and "out" in impl[cid]]
            first = [ids[k] for k in ks if ids[k] not in done][0]
            n, m, a, b = meta[first]
            ctx.violation("impl-oracle", "operator+= with %s right-hand side crashes (rc=%d)" % (
                {"equal": "an equally long", "longer": "a longer", "shorter": "a shorter"}[gname], rc),
                          case=dict(kind="sum", n=n, m=m, lhs=[[fhex(x), fhex(y)] for x, y in a], rhs=[[fhex(x), fhex(y)] for x, y in b]),
                          observed="process died", expected="pointwise sum", sig=dict(kind="sum", clause="sum", short_rhs=m < n, crashed=True))
            for k in ks:
                if ids[k] not in done and ids[k] in meta:
                    del meta[ids[k]]
    rc, out, err = run_driver(vp_coq.model_path("imp"), "".join(mtext))
    if rc != 0:
        raise RuntimeError("model_imp (sum): rc=%d %s" % (rc, err[-500:]))
    model = parse_cases(out)
    for cid, (n, m, a, b) in meta.items():
        io = cvec(impl[cid]["out"][0]) if impl[cid]["out"][0] else []
        mo = mvec(model[cid]["out"][0]) if model[cid]["out"][0] else []
        case = dict(kind="sum", n=n, m=m, lhs=[[fhex(x), fhex(y)] for x, y in a], rhs=[[fhex(x), fhex(y)] for x, y in b])
        exp = [(f32add(Fraction(a[i][0]), Fraction(b[i][0])), f32add(Fraction(a[i][1]), Fraction(b[i][1]))) if i < m else
               (Fraction(a[i][0]), Fraction(a[i][1])) for i in range(n)]
        if io != exp:
            ctx.violation("impl-oracle", "operator+= is not the pointwise sum over the left operand", case=case,
                          observed=sv(io, 6), expected=sv(exp, 6), sig=dict(kind="sum", clause="sum", short_rhs=m < n))
        go = mvec(model[cid]["gout"][0]) if model[cid]["gout"][0] else []       # the generated operator+= (Gen_Imp.v)
        if io != mo or io != go:
            dis.append(dict(case=case, detail=dict(impl=sv(io, 4), model=sv(mo, 4), generated_model=sv(go, 4)),
                            sig=dict(kind="sum", stage="correspondence")))
        ctx.case_done(("sum", cid), n > 1)


# ----------------------------------------------------------------------------- explored only (no theorem)

# x = harmonic / n_c, n_c = sqrt(2/3) (pi R/g)^(3/2) the shielding cutoff.  (lo, hi, bound); observed maxima in brackets.
# |Z_pp - Z_fs| <= bound |Z_fs|: x >= 8: 3e-4 [1.3e-4, the rounded free-space prefactor]; 5..8: 6e-3 [2.0e-3]; 3..5: 0.1 [3.7e-2]
PP_NEAR_FS_BANDS = [(8.0, float("inf"), 3e-4), (5.0, 8.0, 6e-3), (3.0, 5.0, 1e-1)]
# Re Z_pp <= bound Re Z_fs: x < 0.15: 1e-16 [1.9e-18]; 0.15..0.2: 1e-8 [3.4e-10]; 0.2..0.25: 1e-4 [2.3e-6]
PP_SUPPRESSED_BANDS = [(0.0, 0.15, 1e-16), (0.15, 0.2, 1e-8), (0.2, 0.25, 1e-4)]
PP_NEAR_FS, PP_SUPPRESSED = PP_NEAR_FS_BANDS[0][2], PP_SUPPRESSED_BANDS[-1][2]
ONE_SIDED = 1e-2         # wake energy on the wrong side <= 1e-2 of the right side (observed <= 3e-4 for nmax >= 1024)
COLL_SYMMETRIC = 1e-4    # collimator: |W(x0+d) - W(x0-d)| <= 1e-4 max|W| (observed <= 2e-7: binary32 FFT rounding)
COLL_LOCAL = 1e-6        # collimator: wake energy beyond 4 sigma <= 1e-6 of the energy at the source (observed 1e-10)
WAKE_ADDITIVE = 1e-4     # W(sum) - sum of W(parts) <= 1e-4 of the largest part's peak (binary32 sums + FFT rounding)


def run_explore(ctx, tg):
    rng = ctx.rng
    cnt = 5 if ctx.quick() else 40
    text, meta = [], {}
    for i in range(2 * cnt):
        R, g = loguni(rng, 0.5, 30), loguni(rng, 0.004, 0.1)
        while R / g > 4000:
            g *= 2
        n = rng.randint(33, 65)
        f0 = f32(C_LIGHT / (2 * math.pi * R))
        nc = cutoff_harmonic(R, g)
        X = loguni(rng, 25, 100) if i % 2 == 0 else loguni(rng, 0.2, 2)
        fmax = f32(f0 * nc * X)
        cid = "x%d" % i
        meta[cid] = dict(R=R, g=g, n=n, f0=f0, fmax=fmax, nc=nc, regime="high" if i % 2 == 0 else "low")
        text.append("model %s pp %d %s %s %s\nmodel %s_fs fs %d %s %s\n" % (cid, n, fhex(f0), fhex(fmax), fhex(g), cid, n, fhex(f0), fhex(fmax)))
    rc, out, err = run_driver(tg["impl_imp"], "".join(text), timeout=1200)
    if rc != 0:
        raise RuntimeError("impl_imp (explore pp): rc=%d %s" % (rc, err[-500:]))
    r = parse_cases(out)
    for cid, m in meta.items():
        pp, fs = cvec(r[cid]["vec"][0]), cvec(r[cid + "_fs"]["vec"][0])
        case = dict(kind="explore-pp", **{k: (fhex(v) if isinstance(v, float) else v) for k, v in m.items()})
        if not (finite(pp) and finite(fs)):
            ctx.violation("impl-oracle", "parallel-plates or free-space samples are not finite", case=case, sig=dict(kind="explore", clause="finite"))
            continue
        delta = Fraction(m["fmax"]) / Fraction(m["f0"]) / (m["n"] - 1)
        used = 0
        for i in range(1, m["n"] // 2 + 1):
            x = float(i * delta) / m["nc"]
            a, b = (float(pp[i][0]), float(pp[i][1])), (float(fs[i][0]), float(fs[i][1]))
            # Z_pp/Z_fs is observed to depend on (R, g, harmonic) through x = harmonic/n_c only, so the wide-gap limit
            # (n_c ~ g^-3/2 -> 0) and the high-frequency limit are the same limit x -> infinity
            band = [bd for bd in PP_NEAR_FS_BANDS if bd[0] <= x < bd[1]]
            sup = [bd for bd in PP_SUPPRESSED_BANDS if bd[0] <= x < bd[1]]
            if band:
                used += 1
                d = math.hypot(a[0] - b[0], a[1] - b[1]) / math.hypot(*b)
                if d > band[0][2]:
                    ctx.violation("impl-oracle", "parallel plates does not tend to free space at %.3g times the shielding cutoff" % x, case=dict(case, index=i),
                                  observed=dict(pp=a, fs=b, rel=d), expected="relative difference <= %g for %g <= x < %g" % (band[0][2], band[0][0], band[0][1]),
                                  sig=dict(kind="explore", clause="pp-to-fs"))
                    break
            elif sup:
                used += 1
                if a[0] > sup[0][2] * b[0]:
                    ctx.violation("impl-oracle", "parallel plates is not suppressed at %.3g times the shielding cutoff" % x, case=dict(case, index=i),
                                  observed=dict(pp=a, fs=b), expected="Re Z_pp <= %g Re Z_fs for %g <= x < %g" % (sup[0][2], sup[0][0], sup[0][1]),
                                  sig=dict(kind="explore", clause="pp-suppressed"))
                    break
        ctx.count("explore:pp-" + m["regime"])
        ctx.case_done(("explore", cid), used > 0)
    # causality: impulse response through ElectricField::wakePotential().  Proved (Properties_C16 section 5): the
    # phases of the generated samples, and that in the DFT model conjugation mirrors the response, a real impedance
    # acts symmetrically and the response is additive in the impedance.  Explored here: which side each model acts on.
    text, meta = [], {}
    nx = 64
    for i in range(cnt):
        nmax = rng.choice([1024, 2048, 1536, 1025])
        sigma, x0 = rng.uniform(1.5, 3.0), nx / 2 + rng.uniform(-3, 3)
        frev, fmax = f32(loguni(rng, 1e5, 3e7)), f32(loguni(rng, 1e10, 5e12))
        s, b = loguni(rng, 1e5, 6e7), loguni(rng, 0.004, 0.05)
        for kind in ("fs", "rw", "coll", "pp"):
            cid = "w%d%s" % (i, kind)
            m = dict(model=kind, nx=nx, nmax=nmax, sigma=sigma, x0=x0, frev=frev, fmax=fmax, s=s, b=b)
            if kind == "fs":
                extra = "%s %s" % (fhex(frev), fhex(fmax))
            elif kind == "rw":
                extra = "%s %s %s %s %s %s" % (fhex(frev), fhex(fmax), fhex(C_LIGHT / frev), fhex(s), fhex(0.0), fhex(b))
            elif kind == "coll":
                # symmetric profile about a cell centre: the response of a real impedance must mirror exactly
                m["x0"] = float(round(x0))
                m["ratio"] = rng.choice([1.25, 2.0, 10.0])
                extra = "%s %s %s" % (fhex(fmax), fhex(b), fhex(b / m["ratio"]))
            else:
                R = loguni(rng, 0.5, 30)
                m["R"], m["f0"] = R, f32(C_LIGHT / (2 * math.pi * R))
                m["fmax"] = f32(m["f0"] * cutoff_harmonic(R, b) * loguni(rng, 2, 50))
                extra = "%s %s %s" % (fhex(m["f0"]), fhex(m["fmax"]), fhex(b))
            meta[cid] = m
            text.append("wake %s %d %d %s %s %s %s\n" % (cid, nx, nmax, kind, fhex(sigma), fhex(m["x0"]), extra))
    # factory sums: additivity of the response and the sides of the closed-form parts inside the sum
    for i in range(cnt):
        nmax = rng.choice([1024, 2048, 1536, 1025])
        sigma, x0 = rng.uniform(1.5, 3.0), nx / 2 + rng.uniform(-3, 3)
        g = dyadic(rng, 0.004, 0.1)
        gap = -g if i % 4 != 3 else g
        m = dict(model="fac", nx=nx, nmax=nmax, sigma=sigma, x0=x0, fmax=f32(loguni(rng, 1e10, 5e12)), R=dyadic(rng, 0.5, 50),
                 frev=dyadic(rng, 1e5, 3e7), gap=gap, use_csr=(i % 3 != 2), s=dyadic(rng, 1e5, 6e7) if i % 5 != 4 else 0.0, xi=0.0,
                 rc=(g / 2) * rng.choice([0.5, 0.25, 0.0]))
        if gap > 0:
            m["fmax"] = f32(C_LIGHT / (2 * math.pi * m["R"]) * cutoff_harmonic(m["R"], g) * loguni(rng, 2, 50))
        cid = "wf%d" % i
        meta[cid] = m
        text.append("wake %s %d %d fac %s %s %s %s %s %s %d %s %s %s\n" % (
            cid, nx, nmax, fhex(sigma), fhex(x0), fhex(m["fmax"]), fhex(m["R"]), fhex(m["frev"]), fhex(gap), int(m["use_csr"]),
            fhex(m["s"]), fhex(m["xi"]), fhex(m["rc"])))
    rc, out, err = run_driver(tg["impl_imp"], "".join(text), env=vp_build.xdg_env(), timeout=1200)
    if rc != 0:
        raise RuntimeError("impl_imp (explore wake): rc=%d %s" % (rc, err[-500:]))
    r = parse_cases(out)

    def sides(w, m):
        lo_end, hi_start = int(math.floor(m["x0"] - 4 * m["sigma"])), int(math.ceil(m["x0"] + 4 * m["sigma"])) + 1
        return sum(v * v for v in w[:lo_end]), sum(v * v for v in w[lo_end:hi_start]), sum(v * v for v in w[hi_start:])

    def one_sided(w, m, kind, case, where=""):
        # increasing q is ahead of the source: free space acts ahead only, the resistive wall behind only
        below, _, above = sides(w, m)
        wrong, right = (below, above) if kind == "fs" else (above, below)
        if right > 0:
            obs["one_sided"] = max(obs["one_sided"], wrong / right)
        if not (right > 0 and wrong <= ONE_SIDED * right):
            ctx.violation("impl-oracle", "impulse response of the %s impedance%s is not one-sided (%s)" % (
                "free-space" if kind == "fs" else "resistive-wall", where, "ahead only" if kind == "fs" else "behind only"),
                case=case, observed=dict(energy_behind=below, energy_ahead=above), expected="wrong side <= %g of the right side" % ONE_SIDED,
                sig=dict(kind="explore", clause="causality", model=kind))

    pp_ratio = []
    obs = dict(one_sided=0.0, coll_asymmetry=0.0, coll_nonlocal=0.0, wake_additive=0.0)
    for cid, m in meta.items():
        case = dict(kind="explore-wake", **{k: (fhex(v) if isinstance(v, float) else v) for k, v in m.items()})
        got = {k: [parse_c(t) for t in v[0]] for k, v in r[cid].items() if k.startswith("wake")}
        if any(isinstance(v, str) for w in got.values() for v in w):
            ctx.violation("impl-oracle", "wake potential is not finite", case=case, sig=dict(kind="explore", clause="finite"))
            continue
        got = {k: [float(v) for v in w] for k, w in got.items()}
        kind = m["model"]
        if kind in ("fs", "rw"):
            one_sided(got["wake"], m, kind, case)
        elif kind == "coll":
            w = got["wake"]
            xi = int(m["x0"])
            mx = max(abs(v) for v in w)
            asym = max(abs(w[xi + d] - w[xi - d]) for d in range(1, min(xi, nx - 1 - xi) + 1)) / mx if mx > 0 else 1.0
            below, mid, above = sides(w, m)
            obs["coll_asymmetry"] = max(obs["coll_asymmetry"], asym)
            obs["coll_nonlocal"] = max(obs["coll_nonlocal"], (below + above) / mid if mid > 0 else 1.0)
            if not (mx > 0 and asym <= COLL_SYMMETRIC and below + above <= COLL_LOCAL * mid):
                ctx.violation("impl-oracle", "impulse response of the collimator (a constant resistance) is not symmetric about the source / not local",
                              case=case, observed=dict(asymmetry=asym, energy_behind=below, energy_ahead=above, energy_at_source=mid),
                              expected="asymmetry <= %g of the peak, energy beyond 4 sigma <= %g of the energy at the source" % (COLL_SYMMETRIC, COLL_LOCAL),
                              sig=dict(kind="explore", clause="causality", model="coll"))
        elif kind == "pp":
            # no claim in the property text; recorded only (the shielded wake has both sides)
            below, mid, above = sides(got["wake"], m)
            if above > 0:
                pp_ratio.append(below / above)
        else:
            # the property's own switches (as FCase.switches, no file)
            gap, sv_, rcv = m["gap"], m["s"], m["rc"]
            on = []
            if gap != 0:
                if m["use_csr"]:
                    on.append("pp" if gap > 0 else "fs")
                if sv_ > 0 and m["xi"] >= -1:
                    on.append("rw")
                if 0 < rcv < abs(gap) / 2:
                    on.append("coll")
            if not on:
                if "wake" in got:
                    ctx.violation("impl-oracle", "factory returns an impedance although no contribution is selected", case=case,
                                  sig=dict(kind="factory", clause="none-selected"))
                ctx.case_done(("explore", cid), False)
                continue
            if "wake" not in got or any("wake_" + k not in got for k in on):
                ctx.violation("impl-oracle", "factory returns nothing although contributions are selected", case=case,
                              observed=sorted(got), expected=on, sig=dict(kind="factory", clause="selection", selected="+".join(on)))
                continue
            tot = [sum(got["wake_" + k][x] for k in on) for x in range(nx)]
            scale = max(max(abs(v) for v in got["wake_" + k]) for k in on)
            dev = max(abs(got["wake"][x] - tot[x]) for x in range(nx)) / scale if scale > 0 else 0.0
            obs["wake_additive"] = max(obs["wake_additive"], dev)
            if dev > WAKE_ADDITIVE:
                ctx.violation("impl-oracle", "impulse response of the factory's sum (%s) is not the sum of the responses of its contributions" % "+".join(on),
                              case=case, observed=dict(max_deviation_rel=dev), expected="<= %g of the largest contribution's peak" % WAKE_ADDITIVE,
                              sig=dict(kind="explore", clause="wake-additive"))
            for k in on:
                if k in ("fs", "rw"):
                    one_sided(got["wake_" + k], m, k, case, " inside the factory's sum")
            ctx.count("explore:wake-sum-" + "+".join(on))
        ctx.count("explore:wake-" + kind)
        ctx.case_done(("explore", cid), True)
    ctx.extra["explored_observed_maxima"] = obs
    if pp_ratio:
        ctx.extra["explored_parallel_plates_wake_energy_behind_over_ahead"] = dict(min=min(pp_ratio), max=max(pp_ratio), n=len(pp_ratio))
    ctx.extra["explored_thresholds"] = dict(pp_near_fs_bands=[list(map(str, bd)) for bd in PP_NEAR_FS_BANDS],
                                            pp_suppressed_bands=[list(map(str, bd)) for bd in PP_SUPPRESSED_BANDS], one_sided=ONE_SIDED,
                                            coll_symmetric=COLL_SYMMETRIC, coll_local=COLL_LOCAL, wake_additive=WAKE_ADDITIVE)


# ----------------------------------------------------------------------------- request sequences in one process

def pp_band_violation(n, f0, fmax, nc, pp, fs):
    """the explored parallel-plates bands (PP_NEAR_FS_BANDS / PP_SUPPRESSED_BANDS) on one pair of vectors on the same
    grid: (clause, text, index, observed, expected) of the first sample outside its band, or None; and how many samples
    fell into a band"""
    delta = Fraction(fmax) / Fraction(f0) / (n - 1)
    used = 0
    for i in range(1, n // 2 + 1):
        x = float(i * delta) / nc
        a, b = (float(pp[i][0]), float(pp[i][1])), (float(fs[i][0]), float(fs[i][1]))
        band = [bd for bd in PP_NEAR_FS_BANDS if bd[0] <= x < bd[1]]
        sup = [bd for bd in PP_SUPPRESSED_BANDS if bd[0] <= x < bd[1]]
        if band and math.hypot(*b) > 0:
            used += 1
            d = math.hypot(a[0] - b[0], a[1] - b[1]) / math.hypot(*b)
            if d > band[0][2]:
                return ("pp-to-fs", "parallel plates does not tend to free space at %.3g times the shielding cutoff" % x, i,
                        dict(pp=a, fs=b, rel=d), "relative difference <= %g for %g <= x < %g" % (band[0][2], band[0][0], band[0][1])), used
        elif sup:
            used += 1
            if a[0] > sup[0][2] * b[0]:
                return ("pp-suppressed", "parallel plates is not suppressed at %.3g times the shielding cutoff" % x, i,
                        dict(pp=a, fs=b), "Re Z_pp <= %g Re Z_fs for %g <= x < %g" % (sup[0][2], sup[0][0], sup[0][1])), used
    return None, used


def sequence_cases(ctx, count):
    """Request sequences for ONE process: a base request, the same request with one argument changed at a time (same
    sampling, another gap; same gap, another sampling; ...), the base request again - for each model class, for the
    factory (called twice in a row, as main() does for the wake and for the radiated spectrum) and mixed.  A result kept
    from an earlier call under an incomplete key, or any other state that outlives a call, answers one of the later
    requests with the value of an earlier one."""
    rng = ctx.rng
    seqs = []

    def mut(p, key, val):
        q = dict(p)
        q[key] = val
        return q

    def pp_seq(n):
        # the narrow gap's cutoff above the whole grid (every sample suppressed), the wide gap's far below it (free-space limit)
        # (inside the domain the explored bands were observed on: gaps 4..100 mm, R/g <= 4000, g/R <= 0.2)
        R = loguni(rng, 1.0, 10.0)
        gn = loguni(rng, 0.004, 0.005)
        f0 = f32(C_LIGHT / (2 * math.pi * R))
        fmax = f32(f0 * cutoff_harmonic(R, gn) * rng.uniform(0.10, 0.14) * (n - 1) / (n // 2))
        gw = rng.uniform(0.09, 0.1)
        base = dict(f0=f0, fmax=fmax, g=gn)
        ps = [base, mut(base, "g", gw), mut(base, "g", gn * 1.5), mut(base, "g", gw * 0.75), base, mut(base, "g", gw)]
        reqs = [("pp", n, p) for p in ps]
        reqs.insert(rng.randint(0, 2), ("fs", n, dict(frev=f0, fmax=fmax)))       # the free-space reference on the same grid
        return "pp-gap", reqs

    def pp_sampling_seq(n):
        base = model_params(rng, "pp")
        ps = [base, mut(base, "fmax", f32(base["fmax"] * 1.25)), base, mut(base, "f0", f32(base["f0"] * 0.5)), base]
        reqs = [("pp", n, p) for p in ps] + [("pp", n + 1, base), ("pp", n, base)]
        return "pp-sampling", reqs

    def closed_seq(kind, n):
        base = model_params(rng, kind)
        reqs = [(kind, n, base)]
        for key in sorted(base):
            v = base[key]
            # the changed argument stays inside the model's domain (xi >= -1, inner < outer)
            nv = f32(v * 1.5) if key in ("fmax", "frev", "f0", "re", "im") else v + 0.5 if key == "xi" else v * 0.75 if key == "inner" else \
                (v * 1.5 if v != 0 else 0.5)
            reqs.append((kind, n, mut(base, key, nv)))
        reqs.append((kind, n, base))
        reqs.append((kind, n + 2, base))
        reqs.append((kind, n, base))
        return kind + "-args", reqs

    def factory_seq(n, k):
        g = dyadic(rng, 0.004, 0.05)
        R = dyadic(rng, 1.0, 10.0)
        f0 = C_LIGHT / (2 * math.pi * R)
        base = dict(fmax=f32(f0 * cutoff_harmonic(R, g) * rng.uniform(0.5, 3.0)), R=R, frev=dyadic(rng, 1e5, 3e7), gap=g, use_csr=True,
                    s=dyadic(rng, 1e4, 6e7), xi=0.0, rc=g / 2 * 0.5)
        fd = [(f32(rng.uniform(0, 300)), f32(rng.uniform(-300, 300))) if i <= n // 2 else (0.0, 0.0) for i in range(n)]
        fd2 = [(f32(a + 1), b) for a, b in fd]
        steps = [(base, None), (base, None),                                   # twice in a row, as main() does
                 (mut(base, "gap", g * 4), None), (mut(base, "gap", -g), None), (base, None),
                 (mut(base, "use_csr", False), None), (mut(base, "s", 0.0), None), (mut(base, "rc", 0.0), None),
                 (base, fd), (base, fd2), (base, None), (mut(base, "R", R * 2), None), (base, None),
                 (mut(base, "gap", 0.0), None), (base, None)]                 # nothing selected (no impedance), then the base again
        if k % 2:
            steps = steps[:2] + [steps[2], steps[4], steps[8], steps[9], steps[10], steps[13], steps[14]]
        return "factory", [("factory", n, p, f) for p, f in steps]

    def mixed_seq(n):
        reqs = []
        ppb = model_params(rng, "pp")
        for kind in ("fs", "pp", "rw", "coll", "const", "pp", "fs"):
            p = model_params(rng, kind)
            if kind in ("fs", "pp"):
                p = dict(p, fmax=ppb["fmax"])
                p = dict(p, frev=ppb["f0"]) if kind == "fs" else dict(p, f0=ppb["f0"])
            reqs.append((kind, n, p))
        return "mixed", reqs

    plan = [lambda: pp_seq(rng.randint(33, 65)), lambda: pp_sampling_seq(rng.randint(8, 40)),
            lambda: closed_seq("fs", rng.randint(3, 40)), lambda: closed_seq("rw", rng.randint(3, 40)),
            lambda: closed_seq("coll", rng.randint(3, 40)), lambda: closed_seq("const", rng.randint(3, 40)),
            lambda: factory_seq(rng.randint(16, 48), 0), lambda: factory_seq(rng.randint(16, 48), 1),
            lambda: mixed_seq(rng.randint(8, 40)), lambda: pp_seq(rng.randint(8, 32))]
    for k in range(count):
        name, reqs = plan[k % len(plan)]()
        cs = []
        for j, r in enumerate(reqs):
            cid = "q%d_%d" % (k, j)
            cs.append(FCase(cid, r[1], r[2], r[3], dict(sequence=name)) if r[0] == "factory" else MCase(cid, r[0], r[1], r[2]))
        seqs.append((name, cs))
        ctx.count("sequence:" + name)
    return seqs


def run_sequences(ctx, tg, tmp, only=None):
    """Each sequence is answered by ONE process of the harness, request after request; every distinct request is also put
    to a process of its own.  Oracle (the property holds per request, whatever was asked before): the two answers are the
    same, bit for bit, in every printed field; plus the shape oracle on every answer and the explored parallel-plates
    bands on the answers of a gap sequence (against the free-space vector of the same grid from the same process)."""
    from concurrent.futures import ThreadPoolExecutor
    seqs = only if only is not None else sequence_cases(ctx, 10 if ctx.quick() else 60)
    for name, cs in seqs:
        write_files([c for c in cs if isinstance(c, FCase)], tmp)
    # a request is identified by its text without the case id
    def body(c):
        return c.impl_text().split(" ", 2)[0] + " " + c.impl_text().split(" ", 2)[2]
    distinct = {}
    for name, cs in seqs:
        for c in cs:
            distinct.setdefault(body(c), c)

    def fresh(c):
        rc, out, err = run_driver(tg["impl_imp"], c.impl_text(), timeout=600)
        return rc, parse_cases(out).get(c.cid), err[-300:]
    with ThreadPoolExecutor(max_workers=6) as ex:
        fresh_res = dict(zip(distinct, ex.map(fresh, distinct.values())))
    for si, (name, cs) in enumerate(seqs):
        seqrep = dict(kind="sequence", name=name, requests=[c.replay() for c in cs])
        rc, out, err = run_driver(tg["impl_imp"], "".join(c.impl_text() for c in cs), timeout=1200)
        got = parse_cases(out)
        bad = False
        for j, c in enumerate(cs):
            frc, want, ferr = fresh_res[body(c)]
            mine = got.get(c.cid)
            model = getattr(c, "kind", "factory")
            if frc != 0 or want is None:
                ctx.violation("impl-oracle", "a single %s request kills the process (rc=%d)" % (model, frc), case=dict(seqrep, failing_index=j),
                              observed=ferr, sig=dict(kind="sequence", clause="crash", model=model))
                bad = True
                break
            if mine is None:
                ctx.violation("impl-oracle", "request %d (%s) of a sequence in one process gets no answer (rc=%d) although a fresh process answers it" % (j, model, rc),
                              case=dict(seqrep, failing_index=j), observed=err[-300:], sig=dict(kind="sequence", clause="crash", model=model))
                bad = True
                break
            if mine != want:
                tag = [t for t in want if mine.get(t) != want[t]] + [t for t in mine if t not in want]
                t0 = tag[0]
                a, b = (mine.get(t0) or [[]])[0], (want.get(t0) or [[]])[0]
                idx = [i for i in range(max(len(a), len(b))) if i >= len(a) or i >= len(b) or a[i] != b[i]][:1]
                same_as = [i for i in range(j) if got.get(cs[i].cid, {}).get(t0) == mine.get(t0) and body(cs[i]) != body(c)]
                ctx.violation("impl-oracle", "request %d (%s) of a sequence in one process is not answered as a fresh process answers the same request%s"
                              % (j, model, " - it gets the answer of request %d" % same_as[-1] if same_as else ""),
                              case=dict(seqrep, failing_index=j),
                              observed=dict(field=t0, first_bad_token=idx, in_sequence=a[idx[0]:idx[0] + 4] if idx else a[:4], same_as_earlier_request=same_as[-1:]),
                              expected=dict(fresh_process=b[idx[0]:idx[0] + 4] if idx else b[:4]),
                              sig=dict(kind="sequence", clause="history", model=model))
                bad = True
                break
        # the property's own clauses on the answers of the sequence
        fsref = {}
        for c in cs:
            r = got.get(c.cid)
            if r is None or isinstance(c, FCase):
                continue
            c.v = cvec(r["vec"][0])
            zero_from = c.n // 2 if c.kind in ("coll", "const") else c.n // 2 + 1
            c.ok = shape_oracle(ctx, c, c.v, int(r["vec_n"][0][0]), int(r["vec_n"][0][1]), zero_from, "model " + c.kind + " (inside a request sequence)")
            if c.kind == "fs" and c.ok:
                fsref[(c.n, c.p["frev"], c.p["fmax"])] = c.v
        used_total = 0
        if name == "pp-gap":
            for j, c in enumerate(cs):
                ref = fsref.get((c.n, c.p.get("f0"), c.p["fmax"])) if getattr(c, "kind", "") == "pp" else None
                if ref is None or not getattr(c, "ok", False) or not finite(c.v):
                    continue
                R = C_LIGHT / (2 * math.pi * c.p["f0"])
                vio, used = pp_band_violation(c.n, c.p["f0"], c.p["fmax"], cutoff_harmonic(R, c.p["g"]), c.v, ref)
                used_total += used
                if vio:
                    clause, text, i, obs, exp = vio
                    ctx.violation("impl-oracle", text + " (request %d of a sequence of gaps on one sampling)" % j, case=dict(seqrep, failing_index=j, index=i),
                                  observed=obs, expected=exp, sig=dict(kind="sequence", clause=clause, model="pp"))
                    break
        ctx.case_done(("sequence", si), len(cs) >= 3 and (name != "pp-gap" or used_total > 0))
        if si == 0 and only is None:
            ctx.sample(dict(kind="sequence", name=name, length=len(cs), first_request=cs[0].replay()))
    ctx.extra["request_sequences"] = dict(sequences=len(seqs), requests=sum(len(cs) for _, cs in seqs), distinct_requests_put_to_a_fresh_process=len(distinct))
    return seqs


def project_coqchk(ctx, coq):
    """Thorough tier.  The recursive `coqchk -o` of vp_coq re-checks every library the property file depends on; with
    Interval (Coquelicot, Flocq, mathcomp, the Reals) that takes more than 35 minutes here - beyond vp_coq's 1500 s limit,
    which would turn into an alarm although nothing is wrong.  C16 therefore runs the independent checker itself:
    (1) always: `coqchk -norec` over every module of THIS development in the dependency closure of Properties_C16 (each
        re-checked by the standalone checker; the installed libraries' .vo files are taken as they are);
    (2) only with VERIF_COQCHK_FULL=1: the recursive check with a 3600 s limit; running out of time is recorded, not alarmed."""
    import subprocess, time
    mods = sorted("Inovesa." + d[:-2].replace("/", ".") for d in vp_coq.dep_closure("Props/Properties_C16.v")) + ["Inovesa.Props.Properties_C16"]
    t0 = time.time()
    args = []
    for m in mods:
        args += ["-norec", m]          # the flag applies to the module that follows it
    r = subprocess.run(["timeout", "1200", "coqchk", "-silent", "-Q", ".", "Inovesa"] + args, cwd=vp_coq.COQ, capture_output=True, text=True)
    ctx.log("coqchk -norec over %d modules of the development: rc=%d in %.1fs" % (len(mods), r.returncode, time.time() - t0))
    info = dict(ok=r.returncode == 0, mode="-norec over the development's own modules", modules=mods, wall_s=round(time.time() - t0, 1))
    if r.returncode != 0:
        coq["ok"] = False
        coq["props"]["error"] = "coqchk rejected the compiled development: " + (r.stdout + r.stderr)[-1500:]
    elif os.environ.get("VERIF_COQCHK_FULL") == "1":
        ok, ax, tail = vp_coq.coqchk("C16", ctx.log, timeout=3600)
        info["recursive"] = dict(ok=ok, axioms_of_all_loaded_libraries=ax)
        if not ok and "rc=124" not in tail and tail.strip():
            coq["ok"] = False
            coq["props"]["error"] = "coqchk (recursive) rejected the compiled development: " + tail
        elif not ok:
            ctx.notes.append("recursive coqchk did not finish within 3600 s (libraries: Reals, Coquelicot, Flocq, Interval, mathcomp)")
    ctx.extra["coqchk"] = info


def checked(ctx):
    """vp_coq.full_check with the thorough tier's coqchk replaced by project_coqchk (see there)"""
    own = ctx.tier == "thorough" and os.environ.get("VERIF_NO_COQCHK") != "1"
    if own:
        os.environ["VERIF_NO_COQCHK"] = "1"
    try:
        coq = vp_coq.full_check("C16", ctx, fams=("imp",))
    finally:
        if own:
            del os.environ["VERIF_NO_COQCHK"]
    if own and coq["ok"]:
        project_coqchk(ctx, coq)
    return coq


def run(ctx):
    ctx.rule = ("model cases: every sample count 2..65 (even and odd) for each of the five classes, random frequency ranges "
                "(1e9..5e12 Hz), revolution frequencies (1e5..3e7 Hz), bending radii 0.5..50 m, gaps 4..100 mm, conductivities "
                "1e4..6e7 S/m, susceptibilities -1..3 incl. -1, collimator ratios 1.001..30; factory: a seeded sample of the "
                "3x2x5x5x5 switch combinations (gap sign, use_csr, wall on/s=0/s<0/xi<-1/xi=-1, collimator on/0/too big/negative/"
                "exactly the pipe radius, file none/exact/longer/shorter/half); operator+= on equal, longer and shorter operands. "
                "Non-trivial: n >= 3 with non-constant values / at least one contribution selected.")
    coq = checked(ctx)
    tg = ctx.build(harness=("impl_imp",))
    dis = []
    tmp = tempfile.mkdtemp(prefix="c16_")
    try:
        run_models(ctx, tg, dis)
        run_factory(ctx, tg, dis, tmp)
        run_sums(ctx, tg, dis)
        run_sequences(ctx, tg, tmp)
        run_explore(ctx, tg)
    finally:
        shutil.rmtree(tmp, ignore_errors=True)
    ctx.extra["correspondence_disagreements"] = len(dis)
    # downgrade rule of DESIGN 2.2: when translate/imp2coq.py no longer recognises the source (a restructuring outside its
    # idioms) the last-good Gen_Imp.v keeps the development building; if then every theorem still checks (about the last-good
    # definitions) AND the full correspondence of this run - hand-written and last-good generated model against the
    # implementation, relational validation of all values, every oracle - shows no disagreement and no violation, the
    # property is shown through tie 2 as in the round before the translator existed, and the downgrade is recorded.
    failed = [g for g, st in coq["gen"].items() if st.startswith("failed")]
    # Not downgraded: a refusal because of state that outlives a call (static locals, non-const variables outside the
    # functions).  The generated definitions are functions of the arguments; no finite set of request sequences shows that
    # code with such state behaves like one (imp_functions_pure).
    stateful = any("outlives the call" in coq["gen"].get(g, "") for g in failed)
    if stateful:
        ctx.notes.append("Gen_Imp: the translator refuses state that outlives a call; this failure is never downgraded to tie 2")
    if failed == ["Gen_Imp"] and not stateful and coq["make_ok"] and coq["props"]["ok"] and not coq["forbidden"] and coq["extract_ok"] \
            and not dis and not ctx.violations and ctx.evaluations > 0:
        ctx.extra["translators"]["Gen_Imp"] = "downgraded-to-correspondence (" + coq["gen"]["Gen_Imp"][:200] + ")"
        ctx.notes.append("Gen_Imp: translator failed; the last-good generated definitions and the hand-written model agree with the "
                         "implementation on every case of this run and every oracle holds: downgraded to tie 2")
        coq = dict(coq, ok=True)
    ctx.assumptions += ["sample values of the analytic models are validated relationally (tolerance 2^-17 on cube/square, 2^-21 on ln), "
                        "not derived: libm pow/sqrt/log are outside the model",
                        "binary32 addition of the model is rnd32 (Base/Float32.v, trusted, validated by this correspondence)",
                        "parallel-plates values, limits and causality are explored numerically only (no theorem)"]
    conclude(ctx, coq, dis)


def replay(ctx, rp):
    """re-evaluates the recorded case (factory / model) on the current tree; other kinds re-run the check"""
    case = rp.get("case") or {}
    fx = lambda v: v if isinstance(v, bool) else float.fromhex(v)
    if case.get("kind") in ("factory", "model"):
        ctx.rule = "replay of one recorded %s case" % case["kind"]
        coq = checked(ctx)
        tg = ctx.build(harness=("impl_imp",))
        dis = []
        tmp = tempfile.mkdtemp(prefix="c16_")
        try:
            p = {k: fx(v) for k, v in case["params"].items()}
            if case["kind"] == "factory":
                fd = None if case.get("file") is None else [(float.fromhex(a), float.fromhex(b)) for a, b in case["file"]]
                run_factory(ctx, tg, dis, tmp, only=[FCase("r0", case["n"], p, fd, case.get("tags"))])
            else:
                run_models(ctx, tg, dis, only=[MCase("r0", case["model"], case["n"], p)])
        finally:
            shutil.rmtree(tmp, ignore_errors=True)
        conclude(ctx, coq, dis)
    elif case.get("kind") == "sequence":
        ctx.rule = "replay of one recorded sequence of requests in one process, each compared with a fresh process"
        coq = checked(ctx)
        tg = ctx.build(harness=("impl_imp",))
        tmp = tempfile.mkdtemp(prefix="c16_")
        try:
            cs = []
            for j, r in enumerate(case["requests"]):
                p = {k: fx(v) for k, v in r["params"].items()}
                if r["kind"] == "factory":
                    fd = None if r.get("file") is None else [(float.fromhex(a), float.fromhex(b)) for a, b in r["file"]]
                    cs.append(FCase("q0_%d" % j, r["n"], p, fd, r.get("tags")))
                else:
                    cs.append(MCase("q0_%d" % j, r["model"], r["n"], p))
            run_sequences(ctx, tg, tmp, only=[(case.get("name", "replay"), cs)])
        finally:
            shutil.rmtree(tmp, ignore_errors=True)
        conclude(ctx, coq, [])
    else:
        run(ctx)
