"""C05 - the stationary bunch satisfies the Haissinski equation with its own wake (partial).

Proved (Coq): force law of one step on the generated step order for every bunch of an nb-bunch
grid (over the generated update()/updateSM/apply definitions), scaling factor over the
generated expression, the calculus identity.  Tie: translators Gen_StepOrder / Gen_WakeScale /
Gen_WakeUpdate / Gen_KickIndex, one-step correspondence of the extracted model against the repo's
ElectricField + WakePotentialMap + RFKickMap + DriftMap (+ FokkerPlanckMap applied, not modelled)
wired as main() wires a filling pattern (1..3 bunches, buckets with gaps).  Explored only: the long-run residual of the Haissinski equation and the energy spread
on the real binary (lib/haiss_explore.py)."""
import math, os, tempfile, shutil
from fractions import Fraction
from vp_common import *
import vp_coq, vp_build
import haiss_cases as hc

EPS = Fraction(1, 2 ** 24)


def check_case(ctx, c, r, m, msc, dis):
    n, nb, it, N = c.n, c.nb, c.it, c.nmax
    sig0 = dict(kind="step", ztype=c.z["type"])
    fl = hc.fl
    # ---------------------------------------------------------------- exact stream: copy, offsets, table indices
    ex = []
    if r["woff"] != r["wp"] or r["force"] != r["wp"]:
        ex.append("kick-map offsets after WakePotentialMap::update differ from wakePotential()")
    if [int(t) for t in r["sizes"][0]] != [nb * n] * 3:
        ex.append("offset vectors of the kick maps do not hold nb*n entries")
    if [parse_c(t) for t in r["woff"][0]] != [parse_q(t) for t in m["woff"][0]]:
        ex.append("wake offsets: model (generated update()) differs")
    if [parse_c(t) for t in r["rfoff"][0]] != [parse_q(t) for t in m["rfoff"][0]]:
        ex.append("RF offsets differ from rnd32(tan*rnd32(xc-x)) in the block of every bunch")
    if [int(t) for t in r["wtab"][0]] != [int(t, 16) for t in m["wtab"][0]]:
        ex.append("wake kick table indices differ")
    if [int(t) for t in r["rtab"][0]] != [int(t, 16) for t in m["rtab"][0]]:
        ex.append("RF kick table indices differ")
    # ---------------------------------------------------------------- tolerance stream: grids after each kick map
    grids = {}
    mx = max(abs(Fraction(v)) for v in c.data)
    K = {"gW": 16, "gR": 40, "gD": 64}   # 6 roundings in the weights + 4 in the sum, x1.25 per map (Sum|w| <= 5/4)
    for g in ("gW", "gR", "gD"):
        if g not in r or g not in m:
            ex.append("grid %s missing (step order of model and harness differ)" % g)
            continue
        gi, gm = hc.parse_grid(r[g][0]), [parse_q(t) for t in m[g][0]]
        grids[g] = gi
        bad = [(i, a, b) for i, (a, b) in enumerate(zip(gi, gm)) if isinstance(a, str) or abs(a - b) > K[g] * EPS * mx]
        if bad or len(gi) != len(gm):
            i, a, b = bad[0] if bad else (min(len(gi), len(gm)), "length", 0)
            ex.append("grid after %s: cell %d (bunch %d) impl %s model %s (tol %d*2^-24*max)" % (g, i, i // (n * n), str(a), str(float(b)), K[g]))
    if "gF" in r:
        grids["gF"] = hc.parse_grid(r["gF"][0])
    if ex:
        dis.append(dict(case=c.replay(), detail=ex[:4], sig=dict(sig0, stage="correspondence")))
    # ---------------------------------------------------------------- oracle: scaling factor (C05.2)
    sc_impl = Fraction(fl(r["scaling"][0][0]))
    sc_model = parse_q(msc["scaling"][0][0])          # generated expression, evaluated exactly
    sz, dE1 = Fraction(fl(r["axes"][0][2])), Fraction(fl(r["axes"][0][1]))
    sc_formula = Fraction(c.Ib) * Fraction(c.dt) * Fraction(hc.C_LIGHT) / (sz * (dE1 * Fraction(c.sE) * Fraction(c.E0))) / N
    if sc_model != sc_formula:
        ctx.violation("impl-oracle", "generated scaling expression differs from Ib*dt*c/(sigma_z*dE_cell)/N",
                      case=c.replay(), observed=str(sc_model), expected=str(sc_formula), sig=dict(sig0, clause="scaling-expression"))
    # double expression narrowed to float, one float division: 3 roundings
    if abs(sc_impl - sc_formula) > 4 * EPS * abs(sc_formula) or int(r["scaling"][0][1]) != N:
        ctx.violation("impl-oracle", "getWakeScaling() differs from Ib*dt*c/(sigma_z*dE_cell)/N",
                      case=c.replay(), observed=float(sc_impl), expected=float(sc_formula), sig=dict(sig0, clause="scaling"))
    if abs(float(sz) - c.bl) > 1e-6 * c.bl or abs(float(dE1) - c.pqsize / (n - 1)) > 1e-6:
        ctx.violation("impl-oracle", "axis scale / cell width differ from sigma_z / pqsize/(n-1)", case=c.replay(),
                      observed=[float(sz), float(dE1)], expected=[c.bl, c.pqsize / (n - 1)], sig=dict(sig0, clause="axes"))
    # ---------------------------------------------------------------- oracle: wake potential of EVERY bunch against the reference
    W, cond, _ = hc.wake_reference(c, r)
    wp = [fl(t) for t in r["wp"][0]]
    Kw = 4 * math.log2(N) + 8 + 8       # FFT pair (DESIGN 3) + reference's own double rounding, scaling, Z*F product
    wtol = Kw * 2.0 ** -24 * cond + 1e-30
    werr = max(abs(a - b) for a, b in zip(W, wp)) if len(W) == len(wp) else float("inf")
    if not (werr <= wtol):
        i = max(range(len(W)), key=lambda k: abs(W[k] - wp[k])) if len(W) == len(wp) else 0
        ctx.violation("impl-oracle", "wake potential of a bunch differs from scaling*c2r(Z*r2c(padded train)) read at its bucket "
                      "(sign/scale/indexing/bucket)", case=c.replay(), observed=dict(bunch=i // n, x=i % n, wp=wp[i] if i < len(wp) else None),
                      expected=dict(W=W[i], tol=wtol), sig=dict(sig0, clause="wake-reference"))
    # the wakes of the bunches of a multi-bunch case differ (else bunch b > 0 could not tell its own wake from bunch 0's)
    wdiff = [max(abs(W[b * n + x] - W[x]) for x in range(n)) for b in range(nb)]
    # ---------------------------------------------------------------- oracle: force law (C05.1) on the implementation, every bunch
    t = math.tan(c.angle)
    t_impl = fl(r["tan"][0][0])
    xc = fl(r["axes"][0][4])
    xc_want = (n - 1) / 2 + getattr(c, "shx", 0.0)       # Ruler::zerobin of the position axis shifted by ShiftX cells
    if abs(t_impl - t) > 4 * 2.0 ** -24 * t or abs(xc - xc_want) > 1e-4:
        ctx.violation("impl-oracle", "tan(angle) / zero bin differ", case=c.replay(), observed=[t_impl, xc],
                      expected=[t, xc_want], sig=dict(sig0, clause="rf-parameters"))
    pred = [parse_q(v) for v in m["pred"][0]]
    g0 = [Fraction(v) for v in c.data]
    rows = 0
    if "gR" in grids and "gW" in grids and not any(isinstance(v, str) for v in grids["gR"]) and len(W) == nb * n:
        # the grid after both energy kicks (whatever their order)
        last = "gR" if r_order_index(r, "gR") > r_order_index(r, "gW") else "gW"
        g2 = grids[last]
        stop = False
        for b in range(nb):
            for x in range(n):
                i = b * n + x
                m0, m1, ab, (a, bb) = hc.row_moments(g0, n, x, b)
                if m0 == 0 or ab > 4 * abs(m0):
                    continue
                ow, orf = Fraction(wp[i]), parse_c(r["rfoff"][0][i])
                ok1, a1, b1 = hc.row_fits(n, it, ow, a, bb)
                ok2, _, _ = hc.row_fits(n, it, orf, a1, b1) if ok1 else (False, 0, 0)
                if not (ok1 and ok2):
                    continue
                n0, n1, _, _ = hc.row_moments(g2, n, x, b)
                tol = 32 * n * EPS * (ab / abs(m0))      # <= 16 roundings per cell and kick, lever arm n
                got = n1 / n0 - m1 / m0 if n0 != 0 else None
                lit = t * (x - xc_want) - W[i]            # independent of the implementation's own W, offsets and zero bin
                littol = float(tol) + wtol + 4 * n * 2.0 ** -24
                bad = got is None or abs(got - pred[i]) > tol or abs(float(got) - lit) > littol or abs(n0 - m0) > tol * abs(m0)
                if bad:
                    ctx.violation("impl-oracle", "row-wise mean energy index of row x of bunch b after wake+RF kick does not change by "
                                  "t*(x-xc) - W_b(x), W_b the bunch's own wake potential",
                                  case=c.replay(), observed=dict(bunch=b, row=x, shift=None if got is None else float(got), charge_after=float(n0)),
                                  expected=dict(model=float(pred[i]), literal=lit, tol=littol, charge=float(m0),
                                                literal_with_wake_of_bunch_0=t * (x - xc_want) - W[x]),
                                  sig=dict(sig0, clause="force-law"))
                    stop = True
                    break
                rows += 1
                nontriv = abs(lit) > 10 * littol and abs(W[i]) > 10 * littol
                ctx.case_done(("row", c.cid, b, x), nontriv)
                if b > 0:
                    # a row of a later bunch whose own wake differs from bunch 0's by more than 10 tolerances
                    ctx.case_done(("row-own-wake", c.cid, b, x), nontriv and abs(W[i] - W[x]) > 10 * littol)
            if stop:
                break
    # ---------------------------------------------------------------- oracle: whole grid up to the Fokker-Planck map, every bunch
    # (C05_full_step_energy): energy moment after wake, RF, drift = before + Sum_x pred(b,x)*charge(b,x)
    if "gD" in grids and "gR" in grids and not any(isinstance(v, str) for v in grids["gD"]):
        gr, gd = grids["gR"], grids["gD"]
        for b in range(nb):
            fits = True
            for x in range(n):
                m0, m1, ab, (a, bb) = hc.row_moments(g0, n, x, b)
                if ab == 0:
                    continue
                ok1, a1, b1 = hc.row_fits(n, it, Fraction(wp[b * n + x]), a, bb)
                ok2, _, _ = hc.row_fits(n, it, parse_c(r["rfoff"][0][b * n + x]), a1, b1) if ok1 else (False, 0, 0)
                fits = fits and ok1 and ok2
            for y in range(n):
                col = [gr[(b * n + x) * n + y] for x in range(n)]
                nzi = [x for x, v in enumerate(col) if v != 0]
                if nzi:
                    okc, _, _ = hc.row_fits(n, it, Fraction(fl(r["droff"][0][y])), min(nzi), max(nzi) + 1)
                    fits = fits and okc
            if not fits:
                continue
            blk = slice(b * n * n, (b + 1) * n * n)
            e_before = sum((i % n) * v for i, v in enumerate(g0[blk]))
            e_after = sum((i % n) * v for i, v in enumerate(gd[blk]))
            want = e_before + sum(pred[b * n + x] * hc.row_moments(g0, n, x, b)[0] for x in range(n))
            sabs = sum(abs(v) for v in g0[blk])
            tolg = 64 * n * EPS * sabs       # three maps, <= 16 roundings each, lever arm n
            if abs(e_after - want) > tolg or abs(sum(gd[blk]) - sum(g0[blk])) > 64 * EPS * sabs:
                ctx.violation("impl-oracle", "energy moment of bunch b after wake kick, RF kick and drift is not the one before "
                              "plus Sum_x (t(x-xc)-W_b(x))*charge(b,x), or the bunch's charge changed",
                              case=c.replay(), observed=dict(bunch=b, energy=float(e_after), charge=float(sum(gd[blk]))),
                              expected=dict(energy=float(want), charge=float(sum(g0[blk])), tol=float(tolg)),
                              sig=dict(sig0, clause="full-step-energy"))
                break
            ctx.case_done(("fullstep", c.cid, b), abs(want - e_before) > 10 * tolg)
            ctx.count("full-step-energy" if b == 0 else "full-step-energy:bunch>0")
    # ---------------------------------------------------------------- oracle: drift convention (content moves by -angle*p)
    dro = [fl(v) for v in r["droff"][0]]
    dq, dp = fl(r["axes"][0][0]), fl(r["axes"][0][1])
    yc = fl(r["axes"][0][5])
    for y in range(n):
        e = c.angle * (y - yc) * dp / dq
        if abs(dro[y] - e) > 1e-5 * (abs(e) + 1):
            ctx.violation("impl-oracle", "drift offsets differ from angle*p/dq", case=c.replay(), observed=dict(y=y, off=dro[y]),
                          expected=e, sig=dict(sig0, clause="drift-offset"))
            break
    # ---------------------------------------------------------------- Fokker-Planck map: applied last, not modelled here
    # (its conservation and moment recurrences are C04's; the 4-point stencil leaks charge on the
    # box-shaped test data by far more than e1, so nothing quantitative is demanded here): finite output.
    if "gF" in grids and any(isinstance(v, str) for v in grids["gF"]):
        ctx.violation("impl-oracle", "Fokker-Planck map applied after the drift returns non-finite values",
                      case=c.replay(), observed="nan/inf", expected="finite", sig=dict(sig0, clause="fp-finite", deriv=c.deriv))
    ctx.case_done(("step", c.cid), rows > 0)
    if nb > 1:
        # non-trivial multi-bunch case: the wake of some later bunch differs from bunch 0's by more than 10 wake tolerances
        ctx.case_done(("step-multibunch", c.cid), rows > 0 and max(wdiff[1:]) > 10 * wtol)
        ctx.count("multibunch-wakes-differ" if max(wdiff[1:]) > 10 * wtol else "multibunch-wakes-alike")
    return rows


def r_order_index(r, tag):
    return list(r.keys()).index(tag)


def one_step(ctx, cases, order, dis):
    hc.scale_currents(ctx, cases, order)
    impl = hc.run_impl(ctx, cases, order)
    model = hc.run_model(ctx, cases, impl)
    rows = 0
    for c in cases:
        rows += check_case(ctx, c, impl[c.cid], model[c.cid], model[c.cid + "_sc"], dis)
    return rows


def long_run_failed(ctx, cfg, err):
    """these configurations are weak, stable impedances that reach a stationary state on the pinned tree in the
    allotted number of periods: a run that crashes, times out or ends with a non-positive / non-finite profile
    is reported with the configuration as replay"""
    ctx.violation("impl-oracle", "long run did not end in a positive, finite profile: %s" % (str(err)[:300],),
                  case={"kind": "long-run", "cfg": cfg}, observed=str(err)[:300], expected="stationary state",
                  sig={"stage": "long-run", "what": "run-failed"})


def complete_axioms(ctx, coq):
    """vp_coq.check_props reads `name : type` lines only; Print Assumptions breaks the line after long names
    (sig_forall_dec, functional_extensionality_dep).  Re-read the blocks so that the evidence lists every axiom
    and a name outside the allowed list cannot hide behind a line break."""
    import re
    outf = os.path.join(vp_coq.COQ, "Props", ".Properties_C05.out")
    if not os.path.exists(outf):
        return
    blocks, cur = [], None
    for line in open(outf):
        if line.startswith("Closed under the global context"):
            blocks.append([]); cur = None
        elif line.startswith("Axioms:"):
            cur = []; blocks.append(cur)
        elif cur is not None:
            m = re.match(r"^([A-Za-z_][A-Za-z0-9_.']*)\s*(:|$)", line.rstrip("\n"))
            if m:
                cur.append(m.group(1))
    ths, pas, _ = vp_coq.theorems_in("C05")
    bad = []
    for i, (name, dis, ax) in enumerate(list(ctx.obligations)):
        if name in pas and pas.index(name) < len(blocks):
            full = blocks[pas.index(name)]
            b = [a for a in full if not any(a.startswith(q) or a == q for q in vp_coq.ALLOWED_AXIOMS)]
            bad += b
            ctx.obligations[i] = (name, bool(dis and not b), full)
            for a in full:
                ctx.trusted.add("axiom (Coq standard library): " + a)
    if bad:
        coq["ok"] = False
        coq["props"]["bad_axioms"] = sorted(set(coq["props"].get("bad_axioms", []) + bad))


def explore(ctx):
    """long-run residual of the Haissinski equation and the energy spread on the real binary"""
    import haiss_explore as he
    tg = ctx.build(harness=("impl_haiss", "h5cat"), want_binary=True)
    cfgs = he.quick_configs() if ctx.quick() else he.thorough_configs()
    wd = tempfile.mkdtemp(prefix="c05_", dir=os.path.join(vp_build.CACHE))
    out = []
    try:
        # program level, one short run each: recorded wake = scaling(main's parameters) * c2r(Z * r2c(recorded profile))
        pw = [hc.program_wake_check(ctx, tg, wd, n=32, ohm=500.0, current=2e-3, steps=100),
              hc.program_wake_check(ctx, tg, wd, n=48, ohm=150.0, current=5e-3, steps=400, pqsize=10.0)]
        ctx.extra["program_level_wake"] = pw
        # grids shifted differently in position and energy: recorded axes against the generated extents (square cells, zero
        # bins), and the RF focusing strength in natural units on the second moments of every record (lib/c05_axes.py)
        import c05_axes
        acs = c05_axes.cases(ctx, ctx.quick())
        ctx.extra["program_level_axes"] = dict(cases=len(acs), agreeing=c05_axes.run(ctx, tg, acs, dict(kind="program-axes")))
        if ctx.quick():
            for cfg in cfgs:
                try:
                    rec = he.run_config(tg, cfg, wd, 600)
                    out.append(he.judge(ctx, cfg, rec))
                except (RuntimeError, ArithmeticError, ValueError) as e:
                    long_run_failed(ctx, cfg, e)
        else:
            # thorough: the runs (and the reference runs they need) side by side, judged afterwards
            res = he.run_many(tg, cfgs, wd, 3000, jobs=8, log=ctx.log)
            for cfg in cfgs:
                rec, ref = res.get(he.cfg_name(cfg)), res.get(he.cfg_name(he.reference_config(cfg)))
                if not isinstance(rec, dict) or not isinstance(ref, dict):
                    long_run_failed(ctx, cfg, rec if not isinstance(rec, dict) else ref)
                    continue
                try:
                    out.append(he.judge(ctx, cfg, rec, ref=ref))
                except (RuntimeError, ArithmeticError, ValueError) as e:
                    long_run_failed(ctx, cfg, e)
    finally:
        shutil.rmtree(wd, ignore_errors=True)
    ctx.extra["explored_long_run"] = out


def run(ctx, only=None):
    ctx.rule = ("one-step cases: 60 % single bunch (n 12..24), 40 % with 2 or 3 bunches (n 12..18) set up as main() sets up a filling "
                "pattern: bucket numbers decreasing, 0..2 empty buckets, spacing_bins in [n,2n], unequal filling (shares differ by >= 25 %), "
                "per-bunch blobs of different centre and width, transform length >= max(bucket)*spacing+n (powers of two, odd and other "
                "lengths); it 2..4, single-bunch transform length 32/48/64/128, impedance const (resistive) / resistive wall / tabulated "
                "(resonator-like, non-zero above N/2), steps per period 30..2000, current scaled to a potential-well distortion "
                "max|W|*delta/dtheta in 0.1..1.5; non-trivial row (every bunch): stencils of both kicks inside the grid and |t(x-xc)-W_b| and "
                "|W_b| > 10 tol; row-own-wake: row of a bunch b > 0 whose own wake differs from bunch 0's by > 10 tol; step-multibunch: "
                "multi-bunch case whose wakes differ by > 10 wake tolerances. Long run: see explored_long_run (each bunch of the two-bunch "
                "run judged on its own profile and wake). Program level, shifted grids: 4 (quick) / 8 short runs of the binary with "
                "PhaseSpaceShiftX != PhaseSpaceShiftY (both signs, one axis only, -6..+7 cells), no impedance, no Fokker-Planck term: recorded axes "
                "= generated extents, square cells, zero bins, second moments of every record against the kick-drift recurrence with RF strength "
                "tan(2 pi/N) in natural units; non-trivial: a mesh-width ratio 1+(ShiftY-ShiftX)/(n-1) would move the series by > 20 tolerances. "
                "Long run: two of the quick configurations run on grids shifted -5/+3 and +4/-6 cells.")
    coq = vp_coq.full_check("C05", ctx, fams=("haiss",))
    complete_axioms(ctx, coq)
    dis = []
    order = None
    try:
        order = hc.model_order(ctx)
    except Exception as e:
        ctx.notes.append("extracted model unavailable: %r" % (e,))
    if order is None:
        order = ["W", "R", "D", "F"]
    ctx.extra["step_order_generated"] = order
    cases = only if only is not None else hc.gen_cases(ctx, 36 if ctx.quick() else 600)
    rows = 0
    if vp_coq.model_path("haiss") and os.path.exists(vp_coq.model_path("haiss")):
        for i in range(0, len(cases), 60):
            rows += one_step(ctx, cases[i:i + 60], order, dis)
    ctx.sample(cases[0].describe())
    ctx.sample(cases[1].describe() if len(cases) > 1 else {})
    ctx.extra["rows_checked_against_force_law"] = rows
    ctx.extra["correspondence_disagreements"] = len(dis)
    if only is None:
        explore(ctx)
    ctx.assumptions += [
        "exact-arithmetic model; float rounding carried by the exact stream (offset copy, RF offsets, table indices: bit equality) "
        "and the tolerance stream (grids: 16/40/64 * 2^-24 * max|data| after wake/RF/drift)",
        "rnd32 (Base/Float32.v) trusted, validated by the exact stream",
        "wake reference: double-precision DFT of the padded multi-bunch train built here from the per-bunch projections (bunch b at "
        "bucket_b*spacing) with the implementation's impedance table, read back at every bunch's bucket; "
        "tolerance (4 log2 N + 16) * 2^-24 * scaling * (|L_0| + 2 Sum|L_k|)",
        "the wake potentials are inputs of the force-law model (that they are the convolution read at the bunch's bucket is C06); "
        "RFKickMap::_calcKick and the DriftMap constructor are mirrored by hand, tied by the exact stream on every block",
        "Fokker-Planck map not modelled in this family (C04); only its effect on the global mean energy is checked",
        "PARTIAL: the long-run stationary state is explored on the binary, not proved",
    ]
    # downgrade rule of DESIGN 2.2 for the scaling translator and the update() translator: if one no longer recognises
    # the source but the last-good generated definitions (which the model and the theorems then use) still agree with
    # the implementation on every case - scaling: exactly with the formula and to 4 ulp with getWakeScaling(), and with
    # the recorded wake of the binary; update(): the exact stream (offset vector of nb*n entries bit-equal to
    # wakePotential() and to the model's generated copy, table indices of every block equal) and the grids of
    # multi-bunch cases whose wakes differ (the block rule) - the property is shown through tie 2 and the downgrade is
    # recorded.  (No such fallback for the step order: the API harness applies the maps in the order it is given, so
    # only the translator ties it to main(); none for the index arithmetic of apply().)
    failed = [g for g, s in coq["gen"].items() if s.startswith("failed")]
    mb_ok = any(k[0] == "step-multibunch" for k in ctx.nontrivial if isinstance(k, tuple))
    # axis extents (Gen_Scaling) and Ruler arithmetic (Gen_Ruler): the recorded axes of every shifted-grid run of the binary equal the
    # last-good expressions evaluated for the command line, both axes span PhaseSpaceSize, zero bins at (n-1)/2 + own shift
    ax = ctx.extra.get("program_level_axes") or {}
    ax_ok = ax.get("cases", 0) > 0 and ax.get("agreeing") == ax.get("cases")
    can = {"Gen_WakeScale": True, "Gen_WakeUpdate": mb_ok and rows > 0, "Gen_Scaling": ax_ok, "Gen_Ruler": ax_ok}
    if failed and all(can.get(g, False) for g in failed) and coq["make_ok"] and coq["props"]["ok"] and not coq["forbidden"] \
            and coq["extract_ok"] and not dis and not ctx.violations and ctx.evaluations > 0:
        for g in failed:
            ctx.extra["translators"][g] = "downgraded-to-correspondence (" + coq["gen"][g][:200] + ")"
            ctx.notes.append("%s: translator failed, last-good definitions validated against the implementation on every "
                             "one-step case (exact stream, multi-bunch grids) and against the binary's recorded wake: "
                             "downgraded to tie 2" % g)
        coq = dict(coq, ok=True)
    conclude(ctx, coq, dis)


def replay(ctx, rp):
    case = rp.get("case") or {}
    if case.get("kind") == "step":
        run(ctx, only=[hc.case_from_replay(case)])
    elif case.get("kind") == "program-axes":
        import c05_axes
        coq = vp_coq.full_check("C05", ctx, fams=("haiss",))
        tg = ctx.build(harness=("impl_haiss", "h5cat"), want_binary=True)
        wd = tempfile.mkdtemp(prefix="c05_", dir=os.path.join(vp_build.CACHE))
        try:
            c05_axes.run(ctx, tg, [case], dict(kind="program-axes"))
        finally:
            shutil.rmtree(wd, ignore_errors=True)
        ctx.rule = "replay of one recorded shifted-grid run of the binary"
        conclude(ctx, coq, [])
    elif case.get("kind") == "long-run":
        import haiss_explore as he
        coq = vp_coq.full_check("C05", ctx, fams=("haiss",))
        tg = ctx.build(harness=("impl_haiss", "h5cat"), want_binary=True)
        wd = tempfile.mkdtemp(prefix="c05_", dir=os.path.join(vp_build.CACHE))
        try:
            rec = he.run_config(tg, case["cfg"], wd, 3000)
            ctx.extra["explored_long_run"] = [he.judge(ctx, case["cfg"], rec)]
        finally:
            shutil.rmtree(wd, ignore_errors=True)
        conclude(ctx, coq, [])
    else:
        run(ctx)
