"""C08 - in a multi-bunch run every bunch evolves exactly as it would on its own."""
from fractions import Fraction
from vp_common import *
import vp_coq, kick_cases as kc
import fp_cases as fc


def single_of(c, b):
    n = c.n
    offs = c.offs[b * n:(b + 1) * n] if c.dir == "y" else c.offs[:n]
    s = kc.KickCase("%s_b%d" % (c.cid, b), c.dir, n, 1, c.it, list(offs), c.data[b * n * n:(b + 1) * n * n],
                    c.stream, "slice %d of %s" % (b, c.cid))
    if getattr(c, "fill", None) is not None:
        # probe form: the single-bunch run of the slice under the same conditions (stale caches, pre-filled target, same clamp flag)
        s.fill, s.clamp = [1.0], getattr(c, "clamp", 0)
    return s


def fp_single_of(c, b):
    n = c.n
    return fc.FPCase("%s_b%d" % (c.cid, b), c.dt, c.v, n, 1, c.steps, c.pmin, c.pmax, c.e1,
                     c.data[b * n * n:(b + 1) * n * n], c.stream, "slice %d of %s" % (b, c.cid))


def run_fp(ctx, dis):
    """Fokker-Planck step: slice b of the nb-bunch result vs the single-bunch run of that slice, on the
    implementation (bit-exact: same binary, same arithmetic) and against the model"""
    cases = fc.gen_cases(ctx, 48 if ctx.quick() else 900, nbs=(2, 3), prefix="g")
    singles = [fp_single_of(c, b) for c in cases for b in range(c.nb)]
    res = fc.run_cases(ctx, cases + singles)
    for c in cases:
        d = fc.compare_case(c, res[c.cid])
        if d:
            dis.append(dict(case=c.replay(), detail=d[:3], sig=dict(kind="fp", stage="correspondence", dt=c.dt, multibunch=True)))
        n = c.n
        for b in range(c.nb):
            s = res["%s_b%d" % (c.cid, b)]
            sl = res[c.cid]["impl_out"][b * n * n:(b + 1) * n * n]
            if sl != s["impl_out"]:
                k = next(i for i in range(n * n) if sl[i] != s["impl_out"][i])
                ctx.violation("impl-oracle", "bunch %d of a %d-bunch Fokker-Planck step differs from the single-bunch step of the same data" % (b, c.nb),
                              case=c.replay(), observed=dict(cell=k, multi=str(sl[k]), single=str(s["impl_out"][k])),
                              sig=dict(kind="fp", clause="slice", dt=c.dt, b_ge1=b >= 1))
            if res[c.cid]["impl_table"] != s["impl_table"]:
                ctx.violation("impl-oracle", "the stencil table of a %d-bunch Fokker-Planck map differs from the single-bunch table" % c.nb,
                              case=c.replay(), sig=dict(kind="fp", clause="table", dt=c.dt))
            nz = any(x != 0 for x in c.data[b * n * n:(b + 1) * n * n])
            ctx.case_done((c.cid, b), b >= 1 and nz and c.v != 0)
    ctx.sample(cases[0].describe())


def run(ctx):
    ctx.rule = ("multi-bunch kick cases (nb 2..3, per-bunch offset fields for the y kick, both directions, it 1..4, all streams): "
                "slice b of the nb-bunch result of the implementation vs the implementation's single-bunch run on that slice "
                "(bit-exact) and vs the model. Non-trivial: bunch b>=1 with non-zero data and a non-zero offset field. "
                "Probe stream (harness command kickp): nb 2..4 bunches with different data, filling patterns with and without empty buckets, stale caches, "
                "pre-filled target, clamp flag of the constructor on in two thirds of the cases - same oracles (the CPU kick reads no clamp flag: "
                "C08_kick_apply_reads_no_clamp, so the clamped run must equal the model and the single-bunch slices).")
    ctx.rule += (" fp cases: nb 2..3, both stencils, four variants, 1..3 applications: slice b vs the single-bunch run "
                 "(bit-exact on the implementation), tables equal, and vs the model. Non-trivial: b>=1, non-zero data, variant != none."
                 " rf cases: RF (linear, sinusoidal) and drift offset vectors of nb 2..3 maps block by block (hand-written model and the model generated from RFKickMap.cpp / DriftMap.cpp, Gen_RFDrift), multi-bunch RF+drift iteration vs the single-bunch run of every slice (bit-exact).")
    ctx.rule += (" run cases (family run): nb 2..4 bunches, 1..5 full steps in main()'s order at API level (WakePotentialMap on a real ElectricField "
                 "with bucket patterns incl. gaps | Identity; RF kick; drift; Fokker-Planck both stencils | Identity): offset vector after update() = "
                 "wake potential; slice b after every step vs the single-bunch run of that slice kicked by bunch b's own potential (bit-exact); identical "
                 "bunches; empty bucket stays empty and is inert; extracted run model vs implementation (tolerance 16*2^-24 per map times the tables' gains). "
                 "identity map: copy per bunch, model exact. program level: inovesa binary, -G 0, 2 or 4 equal bunches with and without empty buckets vs the "
                 "single-bunch run: per-bunch /BunchLength /EnergySpread /BunchPosition /EnergyAverage equal and /PhaseSpace = share * single, bit for bit.")
    coq = vp_coq.full_check("C08", ctx, fams=("kick", "fp", "rf", "run"))
    nk = 60 if ctx.quick() else 1500
    cases = kc.gen_cases(ctx, nk, nbs=(2, 3), sizes=list(range(4, 25)))
    # (family st3kick) probe stream: bunches with DIFFERENT data, filling patterns with empty buckets over explicit data, stale caches,
    # pre-filled target, and the clamp flag of the constructor set in two thirds of the cases (the CPU kick ignores it:
    # C08_kick_apply_reads_no_clamp; a clamp implemented with another bunch's data shows in the slice oracle)
    cases += kc.with_rng(ctx, 105, kc.probe_cases, ctx, 30 if ctx.quick() else 500, nbs=(2, 3, 4), clamps=(1, 0, 1))
    singles = []
    for c in cases:
        for b in range(c.nb):
            singles.append(single_of(c, b))
    res = kc.run_cases(ctx, cases + singles)
    dis = []
    for c in cases:
        d = kc.compare_case(c, res[c.cid])
        if d:
            dis.append(dict(case=c.replay(), detail=d[:3], sig=dict(kind="kick", stage="correspondence", dir=c.dir, multibunch=True)))
        n = c.n
        for b in range(c.nb):
            s = res["%s_b%d" % (c.cid, b)]
            sl = res[c.cid]["impl_out"][b * n * n:(b + 1) * n * n]
            # rows whose offset makes the float->unsigned conversion undefined are excluded (C17)
            undefined = not all(res[c.cid]["defined"])
            if sl != s["impl_out"] and not undefined:
                k = next(i for i in range(n * n) if sl[i] != s["impl_out"][i])
                ctx.violation("impl-oracle", "bunch %d of a %d-bunch kick differs from the single-bunch kick of the same data" % (b, c.nb),
                              case=c.replay(), observed=dict(cell=k, multi=str(sl[k]), single=str(s["impl_out"][k])),
                              sig=dict(kind="kick", clause="slice", dir=c.dir, it_gt1=c.it > 1, b_ge1=b >= 1))
            nz = any(v != 0 for v in c.data[b * n * n:(b + 1) * n * n]) and any(o != 0 for o in c.offs)
            ctx.case_done((c.cid, b), b >= 1 and nz and not undefined)
        kc.oracle_cache_independent(ctx, c, res[c.cid])
    ctx.sample(cases[0].describe())
    run_fp(ctx, dis)
    # RF kick and drift constructors: every bunch's block of the offset vector, multi-bunch iteration vs single-bunch
    import rf_cases
    dis += rf_cases.c08_rf_subcheck(ctx)
    # run level (family run): composed steps with the wake kick, identity map, program level
    import run_cases, ident_cases
    dis += run_cases.c08_run_subcheck(ctx)
    dis += ident_cases.ident_subcheck(ctx, "C08")
    dis += run_cases.c08_program_subcheck(ctx)
    ctx.extra["correspondence_disagreements"] = len(dis)
    # downgrade rule of DESIGN 2.2 for the offset-field translator (family rfgen): see lib/props/C03.py; here the rf sub-check
    # has compared every block of both offset vectors with the hand-written and with the last-good generated model
    failed = [g for g, st in coq["gen"].items() if st.startswith("failed")]
    if failed == ["Gen_RFDrift"] and coq["make_ok"] and coq["props"]["ok"] and not coq["forbidden"] and coq["extract_ok"] \
            and not dis and not ctx.violations and ctx.evaluations > 0:
        ctx.extra["translators"]["Gen_RFDrift"] = "downgraded-to-correspondence (" + coq["gen"]["Gen_RFDrift"][:200] + ")"
        ctx.notes.append("Gen_RFDrift: translator failed; the last-good generated offset fields and the hand-written model agree with the "
                         "implementation on every block of every case of this run and every oracle holds: downgraded to tie 2")
        coq = dict(coq, ok=True)
    coq = kc.kickloop_downgrade(ctx, coq, dis, kc.probes_evaluated(ctx) >= 20,
                                "slice b of every multi-bunch kick (plain and probe stream: different bunches, empty-bucket patterns, stale caches, pre-filled "
                                "target, clamp flag on and off) bit-identical to the single-bunch kick of that slice and equal to the model")
    ctx.assumptions += ["kick maps (KickMap::apply both directions), the Fokker-Planck map, the RF/drift constructors' per-bunch offset blocks, "
                        "WakePotentialMap::update's copy and the run of any number of steps in main()'s order (exact-arithmetic model; wake potentials are "
                        "inputs of the run model: what the field computes for a bunch is C06); renormalisation between steps is C09's per-bunch statement "
                        "and is exercised here at program level only"]
    conclude(ctx, coq, dis)


def replay(ctx, rp):
    run(ctx)
