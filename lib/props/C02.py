"""C02 - whole-cell shifts are lossless; fractional shifts reproduce polynomials."""
from fractions import Fraction
from vp_common import *
import vp_coq, kick_cases as kc
import round_cases as rnd


def poly_cases(ctx, count):
    """data = P(t) along the kick direction on the full grid, deg P < it"""
    rng = ctx.rng
    import random
    frng = random.Random(ctx.seed * 1000003 + 105)      # own PRNG: the far cases do not shift the draws of the older streams
    cases = []
    for i in range(count):
        n = rng.choice(range(8, 26))
        it = rng.choice([1, 2, 3, 4])
        d = rng.choice(["x", "y"])
        nb = rng.choice([1, 2])
        exact = it < 4 and rng.random() < 0.6
        deg = rng.randint(0, it - 1)
        coef = [rng.randint(-3, 3) for _ in range(deg + 1)]
        if exact:
            o = rng.randint(-2, 2) + rng.randint(0, 15) / 16.0
        else:
            o = f32(rng.uniform(-3, 3))
        if i % 5 == 4:
            # far offsets: the integer part of n/2+offset is 0, 1 (stencil leaving the table at the bottom) or size-2, size-1, size
            # (top; guard's upper edge) - cells whose whole stencil READS inside the grid exist there too
            jd = frng.choice([0, 1, n - 2, n - 1, n])
            o = float(jd - n // 2) + frng.randint(1, 15) / 16.0
        data = [0.0] * (nb * n * n)
        for b in range(nb):
            for x in range(n):
                for y in range(n):
                    t = y if d == "y" else x
                    data[b * n * n + x * n + y] = float(sum(c * t ** k for k, c in enumerate(coef)))
        c = kc.KickCase("p%d" % i, d, n, nb, it, [o] * (n * nb), data, "exact" if exact else "tol", "poly")
        c.coef = coef
        cases.append(c)
        ctx.count("poly:it%d:deg%d" % (it, deg))
    return cases


def ulp_poly_cases(ctx, count):
    """polynomial fields displaced by an offset 1..3 ulp below / above a whole number (ulp of the float sum n/2+offset and
    ulp of the offset itself) or by a tiny offset: integer and fractional part must come from the same rounded sum, else
    the row is displaced by one cell too much"""
    rng = ctx.rng
    cases = []
    for i in range(count):
        n = rng.choice(range(8, 26))
        it = 2 + i % 3
        d = rng.choice(["x", "y"])
        nb = rng.choice([1, 2])
        deg = rng.randint(1, it - 1)
        coef = [rng.randint(-3, 3) for _ in range(deg)] + [rng.choice([-3, -2, -1, 1, 2, 3])]
        cand = kc.ulp_candidates(n)
        o, tag = cand[(i * 7 + rng.randint(0, 6)) % len(cand)]
        data = [0.0] * (nb * n * n)
        for b in range(nb):
            for x in range(n):
                for y in range(n):
                    t = y if d == "y" else x
                    data[b * n * n + x * n + y] = float(sum(c_ * t ** k for k, c_ in enumerate(coef)))
        c = kc.KickCase("v%d" % i, d, n, nb, it, [o] * (n * nb), data, "tol", "poly-ulp:" + tag)
        c.coef = coef
        cases.append(c)
        ctx.count("poly:ulp:" + tag[:3])
    return cases


def oracle_whole(ctx, c, r):
    """integer offsets that fit the grid: output == input moved, bit for bit"""
    n, nb = c.n, c.nb
    bad = 0
    for b in range(nb):
        for k in range(n):
            o = Fraction(c.row_offset(b, k))
            if o.denominator != 1:
                continue
            m = int(o)
            if not (0 <= n // 2 + m < n):
                continue
            row = c.row(b, k)
            for t in range(n):
                idx = b * n * n + (k * n + t if c.dir == "y" else t * n + k)
                exp = row[t + m] if 0 <= t + m < n else Fraction(0)
                got = r["impl_out"][idx]
                if got != exp:
                    ctx.violation("impl-oracle", "whole-cell shift by %d cells does not return the moved input" % m,
                                  case=c.replay(), observed=dict(b=b, row=k, cell=t, value=str(got)),
                                  expected=str(exp), sig=dict(kind="kick", clause="whole-shift", dir=c.dir,
                                                              multibunch=nb > 1))
                    bad += 1
                    if bad > 2:
                        return False
            ctx.case_done(("whole", c.cid, b, k), m != 0 and any(v != 0 for v in row))
    return bad == 0


def oracle_poly(ctx, c, r):
    """polynomial reproduction at every cell whose whole stencil reads inside the grid.  Where the table row has lost stencil
    points (open finding kick-stencil-out-of-table-range, mirrored by the model) the value the KNOWN defect produces is the
    model's; a value that differs from both the polynomial and the model is a different defect (sig as_modelled=False does
    not match the listed finding) and is preferred when reporting."""
    n, nb, it = c.n, c.nb, c.it
    o = Fraction(c.offs[0])
    jd, f = kc.split(n, o)
    cen = kc.centre(it)
    P = lambda t: sum(Fraction(co) * t ** k for k, co in enumerate(c.coef))
    shift = jd - n // 2
    out_of_table = not (0 <= jd - cen and jd + it - 1 - cen < n)
    listed = None
    for b in range(nb):
        for k in range(n):
            for t in range(n):
                # interior: the whole stencil reads inside the grid
                if not (0 <= t + shift - cen and t + shift + (it - 1) - cen < n):
                    continue
                idx = b * n * n + (k * n + t if c.dir == "y" else t * n + k)
                got = r["impl_out"][idx]
                exp = P(Fraction(t) + shift + f)
                scale = sum(abs(Fraction(co)) * (abs(Fraction(t)) + abs(shift) + 2) ** kk for kk, co in enumerate(c.coef))
                tol = 0 if c.stream == "exact" else Fraction(32, 2 ** 24) * max(scale, 1)
                if isinstance(got, str) or abs(got - exp) > tol:
                    # the table row itself may have lost stencil points: updateSM drops every point whose TABLE index
                    # jd + j - c leaves [0,n) (the open finding recorded under C01), although the cell it would read is inside
                    as_modelled = not isinstance(got, str) and abs(got - r["model_out"][idx]) <= tol
                    v = dict(case=dict(c.replay(), coef=c.coef), observed=dict(b=b, row=k, cell=t, value=str(got)), expected=str(exp),
                             sig=dict(kind="kick", clause="poly", stencil_out_of_table_range=out_of_table, as_modelled=as_modelled))
                    if out_of_table and as_modelled:
                        listed = listed or v
                        continue
                    ctx.violation("impl-oracle", "polynomial of degree %d not reproduced by the %d-point scheme" % (len(c.coef) - 1, it), **v)
                    return False
    if listed:
        ctx.violation("impl-oracle", "polynomial of degree %d not reproduced by the %d-point scheme" % (len(c.coef) - 1, it), **listed)
        return False
    ctx.case_done(("poly", c.cid), len(c.coef) > 1 and f != 0)
    return True


def coeff_cases(ctx, count):
    rng = ctx.rng
    fs = [0.0, 0.5, f32(1 - 2 ** -24), f32(2 ** -24), 0.25, 0.75]
    while len(fs) < count:
        c = rng.random()
        if c < 0.5:
            fs.append(f32(rng.random()))
        elif c < 0.75:
            fs.append(rng.randint(0, 255) / 256.0)
        else:
            fs.append(f32(rng.random() * 2.0 ** -rng.randint(1, 20)))
    return fs


def run_coeffs(ctx, fs):
    tg = ctx.build()
    itext = "".join("coeffs c%d %d %d %s\n" % (it, it, len(fs), " ".join(fhex(f) for f in fs)) for it in (1, 2, 3, 4))
    mtext = "".join("coeffs c%d %d %d %s\n" % (it, it, len(fs), " ".join(qtok(Fraction(f)) for f in fs)) for it in (1, 2, 3, 4))
    rc, out, err = run_driver(tg["impl_kick"], itext)
    if rc != 0:
        raise RuntimeError("impl_driver: " + err[-500:])
    impl = parse_cases(out)
    rc, out, err = run_driver(model_driver_path(), mtext)
    if rc != 0:
        raise RuntimeError("model_driver: " + err[-500:])
    model = parse_cases(out)
    dis = []
    ratio = 0.0
    for it in (1, 2, 3, 4):
        iw, mw = impl["c%d" % it]["w"], model["c%d" % it]["w"]
        # the binary32 evaluation the typed trees (Gen_CoeffsFl) prescribe, on rationals: the implementation's weights must be
        # exactly the unfused or the contracted evaluation (the harness build does not contract; the theorems cover both)
        nfl = min(len(fs), 4000)          # the extracted evaluator takes 4 ms per cubic offset: first 4000 samples (thorough: 40000)
        flw = rnd.fl_weights(it, fs[:nfl])
        for k, f in enumerate(fs):
            wi = [parse_c(t) for t in iw[k]]
            wm = [parse_q(t) for t in mw[k]]
            if k < nfl and wi != flw[k][0] and wi != flw[k][1]:
                dis.append(dict(case=dict(kind="coeffs", it=it, f=fhex(f)),
                                detail=dict(impl=[str(x) for x in wi], typed_tree_binary32=[str(x) for x in flw[k][0]],
                                            what="weights differ from the binary32 evaluation of the typed expression trees"),
                                sig=dict(kind="coeffs", it=it, stream="bit-exact")))
            # the PROVED envelope (C02_cell_table_sound, C02_weights_unity_rounded): per weight, unity, moments below the order
            bad = rnd.check_weights(it, f, wi, wm)
            E = rnd.weight_bounds(it, f)
            if not any(isinstance(a, str) for a in wi) and sum(E) > 0:
                ratio = max(ratio, float(abs(sum(wi) - 1) / sum(E)))
            if "each" in bad:
                dis.append(dict(case=dict(kind="coeffs", it=it, f=fhex(f)),
                                detail=dict(impl=[str(x) for x in wi], model=[str(x) for x in wm], weight=bad["each"][0],
                                            proved_bound=bad["each"][2]),
                                sig=dict(kind="coeffs", it=it)))
            # oracle: unity and unit-at-zero on the implementation
            if "unity" in bad:
                ctx.violation("impl-oracle", "interpolation weights do not sum to one within the proved rounding envelope",
                              case=dict(kind="coeffs", it=it, f=fhex(f)),
                              observed=bad["unity"][0], expected="|sum - 1| <= %s (C02_cell_table_sound)" % bad["unity"][1],
                              sig=dict(kind="coeffs", clause="unity", it=it))
            if "moment" in bad:
                ctx.violation("impl-oracle", "n-point weights do not reproduce a monomial of degree below n within the proved rounding envelope",
                              case=dict(kind="coeffs", it=it, f=fhex(f)),
                              observed=dict(degree=bad["moment"][0], error=bad["moment"][1]), expected="<= %s" % bad["moment"][2],
                              sig=dict(kind="coeffs", clause="moments", it=it))
            if f == 0.0:
                unit = [Fraction(1) if j == kc.centre(it) else Fraction(0) for j in range(it)]
                if wi != unit:
                    ctx.violation("impl-oracle", "weights at offset zero are not a single unit weight", case=dict(kind="coeffs", it=it, f=fhex(f)),
                                  observed=[str(x) for x in wi], expected=[str(x) for x in unit], sig=dict(kind="coeffs", clause="unit-at-zero", it=it))
            ctx.case_done(("coeffs", it, f), it > 1 and f != 0)
    ctx.extra["unity_error_over_proved_bound_max"] = ratio
    return dis



# ------------------------------------------------------------------ RotationMap (genHInfo / apply / constructor)

class RotCase:
    """RotationMap(in, out, xs, ys, angle, it, clamp, rms) on an n x n phase space; data[i0*ys+j0] is the field value at (i0, j0)"""
    def __init__(self, cid, n, xs, ys, it, rms, clamp, angle, ext, data, coef, aim=""):
        self.cid, self.n, self.xs, self.ys, self.it, self.rms, self.clamp = cid, n, xs, ys, it, rms, clamp
        self.angle, self.ext, self.data, self.coef, self.aim = angle, ext, data, coef, aim

    def impl_text(self):
        return "rotg %s %d %d %d %d %d %d %s %s %s\n" % (self.cid, self.n, self.xs, self.ys, self.it, self.rms, 1 if self.clamp else 0,
                                                     fhex(self.angle), " ".join(fhex(e) for e in self.ext), " ".join(fhex(v) for v in self.data))

    def replay(self):
        return dict(kind="rot", n=self.n, xs=self.xs, ys=self.ys, it=self.it, rotmapsize=self.rms, clamp=self.clamp, angle=fhex(self.angle),
                    ext=[fhex(e) for e in self.ext], coef=self.coef, aim=self.aim,
                    data=[fhex(v) for v in self.data] if self.coef is None else "polynomial")


def rot_cases(ctx, count):
    """aimed at the case splits of genHInfo / apply / the constructor: angle 0 (identity), +-pi/2 and pi (whole-cell maps when the
    extents are symmetric), small and random angles (cells whose stencil leaves the grid, cells whose origin leaves it), it = 1..4,
    precomputed table and on-the-fly map, clamp on (cubic + table; data with overshoot: isolated peaks, signed data, all-zero
    neighbourhoods), refused clamp configurations, sizes xs != ys (the constructor takes them separately), shifted extents"""
    rng = ctx.rng
    import math
    cases = []
    angles = [0.0, math.pi / 2, -math.pi / 2, math.pi, 0.05, -0.05, 0.2, -0.3]
    for i in range(count):
        it = rng.choice([1, 2, 3, 4, 4])
        sq = rng.random() < 0.6
        xs = rng.choice(range(6, 15))
        ys = xs if sq else rng.choice([y for y in range(5, 15) if y != xs])
        n = max(xs, ys)
        table = rng.random() < 0.65
        rms = xs * ys if table else 0
        clamp = False
        aim = []
        r = rng.random()
        if it == 4 and table and r < 0.6:
            clamp = True
            aim.append("clamp")
        elif r > 0.93:
            clamp = True                      # refused by the constructor unless cubic with a table
            aim.append("clamp-refused" if not (it == 4 and table) else "clamp")
        angle = f32(rng.choice(angles + [rng.uniform(-1.5, 1.5), rng.uniform(0.01, 0.4)]))
        ext = rng.choice([(-6.0, 6.0, -6.0, 6.0), (-6.0, 6.0, -6.0, 6.0), (-5.0, 7.0, -6.0, 6.0), (-4.0, 4.0, -3.0, 5.0), (-6.0, 6.0, -8.0, 4.0)])
        data = [0.0] * (n * n)
        coef = None
        if clamp or rng.random() < 0.4:
            kind = rng.choice(["peaks", "signed", "dense"])
            for g in range(xs * ys):
                if kind == "peaks":
                    data[g] = float(rng.randint(1, 8)) if rng.random() < 0.12 else 0.0
                elif kind == "signed":
                    data[g] = float(rng.randint(-8, 8)) if rng.random() < 0.6 else 0.0
                else:
                    data[g] = float(rng.randint(0, 8))
            aim.append(kind)
        else:
            coef = [[rng.randint(-2, 2) for _ in range(it)] for _ in range(it)]     # coef[k][l] x^k y^l
            for x in range(xs):
                for y in range(ys):
                    data[x * ys + y] = float(sum(coef[k][l] * x ** k * y ** l for k in range(it) for l in range(it)))
        if not sq:
            aim.append("rect")
        cases.append(RotCase("r%d" % i, n, xs, ys, it, rms, clamp, angle, ext, data, coef, ",".join(aim)))
        ctx.count("rot:it%d" % it)
        ctx.count("rot:%s" % ("table" if table else "onthefly"))
        if clamp:
            ctx.count("rot:clamp")
        if not sq:
            ctx.count("rot:rect")
    return cases


def run_rot(ctx, cases):
    """RotationMap through the implementation; the model ASSEMBLED FROM THE GENERATED DEFINITIONS (Model/RotationGen.v over
    Gen_Rotation.v) and the hand-written model (Model/Rotation.v) on the implementation's own (cos, sin, axes).  Members, refusals
    and table indices exact; weights and outputs in tolerance; generated and hand-written model identical.  Oracles on the
    implementation: every table index inside the grid, weights of a fully interior grid point sum to one, polynomial fields
    x^k y^l (k,l < it) reproduced at the rotated coordinate of every fully interior point (unclamped maps)."""
    import math
    tg = ctx.build()
    rc, out, err = run_driver(tg["impl_kick"], "".join(c.impl_text() for c in cases))
    if rc != 0:
        # the implementation died on one of the cases (the maps are constructed with the table size their constructor documents,
        # rotmapsize = xs*ys or 0): find it and report it as what it is
        for c in cases:
            rc1, out1, err1 = run_driver(tg["impl_kick"], c.impl_text())
            if rc1 != 0:
                ctx.violation("impl-oracle", "RotationMap constructor/apply terminates abnormally (exit status %d: a negative value is the signal, "
                              "-11 = invalid memory access) on a configuration its constructor accepts" % rc1, case=c.replay(),
                              observed=dict(status=rc1, stderr=err1[-300:]), expected="table written and read inside _hinfo",
                              sig=dict(kind="rot", clause="memory"))
                return [dict(case=c.replay(), detail=dict(what="implementation crashed", status=rc1), sig=dict(kind="rot", stage="correspondence", what="crash"))]
        raise RuntimeError("impl_kick (rot) failed rc=%d on the whole case set but on no single case: %s" % (rc, err[-1500:]))
    impl = parse_cases(out)
    mtext = []
    live = []
    dis = []
    for c in cases:
        r = impl[c.cid]
        refused = bool(c.clamp and not (c.it == 4 and c.rms > 0))      # what the model's generated refusal test must say too
        thrown = r["thrown"][0][0] == "1"
        if thrown:
            # the model side of a refused configuration needs no axes: members only (dummy parameters)
            one, zero = qtok(Fraction(1)), qtok(Fraction(0))
            mtext.append("rotg %s %d %d %d %d %d 0 %s %s %s\n" % (c.cid, c.xs, c.ys, c.it, c.rms, 1 if c.clamp else 0,
                                                                 " ".join([one, zero, one, one, zero, zero]), " ".join([zero] * c.xs), " ".join([zero] * c.ys)))
            continue
        live.append(c)
        par = [parse_c(t) for t in r["par"][0]]
        ax = [parse_c(t) for t in r["ax"][0]]
        ay = [parse_c(t) for t in r["ay"][0]]
        mtext.append("rotg %s %d %d %d %d %d %d %s %s %s %s\n" % (c.cid, c.xs, c.ys, c.it, c.rms, 1 if c.clamp else 0, len(c.data),
                                                              " ".join(qtok(v) for v in par), " ".join(qtok(v) for v in ax),
                                                              " ".join(qtok(v) for v in ay), " ".join(qtok(Fraction(v)) for v in c.data)))
    rc, out, err = run_driver(model_driver_path("rot"), "".join(mtext))
    if rc != 0:
        raise RuntimeError("model_rot failed rc=%d: %s" % (rc, err[-1500:]))
    model = parse_cases(out)
    for c in cases:
        r, m = impl[c.cid], model[c.cid]
        mm = [int(t, 16) for t in m["members"][0]]
        thrown = r["thrown"][0][0] == "1"
        if thrown != (mm[6] == 1):
            dis.append(dict(case=c.replay(), detail=dict(impl_throws=thrown, generated_refusal_test=mm[6] == 1),
                            sig=dict(kind="rot", stage="correspondence", what="refusal")))
            continue
        if thrown:
            ctx.count("rot:refused")
            ctx.evaluations += 1
            continue
        im = [int(t) for t in r["members"][0]]
        if im != mm[:6]:
            dis.append(dict(case=c.replay(), detail=dict(impl_members=im, generated_members=mm[:6],
                                                         order="xsize ysize it ip rotmapsize clamp"),
                            sig=dict(kind="rot", stage="correspondence", what="members")))
            continue
        xs, ys, it = c.xs, c.ys, c.it
        ip = it * it
        ncell = xs * ys
        defined = [t == "1" for t in m["defined"][0]]
        mt = m["table"][0]
        mtab = [(int(mt[k], 16), parse_q(mt[k + 1])) for k in range(0, len(mt), 2)]
        ht = m["htable"][0]
        htab = [(int(ht[k], 16), parse_q(ht[k + 1])) for k in range(0, len(ht), 2)]
        mo = m["out"][0]
        mcell = [int(mo[k], 16) for k in range(0, len(mo), 2)]
        mout = [parse_q(mo[k + 1]) for k in range(0, len(mo), 2)]
        hout = [parse_q(t) for t in m["hout"][0]]
        iout = [parse_c(t) for t in r["out"][0]]
        itab = None
        if c.rms:
            tt = r["table"][0]
            itab = [(int(tt[k]), parse_c(tt[k + 1])) for k in range(0, len(tt), 2)]
        par = [parse_c(t) for t in r["par"][0]]
        ax = [parse_c(t) for t in r["ax"][0]]
        ay = [parse_c(t) for t in r["ay"][0]]
        cs, sn, d0, d1, z0, z1 = [float(v) for v in par]
        cdis = False
        if mcell != list(range(ncell)) or len(mout) != ncell:
            dis.append(dict(case=c.replay(), detail=dict(what="the generated apply does not write cells 0..xs*ys-1 in order", cells=mcell[:8]),
                            sig=dict(kind="rot", stage="correspondence", what="cells")))
            continue
        for g in range(ncell):
            if not defined[g]:
                continue          # float -> unsigned conversion outside (-1, 2^32): undefined behaviour (C17)
            ent = mtab[g * ip:(g + 1) * ip]
            # generated model == hand-written model (theorem C02_rot_generated_is_model, here on this run's inputs)
            if ent != htab[g * ip:(g + 1) * ip] or mout[g] != hout[g]:
                if not cdis:
                    dis.append(dict(case=c.replay(), detail=dict(point=g, what="generated and hand-written model differ",
                                                                 generated=[[i, str(w)] for i, w in ent][:4], hand=[[i, str(w)] for i, w in htab[g * ip:(g + 1) * ip]][:4],
                                                                 out=[str(mout[g]), str(hout[g])]),
                                    sig=dict(kind="rot", stage="correspondence", what="generated-vs-hand")))
                cdis = True
            if itab is not None:
                for j in range(ip):
                    (ii, iw), (mi, mw) = itab[g * ip + j], ent[j]
                    if isinstance(iw, str) or ii != mi or abs(iw - mw) > Fraction(24, 2 ** 24) * max(1, abs(mw)):
                        if not cdis:
                            dis.append(dict(case=c.replay(), detail=dict(point=g, j=j, impl=[ii, str(iw)], model=[mi, str(mw)]),
                                            sig=dict(kind="rot", stage="correspondence", what="table")))
                        cdis = True
                        break
                # oracle (C17 flavour): every index the table holds addresses the xs*ys grid
                worst = max(i for i, _ in itab[g * ip:(g + 1) * ip])
                if worst >= ncell:
                    ctx.violation("impl-oracle", "RotationMap table entry points outside the grid", case=c.replay(),
                                  observed=dict(point=g, index=worst), expected="< %d" % ncell, sig=dict(kind="rot", clause="index-range"))
                    cdis = True
            cond = sum(abs(w) * abs(Fraction(c.data[idx])) for idx, w in ent)
            # the float weights carry an ABSOLUTE error of a few 2^-24 (1 - f*f for f near 1 cancels: relative to the
            # weight the error is unbounded), and each is multiplied by its data value: 16*2^-24*Sum|data_j| over the
            # stencil in addition to the relative part (the clamp is 1-Lipschitz in the interpolated value: same tolerance)
            cond2 = sum(abs(Fraction(c.data[idx])) for idx, w in ent if not (idx == 0 and w == 0))
            tol = Fraction(48, 2 ** 24) * max(cond, 1) + Fraction(16, 2 ** 24) * cond2
            if isinstance(iout[g], str) or abs(iout[g] - mout[g]) > tol:
                if not cdis:
                    dis.append(dict(case=c.replay(), detail=dict(point=g, impl=str(iout[g]), model=str(mout[g]), tol=str(tol)),
                                    sig=dict(kind="rot", stage="correspondence", what="out")))
                cdis = True
            if c.clamp:
                ctx.case_done(("rot-clamp", c.cid, g), mout[g] != sum(Fraction(c.data[idx]) * w for idx, w in ent))
            # ---- oracles on the implementation (fully interior stencil only)
            x0, y0 = divmod(g, ys)
            x1r = f32(f32(f32(f32(cs * float(ax[x0])) - f32(sn * float(ay[y0]))) / d0) + z0)
            y1r = f32(f32(f32(f32(sn * float(ax[x0])) + f32(cs * float(ay[y0]))) / d1) + z1)
            x1, y1 = math.floor(x1r), math.floor(y1r)
            cen = kc.centre(it)
            interior = (0 <= x1 - cen and x1 + it - 1 - cen < xs and 0 <= y1 - cen and y1 + it - 1 - cen < ys)
            if not interior:
                ctx.count("rot:edge-cell")
                continue
            if itab is not None:
                sw = sum(w for _, w in itab[g * ip:(g + 1) * ip])
                if abs(sw - 1) > Fraction(64, 2 ** 24):
                    ctx.violation("impl-oracle", "rotation weights of an interior grid point do not sum to one", case=c.replay(),
                                  observed=dict(point=g, sum=str(sw)), expected="1 +- 64*2^-24", sig=dict(kind="rot", clause="unity", it=it))
                    break
            if c.coef is not None and not c.clamp:
                X, Y = Fraction(x1r), Fraction(y1r)
                exp = sum(c.coef[k][l] * X ** k * Y ** l for k in range(it) for l in range(it))
                scale = sum(abs(c.coef[k][l]) * (abs(X) + 2) ** k * (abs(Y) + 2) ** l for k in range(it) for l in range(it))
                if isinstance(iout[g], str) or abs(iout[g] - exp) > Fraction(96, 2 ** 24) * max(scale, 1):
                    ctx.violation("impl-oracle", "polynomial field x^k y^l (k,l < %d) not reproduced at the rotated coordinate" % it,
                                  case=c.replay(), observed=dict(point=g, value=str(iout[g])), expected=str(exp),
                                  sig=dict(kind="rot", clause="poly", it=it))
                    break
                ctx.case_done(("rot", c.cid, g), it > 1 and c.angle != 0)
        ctx.evaluations += 1
    return dis


def run_sweep(ctx, stride=1, threads=6):
    """EVERY stride-th binary32 value in [0,1) x it=1..4 through the real calcCoefficiants, checked against the PROVED per-cell
    bounds (C02_cell_table_sound: 2^10 cells, computed by the extracted verified calculator on the typed trees of this run):
    each weight against the Lagrange weight, the sum against one, the moments below the order.  stride=1 (thorough tier) is the
    exhaustive enumeration of that finite domain.  The C++ side pre-selects in double; every suspect is decided here exactly."""
    tg = ctx.build(harness=("impl_kick", "impl_round"))
    one = 0x3f800000
    text = []
    for it in (1, 2, 3, 4):
        tab = rnd.errtab_units(it)
        text.append("coeffsweepb s%d %d %d %d 0 %d %d %s\n" % (it, it, threads, rnd.K_TABLE, one, stride,
                                                               " ".join("%x" % e for row in tab for e in row)))
    rc, out, err = run_driver(tg["impl_round"], "".join(text), timeout=3000)
    if rc != 0:
        raise RuntimeError("coeffsweepb failed: " + err[-500:])
    r = parse_cases(out)
    tot = 0
    for it in (1, 2, 3, 4):
        c = r["s%d" % it]
        n = int(c["n"][0][0])
        tot += n
        if n != (one + stride - 1) // stride:
            raise RuntimeError("sweep did not cover the requested floats in [0,1)")
        sus = [float.fromhex(t) for t in c["suspects"][0]] if c["suspects"][0] else []
        nsus = int(c["nsus"][0][0])
        found = False
        if sus:
            # exact decision on the suspects (rational arithmetic; exact weights from the extracted exact model)
            mtext = "coeffs c %d %d %s\n" % (it, len(sus), " ".join(qtok(Fraction(f)) for f in sus))
            itext = "coeffs c %d %d %s\n" % (it, len(sus), " ".join(fhex(f) for f in sus))
            rc1, o1, e1 = run_driver(tg["impl_kick"], itext)
            rc2, o2, e2 = run_driver(model_driver_path(), mtext)
            if rc1 != 0 or rc2 != 0:
                raise RuntimeError("re-evaluation of the sweep suspects failed")
            iw, mw = parse_cases(o1)["c"]["w"], parse_cases(o2)["c"]["w"]
            for kk, f in enumerate(sus):
                wi = [parse_c(t) for t in iw[kk]]
                wm = [parse_q(t) for t in mw[kk]]
                bad = rnd.check_weights(it, f, wi, wm)
                if "unity" in bad:
                    ctx.violation("impl-oracle", "interpolation weights do not sum to one within the proved rounding envelope",
                                  case=dict(kind="coeffs", it=it, f=fhex(f)), observed=bad["unity"][0],
                                  expected="|sum - 1| <= %s (C02_cell_table_sound)" % bad["unity"][1], sig=dict(kind="coeffs", clause="unity", it=it))
                    found = True
                    break
                if "moment" in bad:
                    ctx.violation("impl-oracle", "n-point weights do not reproduce a monomial of degree below n within the proved rounding envelope",
                                  case=dict(kind="coeffs", it=it, f=fhex(f)), observed=dict(degree=bad["moment"][0], error=bad["moment"][1]),
                                  expected="<= %s" % bad["moment"][2], sig=dict(kind="coeffs", clause="moments", it=it))
                    found = True
                    break
                if "each" in bad:
                    ctx.violation("impl-oracle", "an interpolation weight differs from the Lagrange weight of its node by more than the proved rounding envelope "
                                  "(polynomials below the order are not reproduced to rounding)",
                                  case=dict(kind="coeffs", it=it, f=fhex(f)), observed=dict(weight=bad["each"][0], value=bad["each"][1]),
                                  expected="within %s of the exact weight" % bad["each"][2], sig=dict(kind="coeffs", clause="moments", it=it))
                    found = True
                    break
        if nsus > len(sus) and not found:
            raise RuntimeError("sweep: %d suspects but only %d could be re-decided exactly and none of those fails" % (nsus, len(sus)))
        if c["zero"][0][0] != "1":
            ctx.violation("impl-oracle", "weights at offset zero are not a single unit weight", case=dict(kind="coeffs", it=it, f="0x0p+0"),
                          sig=dict(kind="coeffs", clause="unit-at-zero", it=it))
        ctx.extra.setdefault("float_sweep", {})["it%d" % it] = dict(
            floats=n, stride=stride, cells=2 ** rnd.K_TABLE, suspects_rechecked_exactly=len(sus),
            max_weight_error_over_proved_bound=float.fromhex(c["each"][0][0]), at_w=c["each"][0][1],
            max_unity_error_over_proved_bound=float.fromhex(c["unity"][0][0]), at_u=c["unity"][0][1],
            max_moment_error_over_proved_bound=float.fromhex(c["moment"][0][0]), at_m=c["moment"][0][1])
    ctx.evaluations += tot
    ctx.count("coeffs:sweep-against-proved-bounds", tot)
    if stride == 1:
        ctx.notes.append("all %d binary32 values in [0,1) x 4 orders evaluated through SourceMap::calcCoefficiants and checked against the "
                         "proved per-cell rounding bounds (exhaustive for that domain)" % one)
    else:
        ctx.notes.append("every %d-th binary32 value in [0,1) x 4 orders through SourceMap::calcCoefficiants against the proved per-cell "
                         "rounding bounds (the thorough tier takes every value)" % stride)


def run(ctx):
    ctx.rule = ("kick cases: n 4..33, both directions, it 1..4, nb 1..3, streams exact (offsets k/16, integer data, bit equality), "
                "whole (integer offsets, arbitrary data, bit equality), tol (arbitrary floats, K*2^-24*cond), edges (integer part of n/2+offset at the "
                "guard / stencil / table boundaries of the generated updateSM body, odd and even sizes), ulp (offsets 1..3 ulp below / above whole numbers, ulp of "
                "the float sum n/2+offset and of the offset itself, tiny offsets down to the denormals), polynomial fields (also under ulp offsets), "
                "sequences (several swapOffset()+apply() on ONE KickMap: rows exactly 0, all 0, non-zero whole shifts, fractional shift of a polynomial; "
                "every step against the stateless model and through the whole-shift / polynomial oracles); "
                "coefficient samples in [0,1); RotationMap cases (constructor + apply through the model assembled from the GENERATED Gen_Rotation.v "
                "and through the hand-written model): sizes xs, ys 5..14 (40% xs != ys), it 1..4, angles 0, +-pi/2, pi, +-small, random, shifted extents, "
                "precomputed table and on-the-fly map, clamp on (cubic + table: isolated peaks, signed and dense data), refused clamp configurations, "
                "polynomial x^k y^l and random data. Non-trivial: non-zero shift on non-zero data / degree>=1 with fractional offset / it>1 and f!=0 / "
                "clamped cells whose value the clamp changed.")
    coq = vp_coq.full_check("C02", ctx, fams=("kick", "round", "rot"))
    nk = 120 if ctx.quick() else 3000
    cases = kc.gen_cases(ctx, nk, streams=("exact", "whole", "tol", "whole")) + kc.with_rng(ctx, 101, kc.edge_cases, ctx, 52 if ctx.quick() else 800)
    cases += kc.with_rng(ctx, 102, kc.ulp_cases, ctx, 16 if ctx.quick() else 400)
    pc = poly_cases(ctx, 60 if ctx.quick() else 1500) + kc.with_rng(ctx, 103, ulp_poly_cases, ctx, 48 if ctx.quick() else 1500)
    seqs = kc.with_rng(ctx, 104, kc.seq_cases, ctx, 16 if ctx.quick() else 300)
    steps = [s_ for q in seqs for s_ in q.steps]
    res = kc.run_cases(ctx, cases + pc + seqs)
    pc = pc + [s_ for s_ in steps if hasattr(s_, "coef")]
    cases = cases + [s_ for s_ in steps if not hasattr(s_, "coef")]
    dis = []
    for c in cases + pc:
        d = kc.compare_case(c, res[c.cid])
        if d:
            dis.append(dict(case=c.replay(), detail=d[:3], sig=dict(kind="kick", stage="correspondence", dir=c.dir, multibunch=c.nb > 1)))
        ctx.evaluations += 1
    for c in cases:
        if c.stream in ("whole", "edges"):
            oracle_whole(ctx, c, res[c.cid])
    for c in pc:
        oracle_poly(ctx, c, res[c.cid])
    ctx.sample(cases[0].describe())
    ctx.sample(dict(pc[0].describe(), coef=pc[0].coef))
    dis += run_coeffs(ctx, coeff_cases(ctx, 400 if ctx.quick() else 40000))
    run_sweep(ctx, stride=4099 if ctx.quick() else 1)
    rc = rot_cases(ctx, 40 if ctx.quick() else 600)
    dis += run_rot(ctx, rc)
    ctx.sample(rc[0].replay() if rc[0].coef is not None else dict(rc[0].replay(), data="(random integers)"))
    ctx.extra["correspondence_disagreements"] = len(dis)
    # downgrade rule of DESIGN 2.2 for translate/rotation2coq.py: when it no longer recognises RotationMap.cpp (a restructuring outside its
    # idioms) the last-good Gen_Rotation.v keeps the development building; if every theorem still checks (about the last-good definitions)
    # AND the map assembled from those definitions agrees with the implementation on every RotationMap case of this run (members, refusals,
    # table indices exactly, weights and outputs in tolerance, table and on-the-fly, clamped and not, square and not) and with the
    # hand-written model, and every oracle holds, the property is shown through tie 2 and the downgrade is recorded.
    failed = [g for g, st in coq["gen"].items() if st.startswith("failed")]
    if failed == ["Gen_Rotation"] and coq["make_ok"] and coq["props"]["ok"] and not coq["forbidden"] and coq["extract_ok"] \
            and not dis and not ctx.violations and ctx.evaluations > 0 and len(rc) >= 40:
        ctx.extra["translators"]["Gen_Rotation"] = "downgraded-to-correspondence (" + coq["gen"]["Gen_Rotation"][:200] + ")"
        ctx.notes.append("Gen_Rotation: translator failed; the map assembled from the last-good generated definitions agrees with the implementation "
                         "and with the hand-written model on every RotationMap case of this run and every oracle holds: downgraded to tie 2")
        coq = dict(coq, ok=True)
    rnd.trusted(ctx)
    ctx.assumptions += ["exact-arithmetic model; the rounding of the interpolation weights is bounded by theorem (C02_weights_*_rounded, "
                        "C02_cell_table_sound) and the implementation is checked against those bounds; kick/rotation outputs still use the "
                        "exact/tolerance streams (DESIGN 3)",
                        "whole-shift theorem proved for n <= 4096 (kernel sweep of the float rounding on [0,4096))",
                        "RotationMap: Gen_Rotation.v is instantiated with binary32 rounding (rnd32) at every operation that reaches the std::modf split and exact "
                        "arithmetic for weights and the accumulation (tolerance stream); the float -> unsigned conversion of a coordinate outside (-1, 2^32) is "
                        "undefined behaviour and such cells are skipped (rot_defined); RotationMap is not used by main()"]
    coq = kc.downgrade_usm(ctx, coq, dis, validated=len(cases) > 0)
    conclude(ctx, coq, dis)


def replay(ctx, rp):
    run(ctx)
