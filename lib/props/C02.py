"""C02 - whole-cell shifts are lossless; fractional shifts reproduce polynomials."""
from fractions import Fraction
from vp_common import *
import vp_coq, kick_cases as kc


def poly_cases(ctx, count):
    """data = P(t) along the kick direction on the full grid, deg P < it"""
    rng = ctx.rng
    cases = []
    for i in range(count):
        n = rng.choice(range(8, 26))
        it = rng.choice([1, 2, 3, 4])
        d = rng.choice(["x", "y"])
        nb = rng.choice([1, 2])
        exact = it < 4 and rng.random() < 0.6
        deg = rng.randint(0, it - 1)
        coef = [rng.randint(-3, 3) for _ in range(deg + 1)]
        if exact:
            o = rng.randint(-2, 2) + rng.randint(0, 15) / 16.0
        else:
            o = f32(rng.uniform(-3, 3))
        data = [0.0] * (nb * n * n)
        for b in range(nb):
            for x in range(n):
                for y in range(n):
                    t = y if d == "y" else x
                    data[b * n * n + x * n + y] = float(sum(c * t ** k for k, c in enumerate(coef)))
        c = kc.KickCase("p%d" % i, d, n, nb, it, [o] * (n * nb), data, "exact" if exact else "tol", "poly")
        c.coef = coef
        cases.append(c)
        ctx.count("poly:it%d:deg%d" % (it, deg))
    return cases


def oracle_whole(ctx, c, r):
    """integer offsets that fit the grid: output == input moved, bit for bit"""
    n, nb = c.n, c.nb
    bad = 0
    for b in range(nb):
        for k in range(n):
            o = Fraction(c.row_offset(b, k))
            if o.denominator != 1:
                continue
            m = int(o)
            if not (0 <= n // 2 + m < n):
                continue
            row = c.row(b, k)
            for t in range(n):
                idx = b * n * n + (k * n + t if c.dir == "y" else t * n + k)
                exp = row[t + m] if 0 <= t + m < n else Fraction(0)
                got = r["impl_out"][idx]
                if got != exp:
                    ctx.violation("impl-oracle", "whole-cell shift by %d cells does not return the moved input" % m,
                                  case=c.replay(), observed=dict(b=b, row=k, cell=t, value=str(got)),
                                  expected=str(exp), sig=dict(kind="kick", clause="whole-shift", dir=c.dir,
                                                              multibunch=nb > 1))
                    bad += 1
                    if bad > 2:
                        return False
            ctx.case_done(("whole", c.cid, b, k), m != 0 and any(v != 0 for v in row))
    return bad == 0


def oracle_poly(ctx, c, r):
    n, nb, it = c.n, c.nb, c.it
    o = Fraction(c.offs[0])
    jd, f = kc.split(n, o)
    cen = kc.centre(it)
    P = lambda t: sum(Fraction(co) * t ** k for k, co in enumerate(c.coef))
    ok = True
    shift = jd - n // 2
    for b in range(nb):
        for k in range(n):
            for t in range(n):
                # interior: the whole stencil reads inside the grid
                if not (0 <= t + shift - cen and t + shift + (it - 1) - cen < n):
                    continue
                idx = b * n * n + (k * n + t if c.dir == "y" else t * n + k)
                got = r["impl_out"][idx]
                exp = P(Fraction(t) + shift + f)
                scale = sum(abs(Fraction(co)) * (abs(Fraction(t)) + abs(shift) + 2) ** kk for kk, co in enumerate(c.coef))
                tol = 0 if c.stream == "exact" else Fraction(32, 2 ** 24) * max(scale, 1)
                if isinstance(got, str) or abs(got - exp) > tol:
                    ctx.violation("impl-oracle", "polynomial of degree %d not reproduced by the %d-point scheme" % (len(c.coef) - 1, it),
                                  case=dict(c.replay(), coef=c.coef), observed=dict(b=b, row=k, cell=t, value=str(got)),
                                  expected=str(exp), sig=dict(kind="kick", clause="poly", it=it, multibunch=nb > 1, dir=c.dir))
                    return False
    ctx.case_done(("poly", c.cid), len(c.coef) > 1 and f != 0)
    return ok


def coeff_cases(ctx, count):
    rng = ctx.rng
    fs = [0.0, 0.5, f32(1 - 2 ** -24), f32(2 ** -24), 0.25, 0.75]
    while len(fs) < count:
        c = rng.random()
        if c < 0.5:
            fs.append(f32(rng.random()))
        elif c < 0.75:
            fs.append(rng.randint(0, 255) / 256.0)
        else:
            fs.append(f32(rng.random() * 2.0 ** -rng.randint(1, 20)))
    return fs


def run_coeffs(ctx, fs):
    tg = ctx.build()
    itext = "".join("coeffs c%d %d %d %s\n" % (it, it, len(fs), " ".join(fhex(f) for f in fs)) for it in (1, 2, 3, 4))
    mtext = "".join("coeffs c%d %d %d %s\n" % (it, it, len(fs), " ".join(qtok(Fraction(f)) for f in fs)) for it in (1, 2, 3, 4))
    rc, out, err = run_driver(tg["impl_kick"], itext)
    if rc != 0:
        raise RuntimeError("impl_driver: " + err[-500:])
    impl = parse_cases(out)
    rc, out, err = run_driver(model_driver_path(), mtext)
    if rc != 0:
        raise RuntimeError("model_driver: " + err[-500:])
    model = parse_cases(out)
    dis = []
    for it in (1, 2, 3, 4):
        iw, mw = impl["c%d" % it]["w"], model["c%d" % it]["w"]
        for k, f in enumerate(fs):
            wi = [parse_c(t) for t in iw[k]]
            wm = [parse_q(t) for t in mw[k]]
            tol = Fraction(8, 2 ** 24)
            if any(isinstance(a, str) or abs(a - b) > tol for a, b in zip(wi, wm)):
                dis.append(dict(case=dict(kind="coeffs", it=it, f=fhex(f)), detail=dict(impl=[str(x) for x in wi], model=[str(x) for x in wm]),
                                sig=dict(kind="coeffs", it=it)))
            # oracle: unity and unit-at-zero on the implementation
            s = sum(wi)
            if abs(s - 1) > Fraction(8, 2 ** 24):
                ctx.violation("impl-oracle", "interpolation weights do not sum to one", case=dict(kind="coeffs", it=it, f=fhex(f)),
                              observed=str(s), expected="1 +- 8*2^-24", sig=dict(kind="coeffs", clause="unity", it=it))
            if f == 0.0:
                unit = [Fraction(1) if j == kc.centre(it) else Fraction(0) for j in range(it)]
                if wi != unit:
                    ctx.violation("impl-oracle", "weights at offset zero are not a single unit weight", case=dict(kind="coeffs", it=it, f=fhex(f)),
                                  observed=[str(x) for x in wi], expected=[str(x) for x in unit], sig=dict(kind="coeffs", clause="unit-at-zero", it=it))
            ctx.case_done(("coeffs", it, f), it > 1 and f != 0)
    return dis


def run(ctx):
    ctx.rule = ("kick cases: n 4..33, both directions, it 1..4, nb 1..3, streams exact (offsets k/16, integer data, bit equality), "
                "whole (integer offsets, arbitrary data, bit equality), tol (arbitrary floats, K*2^-24*cond), polynomial fields; "
                "coefficient samples in [0,1). Non-trivial: non-zero shift on non-zero data / degree>=1 with fractional offset / it>1 and f!=0.")
    coq = vp_coq.full_check("C02", ctx, fams=("kick",))
    nk = 120 if ctx.quick() else 3000
    cases = kc.gen_cases(ctx, nk, streams=("exact", "whole", "tol", "whole"))
    pc = poly_cases(ctx, 60 if ctx.quick() else 1500)
    res = kc.run_cases(ctx, cases + pc)
    dis = []
    for c in cases + pc:
        d = kc.compare_case(c, res[c.cid])
        if d:
            dis.append(dict(case=c.replay(), detail=d[:3], sig=dict(kind="kick", stage="correspondence", dir=c.dir, multibunch=c.nb > 1)))
        ctx.evaluations += 1
    for c in cases:
        if c.stream == "whole":
            oracle_whole(ctx, c, res[c.cid])
    for c in pc:
        oracle_poly(ctx, c, res[c.cid])
    ctx.sample(cases[0].describe())
    ctx.sample(dict(pc[0].describe(), coef=pc[0].coef))
    dis += run_coeffs(ctx, coeff_cases(ctx, 400 if ctx.quick() else 40000))
    ctx.extra["correspondence_disagreements"] = len(dis)
    ctx.assumptions += ["exact-arithmetic model; rounding handled by the exact/tolerance streams (DESIGN 3)",
                        "rnd32 (Base/Float32.v) is trusted, validated by the correspondence itself",
                        "whole-shift theorem proved for n <= 4096 (kernel sweep of the float rounding on [0,4096))"]
    conclude(ctx, coq, dis)


def replay(ctx, rp):
    run(ctx)
