"""C01 - every transport step conserves the charge of a distribution inside the grid."""
from fractions import Fraction
from vp_common import *
import vp_coq, kick_cases as kc
import fp_cases as fc
import round_cases as rnd


def clear_of_border(n, it, o, row, margin=2):
    """the property's own hypothesis: support before and after the displacement clear of the border"""
    nz = [i for i, v in enumerate(row) if v != 0]
    if not nz:
        return True
    a, b = nz[0], nz[-1] + 1
    o = Fraction(o)
    return margin <= a and b <= n - margin and margin <= a - o and b - o <= n - margin


def farshift_cases(ctx, count):
    """offsets of about half the grid with a narrow support placed so that the displaced support is interior as well
    (boundary of the proof's stencil-in-table-range hypothesis).  Swept, not drawn: upwards the integer part of n/2+offset is
    exactly size, size-1, size-2, size-3 (the guard's upper edge and the stencil leaving the table at the top), downwards
    n/2+offset lies in (-1,0], (0,1], (1,2], (2,3] (guard's lower edge, stencil leaving at the bottom), each for it = 2, 3, 4"""
    rng = ctx.rng
    cases = []
    for i in range(count):
        sgn = 1 if i % 2 == 0 else -1
        r = (i // 2) % 4
        it = 2 + (i // 8) % 3
        n = rng.choice(range(20, 34))
        h = n // 2
        d = rng.choice(["x", "y"])
        f = rng.randint(1 if r == 0 else 0, 15) / 16.0
        o = (n - r - h + f) if sgn > 0 else -(h - r + f)
        data = [0.0] * (n * n)
        if sgn > 0:
            a = n - 7
        else:
            a = 4
        for k in range(3, n - 3):
            for t in range(a, a + 3):
                v = float(rng.randint(1, 50))
                if d == "y":
                    data[k * n + t] = v
                else:
                    data[t * n + k] = v
        cases.append(kc.KickCase("f%d" % i, d, n, 1, it, [o] * n, data, "exact" if it < 4 else "tol", "farshift"))
        ctx.count("kick:farshift")
    return cases


def oracle_conservation(ctx, c, r):
    """plain row sums before/after apply() on the implementation.  Where the stencil leaves the table range the pinned code
    drops stencil points (open finding kick-stencil-out-of-table-range); the model mirrors that, so the sum the KNOWN defect
    produces is the model's: a sum that differs from both the input's and the model's is a different defect and is reported
    as such (sig as_modelled=False does not match the listed finding).  A violation the listed finding does not explain is
    preferred over one it explains."""
    n, nb, it = c.n, c.nb, c.it
    listed = None
    for b in range(nb):
        for k in range(n):
            o = c.row_offset(b, k)
            ti = (min(b, nb - 1) * n + k) if c.dir == "y" else k
            if not r["defined"][ti]:
                continue
            row = c.row(b, k)
            hyp, why = kc.row_ok(n, it, o, row)
            prop_hyp = clear_of_border(n, it, o, row)
            if not (hyp or prop_hyp):
                continue
            cells = [b * n * n + (k * n + t if c.dir == "y" else t * n + k) for t in range(n)]
            out = [r["impl_out"][i] for i in cells]
            as_modelled = False
            if any(isinstance(v, str) for v in out):
                s_out = "nonfinite"
                bad = True
            else:
                s_in, s_out = sum(row), sum(out)
                exact = c.stream in ("exact", "whole", "edges") and it < 4
                tol = 0 if exact else rnd.kick_tol(n, it, o, row, hyp)      # proved bound (C01_sm_row_kick_rounding) where it applies
                bad = abs(s_out - s_in) > tol
                as_modelled = abs(s_out - sum(r["model_out"][i] for i in cells)) <= tol
            if bad:
                jd, _ = kc.split(n, o)
                cen = kc.centre(it)
                out_of_table = not (0 <= jd - cen and jd + it - 1 - cen < n)
                v = dict(case=c.replay(), observed=dict(b=b, row=k, sum_out=str(s_out)), expected=str(sum(row)),
                         sig=dict(kind="kick", clause="conservation", stencil_out_of_table_range=out_of_table, as_modelled=as_modelled))
                if out_of_table and as_modelled:
                    listed = listed or v
                    continue
                ctx.violation("impl-oracle", "row sum changes under a kick although the support is clear of the border before and after", **v)
                return
            ctx.case_done((c.cid, b, k), why == "interior" and o != 0)
    if listed:
        ctx.violation("impl-oracle", "row sum changes under a kick although the support is clear of the border before and after", **listed)


def run(ctx):
    ctx.rule = ("kick cases as in C02 plus a far-shift stream (|offset| ~ n/2) and an edge stream (integer part of n/2+offset exactly at the guard / "
                "stencil / table boundaries of the generated updateSM body, odd and even sizes, it 1..4) ; per (case,bunch,row) the plain sum before/after "
                "apply() on the implementation whenever the theorem's hypotheses (row_ok) or the property's own hypothesis "
                "(support clear of the border before and after) hold. Non-trivial: interior non-empty support and non-zero offset.")
    ctx.rule += (" probe stream (harness command kickp): nb 1..4, grids built with filling patterns with and without empty buckets, data written "
                 "explicitly in every bucket, caches of the input grid (profiles, integral, filling) from an earlier state with empty columns, target grid "
                 "pre-filled, clamp flag in a third of the cases: output vs model, conservation per row, and the second application with refreshed caches / "
                 "uniform pattern / other target content must reproduce every cell (C01_kick_apply_every_cell, C01_kick_apply_target_independent).")
    ctx.rule += (" fp cases: both derivation stencils x four FPType variants, n 9..65, nb 1..3, axes with integer / "
                 "half-integer / shifted zero bin, e1 dyadic (exact stream, 3-point: bit equality of table and output) or arbitrary "
                 "float (tolerance stream); table _hinfo compared entry by entry, then outputs; per non-empty interior column the plain "
                 "sum before/after apply() (tolerated: rounding, and e1*|in(k)| in the four switch rows of the 4-point stencil); "
                 "identity-matrix data give every column sum of the operator. Non-trivial: variant != none, e1 != 0.")
    ctx.rule += (" identity cases: nb 1..3, n 4..17, random source and target grids: target = source bit for bit for every bunch, total unchanged, "
                 "source untouched; extracted copy model (generated count/indices) exact.")
    coq = vp_coq.full_check("C01", ctx, fams=("kick", "fp", "run", "round"))
    nk = 120 if ctx.quick() else 3000
    cases = kc.gen_cases(ctx, nk) + farshift_cases(ctx, 24 if ctx.quick() else 400) + kc.with_rng(ctx, 101, kc.edge_cases, ctx, 52 if ctx.quick() else 800)
    # (family st3kick) probe stream: filling patterns with empty buckets over explicit data, stale caches, pre-filled target, clamp flag
    cases += kc.with_rng(ctx, 103, kc.probe_cases, ctx, 36 if ctx.quick() else 600)
    res = kc.run_cases(ctx, cases)
    dis = []
    for c in cases:
        d = kc.compare_case(c, res[c.cid])
        if d:
            dis.append(dict(case=c.replay(), detail=d[:3], sig=dict(kind="kick", stage="correspondence", dir=c.dir, multibunch=c.nb > 1)))
        oracle_conservation(ctx, c, res[c.cid])
        kc.oracle_cache_independent(ctx, c, res[c.cid])
    ctx.sample(cases[0].describe())
    ctx.sample(cases[-1].describe())
    fcases = fc.gen_cases(ctx, 160 if ctx.quick() else 2400)
    fres = fc.run_cases(ctx, fcases)
    for c in fcases:
        d = fc.compare_case(c, fres[c.cid])
        if d:
            dis.append(dict(case=c.replay(), detail=d[:3], sig=dict(kind="fp", stage="correspondence", dt=c.dt,
                                                                    variant=fc.VARIANTS[c.v])))
        fc.oracle_conservation(ctx, c, fres[c.cid])
        fc.oracle_cache_independent(ctx, c, fres[c.cid])    # (family stfp) the step reads nothing but data_in and the table
        rnd.fp3_oracle(ctx, c, fres[c.cid])      # 3-point step against the proved rounding term (C01_fp3_rounding_any_axis)
    ctx.sample(fcases[0].describe())
    ctx.sample(fcases[-1].describe())
    import ident_cases
    dis += ident_cases.ident_subcheck(ctx, "C01")
    ctx.extra["correspondence_disagreements"] = len(dis)
    rnd.trusted(ctx)
    ctx.assumptions += ["exact-arithmetic model; the rounding clause of the row kick and of the 3-point Fokker-Planck column is bounded by "
                        "theorem (C01_sm_row_kick_rounding, C01_fp3_rounding_any_axis) and these bounds are the oracle tolerances; the "
                        "model-vs-implementation comparison of whole outputs still uses the exact/tolerance streams (DESIGN 3)"]
    coq = kc.downgrade_usm(ctx, coq, dis, validated=len(cases) > 0)
    cache_ok = sum(1 for k in ctx.nontrivial if isinstance(k, tuple) and len(k) == 2 and k[1] == "cache-independent") >= 20
    coq = fc.fploop_downgrade(ctx, coq, dis, cache_ok, "whole-grid outputs of every fp case equal to the model's, cache-independence probe")
    coq = kc.kickloop_downgrade(ctx, coq, dis, kc.probes_evaluated(ctx) >= 20,
                                "whole-grid outputs of every kick case equal to the model's, probe stream: empty-bucket patterns over explicit data, "
                                "stale caches, pre-filled target, clamp flag")
    conclude(ctx, coq, dis)


def replay(ctx, rp):
    run(ctx)
