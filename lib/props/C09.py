"""C09 - normalisation restores each bunch's charge share; moments are the true moments;
copies (copy constructor, assignment) report the same."""
import math
from fractions import Fraction
from vp_common import *
import vp_coq
import moments_cases as mc

U = mc.U


def sig(c, clause, **kw):
    d = dict(kind="moments", clause=clause, multibunch=c.nb > 1)
    d.update(kw)
    return d


# ------------------------------------------------------------------------------------ history facts

def history_facts(ops):
    """what the caches of the object mean after the history (versions of the data they were derived from)"""
    ops = [x for o in ops for x in ((2, 3) if o == 8 else (o,))]      # integrateAndNormalize = integrate; normalize
    dver = 0
    px = py = fill = 0
    norm_ok = None          # last normalize ran on a filling measured from the then-current data
    last = {}
    for k, o in enumerate(ops):
        last[o] = k
        if o == 0:
            px = dver
        elif o == 1:
            py = dver
        elif o == 2:
            fill = px
        elif o == 3:
            norm_ok = (fill == dver)
            dver += 1
    fresh = px == dver and py == dver and fill == dver
    def after(a, bs):
        return a in last and all(last[a] > last.get(b, -1) for b in bs)
    return dict(fresh=fresh, px_fresh=px == dver, py_fresh=py == dver, fill_fresh=fill == dver and px == dver,
                normalized=norm_ok is True, n_norm=sum(1 for o in ops if o == 3),
                # the LAST normalize ran on a freshly measured filling (earlier ones may have been stale: a
                # normalisation on fresh caches restores the shares whatever the data were scaled by before)
                share=(norm_ok is True and fill == dver and px == dver),
                var0=after(6, (0, 2)), var1=after(7, (1, 2)),
                avg0=after(6, (0, 2)) or (after(4, (0, 2)) and 6 not in last),
                avg1=after(7, (1, 2)) or (after(5, (1, 2)) and 7 not in last))


# ------------------------------------------------------------------------------------ oracles (implementation only)

def oracle_share(ctx, c, im):
    """after normalize() on a freshly measured filling, updateXProjection(), integrate():
    every bunch integrates to its set share, empty buckets are zero, the total is the sum of shares"""
    hf = history_facts(c.ops)
    if not hf["share"]:
        return
    n, nb = c.n, c.nb
    b = mc.Budget(n, nb, False)
    b.refresh()
    for o in c.ops:
        b.op(o)
    rel = 2 * (b.e["fill"] + 1) * U
    fills, tot = im["s.fill"], im["s.int"][0]
    for k in range(nb):
        fs = Fraction(c.geo.fs[k])
        got = fills[k]
        if fs > 0:
            bad = isinstance(got, str) or abs(got - fs) > rel * fs
        else:
            bad = got != 0 or any(v != 0 for v in im["s.data"][k * n * n:(k + 1) * n * n])
        if bad:
            ctx.violation("impl-oracle", "after renormalisation bunch %d does not integrate to its share of the filling pattern" % k,
                          case=c.replay(), observed=dict(bunch=k, integral=str(got)), expected=dict(share=str(fs), rel_tol=str(rel)),
                          sig=sig(c, "share", empty=fs <= 0))
            return
    sfs = sum(Fraction(v) for v in c.geo.fs)
    if isinstance(tot, str) or abs(tot - sfs) > rel * sfs + nb * U or abs(sfs - 1) > Fraction(1, 10 ** 5):
        ctx.violation("impl-oracle", "after renormalisation the total charge is not the sum of the shares (one)",
                      case=c.replay(), observed=str(tot), expected=str(sfs), sig=sig(c, "share-total"))
        return
    ctx.case_done(("share", c.cid), nb > 1 or c.kind != "int")
    ctx.count("oracle:share")
    if any(v <= 0 for v in c.geo.fs):
        ctx.count("oracle:share-with-empty-bucket")


def oracle_moment_formula(ctx, c, im):
    """the reported mean/variance are delta*sum(proj*q)/charge and delta*sum(proj*(q-mean)^2)/charge of the
    bunch's own projection (the implementation's own arrays), rms = sqrt(variance)"""
    hf = history_facts(c.ops)
    n, nb = c.n, c.nb
    for st, g, have in (("s", c.geo, (hf["var0"], hf["var1"])), ("cv", c.geo, (True, True)), ("tv", c.geo2, (True, True))):
        bud = mc.Budget(n, nb, False)          # zero budgets: inputs are the implementation's own arrays
        for axis in (0, 1):
            if not have[axis]:
                continue
            proj = im["%s.p%s" % (st, "xy"[axis])]
            for b in range(nb):
                fill = im["%s.fill" % st][b]
                mean, var = im["%s.m%d0" % (st, axis)][b], im["%s.m%d1" % (st, axis)][b]
                rms = im["%s.rms%d" % (st, axis)][b]
                if g.fs[b] <= 0:
                    if mean != 0 or var != 0:
                        ctx.violation("impl-oracle", "moments of an empty bucket are not zero", case=c.replay(),
                                      observed=dict(state=st, axis=axis, bunch=b, mean=str(mean), var=str(var)),
                                      sig=sig(c, "moment-formula", axis=axis, empty=True))
                        return
                    continue
                if isinstance(fill, str) or fill == 0 or any(isinstance(v, str) for v in proj):
                    continue
                ax = g.q if axis == 0 else g.p
                d = Fraction(g.d0 if axis == 0 else g.d1)
                pr = proj[b * n:(b + 1) * n]
                em = d * sum(pr[i] * Fraction(ax[i]) for i in range(n)) / fill
                tm, tv = mc.moment_tols(g, axis, proj, fill, em, b, bud, n)
                if isinstance(mean, str) or abs(mean - em) > tm:
                    ctx.violation("impl-oracle", "reported mean is not the first moment of the bunch's own projection",
                                  case=c.replay(), observed=dict(state=st, axis=axis, bunch=b, mean=str(mean)),
                                  expected=dict(first_moment=str(em), tol=str(tm)), sig=sig(c, "moment-formula", axis=axis, order=0))
                    return
                ev = d * sum(pr[i] * (Fraction(ax[i]) - mean) ** 2 for i in range(n)) / fill
                if isinstance(var, str) or abs(var - ev) > tv:
                    ctx.violation("impl-oracle", "reported variance is not the second central moment of the bunch's own projection",
                                  case=c.replay(), observed=dict(state=st, axis=axis, bunch=b, var=str(var)),
                                  expected=dict(second_central_moment=str(ev), tol=str(tv)), sig=sig(c, "moment-formula", axis=axis, order=1))
                    return
                if not isinstance(var, str) and var >= 0 and not isinstance(rms, str):
                    if float(rms) != f32(math.sqrt(float(var))):
                        ctx.violation("impl-oracle", "reported rms is not sqrt(variance)", case=c.replay(),
                                      observed=dict(state=st, axis=axis, bunch=b, rms=str(rms), var=str(var)),
                                      sig=sig(c, "rms", axis=axis))
                        return
        ctx.count("oracle:moment-formula:" + st)
    ctx.case_done(("formula", c.cid), True)


def oracle_weights(ctx, c, im):
    """the weight vector is the composite rule of the theorems: sum = delta0*(n-1) for odd n, delta0*(n-1) - delta0/3
    for even n (simpson_weights_sum); for odd n it integrates 1, q, q^2, q^3 exactly over the axis (simpson_exact_deg3)"""
    n = c.n
    ws = im["geo.ws"]
    d = Fraction(c.geo.d0)
    exp = d * (n - 1) if n % 2 else d * (n - 1) - d / 3
    tol = 2 * (n + 3) * U * abs(exp)
    if any(isinstance(w, str) for w in ws) or abs(sum(ws) - exp) > tol:
        ctx.violation("impl-oracle", "the integration weights do not sum to the length the composite rule covers",
                      case=c.replay(), observed=dict(weights=[str(w) for w in ws[:6]], sum=str(sum(ws))),
                      expected=dict(sum=str(exp), tol=str(tol)), sig=sig(c, "weights-sum", odd=bool(n % 2)))
        return
    if n % 2:
        q = [Fraction(v) for v in c.geo.q]
        a, b = q[0], q[0] + (n - 1) * d          # the axis as the model sees it: min + i*delta
        for k in range(4):
            got = sum(ws[i] * (a + i * d) ** k for i in range(n))
            ex = (b ** (k + 1) - a ** (k + 1)) / (k + 1)
            cond = sum(abs(ws[i]) * abs(a + i * d) ** k for i in range(n))
            if abs(got - ex) > 2 * (n + 3) * U * cond:
                ctx.violation("impl-oracle", "the integration weights (odd n) do not integrate q^%d exactly" % k,
                              case=c.replay(), observed=str(got), expected=str(ex), sig=sig(c, "weights-deg3", degree=k))
                return
    ctx.count("oracle:weights")


def oracle_projections(ctx, c, im):
    """with up-to-date caches the projections and the bunch charge are the weighted sums of the bunch's own cells
    (the implementation's own data and weights), and both projections integrate to the same charge"""
    hf = history_facts(c.ops)
    n, nb = c.n, c.nb
    ws = im["geo.ws"]
    for st, ok in (("s", (hf["px_fresh"], hf["py_fresh"], hf["fill_fresh"])), ("c", (True, True, True))):
        data = im[st + ".data"]
        if any(isinstance(v, str) for v in data):
            return
        for b in range(nb):
            D = data[b * n * n:(b + 1) * n * n]
            px = [sum(D[x * n + y] * ws[y] for y in range(n)) for x in range(n)]
            py = [sum(D[x * n + y] * ws[x] for x in range(n)) for y in range(n)]
            apx = [sum(abs(D[x * n + y]) * ws[y] for y in range(n)) for x in range(n)]
            apy = [sum(abs(D[x * n + y]) * ws[x] for x in range(n)) for y in range(n)]
            checks = []
            if ok[0]:
                checks.append(("px", im[st + ".px"][b * n:(b + 1) * n], px, apx))
            if ok[1]:
                checks.append(("py", im[st + ".py"][b * n:(b + 1) * n], py, apy))
            if ok[2] and ok[0]:
                checks.append(("fill", [im[st + ".fill"][b]], [sum(px[x] * ws[x] for x in range(n))],
                               [sum(apx[x] * ws[x] for x in range(n))]))
            for tag, got, exp, cond in checks:
                k = 2 * (n + 2) * (2 if tag == "fill" else 1)
                for i in range(len(exp)):
                    if isinstance(got[i], str) or abs(got[i] - exp[i]) > k * U * cond[i]:
                        ctx.violation("impl-oracle", "%s of bunch %d is not the weighted sum of the bunch's own cells" % (tag, b),
                                      case=c.replay(), observed=dict(state=st, quantity=tag, index=i, got=str(got[i])),
                                      expected=dict(value=str(exp[i]), tol=str(k * U * cond[i])),
                                      sig=sig(c, "projection", quantity=tag))
                        return
    ctx.count("oracle:projections")


def _eq(ctx, c, im, a, b, tags, what, clause, **kw):
    for tag in tags:
        x, y = im["%s.%s" % (a, tag)], im["%s.%s" % (b, tag)]
        if x != y:
            k = next(i for i in range(len(x)) if x[i] != y[i])
            ctx.violation("impl-oracle", what % tag, case=c.replay(),
                          observed=dict(quantity=tag, index=k, got=str(x[k])), expected=str(y[k]),
                          sig=sig(c, clause, quantity=("data" if tag == "data" else "derived"), **kw))
            return False
    return True


MOMS = ("m00", "m01", "m10", "m11")


def oracle_copy_assign(ctx, c, im):
    """copy constructor: equal data always; equal projections/integral/moments when the original's caches are
    fresh.  Assignment (t = s): the same, for a target of the same geometry."""
    hf = history_facts(c.ops)
    if not _eq(ctx, c, im, "c", "s", ("data",), "a copy does not carry the data of its original (%s)", "copy"):
        return
    if hf["fresh"]:
        if not _eq(ctx, c, im, "c", "s", ("px", "py", "fill", "int"),
                   "a copy of a phase space with up-to-date caches does not carry the same %s", "copy"):
            return
        if hf["var0"] and hf["var1"] and c.kind != "signed":
            if not _eq(ctx, c, im, "cv", "s", MOMS + ("rms0", "rms1"), "a copy does not report the same moments (%s)", "copy"):
                return
        ctx.count("oracle:copy-fresh")
    else:
        ctx.count("oracle:copy-of-stale-original(data only)")
    same = c.geo.same(c.geo2)
    og = dict(other_geometry=not same)
    if not _eq(ctx, c, im, "t", "s", ("data",), "after assignment the target does not carry the data of the source (%s)", "assign", **og):
        return
    # the copy is the reference: it holds what the source reports once its caches are refreshed
    if not _eq(ctx, c, im, "t", "c", ("px", "py", "fill", "int"),
               "after assignment the target does not carry the same %s as a copy of the source", "assign", **og):
        return
    if c.kind != "signed":
        if not _eq(ctx, c, im, "tv", "cv", MOMS + ("rms0", "rms1"),
                   "after assignment the target does not report the moments of the source (%s)", "assign", **og):
            return
    ctx.count("oracle:assign" + ("" if same else ":other-geometry"))
    ctx.case_done(("copy", c.cid), any(v != 0 for v in im["s.data"]) and im["s.data"] != [Fraction(v) for v in c.data2])


WRITER_VIEWS = (("w00", "m00", "getMoment(0,0)", "mean position"), ("w10", "m10", "getMoment(1,0)", "mean energy"),
                ("w01", "m01", "getMoment(0,1)", "position variance"), ("w11", "m11", "getMoment(1,1)", "energy variance"),
                ("wr0", "rms0", "getBunchLength()", "bunch length"), ("wr1", "rms1", "getEnergySpread()", "energy spread"),
                ("wpx", "px", "getProjection(0)", "bunch profile"), ("wpy", "py", "getProjection(1)", "energy profile"))


def oracle_writer_views(ctx, c, im):
    """'moments ... depend on no other bunch's data', read through EVERY accessor form the code base uses: the results-file
    writer (HDF5File::append) does not index the accessor's return value, it takes `.origin()` and hands nb (nb*n) contiguous
    values to the file layer.  What it finds there for bunch b must be bunch b's value (bit for bit what the indexed accessor
    reports, which the model/oracles above judge)."""
    n, nb = c.n, c.nb
    for st in ("s", "cv", "tv"):
        for wt, mt, acc, name in WRITER_VIEWS:
            x, y = im.get("%s.%s" % (st, wt)), im["%s.%s" % (st, mt)]
            if x is None:
                continue
            if x != y:
                k = next(i for i in range(len(y)) if i >= len(x) or x[i] != y[i])
                w = n if wt in ("wpx", "wpy") else 1
                ctx.violation("impl-oracle", "what the results-file writer takes for the %s of bunch %d (%s.origin()[%d], as HDF5File::append reads it) is not "
                              "that bunch's value %s%s" % (name, k // w, acc, k, "%s[%d]" % (acc, k // w) if w == 1 else "%s[%d][%d]" % (acc, k // w, k % w),
                                                           ": with %d bunches the memory behind origin() is not the contiguous per-bunch list" % nb if nb > 1 else ""),
                              case=c.replay(), observed=dict(state=st, raw=[str(v) for v in x[:6]], indexed=[str(v) for v in y[:6]]),
                              sig=sig(c, "writer-view", quantity=mt))
                return
    ctx.count("oracle:writer-raw-views")


def oracle_gauss(ctx, c, im):
    """explored, not proved: a single Gaussian well inside the grid (mean +- 5 sigma inside, sigma >= 2 cells)
    reports its mean and width.  Tolerance: rectangle/Simpson discretisation 4*exp(-pi^2 sigma^2/(2 delta^2))
    relative + tails beyond 5 sigma and the 2^-20 data grid (1e-4 sigma) + single precision (1e-5 of the axis)."""
    if c.kind != "gauss":
        return
    g = c.geo
    n, nb = c.n, c.nb
    for b in range(nb):
        if g.fs[b] <= 0:
            continue
        comp = c.meta.get("gauss", {}).get(str(b))
        if not comp:
            continue
        a, gx, gy = comp[0]
        for axis, (mu, s, ok) in ((0, gx), (1, gy)):
            if not ok:
                continue
            d = g.d0 if axis == 0 else g.d1
            ax = g.q if axis == 0 else g.p
            amax = max(abs(ax[0]), abs(ax[-1]))
            disc = 4 * math.exp(-math.pi ** 2 * s * s / (2 * d * d))
            tol_mu = disc * (abs(mu) + s) + 1e-4 * s + 1e-5 * amax
            tol_s = (disc + 2e-4) * s + 1e-5 * amax
            mean = float(im["cv.m%d0" % axis][b])
            rms = float(im["cv.rms%d" % axis][b])
            uneq = g.d0 != g.d1
            if abs(mean - mu) > tol_mu or abs(rms - s) > tol_s:
                ctx.violation("impl-oracle", "a Gaussian inside the grid does not report its mean and width",
                              case=c.replay(), observed=dict(bunch=b, axis=axis, mean=mean, rms=rms),
                              expected=dict(mean=mu, sigma=s, tol_mean=tol_mu, tol_sigma=tol_s),
                              sig=sig(c, "gaussian-analytic", axis=axis, unequal_spacing=uneq))
                return
            ctx.count("oracle:gaussian-analytic:axis%d" % axis)
            ctx.case_done(("gauss", c.cid, b, axis), abs(mu) > d)


def independence_twins(ctx, cases, count):
    """twin of a multi-bunch case: bunch b kept, every other bunch's data replaced"""
    rng = ctx.rng
    multi = [c for c in cases if c.nb > 1 and c.kind != "signed"]
    rng.shuffle(multi)
    tw = []
    for c in multi[:count]:
        b = rng.choice([k for k in range(c.nb) if c.geo.fs[k] > 0])
        n = c.n
        other = mc.gen_data(rng, c.geo, c.nb, "int" if c.stream == "exact" else "rand", n)
        d = list(other)
        d[b * n * n:(b + 1) * n * n] = c.data[b * n * n:(b + 1) * n * n]
        t = mc.MCase(c.cid + "i", n, c.nb, c.geo, c.geo2, c.ops, d, c.data2, c.stream, c.kind, dict(c.meta, twin_of=c.cid, kept_bunch=b))
        tw.append((c, t, b))
    return tw


def oracle_independence(ctx, c, t, b, im, imt):
    n, nb = c.n, c.nb
    sl = {"data": n * n, "px": n, "py": n, "fill": 1, "m00": 1, "m01": 1, "m10": 1, "m11": 1, "rms0": 1, "rms1": 1}
    for st in ("s", "cv"):
        for tag, w in sl.items():
            x = im["%s.%s" % (st, tag)][b * w:(b + 1) * w]
            y = imt["%s.%s" % (st, tag)][b * w:(b + 1) * w]
            if x != y:
                ctx.violation("impl-oracle", "bunch %d's %s changes when only other bunches' data are changed" % (b, tag),
                              case=dict(c.replay(), twin_data=[fhex(v) for v in t.data], kept_bunch=b),
                              observed=dict(state=st, quantity=tag, original=[str(v) for v in x[:4]], twin=[str(v) for v in y[:4]]),
                              sig=sig(c, "independence", quantity=tag))
                return
    ctx.count("oracle:independence")
    ctx.case_done(("indep", c.cid), True)


# ------------------------------------------------------------------------------------ the check

def make_cases(ctx):
    rng = ctx.rng
    q = ctx.quick()
    cases = []
    k = 0
    def add(stream, **force):
        nonlocal k
        cases.append(mc.gen_case(rng, "m%d" % k, stream, force=force))
        k += 1
    # boundary corpus: smallest odd/even sizes, every history, empty buckets, assignment across geometries
    for n in (5, 6, 7, 8, 32, 33):
        for st in ("exact",):
            add(st, n=n, hist="share")
            add(st, n=n, nb=3, hist="raw-moments")
    for h in mc.HISTORIES:
        add("exact", hist=h, kind="int")
        add("tol", hist=h, n=rng.choice(range(5, 14)))
    for st in ("exact", "tol"):
        add(st, other_geometry=True, hist="share", n=rng.choice(range(5, 12)), kind="int" if st == "exact" else "rand")
    # random streams
    ne, nt, ng = (150, 70, 24) if q else (2500, 900, 300)
    small = list(range(5, 18))
    for _ in range(ne):
        add("exact")
    for i in range(nt):
        if q:
            big = i % 10 == 0
            add("tol", n=rng.choice(range(18, 34)) if big else rng.choice(small), nb=1 if big else rng.choice([1, 2, 3]))
        else:
            add("tol")
    for i in range(ng):
        # Gaussians that qualify for the analytic comparison need >= 21 cells
        add("tol", kind="gauss", n=rng.choice(range(21, 34)), nb=rng.choice([1, 1, 2]) if q else rng.choice([1, 2, 3]),
            hist=rng.choice(["share", "raw-moments", "fresh"]))
    return cases


def evaluate(ctx, cases, res, dis):
    for c in cases:
        r = res[c.cid]
        d = mc.compare_case(c, r)
        if d:
            dis.append(dict(case=c.replay(), detail=[[t, x] for t, x in d[:3]],
                            sig=sig(c, "correspondence", stream=c.stream, quantity=d[0][0])))
        ctx.evaluations += 1
        ctx.count("moments:" + c.stream)
        ctx.count("moments:nb%d" % c.nb)
        ctx.count("moments:" + c.kind)
        ctx.count("history:" + c.meta.get("history", "?"))
        ctx.count("size:" + ("odd" if c.n % 2 else "even"))
        if c.geo.d0 != c.geo.d1:
            ctx.count("moments:unequal-spacing")
        im = r["impl"]
        oracle_weights(ctx, c, im)
        oracle_projections(ctx, c, im)
        oracle_share(ctx, c, im)
        if c.kind != "signed":
            oracle_moment_formula(ctx, c, im)
        oracle_copy_assign(ctx, c, im)
        oracle_writer_views(ctx, c, im)
        oracle_gauss(ctx, c, im)


def run(ctx, only=None):
    ctx.rule = ("moments cases: n 5..33 (odd and even), nb 1..3 (dyadic and arbitrary shares, empty buckets), symmetric/shifted/"
                "one-sided extents, equal and unequal spacing of the two axes; data: small integers (exact stream, spacing 3*2^-k: "
                "weights, projections, integral, copies bit for bit), signed integers (linear part only), Gaussians, mixtures, "
                "arbitrary non-negative floats (tolerance stream, budget propagated per operation); histories: fresh, "
                "normalize+refresh+variance, stale caches, double normalize, random cache/moment operation sequences; "
                "copy of the object and assignment to a second object (same or other geometry) in every case. "
                "Non-trivial: multi-bunch or non-integer data with a share to restore / moments of non-empty bunches / "
                "copies of non-zero data differing from the target's previous data / off-centre Gaussians.")
    coq = vp_coq.full_check("C09", ctx, fams=("moments",))
    tg = ctx.build(harness=("impl_moments",))
    cases = only if only is not None else make_cases(ctx)
    res = mc.run_cases(ctx, cases, tg)
    dis = []
    evaluate(ctx, cases, res, dis)
    # structural independence on the implementation: perturb the other bunches
    tw = independence_twins(ctx, cases, 40 if ctx.quick() else 600) if only is None else []
    if tw:
        imt = mc.run_impl(ctx, [t for _, t, _ in tw], tg)
        for c, t, b in tw:
            oracle_independence(ctx, c, t, b, res[c.cid]["impl"], imt[t.cid])
    for c in cases[:2] + cases[-1:]:
        ctx.sample(c.describe())
    ctx.extra["correspondence_disagreements"] = len(dis)
    # decision rule: a disagreement / broken obligation counts unless a NEW failing input explains it
    # (violations that match an open known finding do not explain anything else)
    kf = load_known()
    fresh_oracle = [v for v in ctx.violations if v["kind"] == "impl-oracle" and match_known(kf, v) is None]
    if dis and not fresh_oracle:
        d = dis[0]
        ctx.violation("correspondence", "model and implementation disagree on %s (%d case(s) in this run); the property "
                      "oracle found no failing input" % (d["detail"][0][0], len(dis)), case=d["case"],
                      observed=d["detail"], no_input=True, sig=d["sig"])
    # conclude() takes any oracle violation as the explanation of a broken obligation: show it the new ones only
    known_v = [v for v in ctx.violations if v["kind"] == "impl-oracle" and v not in fresh_oracle]
    ctx.violations = [v for v in ctx.violations if v not in known_v]
    conclude(ctx, coq, [])
    ctx.violations += known_v
    ctx.assumptions += [
        "exact-arithmetic model; single precision handled by the exact stream (bit equality) and the tolerance stream "
        "(relative budgets propagated per operation, factor 2 safety; see lib/moments_cases.py Budget/moment_tols)",
        "normalize_restores_share needs the cached filling to be the measured one and non-zero (hypotheses of the theorem)",
        "the Gaussian clause (analytic mean/width up to discretisation error) is explored numerically, not proved",
        "Ruler (axis values) is reproduced in binary32 by the generator and compared bit for bit; the model uses min + i*delta exactly"]


def replay(ctx, rp):
    case = rp.get("case") or rp
    if not case or case.get("kind") != "moments":
        return run(ctx)
    c = mc.from_replay(case)
    run(ctx, only=[c])
