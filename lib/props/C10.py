"""C10 - each record of the results file describes one instant, consistently.

Program-level check: generated configurations are run through the real `inovesa` binary (built
from the repo working tree); the results file is read through harness/h5cat and compared
 (exact stream) with the extracted Coq model of the record schedule and the file layer
   (Model/Records.v: which records exist in which dataset, dataset shapes, time values, axes),
 (oracle) record by record with the property itself evaluated on the file's own data:
   profiles = projections of the stored grid, moments of the stored profiles, CSR intensity =
   df * sum(stored spectrum), rows = bunches, axes = grid, unit attributes vs /Info/Parameters."""
import math, os
from fractions import Fraction
from vp_common import *
import vp_coq, vp_build
import h5_cases as hc

EPS = 2.0 ** -24


def gen_cfg(rng, i, quick):
    n = rng.choice([16, 17, 20, 24, 25, 32]) if quick else rng.randint(16, 48)
    steps = rng.choice([8, 10, 16, 20, 25, 40])
    rot = rng.choice(["0.5", "1", "1.5", "0.75", "2", "1.25", "0.3", "0.1", "2.5"])
    last = int(math.ceil(float(steps) * float(rot) * (1.0 - 1e-12)))
    outstep = rng.choice([0, 1, 1, 2, 3, 5, 7, max(last, 1), last + 3, rng.randint(1, max(1, last))])
    save = rng.choice([0, 1, 1, 2, 3, 5])
    k = rng.random()
    if k < 0.4:
        cur = [rng.choice([1e-3, 5e-4, 2e-4])]
    elif k < 0.7:
        cur = rng.choice([[1e-3, 5e-4], [4e-4, 0, 1.2e-3], [1e-3, 0, 5e-4]])
    else:
        cur = rng.choice([[1e-3, 5e-4, 2.5e-4], [6e-4, 0, 3e-4, 9e-4], [2e-4, 4e-4, 0, 8e-4]])
    imp = rng.choice(["pp", "pp", "fs", "none", "rw", "coll", "pp+rw"])
    kw = dict(n=n, steps=steps, rot=rot, outstep=outstep, save=save, currents=cur,
              shiftx=rng.choice([0, 0, 1, 2, 3, -1, -2.5]), shifty=rng.choice([0, 0, -2, 1, 1.5, -3]),
              renorm=rng.choice([0, 0, -1, 1, 3, 5]), padding=rng.choice([2, 4, 8]))
    if imp == "pp":
        kw.update(gap=0.03)
    elif imp == "fs":
        kw.update(gap=-0.03)
    elif imp == "none":
        kw.update(gap=0)
    elif imp == "rw":
        kw.update(gap=0.03, usecsr=0, wallcond=rng.choice([3.7e7, 1.4e6]))
    elif imp == "coll":
        kw.update(gap=0.03, usecsr=0, collimator=0.01)
    else:
        kw.update(gap=0.03, wallcond=3.7e7)
    if rng.random() < 0.3:
        kw["tracking"] = [(rng.uniform(-2, 2), rng.uniform(-2, 2)) for _ in range(rng.randint(1, 4))]
        kw["extra"] = ["--FPTrack", "1"]          # deterministic tracking (the stochastic one is C15's)
    if rng.random() < 0.2:
        kw["cutoff"] = rng.choice([0, 23e9, 5e10])
    c = hc.Cfg(**kw)
    c.cid = "g%d" % i
    c.imp = imp
    return c


def machine_cfgs(seed, quick):
    """configurations whose machine parameters are NOT at their defaults (own PRNG: the base stream keeps its draws):
    the product {BendingRadius not given, three explicit radii} x {alpha0 default, another alpha0, two explicit synchrotron
    frequencies}, each with a CSR wake so that the Meter/Second/Turn/Volt factors AND the absolute wake strength are
    compared with what /Info/Parameters implies.  An explicit radius changes V0, hence V_eff, f_s (alpha0 route), the
    natural bunch length and dt by 1e-4 .. 3e-2 - far above the 1e-6 the unit oracles allow."""
    import random
    rng = random.Random(seed * 7919 + 101)
    out = []
    routes = [dict(), dict(alpha0=2e-3), dict(fs=30e3), dict(fs=61e3)]
    bends = [None, 0.75, 5.559, 8.0]
    combos = [(b, r) for b in bends for r in routes]
    if quick:
        # every explicit radius with every route; the default radius with two of them
        combos = [(b, r) for (b, r) in combos if b is not None] + [(None, routes[1]), (None, routes[3])]
    for i, (b, r) in enumerate(combos):
        n = rng.choice([16, 20, 24])
        cur = rng.choice([[1e-3], [1e-3], [1e-3, 5e-4], [4e-4, 0, 1.2e-3]])
        kw = dict(n=n, steps=rng.choice([8, 10, 16]), rot=rng.choice(["0.5", "1"]), outstep=rng.choice([2, 3, 5]), save=rng.choice([1, 2]),
                  currents=cur, shiftx=rng.choice([0, 1]), shifty=rng.choice([0, -2]), renorm=rng.choice([0, -1]),
                  padding=rng.choice([2, 4]), gap=rng.choice([0.03, -0.03]), bend=b)
        kw.update(r)
        if rng.random() < 0.3:
            kw["vrf"] = rng.choice([6e5, 1.4e6])       # moderate RF voltage: V0/V_RF larger, the radius matters more
        c = hc.Cfg(**kw)
        c.cid, c.imp = "m%d" % i, "machine"
        out.append(c)
    return out


def stepsrev_cfgs(seed, quick):
    """configurations with StepsPerRevolution > 0 (own PRNG): the option overrides StepsPerTs, the run then takes
    steps = StepsPerRevolution*f_rev/f_s steps per synchrotron period - in general not a whole number and never the value of the
    StepsPerTs OPTION (given as something else here, or left at its default 1000).  Time axis (value k/steps of every record,
    final record included), laststep, dt, the Second/Turn factors all follow the EFFECTIVE step count.  f_s is given explicitly
    (binary32-exact) in most cases so that steps is the exact double spr*f_rev/f_s; the alpha0 route is used for the rest."""
    import random
    rng = random.Random(seed * 104729 + 7)
    out = []
    F_REV = 9e6
    for i in range(6 if quick else 40):
        fs = rng.choice([30e3, 61e3, 45e3, None])
        target = rng.choice([8.3, 12.5, 17.0, 25.55, 10.0, 33.3, 20.5])
        spr = target * (fs if fs else 33.2e3) / F_REV        # alpha0 route: f_s is near 33 kHz for the default machine
        rot = rng.choice(["0.5", "1", "1.5", "0.75"])
        last = int(math.ceil(target * float(rot)))
        kw = dict(n=rng.choice([16, 20, 24]), steps=rng.choice([1000, 1000, 10, 20, 40]), rot=rot,
                  outstep=rng.choice([1, 2, 3, 5, 7, last + 2]), save=rng.choice([0, 1, 2, 3]),
                  currents=rng.choice([[1e-3], [1e-3, 5e-4], [4e-4, 0, 1.2e-3]]), shiftx=rng.choice([0, 1]), shifty=rng.choice([0, -2]),
                  renorm=rng.choice([0, -1, 3]), padding=rng.choice([2, 4]), gap=rng.choice([0.03, -0.03, 0]), spr=spr)
        if fs:
            kw["fs"] = fs
        c = hc.Cfg(**kw)
        c.cid, c.imp = "v%d" % i, "steps-per-revolution"
        out.append(c)
    return out


def close(a, b, tol):
    return abs(a - b) <= tol


class FileCheck:
    """all comparisons for one results file"""

    def __init__(self, ctx, c, h, model, dis):
        self.ctx, self.c, self.h, self.m, self.dis = ctx, c, h, model, dis
        self.nontrivial = False

    def bad(self, clause, what, observed=None, expected=None, **sig):
        s = dict(kind="h5", clause=clause)
        s.update(sig)
        self.ctx.violation("impl-oracle", what, case=self.c.replay(), observed=observed, expected=expected, sig=s)

    def disagree(self, what, detail):
        self.dis.append(dict(case=self.c.replay(), detail=dict(what=what, detail=detail),
                             sig=dict(kind="h5", stage="correspondence", what=what)))

    # ---------------------------------------------------------------- shape against the model
    def shape(self):
        c, h, m = self.c, self.h, self.m
        tags = {i: [hc.pz(t) for t in m["sched"]["tags"][i]] for i in range(16)}
        inner = {i: [hc.pz(t) for t in m["dims"]["inner"][i]] for i in range(16)}
        self.tags = tags
        for i, path in enumerate(hc.DSETS):
            dm = h.dims(path)
            if dm is None:
                self.disagree("dataset missing", path)
                continue
            exp = [len(tags[i])] + inner[i]
            if dm != exp:
                self.disagree("shape of %s" % path, dict(file=dm, model=exp))
                # the property: as many records as the time axis
                if i in (1, 2, 3, 4, 5, 6, 7, 8, 9, 11) or (i == 10 and c.has_wake()):
                    nt = (h.dims("/Info/AxisValues_t") or [None])[0]
                    if dm[0] != nt:
                        self.bad("record-count", "%s has %s records, the time axis %s" % (path, dm[0], nt),
                                 observed=dm, expected=nt, dataset=path)
                if i == 13 and dm[0] != (h.dims("/PhaseSpace/axis0") or [None])[0]:
                    self.bad("record-count", "/PhaseSpace/data and its time axis differ in length", observed=dm,
                             dataset=path)
            if m["dims"]["rowsok"][i] != ["1"]:
                self.disagree("rows_ok false in the model", path)
        # time values: float(double(k)/steps) exactly as the C++ computes them
        steps = c.eff_steps()      # StepsPerTs, or StepsPerRevolution*f_rev/f_s when that option is set
        for i, path in ((0, "/Info/AxisValues_t"), (12, "/PhaseSpace/axis0")):
            vals = h.values(path)
            exp = [hc.f32(float(k) / steps) for k in tags[i]]
            if vals != exp:
                self.disagree("values of %s" % path, dict(file=vals[:12], model=exp[:12]))
                self.bad("time-axis", "%s does not list the output steps in synchrotron periods%s" % (
                             path, " (StepsPerRevolution %r: %.6g steps per synchrotron period, StepsPerTs option %s)" % (c.spr, steps, c.steps) if c.spr else ""),
                         observed=vals[:20], expected=exp[:20], dataset=path, steps_per_revolution=bool(c.spr))
            mq = [parse_q(t) for t in m["tv%d" % i]["t"]]
            for v, q in zip(vals, mq):
                if abs(Fraction(v) - q) > ulp32(q):
                    self.disagree("time value vs exact k/steps", dict(file=v, model=str(q)))
        if hc.pz(m["last"]["laststep"][0]) != c.laststep():
            self.disagree("laststep", dict(model=m["last"]["laststep"], python=c.laststep()))
        if tags[0] and tags[0][-1] != c.laststep():
            self.disagree("final tag", tags[0][-1])

    # ---------------------------------------------------------------- axes and units
    def axes_units(self):
        c, h = self.c, self.h
        P = {k[1]: h.attr(k[0], k[1]) for k in h.attrs if k[0] == "/Info/Parameters"}
        self.P = P
        d = hc.derive(P, c.currents)
        self.d = d
        n = c.n
        for path, lo, hi, sh, nm in (("/Info/AxisValues_z", d["qmin"], d["qmax"], P["PhaseSpaceShiftX"], "axz"),
                                     ("/Info/AxisValues_E", d["pmin"], d["pmax"], P["PhaseSpaceShiftY"], "axe")):
            vals = h.values(path)
            exp, delta = hc.ruler32(n, lo, hi)
            mq = [parse_q(t) for t in self.m[nm]["axis"]]
            if vals != exp:
                self.disagree("values of %s" % path, dict(file=vals[:6], float_mirror=exp[:6]))
            tol = Fraction(8 * EPS) * max(abs(mq[0]), abs(mq[-1]), 1)
            if len(vals) != len(mq) or any(abs(Fraction(v) - q) > tol for v, q in zip(vals, mq)):
                self.bad("axis", "%s does not hold the grid coordinates of its axis" % path,
                         observed=vals[:8], expected=[float(q) for q in mq[:8]], dataset=path)
        self.qax, self.dq = hc.ruler32(n, d["qmin"], d["qmax"])
        self.pax, self.dp = hc.ruler32(n, d["pmin"], d["pmax"])
        if c.shiftx != c.shifty:
            self.nontrivial = True
        # frequency axis: first nmax/2 points of Ruler(nmax, 0, 1/delta_q)
        fax = h.values("/Info/AxisValues_f")
        fexp, fdelta = hc.ruler32(d["padded"], 0.0, hc.f32(1.0 / self.dq))
        self.df = fdelta
        if fax != fexp[:d["padded"] // 2]:
            self.disagree("values of /Info/AxisValues_f", dict(file=fax[:4], float_mirror=fexp[:4]))
            if len(fax) != d["padded"] // 2 or any(not close(a, b, 1e-5 * abs(b) + 1e-30) for a, b in zip(fax, fexp)):
                self.bad("axis", "/Info/AxisValues_f does not hold the first nmax/2 frequencies", observed=fax[:6],
                         expected=fexp[:6], dataset="/Info/AxisValues_f")
        # bucket numbers: position of each filled bucket counted from the end
        bn = h.values("/Info/BucketNumbers")
        bexp = [len(c.currents) - 1 - i for i, x in enumerate(c.currents) if x > 0]
        if bn != bexp:
            self.bad("buckets", "/Info/BucketNumbers", observed=bn, expected=bexp)
        # ---- units
        A = lambda p, a: h.attr(p, a)
        rel = lambda a, b, t: a is not None and abs(a - b) <= t * abs(b)
        u = []
        meter = A("/Info/AxisValues_z", "Meter")
        u.append(("Meter = bl (binary32)", meter, hc.f32(d["bl"]), 1e-12))
        u.append(("Meter = c*sE*alpha0/(2 pi fs)", meter, hc.C_LIGHT * d["sE"] * float(P["alpha0"]) / (2 * math.pi * d["fs"])
                  if P["SynchrotronFrequency"] == 0 else meter, 1e-6))
        u.append(("Second(z) = Meter/c", A("/Info/AxisValues_z", "Second"), meter / hc.C_LIGHT, 1e-15))
        ev = A("/Info/AxisValues_E", "ElectronVolt")
        u.append(("ElectronVolt = sE*E0 (binary32)", ev, hc.f32(d["dE"]), 1e-12))
        u.append(("Second(t) = 1/fs", A("/Info/AxisValues_t", "Second"), 1.0 / d["fs"], 1e-12))
        u.append(("Turn = f_rev/fs", A("/Info/AxisValues_t", "Turn"), d["f_rev"] / d["fs"], 1e-12))
        u.append(("Turn = Second*f_rev", A("/Info/AxisValues_t", "Turn"), A("/Info/AxisValues_t", "Second") * d["f_rev"], 1e-15))
        u.append(("PS Second", A("/PhaseSpace/axis0", "Second"), 1.0 / d["fs"], 1e-12))
        u.append(("PS Turn", A("/PhaseSpace/axis0", "Turn"), d["f_rev"] / d["fs"], 1e-12))
        amp = A("/BunchPopulation/data", "Ampere")
        u.append(("Ampere = sum of bunch currents", amp, d["Ib"], 1e-12))
        u.append(("Coulomb = Ampere/f_rev", A("/BunchPopulation/data", "Coulomb"), amp / d["f_rev"], 1e-15))
        for p, a1, a2 in (("/BunchProfile/data", "AmperePerNBL", "CoulombPerNBL"), ("/EnergyProfile/data", "AmperePerNES", "CoulombPerNES"),
                          ("/PhaseSpace/data", "AmperePerNBLPerNES", "CoulombPerNBLPerNES")):
            u.append((p + " " + a1, A(p, a1), amp, 0))
            u.append((p + " " + a2, A(p, a2), amp / d["f_rev"], 1e-15))
        for p in ("/BunchLength/data", "/BunchPosition/data"):
            u.append((p + " Meter", A(p, "Meter"), meter, 0))
            u.append((p + " Second", A(p, "Second"), meter / hc.C_LIGHT, 1e-15))
        for p in ("/EnergySpread/data", "/EnergyAverage/data"):
            u.append((p + " ElectronVolt", A(p, "ElectronVolt"), ev, 0))
        hz = A("/Info/AxisValues_f", "Hertz")
        u.append(("Hertz = c/Meter (binary32)", hz, hc.f32(hc.C_LIGHT / meter), 1e-12))
        volt = A("/WakePotential/data", "Volt")
        # volts = float(delta_E) * float(eV) / float(revolutionpart), evaluated in binary32
        vexp = hc.f32(hc.f32(self.dp * hc.f32(d["dE"])) / hc.f32(d["revolutionpart"]))
        u.append(("Volt = dE_grid*eV/revolutionpart", volt, vexp, 1e-6))
        u.append(("Volt = dE_grid*sE*E0*fs*steps/f_rev", volt, self.dp * d["dE"] * d["fs"] * d["steps"] / d["f_rev"], 1e-6))
        wph = A("/CSR/Spectrum/data", "WattPerHertz")
        u.append(("WattPerHertz = 2*Ib^2/f_rev (factor4Ohms = 1)", wph, 2 * 1.0 * amp * amp / d["f_rev"], 1e-12))
        u.append(("Watt = WattPerHertz*Hertz", A("/CSR/Intensity/data", "Watt"), wph * hz, 1e-12))
        for name, got, exp, t in u:
            if got is None or not rel(got, exp, t):
                self.bad("units", "unit attribute: " + name, observed=got, expected=exp, unit=name.split(" ")[0])
        self.ctx.count("units-checked", len(u))

    # ---------------------------------------------------------------- contents of each record
    def contents(self):
        c, h, d = self.c, self.h, self.d
        n, nb = c.n, c.nb()
        ws = hc.simpson32(n, self.dq)
        qax, pax, dq, dp = self.qax, self.pax, self.dq, self.dp
        prof = hc.chunks(h.values("/BunchProfile/data"), n)
        epro = hc.chunks(h.values("/EnergyProfile/data"), n)
        pop = h.values("/BunchPopulation/data")
        pos, blen = h.values("/BunchPosition/data"), h.values("/BunchLength/data")
        eav, esp = h.values("/EnergyAverage/data"), h.values("/EnergySpread/data")
        ps = h.values("/PhaseSpace/data")
        csri = h.values("/CSR/Intensity/data")
        W = d["padded"] // 2
        csrs = hc.chunks(h.values("/CSR/Spectrum/data"), W) if W else []
        tt, tps = self.tags[0], self.tags[12]
        share = [hc.f32(x) / d["Ib"] for x in c.currents if x > 0]
        K = n + 8

        def chk(clause, r, b, got, exp, tol, what):
            if not close(got, exp, tol):
                self.bad(clause, what + " (record %d, bunch %d)" % (r, b), observed=got, expected=exp,
                         multibunch=nb > 1)
                return False
            return True

        for r, k in enumerate(tt):
            renorm_here = c.renorm > 0 and k % c.renorm == 0
            for b in range(nb):
                P_ = prof[r * nb + b]
                E_ = epro[r * nb + b]
                fl = pop[r * nb + b]
                # population = Simpson integral of the stored profile
                s = sum(p * w for p, w in zip(P_, ws))
                cond = sum(abs(p * w) for p, w in zip(P_, ws))
                chk("population", r, b, fl, s, K * EPS * cond, "stored population is not the integral of the stored profile")
                if k == 0 and c.renorm >= 0:
                    # first record: each bunch holds its share of the charge (rows are bunches)
                    chk("bunch-rows", r, b, fl, share[b], 1e-4, "bunch row does not hold that bunch's share of the charge")
                if fl == 0 or fl != fl:
                    continue        # an empty bunch: the C++ divides by zero, nothing to compare
                # moments of the stored profiles
                for (pr, ax, dl, mean, rms, nm) in ((P_, qax, dq, pos, blen, "position/length"), (E_, pax, dp, eav, esp, "energy/spread")):
                    avg = sum(p * q for p, q in zip(pr, ax)) * dl / fl
                    ca = sum(abs(p * q) for p, q in zip(pr, ax)) * dl / abs(fl)
                    ok = chk("moments", r, b, mean[r * nb + b], avg, K * EPS * ca + 1e-30, "stored mean (%s) is not the first moment of the stored profile" % nm)
                    m0 = mean[r * nb + b]
                    var = sum(p * (q - m0) ** 2 for p, q in zip(pr, ax)) * dl / fl
                    cv = sum(abs(p) * (q - m0) ** 2 for p, q in zip(pr, ax)) * dl / abs(fl)
                    got = rms[r * nb + b]
                    if var >= 0:
                        chk("moments", r, b, got * got, var, 4 * K * EPS * cv + 1e-30, "stored rms (%s) is not the second central moment of the stored profile" % nm)
                # CSR intensity = df * sum of the stored spectrum (+ the Nyquist bin, see known findings)
                if W:
                    S_ = csrs[r * nb + b]
                    tot = self.df * sum(S_)
                    resid = csri[r * nb + b] - tot
                    tolr = 4 * (2 * W + 8) * EPS * self.df * sum(abs(x) for x in S_) + 1e-30
                    if abs(resid) > tolr:
                        pred = self.nyquist(P_, S_, W)
                        if 0 < resid <= 4 * pred + tolr:
                            self.bad("csr-intensity", "stored CSR intensity exceeds df*sum(stored spectrum) by the Nyquist bin, which the "
                                     "intensity includes and the stored spectrum (nmax/2 columns) does not", observed=csri[r * nb + b],
                                     expected=tot, cause="nyquist-bin")
                        else:
                            self.bad("csr-intensity", "stored CSR intensity is not df*sum of the stored spectrum (record %d, bunch %d)" % (r, b),
                                     observed=csri[r * nb + b], expected=tot, cause="other", multibunch=nb > 1)
                    if tot > 0:
                        self.nontrivial = True
                # projections of the stored phase space, when it was saved at this record
                if k in tps:
                    final = r == len(tt) - 1
                    j = len(tps) - 1 if final else tps.index(k)
                    G = ps[(j * nb + b) * n * n:(j * nb + b + 1) * n * n]
                    # integrateAndNormalize runs between the projection and the append (DESIGN C10.3):
                    # projX(stored grid) = (set/measured) * stored profile at a renormalisation step.  The
                    # initial phase-space record (SavePhaseSpace = 0) is written before the loop head instead.
                    cs = share[b] / fl if renorm_here else 1.0
                    initial = c.save == 0 and k == 0 and not final
                    scale, yscale = (1.0, cs) if initial else (cs, 1.0)
                    for x in range(n):
                        row = G[x * n:(x + 1) * n]
                        px = sum(g * w for g, w in zip(row, ws))
                        cx = sum(abs(g * w) for g, w in zip(row, ws))
                        if not close(px, scale * P_[x], (K + 4) * EPS * cx + 1e-30):
                            self.bad("profile", "stored bunch profile is not the projection of the stored phase space "
                                     "(record %d, bunch %d, x=%d)" % (r, b, x), observed=P_[x], expected=px / scale,
                                     renorm_step=renorm_here, multibunch=nb > 1)
                            break
                    for y in range(n):
                        col = G[y::n]
                        py = sum(g * w for g, w in zip(col, ws))
                        cy = sum(abs(g * w) for g, w in zip(col, ws))
                        if not close(py * yscale, E_[y], (K + 4) * EPS * cy * yscale + 1e-30):
                            self.bad("profile", "stored energy profile is not the projection of the stored phase space "
                                     "(record %d, bunch %d, y=%d)" % (r, b, y), observed=E_[y], expected=py, multibunch=nb > 1)
                            break
                    self.nontrivial = True
        # tracked particles: one row per particle, inside the grid
        if c.tracking:
            pd = h.dims("/Particles/data")
            if pd[1] != len(c.tracking):
                self.bad("particles", "number of tracked particles", observed=pd, expected=len(c.tracking))


    def wake(self):
        """the stored wake potential is the convolution of the stored bunch profile with the stored impedance
        (C06's formula: pad at bucket*spacing, half-spectrum product, FFTW's c2r convention, read back at the bunch's
        position) times the absolute scale Ib*dt*c/(bl*dE_cell)/N implied by /Info/Parameters - checked at the
        first, a middle and the LAST record (the one the final block writes)"""
        c, h, d = self.c, self.h, self.d
        if not c.has_wake() or "/WakePotential/data" not in h.ds or "/Impedance/data/real" not in h.ds:
            return
        n, nb = c.n, c.nb()
        zre, zim = h.values("/Impedance/data/real"), h.values("/Impedance/data/imag")
        nh = len(zre)
        N = 2 * nh
        prof = hc.chunks(h.values("/BunchProfile/data"), n)
        wp = hc.chunks(h.values("/WakePotential/data"), n)
        nrec = len(self.tags[0])
        if len(wp) != nrec * nb or nh < 2:
            return
        buckets = [int(b) for b in h.values("/Info/BucketNumbers")]
        sp = d["spacing_bins"] if len(c.currents) > 1 else 0
        # the transform length is the one the STORED impedance implies (twice its length).  main() sizes the wake
        # impedance so that the whole train fits (C06_main_train_fits, C17); if the stored impedance is shorter than
        # that, the only reading left is the cyclic one (positions modulo N) - evaluated like any other file, so a
        # dataset that holds only part of the impedance in use shows up as a wake that is not this convolution
        fits = all(b * sp + n <= N for b in buckets)
        scale = hc.f32(hc.f32(d["Ib"] * d["dt"] * hc.C_LIGHT / d["bl"] / (float(self.dp) * d["sE"] * d["E0"])) / N)
        cs = [math.cos(2 * math.pi * k / N) for k in range(N)]
        sn = [math.sin(2 * math.pi * k / N) for k in range(N)]
        recs = sorted(set([0, nrec // 2, nrec - 1]))
        if N > 2048:
            recs = [nrec - 1]
        for r in recs:
            cells = [((buckets[b] * sp + x) % N, prof[r * nb + b][x]) for b in range(nb) for x in range(n) if prof[r * nb + b][x] != 0]
            if not cells:
                continue
            xr, xi = [0.0] * nh, [0.0] * nh
            for j in range(nh):
                fr = fi = 0.0
                for (u, p) in cells:
                    k = (u * j) % N
                    fr += p * cs[k]
                    fi -= p * sn[k]
                xr[j] = zre[j] * fr - zim[j] * fi
                xi[j] = zre[j] * fi + zim[j] * fr
            step = 1 if N <= 1024 else 3
            exp, got = [], []
            for b in range(nb):
                for x in range(0, n, step):
                    i = (buckets[b] * sp + x) % N
                    s = xr[0]
                    for j in range(1, nh):
                        k = (i * j) % N
                        s += 2 * (xr[j] * cs[k] - xi[j] * sn[k])
                    exp.append(scale * s)
                    got.append(wp[r * nb + b][x])
            mx = max(abs(v) for v in exp) if exp else 0.0
            if mx == 0:
                continue
            for e, g in zip(exp, got):
                if abs(g - e) > 2e-3 * abs(e) + 3e-4 * mx:
                    self.bad("wake", "stored wake potential is not the convolution of the stored bunch profile with the stored impedance "
                             "at the absolute scale implied by the stored parameters (record %d of %d)%s" % (
                                 r, nrec, "" if fits else "; the transform length 2*%d implied by the stored impedance cannot even hold "
                                 "the bunch train (buckets %s, %d cells apart)" % (nh, buckets, sp)), observed=g, expected=e,
                             final_record=(r == nrec - 1), multibunch=nb > 1, train_fits=fits)
                    break
            self.nontrivial = True
            self.ctx.count("wake-record:%s" % ("several-buckets" if len(c.currents) > 1 else "one-bucket"))

    def nyquist(self, P_, S_, W):
        """estimate of the Nyquist bin of the spectrum from the stored profile and the last stored bins"""
        nmax = 2 * W
        fn = sum(p * (1 if x % 2 == 0 else -1) for x, p in enumerate(P_)) ** 2
        best = 0.0
        for i in range(max(1, W - 4), W):
            re = sum(p * math.cos(2 * math.pi * i * x / nmax) for x, p in enumerate(P_))
            im = sum(p * math.sin(2 * math.pi * i * x / nmax) for x, p in enumerate(P_))
            f2 = re * re + im * im
            if f2 > 0:
                best = max(best, S_[i] / f2 * (W / i) ** (1.0 / 3.0))
        return self.df * best * fn


def model_text(c, d):
    nb, n = c.nb(), c.n
    nmax = d["padded"]
    imp = (d["spaced"] if len(c.currents) > 1 else d["padded"]) if c.has_wake() else 0
    np_ = len(c.tracking) if c.tracking else 0
    stop = c.laststep()
    t = "sched %s.sched %s %s %d %s\n" % (c.cid, hc.zt(c.outstep), hc.zt(c.save), 1 if c.has_wake() else 0, hc.zt(stop))
    t += "dims %s.dims %s %s %s %s %s\n" % (c.cid, hc.zt(nb), hc.zt(n), hc.zt(nmax), hc.zt(imp), hc.zt(np_))
    t += "laststep %s.last %s %s\n" % (c.cid, qtok(Fraction(c.eff_steps())), qtok(Fraction(float(c.rot))))
    pq = Fraction(hc.f32(c.pqsize)) if c.pqsize is not None else Fraction(12)
    t += "axis %s.axz %s %s %s\n" % (c.cid, hc.zt(n), qtok(pq), qtok(Fraction(hc.f32(c.shiftx))))
    t += "axis %s.axe %s %s %s\n" % (c.cid, hc.zt(n), qtok(pq), qtok(Fraction(hc.f32(c.shifty))))
    return t


def model_time_text(c, tags):
    t = ""
    for i in (0, 12):
        t += "tvals %s.tv%d %s %d %s\n" % (c.cid, i, qtok(Fraction(c.eff_steps())), len(tags[i]), " ".join(hc.zt(k) for k in tags[i]))
    return t


def check_cfg(ctx, tg, c, dis, keep=None):
    wd = hc.workdir()
    try:
        out = os.path.join(wd, "r.h5")
        rc, so, se = hc.run_inovesa(tg, c.args(out, wd), timeout=300)
        if rc != 0 or not os.path.exists(out):
            ctx.violation("impl-oracle", "inovesa failed on a generated configuration (rc=%s)" % rc, case=c.replay(),
                          observed=(so + se)[-600:], sig=dict(kind="h5", clause="run"))
            return
        h = hc.h5cat(tg, out)
        if h.error:
            ctx.violation("impl-oracle", "results file unreadable: %s" % h.error, case=c.replay(), sig=dict(kind="h5", clause="run"))
            return
        # a first derive to know the padded sizes (from the configuration as the program saw it)
        P = {k[1]: h.attr(k[0], k[1]) for k in h.attrs if k[0] == "/Info/Parameters"}
        if "GridSize" not in P or "/Info/AxisValues_t" not in h.ds:
            # the program returned 0 but gave up on its results file half way (an HDF5 error during set-up is caught
            # in main() and turned into an abort): nothing in such a file describes the run
            ctx.violation("impl-oracle", "the results file of a run that exited with status 0 is incomplete (no /Info/Parameters or no time axis)",
                          case=c.replay(), observed=(so + se)[-600:], sig=dict(kind="h5", clause="run"))
            return
        d = hc.derive(P, c.currents)
        if c.spr:
            # the effective number of steps per synchrotron period: main()'s `steps` = StepsPerRevolution*f_rev/f_s (double)
            c.steps_eff = d["steps"]
            ctx.count("steps:StepsPerRevolution(%s steps per T_s)" % ("whole" if float(d["steps"]).is_integer() else "non-integer"))
        m1 = hc.run_model(model_text(c, d))
        tags = {i: [hc.pz(t) for t in m1[c.cid + ".sched"]["tags"][i]] for i in range(16)}
        m2 = hc.run_model(model_time_text(c, tags))
        model = dict(sched=m1[c.cid + ".sched"], dims=m1[c.cid + ".dims"], last=m1[c.cid + ".last"],
                     axz=m1[c.cid + ".axz"], axe=m1[c.cid + ".axe"], tv0=m2[c.cid + ".tv0"], tv12=m2[c.cid + ".tv12"])
        fc = FileCheck(ctx, c, h, model, dis)
        fc.shape()
        fc.axes_units()
        fc.contents()
        fc.wake()
        ctx.case_done(c.cid, fc.nontrivial)
        ctx.count("imp:" + getattr(c, "imp", "?"))
        ctx.count("nb:%d" % c.nb())
        ctx.count("records:%d" % min(len(tags[0]), 20))
        ctx.sample(dict(cfg=" ".join(str(a) for a in c.args("r.h5")), t_axis=tags[0][:8], ps_axis=tags[12][:8]))
        if keep is not None:
            keep.append((c, h))
    finally:
        hc.cleanup(wd)


def run(ctx):
    ctx.rule = ("program level: generated configurations (GridSize 16..48, shifts, 1-3 bunches with gaps and different currents, "
                "outstep incl. 0 and > laststep, SavePhaseSpace 0..5, steps, rotations, impedance none/free space/parallel plates/"
                "resistive wall/collimator, RenormalizeCharge -1/0/k, tracking on/off) run through the real binary; file shape, time "
                "values and axes compared exactly with the extracted model; every record's contents checked against the file's own "
                "data. Non-trivial: a phase-space record was checked against its profiles, or the CSR spectrum is non-zero, or the shifts differ.")
    coq = vp_coq.full_check("C10", ctx, fams=("h5",))
    tg = ctx.build(want_binary=True, harness=("h5cat",))
    dis = []
    ncfg = 80 if ctx.quick() else 600
    # boundary corpus first
    corpus = [hc.Cfg(n=16, steps=20, rot="1.5", outstep=7, save=2, currents=[1e-3, 0, 5e-4], shiftx=3, shifty=-2, padding=2),
              hc.Cfg(n=16, steps=10, rot="0.1", outstep=0, save=0, currents=[1e-3], gap=0),
              hc.Cfg(n=20, steps=5, rot="1", outstep=5, save=1, currents=[1e-3, 5e-4], renorm=1, padding=8),
              hc.Cfg(n=17, steps=8, rot="1", outstep=3, save=3, currents=[5e-4], gap=-0.03, renorm=-1, shiftx=1, shifty=1.5)]
    for i, c in enumerate(corpus):
        c.cid, c.imp = "c%d" % i, "corpus"
    cases = corpus + [gen_cfg(ctx.rng, i, ctx.quick()) for i in range(ncfg)] + machine_cfgs(ctx.seed, ctx.quick()) \
        + stepsrev_cfgs(ctx.seed, ctx.quick())
    for c in cases:
        check_cfg(ctx, tg, c, dis)
    ctx.extra["correspondence_disagreements"] = len(dis)
    ctx.assumptions += ["the file is modelled as the log of _appendData calls; HDF5's own storage is trusted",
                        "record contents (design clause 3) are evaluated on the implementation, the theorems about projections/moments belong to C09",
                        "stored wake potential vs stored impedance is C06's; /RFKicks is C19's",
                        "unit identities are proved in every field; their transcription from the constructor is validated numerically against every file"]
    ctx.trusted.add("harness/h5cat.cpp, lib/h5_cases.py (float32 mirror of Ruler/Simpson weights, main.cpp derived quantities)")
    conclude(ctx, coq, dis)


def replay(ctx, rp):
    coq = vp_coq.full_check("C10", ctx, fams=("h5",))
    tg = ctx.build(want_binary=True, harness=("h5cat",))
    case = rp.get("case") or {}
    kw = {k: v for k, v in case.items() if k in ("n", "steps", "rot", "outstep", "save", "currents", "shiftx", "shifty", "gap",
                                                "usecsr", "wallcond", "collimator", "renorm", "tracking", "padding", "cutoff", "extra", "zoom",
                                                "bend", "alpha0", "fs", "vrf", "pqsize", "spr")}
    c = hc.Cfg(**kw)
    c.cid, c.imp = "replay", "replay"
    dis = []
    check_cfg(ctx, tg, c, dis)
    conclude(ctx, coq, dis)
