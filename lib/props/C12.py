"""C12 - observing the simulation does not change it; equal inputs give equal outputs.

Theorems: coq/Props/Properties_C12.v (driver model, generated main_prog, reflection checkers).
Tie: translate/mainloop2coq.py regenerates main_prog from src/main.cpp on every run; the label
trace of the real binary (VERIF_POINT hook) and the shape of its results file are compared with the
extracted model for every configuration run here.
Oracle (the property itself, on the real binary): runs that differ only in outstep / SavePhaseSpace /
tracking / verbosity / output name must agree bit for bit on every record with the same step number
(the reference run writes a full record at every step, so every record of every variant is compared),
in particular on the final phase space; a repeated run must reproduce every physics dataset."""
import os, json, shutil
from vp_common import *
import vp_coq, vp_build
import driver_cases as dc
import wisdom_cases

USE_MODEL = True
PHYS_PREFIXES = ("/BunchLength", "/BunchPopulation", "/BunchPosition", "/BunchProfile", "/CSR", "/EnergyAverage",
                 "/EnergyProfile", "/EnergySpread", "/Particles", "/PhaseSpace", "/RFKicks", "/WakePotential", "/Info/AxisValues")


def workdir(ctx):
    d = os.path.join(VERIF, ".cache", "work", "%s-%d-%d" % (ctx.pid, ctx.seed, os.getpid()))
    shutil.rmtree(d, ignore_errors=True)
    os.makedirs(d)
    return d


def base_configs(ctx):
    rng = ctx.rng
    nb = 6 if ctx.quick() else 24
    res = []
    for i in range(nb):
        cfg = dict(n=rng.choice([16, 24, 32]), N=rng.choice([5, 6, 7, 8, 9, 10]), T=rng.choice([1, 1, 2]),
                   renorm=rng.choice([-1, 0, 0, 2, 3, 5]), wake=rng.random() < 0.8, dynrf=rng.random() < 0.3,
                   outstep=1, h5save=1, tracking=None, verbose=False)
        cfg["linrf"] = rng.choice([0, 1])
        if i == 0:
            cfg.update(wake=True, dynrf=False)
        if i == 1:
            # always one deterministic (noise-free) phase-modulated sinusoidal RF: identical inputs must give
            # identical outputs, and the repeat variant compares every physics dataset
            cfg.update(dynrf=True, linrf=0)
        if i == 2:
            cfg.update(dynrf=True, linrf=1)
        res.append(cfg)
    return res


def variants(ctx, base, wd, tfile):
    L = dc.laststep(base)
    outs = [0, 1, 3, 7, L] if ctx.quick() else sorted(set([0, 1, 2, 3, 5, 7, L - 1, L, L + 1, 2 * L]))
    saves = [0, 1, 2] if ctx.quick() else [0, 1, 2, 3]
    vs = []
    for o in outs:
        for h in saves:
            vs.append(dict(base, outstep=o, h5save=h, tag="o%d_s%d" % (o, h)))
    vs.append(dict(base, outstep=3, h5save=1, verbose=True, tag="verbose"))
    vs.append(dict(base, outstep=3, h5save=1, tag="renamed", name="another_name_for_the_results"))
    vs.append(dict(base, outstep=3, h5save=2, tracking=tfile, tag="tracking"))
    vs.append(dict(base, outstep=1, h5save=1, tag="repeat"))
    return vs


def product_configs(ctx):
    """systematic product (seed C12-H: a cache refreshed only when somebody looks): {wake, no wake} x RenormalizeCharge
    {<0, 0, k} x output cadence {0, 1 (the reference), coprime with k, multiple of k} - so that a renormalisation step is an output
    step in one run and lies some steps after the last output in another, with and without self-interaction.  Small grids; the run
    is 3k+2 steps long so that every cadence has renormalisation steps after its last record."""
    rng = ctx.rng
    res = []
    for wake in (True, False):
        k = rng.choice([2, 3, 4, 5])
        cop = rng.choice([c for c in (2, 3, 5, 7) if c % k and k % c])      # shares no factor with k
        mult = k * rng.choice([1, 2])
        for renorm in (-1, 0, k):
            base = dict(n=rng.choice([16, 24]), N=3 * k + 2, T=1, renorm=renorm, wake=wake, dynrf=False, outstep=1, h5save=1,
                        tracking=None, verbose=False)
            vs = [dict(base, outstep=o, h5save=rng.choice([0, 1, 2]), tag="prod_o%d" % o) for o in (0, cop, mult)]
            res.append((base, vs))
    return res


def observer_configs(ctx, tg, wd, tfile):
    """observer options x start kinds (seed F3-I: a verbose-only statement of the set-up that re-integrates a grid loaded from a
    file): start distribution {built-in Gaussian, .h5 last record, .h5 chosen record, .txt particles} x RenormalizeCharge {0, k} x
    observers {verbose, verbose with another cadence, renamed output with the other extension, tracking, no output steps}.  The
    .h5 start comes from a first leg that LOSES charge (wide Gaussian, no renormalisation), so that its records are not of unit
    charge and an initial normalisation that really rescales is visible in every cell; the particle file has particles outside
    the grid for the same reason.  Returns [(kind, base cfg, variants)] - None when the first leg cannot be made."""
    rng = ctx.rng
    n = rng.choice([16, 24])
    leg = dict(n=n, N=6, T=1, renorm=-1, wake=False, dynrf=False, outstep=2, h5save=1, tracking=None, verbose=False,
               extra=["--InitialDistZoom", rng.choice(["2.5", "3"])])
    legf = os.path.join(wd, "leg.h5")
    r = dc.run_real(tg, leg, legf, want_trace=False)
    if r["rc"] != 0 or not os.path.exists(legf):
        ctx.violation("impl-oracle", "first leg for the start-from-file configurations failed", case=dict(cmd=r["cmd"]), observed=r["log"][-400:],
                      sig={"oracle": "run-failed"})
        return []
    txt = os.path.join(wd, "start.txt")
    with open(txt, "w") as f:
        for _ in range(rng.randint(150, 400)):
            f.write("%.6f %.6f\n" % (rng.gauss(0, 2.2), rng.gauss(0, 2.2)))
    kinds = [("default", []), ("h5last", ["-i", legf]), ("h5step", ["-i", legf, "--InitialDistStep", str(rng.choice([1, 2]))]),
             ("txt", ["-i", txt])]
    prov = {"default": {}, "h5last": dict(first_leg=dc.cmdline(leg, "leg.h5")), "h5step": dict(first_leg=dc.cmdline(leg, "leg.h5")),
            "txt": dict(start_txt=open(txt).read())}
    res = []
    for kind, extra in kinds:
        k = rng.choice([2, 3])
        for renorm in (0, k):
            base = dict(n=n, N=rng.choice([4, 5, 6]), T=1, renorm=renorm, wake=rng.random() < 0.5, dynrf=False, outstep=1, h5save=1,
                        tracking=None, verbose=False, extra=extra, _prov=prov[kind])
            L = dc.laststep(base)
            vs = [dict(base, verbose=True, tag="obs_verbose"),
                  dict(base, verbose=True, outstep=rng.choice([2, 3]), h5save=rng.choice([0, 2]), tag="obs_verbose_cadence"),
                  dict(base, outstep=rng.choice([0, L]), h5save=rng.choice([0, 1]), tag="obs_nooutput"),
                  dict(base, outstep=2, tag="obs_renamed", name="other_name_" + kind, ext=".hdf5"),
                  dict(base, outstep=2, h5save=2, tracking=tfile, verbose=rng.random() < 0.5, tag="obs_tracking")]
            res.append((kind, base, vs))
    return res


def tail_configs(ctx, wd):
    """(family st3drv, seeds C12-I / C12-J) grids whose tails hold exact zeros and denormal numbers, with self-interaction, compared
    across cadences that include 'never' (outstep 0) and 'first and last only': (a) narrow starts (--InitialDistZoom 0.25..0.35 on
    24/32 cells: the energy rows beyond ~14 sigma_0 are exactly 0 at step 0 and fill up while damping/diffusion and the wake widen the
    bunch - anything that is determined at a write-out and used by the steps in between (a row range, a cached extent) shows as a
    dependence on the cadence); (b) wide extents (-P 32/40 on 64 cells: cells beyond 13 sigma hold denormal numbers - a step that runs
    under another floating-point environment after the first write-out (FTZ/DAZ, rounding mode) differs from the run that never
    writes); (c) a start from a particle file with a few hundred particles (most rows exactly empty).
    Returns [(kind, base, variants)]; the reference is the every-step run as everywhere else."""
    rng = ctx.rng
    res = []
    txt = os.path.join(wd, "tail_start.txt")
    with open(txt, "w") as f:
        for _ in range(rng.randint(60, 160)):
            f.write("%.6f %.6f\n" % (rng.gauss(0, 0.5), rng.gauss(0, 0.5)))
    kinds = [("narrow", dict(n=rng.choice([24, 32]), extra=["--InitialDistZoom", rng.choice(["0.25", "0.3", "0.35"])])),
             ("narrow", dict(n=rng.choice([24, 32]), extra=["--InitialDistZoom", rng.choice(["0.25", "0.3"])])),
             ("wide", dict(n=64, extra=["-P", rng.choice(["32", "40"])])),
             ("wide-narrow", dict(n=64, extra=["-P", "32", "--InitialDistZoom", "0.5"])),
             ("particles", dict(n=rng.choice([24, 32]), extra=["-i", txt], _prov=dict(start_txt=open(txt).read())))]
    if not ctx.quick():
        kinds += [("wide", dict(n=128, extra=["-P", "32"])), ("narrow", dict(n=48, extra=["--InitialDistZoom", "0.3"]))]
    for i, (kind, kw) in enumerate(kinds):
        N = rng.choice([6, 8, 10]) if kind.startswith("wide") else rng.choice([8, 12, 20])
        k = rng.choice([3, 4, 5])
        base = dict(n=kw["n"], N=N, T=1, renorm=(0, k)[i % 2], wake=True, dynrf=False, outstep=1, h5save=1, tracking=None,
                    verbose=False, extra=kw["extra"], _prov=kw.get("_prov") or {})
        L = dc.laststep(base)
        cop = rng.choice([c for c in (3, 5, 7) if c < L and L % c]) if L > 4 else 3
        vs = [dict(base, outstep=0, h5save=0, tag="tail_never"),
              dict(base, outstep=L, h5save=1, tag="tail_firstlast"),
              dict(base, outstep=cop, h5save=2, tag="tail_o%d" % cop),
              dict(base, outstep=L // 2 + 1, h5save=0, verbose=True, tag="tail_half_verbose")]
        res.append((kind, base, vs))
    return res


def tail_census(href, n):
    """(energy rows that are exactly empty, cells holding denormal numbers) in the first phase-space record of the reference"""
    try:
        row = [float.fromhex(t) for t in href["/PhaseSpace/data"]["rows"][0]]
    except Exception:
        return 0, 0
    cells = len(row) // (n * n) * n * n
    empty = sum(1 for y in range(n) if all(row[x * n + y] == 0 for x in range(n))) if cells else 0
    den = sum(1 for v in row if v != 0 and abs(v) < 2.0 ** -126)
    return empty, den


def classify(x, ref, var):
    """signature of one difference.  One situation gets a clause of its own (known finding initial-ps-record): the phase-space
    record of step 0 written by the prologue (`if (h5save == 0) append(.., PhaseSpace)`, "if not saved anyways") against the one the
    loop writes at step 0 AFTER `if (renormalize > 0 && step % renormalize == 0) integrateAndNormalize()`, for a start file"""
    sig = {"oracle": "cadence", "dataset": x.split(" ")[0]}
    if sig["dataset"] == "/PhaseSpace/data" and " record of step 0 " in x and (ref["h5save"] == 0) != (var["h5save"] == 0) \
            and ref["renorm"] > 0 and any(o in (ref.get("extra") or []) for o in ("-i", "--InitialDistZoom", "-P")):
        # (family st3drv) the same situation without a start file: a built-in Gaussian whose extent / zoom is not the default is
        # normalised to the last bit only by that first renormalisation (observed: 1 ulp in the tail cells, zoom 0.25)
        sig["clause"] = "initial-phase-space-vs-step0-renormalisation"
    return sig


def check_pair(ctx, tg, ref, href, var, wd, points, nsetup, dis, key):
    """runs one variant; model correspondence + the C12 oracle against the reference file"""
    out = os.path.join(wd, (var.get("name") or ("v_" + var["tag"])) + var.get("ext", ".h5"))
    r = dc.run_real(tg, var, out)
    h = dc.h5read(tg, out)
    ctx.count("variant:" + var["tag"].split("_")[0])
    short = lambda a: [os.path.basename(x) if x.startswith(wd) else x for x in a]
    case = dict(reference=short(dc.cmdline(ref, "ref.h5")), variant=short(dc.cmdline(var, "var.h5")), **(ref.get("_prov") or {}))
    mvar = dc.with_oracle(var, r) if USE_MODEL else var
    d = dc.compare_with_model(mvar, r, h, dc.run_model([("m", mvar, None, False, nsetup)])["m"], points, nsetup) if USE_MODEL else []
    for x in d:
        dis.append(dict(case=case, detail=x, sig={"stage": "correspondence", "what": x.split(" ")[0]}))
    if h is None or r["rc"] != 0:
        ctx.violation("impl-oracle", "run failed or results file unreadable (rc=%s)" % r["rc"], case=case,
                      observed=r["log"][-400:], sig={"oracle": "run-failed"})
        return
    skip = set()
    if bool(var.get("tracking")) != bool(ref.get("tracking")):
        skip.add("/Particles/data")
    dif, ncmp = dc.compare_common(href, ref, h, var, skip=skip)
    # the final phase space must be present in both and is part of the comparison above
    lastA = href["/PhaseSpace/data"]["rows"][-1]
    lastB = h["/PhaseSpace/data"]["rows"][-1]
    if lastA != lastB:
        dif.append("final phase space differs")
    if var["tag"] == "repeat":
        for ds in sorted(h):
            if ds.startswith(PHYS_PREFIXES) and (ds not in href or href[ds]["fnv"] != h[ds]["fnv"] or href[ds]["dims"] != h[ds]["dims"]):
                dif.append("repeated run: dataset %s differs" % ds)
    for x in dif[:3]:
        ctx.violation("impl-oracle", "runs differing only in how they are observed disagree: " + x, case=case,
                      observed=x, expected="bit-identical records for equal step numbers", sig=classify(x, ref, var))
    nontrivial = ncmp > 0 and href["/PhaseSpace/data"]["rows"][0] != lastA
    ctx.case_done(key + var["tag"], nontrivial)
    ctx.sample(dict(variant=" ".join(dc.cmdline(var, "var.h5")), compared_rows=ncmp, differences=len(dif),
                    trace_points=len(r["labels"])))


def run(ctx):
    ctx.rule = ("base configurations drawn from the seed (grid 16/24/32, 5-20 steps, renormalisation off/initial/periodic, "
                "wake on/off, RF modulation on/off); for each, a reference run with a full record at every step and "
                "variants outstep x SavePhaseSpace, verbose, renamed output, tracking, repeat; plus the systematic product {wake, no wake} x "
                "RenormalizeCharge {<0, 0, k} x outstep {0, 1, coprime with k, multiple of k} on runs of 3k+2 steps; every record of every "
                "variant compared bit for bit with the reference record of the same step; observer options (verbose, verbose with another "
                "cadence, renamed output / other extension, tracking, no output steps) x start distribution {built-in, .h5 last record, .h5 chosen "
                "record, .txt particles - files that do not hold unit charge} x RenormalizeCharge {0, k}; tails: narrow starts (InitialDistZoom 0.25-0.35: "
                "energy rows exactly empty at step 0), wide extents (-P 32/40 on 64 cells: denormal cells), a start from a few particles, all with "
                "the wake, cadences {never, first and last only, coprime, half + verbose} against the every-step reference; wisdom: configurations started in an "
                "EMPTY data directory and run through a history (3 runs, delete / garbage / copy of a wisdom file, directory removed or emptied, "
                "runs in between): files named in 'Created some wisdom' lines exist, runs 2 and 3 plan nothing and agree bit for bit, every run "
                "against the extracted wisdom machine over the generated prepareFFT table; non-trivial = at least one "
                "row compared and the phase space actually changes during the run")
    coq = vp_coq.full_check("C12", ctx, fams=("driver", "wisdom"))
    for x in (dc.observer_report() or []):
        ctx.notes.append("observer-guarded statement is not pure (obligation of C12_setup_observers_pure / C12_loop_observers_pure): " + x)
        ctx.log("not pure: " + x)
    tg = ctx.build(harness=("h5cat",), want_binary=True)
    ctx.trusted.add("harness: harness/h5cat.cpp, lib/driver_cases.py, VERIF_POINT hook (inc/VerifHooks.hpp), HDF5/FFTW libraries; "
                    "FFTW wisdom shared through XDG_DATA_HOME")
    ctx.trusted.add("process-level determinism (uninitialised memory; FFTW's planner: that a plan re-created from stored wisdom is the stored plan) is "
                    "established by the repeated runs only, not by a theorem; the logic that stores and re-uses the wisdom is (C12_wisdom_after_one_run_nothing_is_planned)")
    ctx.trusted.add("translate/fpenv2coq.py: lexical scan (names of FPFUNCS / PRAGMAS / ASMWORDS / BUILDFLAGS listed there) - a way of changing the "
                    "floating-point environment that is not on those lists is not seen by the theorem, only by the tails runs")
    dis = []
    # decision rule: a broken proof/translation stage does not stop the check - the property oracle still runs on
    # the binary to look for a concrete failing input; only the model comparison is skipped
    global USE_MODEL
    USE_MODEL = bool(coq["make_ok"] and coq["extract_ok"] and os.path.exists(vp_coq.model_path("driver")))
    points, setup = dc.point_tables() if USE_MODEL else ([], [])
    wd = workdir(ctx)
    tfile = os.path.join(wd, "track.txt")
    with open(tfile, "w") as f:
        f.write("0.5 0.25\n-1.0 0.5\n0.0 -0.75\n")
    ntr = 0
    for bi, base in enumerate(base_configs(ctx)):
        warm = dict(base, outstep=0, h5save=0)
        dc.run_real(tg, warm, os.path.join(wd, "warm.h5"), want_trace=False)     # FFTW wisdom for this size
        refout = os.path.join(wd, "ref%d.h5" % bi)
        r = dc.run_real(tg, base, refout)
        href = dc.h5read(tg, refout)
        nsetup = len([l for l in r["labels"] if l.startswith("setup:")])
        if href is None or r["rc"] != 0:
            ctx.violation("impl-oracle", "reference run failed", case=dict(cmd=r["cmd"]), observed=r["log"][-400:],
                          sig={"oracle": "run-failed"})
            continue
        mbase = dc.with_oracle(base, r) if USE_MODEL else base
        for x in (dc.compare_with_model(mbase, r, href, dc.run_model([("m", mbase, None, False, nsetup)])["m"], points, nsetup) if USE_MODEL else []):
            dis.append(dict(case=dict(cmd=r["cmd"]), detail=x, sig={"stage": "correspondence", "what": x.split(" ")[0]}))
        ntr += 1
        # tracking needs a reference that tracks too for the particle records
        for var in variants(ctx, base, wd, tfile):
            check_pair(ctx, tg, base, href, var, wd, points, nsetup, dis, "b%d:" % bi)
            ntr += 1
        reft = dict(base, tracking=tfile)
        rt = dc.run_real(tg, reft, os.path.join(wd, "reft.h5"))
        hreft = dc.h5read(tg, os.path.join(wd, "reft.h5"))
        if hreft is not None:
            check_pair(ctx, tg, reft, hreft, dict(base, outstep=3, h5save=2, tracking=tfile, tag="tracking-vs-tracking"),
                       wd, points, nsetup, dis, "b%d:" % bi)
            # tracking on/off: everything but the particle records
            check_pair(ctx, tg, reft, hreft, dict(base, outstep=3, h5save=2, tag="tracking-off"), wd, points, nsetup, dis, "b%d:" % bi)
            ntr += 2
    # the systematic product of self-interaction x renormalisation schedule x output cadence
    for bi, (base, vs) in enumerate(product_configs(ctx)):
        dc.run_real(tg, dict(base, outstep=0, h5save=0), os.path.join(wd, "warm.h5"), want_trace=False)
        refout = os.path.join(wd, "pref%d.h5" % bi)
        r = dc.run_real(tg, base, refout)
        href = dc.h5read(tg, refout)
        nsetup = len([l for l in r["labels"] if l.startswith("setup:")])
        if href is None or r["rc"] != 0:
            ctx.violation("impl-oracle", "reference run failed", case=dict(cmd=r["cmd"]), observed=r["log"][-400:],
                          sig={"oracle": "run-failed"})
            continue
        for var in vs:
            check_pair(ctx, tg, base, href, var, wd, points, nsetup, dis, "p%d:" % bi)
            ctx.count("product:%s:renorm%s" % ("wake" if base["wake"] else "nowake", "<0" if base["renorm"] < 0 else ("0" if base["renorm"] == 0 else "k")))
            ntr += 1
    # observer options x start kinds
    for bi, (kind, base, vs) in enumerate(observer_configs(ctx, tg, wd, tfile)):
        refout = os.path.join(wd, "oref%d.h5" % bi)
        r = dc.run_real(tg, base, refout)
        href = dc.h5read(tg, refout)
        nsetup = len([l for l in r["labels"] if l.startswith("setup:")])
        if href is None or r["rc"] != 0:
            ctx.violation("impl-oracle", "reference run failed", case=dict(cmd=r["cmd"]), observed=r["log"][-400:],
                          sig={"oracle": "run-failed"})
            continue
        mbase = dc.with_oracle(base, r) if USE_MODEL else base
        for x in (dc.compare_with_model(mbase, r, href, dc.run_model([("m", mbase, None, False, nsetup)])["m"], points, nsetup) if USE_MODEL else []):
            dis.append(dict(case=dict(cmd=r["cmd"]), detail=x, sig={"stage": "correspondence", "what": x.split(" ")[0]}))
        for var in vs:
            check_pair(ctx, tg, base, href, var, wd, points, nsetup, dis, "o%d:" % bi)
            ctx.count("observer:%s:renorm%s" % (kind, "0" if base["renorm"] == 0 else "k"))
            ntr += 1
    # tails: exact zeros / denormal numbers on the grid, cadences that include 'never' (family st3drv)
    for bi, (kind, base, vs) in enumerate(tail_configs(ctx, wd)):
        dc.run_real(tg, dict(base, outstep=0, h5save=0), os.path.join(wd, "warm.h5"), want_trace=False)
        refout = os.path.join(wd, "tref%d.h5" % bi)
        r = dc.run_real(tg, base, refout)
        href = dc.h5read(tg, refout)
        nsetup = len([l for l in r["labels"] if l.startswith("setup:")])
        if href is None or r["rc"] != 0:
            ctx.violation("impl-oracle", "reference run failed", case=dict(cmd=r["cmd"]), observed=r["log"][-400:],
                          sig={"oracle": "run-failed"})
            continue
        empty, den = tail_census(href, base["n"])
        for var in vs:
            check_pair(ctx, tg, base, href, var, wd, points, nsetup, dis, "t%d:" % bi)
            ctx.count("tails:%s:%s" % (kind, var["tag"].split("_")[1] if not var["tag"].startswith("tail_o") else "coprime"))
            ntr += 1
        ctx.count("tails:start-has-empty-energy-rows" if empty else "tails:start-without-empty-rows")
        ctx.count("tails:start-has-denormal-cells" if den else "tails:start-without-denormals")
        ctx.case_done(("tails", bi), empty > 0 or den > 0)
    # the wisdom directory as part of the input: data directories Inovesa never used, and what happens to them
    wisdom_cases.stage(ctx, tg, wd, bool(coq["make_ok"] and coq["extract_ok"] and os.path.exists(vp_coq.model_path("wisdom"))), dis)
    ctx.extra["traces_validated_against_impl"] = ntr
    ctx.extra["correspondence_disagreements"] = len(dis)
    shutil.rmtree(wd, ignore_errors=True)
    # downgrade rule of DESIGN 2.2 for the wisdom translator: when translate/wisdom2coq.py no longer recognises prepareFFT (a
    # restructuring outside its narrow idiom) but the machine extracted from the LAST-GOOD table agrees with the binary on every run of
    # every history of this check, every oracle holds and nothing else is broken, the wisdom clause is shown through tie 2 and the
    # downgrade is recorded
    failed = [g for g, st in coq["gen"].items() if st.startswith("failed")]
    kf = load_known()
    unlisted = [v for v in ctx.violations if match_known(kf, v) is None]
    nwis = ctx.dist.get("wisdom:history-run-against-model", 0)
    if failed == ["Gen_Wisdom"] and coq["make_ok"] and coq["props"]["ok"] and not coq["forbidden"] and coq["extract_ok"] \
            and not dis and not unlisted and nwis > 0:
        ctx.extra["translators"]["Gen_Wisdom"] = "downgraded-to-correspondence (" + coq["gen"]["Gen_Wisdom"][:200] + ")"
        ctx.notes.append("Gen_Wisdom: translator failed; the machine over the last-good prepareFFT table agrees with the binary on all %d runs of the "
                         "wisdom histories and every oracle holds: downgraded to tie 2" % nwis)
        coq = dict(coq, ok=True)
    conclude(ctx, coq, dis)


def replay(ctx, rp):
    """re-runs the command lines of `case` (first leg / particle file first when the start comes from a file) in a scratch directory
    and compares every record of the two results files that carries the same step number"""
    import subprocess
    tg = ctx.build(harness=("h5cat",), want_binary=True)
    case = rp.get("case") or {}
    print(json.dumps({k: v for k, v in case.items() if k != "start_txt"}, indent=1))
    print("recorded:", rp.get("observed"))
    if (rp.get("sig") or {}).get("oracle") == "wisdom" and case.get("cmd"):
        # three runs of the command line in a data directory Inovesa never used
        import shlex, re as _re
        wd = workdir(ctx)
        env = dict(vp_build.xdg_env(), XDG_DATA_HOME=os.path.join(wd, "xdg"), HOME=os.path.join(wd, "home"))
        os.makedirs(env["XDG_DATA_HOME"])
        os.makedirs(env["HOME"])
        outs = []
        for i in (1, 2, 3):
            out = os.path.join(wd, "run%d.h5" % i)
            args = [out if x == "run.h5" else x for x in shlex.split(case["cmd"])]
            r = subprocess.run(["timeout", "120", tg["inovesa"]] + args, env=env, capture_output=True, text=True)
            created = _re.findall(r"Created some wisdom at (\S+)", r.stdout + r.stderr)
            wdir = os.path.join(env["XDG_DATA_HOME"], "inovesa", "fftwisdom")
            files = sorted(os.listdir(wdir)) if os.path.isdir(wdir) else None
            print("run %d: rc=%d, 'Created some wisdom' lines: %s, wisdom files afterwards: %s" % (i, r.returncode, [os.path.basename(c) for c in created], files))
            outs.append(out)
            if i == 1 and [c for c in created if not os.path.isfile(c)]:
                ctx.violation("impl-oracle", "the first run in a fresh data directory reports created wisdom but the file does not exist afterwards", case=case,
                              observed=files, sig={"oracle": "wisdom", "clause": "wisdom-file-missing"})
            if i > 1 and created:
                ctx.violation("impl-oracle", "run %d in the same data directory plans %d FFT(s) again" % (i, len(created)), case=case,
                              observed=[os.path.basename(c) for c in created], sig={"oracle": "wisdom", "clause": "replanned-with-stored-wisdom"})
        d = wisdom_cases.physics_equal(tg, outs[1], outs[2])
        print("runs 2 and 3:", "bit-identical physics datasets" if not d else d[:5])
        if d:
            ctx.violation("impl-oracle", "two runs with identical parameters in the same data directory differ: " + d[0], case=case, observed=d[:5],
                          sig={"oracle": "wisdom", "clause": "repeat-differs"})
        shutil.rmtree(wd, ignore_errors=True)
        return
    if "reference" not in case or "variant" not in case:
        return
    wd = workdir(ctx)
    env = vp_build.xdg_env()
    if case.get("start_txt"):
        for fn in ("start.txt", "tail_start.txt"):
            with open(os.path.join(wd, fn), "w") as f:
                f.write(case["start_txt"])
    with open(os.path.join(wd, "track.txt"), "w") as f:
        f.write("0.5 0.25\n-1.0 0.5\n0.0 -0.75\n")
    for key in ("first_leg", "reference", "variant"):
        if case.get(key):
            r = subprocess.run(["timeout", "120", tg["inovesa"]] + [x for x in case[key] if x != "-v"] + (["-v"] if "-v" in case[key] else []),
                               cwd=wd, env=env, capture_output=True, text=True)
            print("%s: rc=%d" % (key, r.returncode))

    def cfg_of(a):
        g = lambda o, d=None: a[a.index(o) + 1] if o in a else d
        return dict(N=int(g("-N")), T=int(float(g("-T"))), h5save=int(g("--SavePhaseSpace")), renorm=int(g("--RenormalizeCharge")),
                    extra=[o for o in ("-i", "--InitialDistZoom", "-P") if o in a], tracking=g("--tracking"))
    ca, cb = cfg_of(case["reference"]), cfg_of(case["variant"])
    ha, hb = dc.h5read(tg, os.path.join(wd, "ref.h5")), dc.h5read(tg, os.path.join(wd, "var.h5"))
    if ha is None or hb is None:
        print("a results file is missing")
        return
    skip = {"/Particles/data"} if bool(ca["tracking"]) != bool(cb["tracking"]) else set()
    dif, ncmp = dc.compare_common(ha, ca, hb, cb, skip=skip)
    print("%d rows compared, %d differ" % (ncmp, len(dif)))
    for x in dif[:5]:
        print("  " + x)
        ctx.violation("impl-oracle", "runs differing only in how they are observed disagree: " + x, case=case, observed=x,
                      expected="bit-identical records for equal step numbers", sig=classify(x, ca, cb))
    shutil.rmtree(wd, ignore_errors=True)
