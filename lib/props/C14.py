"""C14 - Ctrl+C at any moment leaves a complete, consistent results file.

Theorems: coq/Props/Properties_C14.v (driver model with a signal possible at every hook point).
Tie: translate/mainloop2coq.py (main_prog regenerated from src/main.cpp, Display::abort references);
the VERIF_POINT hook raises SIGINT at the i-th executed point of the real binary; for every chosen i
(quick: every label at least once + random; thorough: every point) exit status, closing message, label
trace, dataset lengths and time axes are compared with the extracted model run under the same
schedule.
Oracle (the property itself, on the real binary): exit 0; last message "Aborted."; the step in
progress is finished and no further one started; every time-indexed dataset has as many rows as the
time axis; every record but the final one equals the uninterrupted run's record of the same index;
every record (the final one included) equals the record of the same step number of a reference run
that writes every step.  Thorough also: real asynchronous kill -INT at random times.
Families stream (seed F4-J): the same oracles with every dataset family switched on and SavePhaseSpace 0 / k / zero steps, SIGINT
at every hook label; the append overloads' control flow and every access to the flag are theorems about Gen_H5Append / Gen_AbortFlag."""
import os, json, shutil, signal, subprocess, time
from vp_common import *
import vp_coq, vp_build
import driver_cases as dc


def workdir(ctx):
    d = os.path.join(VERIF, ".cache", "work", "%s-%d-%d" % (ctx.pid, ctx.seed, os.getpid()))
    shutil.rmtree(d, ignore_errors=True)
    os.makedirs(d)
    return d


def configs(ctx, tfile):
    rng = ctx.rng
    res = []
    nb = 1 if ctx.quick() else 3
    for i in range(nb):
        res.append(dict(n=rng.choice([16, 32]), N=rng.choice([6, 7, 8]), T=1, outstep=rng.choice([2, 3]), h5save=1,
                        renorm=rng.choice([-1, 0, 3]), wake=True, dynrf=(i == 1), tracking=tfile if i != 2 else None,
                        verbose=False))
    return res


def consistent_lengths(h):
    """C14 statement: all time-indexed datasets have consistent lengths"""
    bad = []
    nt = dc.nrows(h, "/Info/AxisValues_t")
    for ds in dc.TIME_INDEXED:
        if ds in h and dc.nrows(h, ds) != nt:
            # /WakePotential/data stays empty without a wake, /Particles/data has zero columns without tracking
            if dc.nrows(h, ds) == 0 and (h[ds]["dims"] and 0 in h[ds]["dims"][1:] or ds == "/WakePotential/data"):
                continue
            bad.append("%s has %s rows, time axis %s" % (ds, dc.nrows(h, ds), nt))
    if dc.nrows(h, "/PhaseSpace/data") != dc.nrows(h, "/PhaseSpace/axis0"):
        bad.append("/PhaseSpace/data %s rows, axis0 %s" % (dc.nrows(h, "/PhaseSpace/data"), dc.nrows(h, "/PhaseSpace/axis0")))
    return bad


def ps_view(h):
    """the file with /PhaseSpace/data and /PhaseSpace/axis0 cut to their common length (a mismatch is reported by
    consistent_lengths; the record comparison then still runs on what is there)"""
    nd, na = dc.nrows(h, "/PhaseSpace/data"), dc.nrows(h, "/PhaseSpace/axis0")
    if nd is None or na is None or nd == na:
        return h
    n = min(nd, na)
    h2 = dict(h)
    for ds in ("/PhaseSpace/data", "/PhaseSpace/axis0"):
        h2[ds] = dict(h[ds], rows=h[ds]["rows"][:n], dims=[n] + h[ds]["dims"][1:])
    return h2


def prefix_identical(h, hun, final_rows=1):
    """every record but the final one equals the uninterrupted run's record of the same index"""
    bad, ncmp = [], 0
    for ds in dc.TIME_INDEXED + ["/PhaseSpace/data", "/PhaseSpace/axis0", "/RFKicks/data"]:
        if ds not in h or ds not in hun:
            continue
        ri, ru = h[ds]["rows"], hun[ds]["rows"]
        keep = len(ri) - (0 if ds == "/RFKicks/data" else final_rows)
        for j in range(max(keep, 0)):
            ncmp += 1
            if j >= len(ru) or ri[j] != ru[j]:
                bad.append("%s record %d differs from the uninterrupted run's" % (ds, j))
                break
    for ds in dc.KIND_DATASETS["Padded"]:
        if ds in h and ds in hun and h[ds]["rows"] and hun[ds]["rows"]:
            ncmp += 1
            if h[ds]["rows"][0] != hun[ds]["rows"][0]:
                bad.append("%s initial record differs" % ds)
    return bad, ncmp


def one_point(ctx, tg, cfg, wd, i, rep, un, hun, href, refcfg, points, nsetup, dis, tag):
    out = os.path.join(wd, "int.h5")
    r = dc.run_real(tg, cfg, out, sig_at=i, rep=rep)
    h = dc.h5read(tg, out)
    label = un["labels"][i] if i < len(un["labels"]) else "(beyond the last point)"
    case = dict(cmd=" ".join(dc.cmdline(cfg, "int.h5")), INOVESA_VERIF_SIGINT_AT=i, INOVESA_VERIF_SIGINT_REPEAT=rep, label=label)
    return r, h, label, case


def check_outcome(ctx, cfg, r, h, label, case, i, un, hun, href, refcfg, mo, points, nsetup, dis, tag=""):
    for x in (dc.compare_with_model(cfg, r, h, mo, points, nsetup) if mo is not None else []):
        dis.append(dict(case=case, detail=x, sig={"stage": "correspondence", "what": x.split(" ")[0]}))
    ctx.count("point:" + label.split(":")[0])
    vio = []
    if r["rc"] != 0:
        vio.append(("exit", "exit status %s after SIGINT at %s" % (r["rc"], label)))
    tail = dc.log_tail(r["log"])
    last_read = un["labels"].index("fin:message") if "fin:message" in un["labels"] else len(un["labels"])
    if i < last_read and tail != "Aborted.":
        vio.append(("message", "last message %r after SIGINT at %s" % (tail, label)))
    if h is None:
        vio.append(("file", "results file unreadable after SIGINT at %s" % label))
    else:
        for b in consistent_lengths(h):
            vio.append(("lengths", b + " (SIGINT at %s)" % label))
        # the step in progress is finished, no further one is started
        m_exp = un["labels"][:i + 1].count("loop:head")
        m_real = r["labels"].count("loop:head")
        ts = dc.time_steps(h, cfg)
        if m_real != m_exp or not ts or ts[-1] != m_exp:
            vio.append(("steps", "SIGINT at %s (step %d in progress): %d steps executed, final record at step %s, expected %d" % (
                label, max(m_exp - 1, 0), m_real, ts[-1] if ts else None, m_exp)))
        bad, ncmp = prefix_identical(h, hun)
        for b in bad:
            vio.append(("prefix", b + " (SIGINT at %s)" % label))
        skip = set()
        d2, n2 = dc.compare_common(href, refcfg, ps_view(h), cfg, skip=skip)
        for b in d2[:2]:
            vio.append(("final", "against the every-step reference: " + b + " (SIGINT at %s)" % label))
        ctx.case_done("%s%s@%d%s" % (tag, label, i, "r" if case["INOVESA_VERIF_SIGINT_REPEAT"] else ""), ncmp + n2 > 0 and m_exp < dc.laststep(cfg) or i >= nsetup)
    for key, what in vio[:3]:
        ctx.violation("impl-oracle", what, case=case, observed=dict(rc=r["rc"], tail=tail), sig={"oracle": key, "where": label.split(":")[0]})
    ctx.sample(dict(case=case, steps_executed=r["labels"].count("loop:head"), tail=tail, rc=r["rc"]))


def library_points(ctx, tg, cfg, wd, un, hun, href, refcfg, points, nsetup, dis, use_model):
    """interrupt points INSIDE library calls (seed C14-H class: the caller changes the signal disposition or mask around a
    library call).  harness/sigshim.c (LD_PRELOAD) numbers the calls of H5Dset_extent/H5Dextend, H5Dwrite, fftw(f)_execute and
    the FFTW planners in execution order and raises SIGINT inside the chosen one, before the library is entered or when it has
    returned.  Same oracles as for the hook points; the position of the signal relative to the hook points (how many were passed)
    is logged by the shim at the moment it raises.  Quick: one or two calls per (function, last hook point passed) stratum; thorough: all."""
    shim = dc.build_shim()
    out = os.path.join(wd, "lib.h5")
    base = dc.run_real_lib(tg, cfg, out, shim)
    hb = dc.h5read(tg, out)
    same = base["rc"] == 0 and base["labels"] == un["labels"] and hb is not None and \
        all(hb.get(ds, {}).get("fnv") == hun[ds]["fnv"] for ds in hun if ds.startswith(tuple(dc.ALL_RECORD_DATASETS)))
    if not same:
        dis.append(dict(case=dict(cmd=base["cmd"], LD_PRELOAD="harness/sigshim.c"), detail="the run under the shim (no signal) differs from the plain run",
                        sig={"stage": "correspondence", "what": "shim-transparent"}))
        return
    # calls after the handler is installed: main() installs it before its first hook point (C14_sigint_handler_stays_installed)
    calls = [c for c in base["calls"] if c[2] >= 1]
    ctx.extra.setdefault("library_calls_per_run", []).append(len(calls))
    groups = {}
    for (idx, fn, npts) in calls:
        groups.setdefault((fn, un["labels"][npts - 1] if npts - 1 < len(un["labels"]) else "?"), []).append(idx)
    if ctx.quick():
        chosen = sorted(set([ctx.rng.choice(v) for v in groups.values()] + [ctx.rng.choice(v) for v in groups.values()]))
    else:
        chosen = [c[0] for c in calls]
    plan = [(idx, ctx.rng.random() < 0.2, ctx.rng.random() < 0.3) for idx in chosen]
    byidx = {c[0]: c for c in calls}
    models = {}
    if use_model:
        models = dc.run_model([("l%d" % idx, cfg, byidx[idx][2] - 1, rep, nsetup) for idx, rep, after in plan])
    for idx, rep, after in plan:
        r = dc.run_real_lib(tg, cfg, os.path.join(wd, "libint.h5"), shim, lib_at=idx, rep=rep, after=after)
        h = dc.h5read(tg, os.path.join(wd, "libint.h5"))
        fn = byidx[idx][1]
        case = dict(cmd=" ".join(dc.cmdline(cfg, "libint.h5")), LD_PRELOAD="harness/sigshim.c (built by lib/driver_cases.build_shim)",
                    VERIF_LIBSIG_AT=idx, VERIF_LIBSIG_WHEN="after" if after else "before", VERIF_LIBSIG_REPEAT=rep,
                    INOVESA_VERIF_SIGINT_REPEAT=rep, function=fn)
        if not r["raised"] or r["raised"][0][0] != idx or r["raised"][0][1] != fn:
            dis.append(dict(case=case, detail="library call %d of the run is not %s any more, or was not reached (%s)" % (idx, fn, r["raised"][:1]),
                            sig={"stage": "correspondence", "what": "library-call-sequence"}))
            continue
        npts = r["raised"][0][2]
        i = npts - 1
        label = "lib:%s after %s" % (fn, un["labels"][i] if i < len(un["labels"]) else "?")
        case["label"] = label
        check_outcome(ctx, cfg, r, h, label, case, i, un, hun, href, refcfg, models.get("l%d" % idx) if npts == byidx[idx][2] else None,
                      points, nsetup, dis)
        ctx.count("libpoint:" + fn)


def async_stream(ctx, tg, wd, tfile):
    """thorough: real asynchronous SIGINT at random times on a run long enough to be hit"""
    cfg = dict(n=64, N=300, T=1, outstep=10, h5save=5, renorm=0, wake=True, dynrf=False, tracking=None, verbose=False)
    un = dc.run_real(tg, cfg, os.path.join(wd, "aun.h5"), want_trace=False, timeout=120)
    hun = dc.h5read(tg, os.path.join(wd, "aun.h5"))
    t0 = time.time()
    dc.run_real(tg, cfg, os.path.join(wd, "aun2.h5"), want_trace=False, timeout=120)
    dur = time.time() - t0
    env = vp_build.xdg_env()
    for j in range(12):
        out = os.path.join(wd, "async.h5")
        for p in (out, out + ".cfg"):
            if os.path.exists(p):
                os.remove(p)
        delay = ctx.rng.random() * dur * 1.1
        # the property speaks about signals after start-up: the binary is started directly (a python watchdog
        # replaces the shell `timeout`, whose own start-up would otherwise race with the signal), the first log
        # line is awaited (it is printed after the handler is installed), then SIGINT goes to the process itself
        import threading
        pr = subprocess.Popen([tg["inovesa"]] + dc.cmdline(cfg, out), stdout=subprocess.PIPE,
                              stderr=subprocess.STDOUT, text=True, env=env)
        dog = threading.Timer(150, pr.kill)
        dog.start()
        first = pr.stdout.readline()
        time.sleep(delay)
        pr.send_signal(signal.SIGINT)
        try:
            log, _ = pr.communicate(timeout=150)
            log = first + log
        except subprocess.TimeoutExpired:
            pr.kill()
            log = "(hung)"
        dog.cancel()
        tail = dc.log_tail(log)
        case = dict(cmd=" ".join(dc.cmdline(cfg, "async.h5")), kill_INT_after_s=round(delay, 3))
        ctx.count("async")
        ctx.count("async:" + (tail if tail in ("Aborted.", "Finished.") else "other"))
        h = dc.h5read(tg, out) if os.path.exists(out) else None
        started = "Starting the simulation." in log
        if pr.returncode != 0 or tail not in ("Aborted.", "Finished."):
            ctx.violation("impl-oracle", "asynchronous SIGINT: exit %s, last message %r" % (pr.returncode, tail), case=case,
                          sig={"oracle": "async-exit"})
            continue
        if h is None:
            if started:
                ctx.violation("impl-oracle", "asynchronous SIGINT: results file unreadable", case=case, sig={"oracle": "async-file"})
            continue
        bad = consistent_lengths(h)
        b2, ncmp = prefix_identical(h, hun)
        for b in (bad + b2)[:2]:
            ctx.violation("impl-oracle", "asynchronous SIGINT: " + b, case=case, sig={"oracle": "async-" + b.split(" ")[0]})
        ctx.case_done("async%d" % j, ncmp > 0)


def early_exits(ctx, tg, wd, dis, use_model):
    """the ways the set-up can end other than by reaching the simulation: `return` (nothing to do, unknown output type),
    `return EXIT_FAILURE` (option error caught), and the HDF5 error path that sets the flag itself; each also with SIGINT
    at hook points of the set-up.  The extracted model runs the generated set-up skeleton under the environment inferred
    from the run's own label trace; exit status, hook points passed, closing message must agree, and the property
    (exit status as the program decided it, no crash, "Aborted." whenever the simulation part was reached) must hold."""
    base = dict(n=16, N=6, T=1, outstep=2, h5save=1, renorm=0, wake=False, dynrf=False, tracking=None, verbose=False)
    cases = [("nothing-to-do", dict(base), None, 0, False),
             ("unknown-output-type", dict(base), os.path.join(wd, "early.xyz"), 0, False),
             ("option-error", dict(base, extra=["--NoSuchOption", "1"]), os.path.join(wd, "early.h5"), 1, False),
             ("file-cannot-be-created", dict(base, hdf=False), os.path.join(wd, "no_such_dir", "early.h5"), 0, True)]
    for name, cfg, out, rc_want, reaches in cases:
        tp = os.path.join(wd, "early.trace")
        un = dc.run_real(tg, cfg, out, trace_path=tp)
        reached = "sim:start" in un["labels"]
        case0 = dict(cmd=un["cmd"], kind="early-exit", which=name)
        if un["rc"] != rc_want or reached != reaches:
            ctx.violation("impl-oracle", "set-up exit `%s`: exit status %s (expected %d), simulation part %sreached" % (
                name, un["rc"], rc_want, "" if reached else "not "), case=case0, observed=un["log"][-300:], sig={"oracle": "early-exit", "where": name})
            continue
        orc = dc.setup_oracle(un["labels"], reached, un["rc"]) if use_model else None
        if use_model and orc is None:
            dis.append(dict(case=case0, detail="no environment of the set-up skeleton reproduces the label trace %s" % un["labels"][-3:],
                            sig={"stage": "correspondence", "what": "setup-oracle"}))
        P = len(un["labels"])
        plan = [(None, False)] + [(i, False) for i in sorted(set([0, P // 2, P - 1]))] + [(0, True)]
        mcfg = dict(cfg, _oracle=orc) if orc is not None else None
        models = dc.run_model([("e%s_%d" % (i, rep), mcfg, i, rep, 0) for i, rep in plan]) if mcfg else {}
        for i, rep in plan:
            r = un if i is None else dc.run_real(tg, cfg, out, sig_at=i, rep=rep, trace_path=tp)
            case = dict(case0, INOVESA_VERIF_SIGINT_AT=i, INOVESA_VERIF_SIGINT_REPEAT=rep)
            # stdout and stderr are captured together (the HDF5 error stack goes to stderr): last time-stamped line
            stamped = [l for l in r["log"].splitlines() if l.startswith("[")]
            tail = dc.log_tail("\n".join(stamped))
            ctx.count("early:" + name)
            # property: a signal during the set-up does not change how the set-up ends; the program still exits by itself
            if r["rc"] != rc_want or r["labels"] != un["labels"][:len(r["labels"])] or (reaches and tail != "Aborted."):
                ctx.violation("impl-oracle", "set-up exit `%s` with SIGINT at point %s: exit status %s, %d hook points (undisturbed: %d), last message %r" % (
                    name, i, r["rc"], len(r["labels"]), P, tail), case=case, sig={"oracle": "early-exit-signal", "where": name})
            mo = models.get("e%s_%d" % (i, rep))
            if mo is not None:
                spts = dc.setup_info()["points"]
                ms = [spts[j] for j in mo.get("setup_trace", [])]
                rs = [l for l in r["labels"] if l.startswith("setup:")]
                mstat = mo["status"]
                bad = []
                if ms != rs:
                    bad.append("set-up hook points: real %d, model %d" % (len(rs), len(ms)))
                if mstat != str(r["rc"]):
                    bad.append("exit status real %s model %s" % (r["rc"], mstat))
                if (mo.get("kind") == 0) != reaches:
                    bad.append("model ends with kind %s" % mo.get("kind"))
                if reaches and (not mo["log"] or mo["log"][-1] != tail):
                    bad.append("closing message real %r model %r" % (tail, mo["log"][-1:]))
                for b in bad:
                    dis.append(dict(case=case, detail=b, sig={"stage": "correspondence", "what": "early-exit"}))
            ctx.case_done("early:%s@%s%s" % (name, i, "r" if rep else ""), i is not None)


def family_configs(rng, tfile, thorough):
    """every dataset family switched on (wake: CSR + wake potential + padded, tracking, RF phase modulation) with the three
    regimes of --SavePhaseSpace: 0 (the default: the initial distribution is stored before the loop and a phase space only with
    the final record), 1, k > 1 (a phase space with every k-th record), and a run of zero steps (-T 0: the final record is
    written for the instant of the initial distribution)"""
    base = dict(n=16, T=1, renorm=0, wake=True, verbose=False, tracking=tfile)
    res = [dict(base, N=rng.choice([4, 5]), outstep=rng.choice([1, 2]), h5save=0, dynrf=True),
           dict(base, N=rng.choice([5, 6]), outstep=1, h5save=rng.choice([2, 3]), dynrf=rng.random() < 0.5),
           dict(base, N=rng.choice([4, 6]), T=0, outstep=rng.choice([1, 2]), h5save=rng.choice([0, 0, 1, 2]), dynrf=True)]
    if thorough:
        res.append(dict(base, N=6, outstep=3, h5save=0, dynrf=False, renorm=2))
        res.append(dict(base, N=5, outstep=1, h5save=1, dynrf=True, tracking=None))
    return res


def family_stream(ctx, tg, wd, tfile, points, dis, use_model):
    """seed F4-J class: a slip in the file layer that shows only for a particular combination of interrupt point and output
    options (there: an interrupt before the first step with the default SavePhaseSpace 0, where the final record carries the
    time of the stored initial distribution).  For each configuration of family_configs: the uninterrupted file must have
    consistent lengths; SIGINT at the first occurrence of EVERY hook label (every set-up and prologue point, every point of
    the first iteration, the first output block and the final block), at a random later occurrence of each label, and beyond
    the last point (thorough: every point); same oracles and model comparison as the main stream.  Own PRNG: the older
    streams keep their draws."""
    import random
    rng = random.Random(ctx.seed * 7919 + 1409)
    nruns = 0
    for fi, cfg in enumerate(family_configs(rng, tfile, not ctx.quick())):
        tag = "fam%d:" % fi
        un = dc.run_real(tg, cfg, os.path.join(wd, "fun.h5"))
        hun = dc.h5read(tg, os.path.join(wd, "fun.h5"))
        refcfg = dict(cfg, outstep=1, h5save=1)
        dc.run_real(tg, refcfg, os.path.join(wd, "fref.h5"), want_trace=False)
        href = dc.h5read(tg, os.path.join(wd, "fref.h5"))
        case0 = dict(cmd=" ".join(dc.cmdline(cfg, "int.h5")), stream="families")
        if hun is None or href is None or un["rc"] != 0:
            ctx.violation("impl-oracle", "uninterrupted run failed", case=dict(cmd=un["cmd"]), observed=un["log"][-400:], sig={"oracle": "run-failed"})
            continue
        for b in consistent_lengths(hun):
            ctx.violation("impl-oracle", "uninterrupted run: " + b, case=case0, sig={"oracle": "lengths", "where": "uninterrupted"})
        ts = dc.time_steps(hun, cfg)
        if not ts or ts[-1] != dc.laststep(cfg):
            ctx.violation("impl-oracle", "uninterrupted run: final record at step %s, expected %d" % (ts[-1] if ts else None, dc.laststep(cfg)),
                          case=case0, sig={"oracle": "steps", "where": "uninterrupted"})
        nsetup = len([l for l in un["labels"] if l.startswith("setup:")])
        if use_model:
            orc = dc.setup_oracle(un["labels"], True)
            if orc is None:
                dis.append(dict(case=dict(cmd=un["cmd"]), detail="no environment of the set-up skeleton reproduces the label trace",
                                sig={"stage": "correspondence", "what": "setup-oracle"}))
            else:
                cfg = dict(cfg, _oracle=orc)
                refcfg = dict(refcfg, _oracle=orc)
            for x in dc.compare_with_model(cfg, un, hun, dc.run_model([("m", cfg, None, False, nsetup)])["m"], points, nsetup):
                dis.append(dict(case=dict(cmd=un["cmd"]), detail=x, sig={"stage": "correspondence", "what": x.split(" ")[0]}))
        P = len(un["labels"])
        if ctx.quick():
            by = {}
            for i, l in enumerate(un["labels"]):
                by.setdefault(l, []).append(i)
            chosen = set([P])
            for l, idxs in by.items():
                chosen.add(idxs[0])
                if len(idxs) > 1 and rng.random() < 0.5:
                    chosen.add(rng.choice(idxs[1:]))
            chosen = sorted(chosen)
        else:
            chosen = list(range(P + 1))
        plan = [(i, rng.random() < 0.15) for i in chosen]
        models = dc.run_model([("f%d_%d" % (i, rep), cfg, i, rep, nsetup) for i, rep in plan]) if use_model else {}
        for i, rep in plan:
            r, h, label, case = one_point(ctx, tg, cfg, wd, i, rep, un, hun, href, refcfg, points, nsetup, dis, tag)
            case["stream"] = "families"
            check_outcome(ctx, cfg, r, h, label, case, i, un, hun, href, refcfg, models.get("f%d_%d" % (i, rep)), points, nsetup, dis, tag=tag)
            nruns += 1
        ctx.count("family-config:h5save=%s,T=%s" % (cfg["h5save"], cfg["T"]))
    ctx.extra["family_stream_runs"] = nruns


def fresh_wisdom_stream(ctx, tg, wd):
    """strengthening st3weak (seed C14-I class: code that runs only on the FIRST run for a transform size - FFTW planning when
    no wisdom file exists - changes the signal disposition and does not put it back).  Every other stream shares one wisdom
    directory (lib/vp_build.xdg_env) that a warm-up run has filled, so the planning branches of FFTWWrapper.cpp are never
    entered there.  Here every run gets an EMPTY XDG_DATA_HOME of its own (alternately: no inovesa/fftwisdom directory at all /
    an empty one), so the wisdom is created in the very run that is interrupted; SIGINT at the first occurrence of every hook
    label from the construction of the impedances on (set-up after the fields, prologue, first iteration, output block, final
    block), at some later occurrences, at a few set-up points BEFORE the planning with repeated signals, and beyond the last
    point.  Oracles: the structural clauses of the property (exit 0, 'Aborted.', readable file, consistent lengths, step in
    progress finished and none started).  Records are NOT compared bit for bit with a reference: freshly planned transforms may
    round differently from run to run (FFTW_PATIENT chooses by timing).  Own PRNG."""
    import random
    rng = random.Random(ctx.seed * 15485863 + 77)
    nruns = nplanned = 0
    for fi in range(1 if ctx.quick() else 3):
        cfg = dict(n=rng.choice([16, 32]), N=rng.choice([6, 7, 8]), T=1, outstep=rng.choice([2, 3]), h5save=rng.choice([1, 1, 2]),
                   renorm=rng.choice([-1, 0, 3]), wake=True, dynrf=False, tracking=None, verbose=False,
                   extra=["--padding", rng.choice(["2", "4", "8"])])
        xdg = os.path.join(wd, "fresh-xdg")

        def fresh(k):
            shutil.rmtree(xdg, ignore_errors=True)
            os.makedirs(os.path.join(xdg, "inovesa", "fftwisdom") if k % 2 else xdg)
            return {"XDG_DATA_HOME": xdg}
        out = os.path.join(wd, "fw.h5")
        un = dc.run_real(tg, cfg, os.path.join(wd, "fwun.h5"), extra_env=fresh(1))
        hun = dc.h5read(tg, os.path.join(wd, "fwun.h5"))
        case0 = dict(cmd=" ".join(dc.cmdline(cfg, "int.h5")), stream="fresh-wisdom", XDG_DATA_HOME="<an empty directory made for this run>")
        if hun is None or un["rc"] != 0:
            ctx.violation("impl-oracle", "uninterrupted run with an empty XDG_DATA_HOME failed", case=case0, observed=un["log"][-400:],
                          sig={"oracle": "run-failed", "stream": "fresh-wisdom"})
            continue
        if "Created some wisdom" not in un["log"]:
            ctx.count("fresh-wisdom:no-planning-happened")       # nothing to look at: the branch was not entered
            continue
        labels = un["labels"]
        P = len(labels)
        start = next((i for i, l in enumerate(labels) if l in ("setup:wake_impedance", "setup:rdtn_impedance")), 0)
        by = {}
        for i, l in enumerate(labels):
            if i >= start:
                by.setdefault(l, []).append(i)
        plan = [(P, False)]
        firsts = sorted(v[0] for v in by.values())
        if ctx.quick():
            keep = [i for i in firsts if labels[i].split(":")[0] in ("setup", "sim", "pre")]
            rest = [i for i in firsts if i not in keep]
            keep += rng.sample(rest, min(len(rest), 14))
            firsts = sorted(keep)
        for i in firsts:
            plan.append((i, rng.random() < 0.25))
        later = [rng.choice(v[1:]) for v in by.values() if len(v) > 1]
        for i in rng.sample(later, min(len(later), 4 if ctx.quick() else 20)):
            plan.append((i, rng.random() < 0.25))
        for i in rng.sample(range(start), min(start, 3)):
            plan.append((i, True))          # repeated signals that start before the planning and go on after it
        last_read = labels.index("fin:message") if "fin:message" in labels else P
        for k, (i, rep) in enumerate(sorted(plan)):
            r = dc.run_real(tg, cfg, out, sig_at=i, rep=rep, extra_env=fresh(k))
            h = dc.h5read(tg, out)
            label = labels[i] if i < P else "(beyond the last point)"
            case = dict(case0, INOVESA_VERIF_SIGINT_AT=i, INOVESA_VERIF_SIGINT_REPEAT=rep, label=label)
            planned = "Created some wisdom" in r["log"]
            nplanned += planned
            nruns += 1
            tail = dc.log_tail(r["log"])
            vio = []
            if r["rc"] != 0:
                vio.append(("exit", "exit status %s after SIGINT at %s" % (r["rc"], label)))
            if i < last_read and tail != "Aborted.":
                vio.append(("message", "last message %r after SIGINT at %s" % (tail, label)))
            if h is None:
                vio.append(("file", "results file unreadable after SIGINT at %s" % label))
            else:
                for b in consistent_lengths(h):
                    vio.append(("lengths", b + " (SIGINT at %s)" % label))
                m_exp = labels[:i + 1].count("loop:head")
                m_real = r["labels"].count("loop:head")
                ts = dc.time_steps(h, cfg)
                if m_real != m_exp or not ts or ts[-1] != m_exp:
                    vio.append(("steps", "SIGINT at %s (step %d in progress): %d steps executed, final record at step %s, expected %d" % (
                        label, max(m_exp - 1, 0), m_real, ts[-1] if ts else None, m_exp)))
            for key, what in vio[:3]:
                ctx.violation("impl-oracle", what + " - first run for its transform sizes: the FFTW wisdom was %s in this very run (empty XDG_DATA_HOME)"
                              % ("created" if planned or r["rc"] != 0 else "not needed"), case=case, observed=dict(rc=r["rc"], tail=tail),
                              sig={"oracle": key, "where": label.split(":")[0], "stream": "fresh-wisdom"})
            ctx.case_done("fw%d:%s@%d%s" % (fi, label, i, "r" if rep else ""), planned and i < P)
            ctx.count("fresh-wisdom:point=" + label.split(":")[0])
        shutil.rmtree(xdg, ignore_errors=True)
    ctx.extra["fresh_wisdom_runs"] = nruns
    ctx.extra["fresh_wisdom_runs_that_planned"] = nplanned


def append_opaque_note(ctx):
    """what the translator of the append overloads could not evaluate (conditions on the object's members / the arguments):
    listed in the evidence; C14_append_records_all_or_nothing quantifies over their values"""
    try:
        import importlib, sys
        sys.path.insert(0, os.path.join(VERIF, "translate"))
        _, info = importlib.import_module("h5append2coq").translate()
        ctx.extra["append_opaque_conditions"] = info["opaque"]
        ctx.extra["append_member_writes"] = info["writes"]
        for o in info["opaque"]:
            ctx.notes.append("append overloads: condition `%s` in %s (line %s) is not a function of the AppendType/bool parameter%s" % (
                o["text"], o["method"], o["line"], "; it reads the members %s of the object (state kept between calls)" % o["members"] if o["members"] else ""))
    except Exception as e:
        ctx.extra["append_opaque_conditions"] = "translation failed: %s" % e


def run(ctx):
    ctx.rule = ("short runs (grid 16/32, 6-8 steps, outstep 2/3, SavePhaseSpace 1, wake on, tracking on, renormalisation "
                "off/initial/periodic); SIGINT raised by the hook at the i-th executed point, for EVERY point of the run (set-up included), a third "
                "(quick, one configuration) / a quarter (thorough, three configurations) of them also with repeated signals; "
                "SIGINT raised INSIDE library calls (LD_PRELOAD shim harness/sigshim.c around H5Dset_extent/H5Dwrite/fftw execute and plan calls; "
                "quick: one call per function and last hook point passed, thorough: every call), before entering the library or after it returned; "
                "thorough also asynchronous kill -INT at random times; four ways of leaving the set-up early (nothing to do, unknown output type, option "
                "error, results file cannot be created), each undisturbed and with SIGINT at set-up points; the model executes the generated "
                "set-up skeleton under the environment inferred from the run's own label trace; "
                "families stream: three more configurations with every dataset family on (wake, tracking, RF modulation) and SavePhaseSpace 0 / k / a "
                "zero-step run (-T 0): consistent lengths of the uninterrupted file, SIGINT at the first occurrence of every hook label (set-up and "
                "prologue included), at a later occurrence of half of them and beyond the last point (thorough: every point, two more configurations); "
                "non-trivial = the interrupt arrives after start-up or cuts the run short and records were compared")
    coq = vp_coq.full_check("C14", ctx, fams=("driver",))
    tg = ctx.build(harness=("h5cat",), want_binary=True)
    ctx.trusted.add("harness: harness/h5cat.cpp, lib/driver_cases.py, VERIF_POINT hook (inc/VerifHooks.hpp: raise(SIGINT) is "
                    "synchronous at the point), HDF5/FFTW libraries")
    ctx.trusted.add("translate/h5append2coq.py (clang AST of HDF5File.cpp: statements without _appendData/return/throw are skipped), "
                    "translate/abortflag2coq.py (lexical scan of src/ and inc/ for the identifier `abort`; preprocessor conditionals not evaluated)")
    ctx.trusted.add("harness/sigshim.c (LD_PRELOAD: raise(SIGINT) inside wrapped HDF5/FFTW entry points; the interior of the libraries "
                    "is reached by the asynchronous stream of the thorough tier only); translate/signals2coq.py is a lexical scan "
                    "(preprocessor conditionals not evaluated, function pointers to signal() obtained other than by name are not seen); "
                    "async-signal-safety of Display::SIGINT_handler (stores to a volatile bool) is read off the source")
    dis = []
    # decision rule: a broken proof/translation stage does not stop the check - the property oracle still runs on
    # the binary to look for a concrete failing input; only the model comparison is skipped
    use_model = bool(coq["make_ok"] and coq["extract_ok"] and os.path.exists(vp_coq.model_path("driver")))
    points, setup = dc.point_tables() if use_model else ([], [])
    wd = workdir(ctx)
    tfile = os.path.join(wd, "track.txt")
    with open(tfile, "w") as f:
        f.write("0.5 0.25\n-1.0 0.5\n")
    ntr = 0
    for ci, cfg in enumerate(configs(ctx, tfile)):
        dc.run_real(tg, dict(cfg, outstep=0, h5save=0), os.path.join(wd, "warm.h5"), want_trace=False)
        un = dc.run_real(tg, cfg, os.path.join(wd, "un.h5"))
        hun = dc.h5read(tg, os.path.join(wd, "un.h5"))
        refcfg = dict(cfg, outstep=1, h5save=1)
        dc.run_real(tg, refcfg, os.path.join(wd, "ref.h5"), want_trace=False)
        href = dc.h5read(tg, os.path.join(wd, "ref.h5"))
        if hun is None or href is None or un["rc"] != 0:
            ctx.violation("impl-oracle", "uninterrupted run failed", case=dict(cmd=un["cmd"]), observed=un["log"][-400:], sig={"oracle": "run-failed"})
            continue
        nsetup = len([l for l in un["labels"] if l.startswith("setup:")])
        if use_model:
            # the model executes the generated set-up skeleton too, under the environment (values of the conditions the
            # translator does not look into) inferred from this uninterrupted run
            orc = dc.setup_oracle(un["labels"], True)
            if orc is None:
                dis.append(dict(case=dict(cmd=un["cmd"]), detail="no environment of the set-up skeleton reproduces the label trace",
                                sig={"stage": "correspondence", "what": "setup-oracle"}))
            else:
                cfg = dict(cfg, _oracle=orc)
                refcfg = dict(refcfg, _oracle=orc)
        for x in (dc.compare_with_model(cfg, un, hun, dc.run_model([("m", cfg, None, False, nsetup)])["m"], points, nsetup) if use_model else []):
            dis.append(dict(case=dict(cmd=un["cmd"]), detail=x, sig={"stage": "correspondence", "what": x.split(" ")[0]}))
        P = len(un["labels"])
        # a run takes ~0.1 s: every point of the run is enumerated in both tiers (P+1: one index beyond the last point)
        chosen = list(range(P + 1))
        plan = []
        for i in chosen:
            plan.append((i, False))
            if ctx.rng.random() < (0.34 if ctx.quick() else 0.25):
                plan.append((i, True))
        models = dc.run_model([("p%d_%d" % (i, rep), cfg, i, rep, nsetup) for i, rep in plan]) if use_model else {}
        for i, rep in plan:
            r, h, label, case = one_point(ctx, tg, cfg, wd, i, rep, un, hun, href, refcfg, points, nsetup, dis, "c%d" % ci)
            check_outcome(ctx, cfg, r, h, label, case, i, un, hun, href, refcfg, models.get("p%d_%d" % (i, rep)), points, nsetup, dis)
            ntr += 1
        ctx.extra.setdefault("points_per_run", []).append(P)
        library_points(ctx, tg, cfg, wd, un, hun, href, refcfg, points, nsetup, dis, use_model)
    early_exits(ctx, tg, wd, dis, use_model)
    family_stream(ctx, tg, wd, tfile, points, dis, use_model)
    fresh_wisdom_stream(ctx, tg, wd)
    append_opaque_note(ctx)
    if not ctx.quick():
        async_stream(ctx, tg, wd, tfile)
    ctx.extra["traces_validated_against_impl"] = ntr
    ctx.extra["correspondence_disagreements"] = len(dis)
    shutil.rmtree(wd, ignore_errors=True)
    conclude(ctx, coq, dis)


def replay(ctx, rp):
    tg = ctx.build(harness=("h5cat",), want_binary=True)
    c = rp.get("case") or {}
    print(json.dumps(c, indent=1))
    print("observed:", rp.get("observed"))
    if c.get("VERIF_LIBSIG_AT") is not None:
        shim = dc.build_shim()
        print("re-run: LD_PRELOAD=%s VERIF_LIBSIG_AT=%s VERIF_LIBSIG_WHEN=%s %s INOVESA_VERIF_TRACE=<file> %s %s   (SIGINT inside library call %s = %s; "
              "env from lib/vp_build.xdg_env(), under timeout)" % (shim, c.get("VERIF_LIBSIG_AT"), c.get("VERIF_LIBSIG_WHEN"),
                                                                   "VERIF_LIBSIG_REPEAT=1" if c.get("VERIF_LIBSIG_REPEAT") else "", tg["inovesa"], c.get("cmd"),
                                                                   c.get("VERIF_LIBSIG_AT"), c.get("function")))
        return
    if c.get("stream") == "fresh-wisdom":
        print("this case needs XDG_DATA_HOME=<a new, empty directory> (no FFTW wisdom yet: the transforms are planned in the interrupted run)")
    print("re-run: INOVESA_VERIF_SIGINT_AT=%s %s %s %s   (env from lib/vp_build.xdg_env(), under timeout)" % (
        c.get("INOVESA_VERIF_SIGINT_AT"), "INOVESA_VERIF_SIGINT_REPEAT=1" if c.get("INOVESA_VERIF_SIGINT_REPEAT") else "",
        tg["inovesa"], c.get("cmd")))
