"""C19 - zero-amplitude RF modulation is the static RF; applied modulation is recorded."""
import math, os, subprocess, tempfile
from fractions import Fraction
from vp_common import *
import vp_coq, vp_build
import dynrf_cases as dc
import driver_cases as drv

EPS = Fraction(1, 2 ** 24)
HAVE_MODEL = [True]      # cleared when the extracted model could not be built: implementation-side oracles still run
TINY = Fraction(1, 2 ** 120)


def model_name(c):
    return "linear" if c.lin else "sinusoidal"


def eqtok(a, b):
    """bit equality of two hex-float tokens (-0 = +0, nan = nan)"""
    return parse_c(a) == parse_c(b)


def eqtoks(a, b):
    return len(a) == len(b) and all(eqtok(x, y) for x, y in zip(a, b))


def finite(tl):
    return all(not isinstance(parse_c(t), str) for t in tl)


# ------------------------------------------------------------------------------- dynstat

def dynstat_text(c, k, data):
    return "dynstat %s %s %d %s\n" % (c.cid, c.args(), k, " ".join(fhex(v) for v in data))


def dynstat_replay(c, k, data):
    return dict(kind="dynstat", rf=c.describe(), k=k, data=data)


def check_dynstat(ctx, cm, c, k, data, r, dis):
    md = model_name(c)
    sf, df = dc.toks(r, "sfields"), dc.toks(r, "dfields")
    case = dynstat_replay(c, k, data)
    ok = True
    zero = c.phasespread == 0 and c.amplspread == 0 and c.modampl == 0
    # --- correspondence: the forwarding model (vm_compute on Gen_Ctors) against the object's members
    if cm is not None:
        ent = cm.get(c.lin)
        if ent is None:
            dis.append(dict(case=case, detail="model: overload resolution fails", sig=dict(kind="ctor", model=md)))
        else:
            fields = dc.fields_of(df)
            av = c.argvals()
            bad = []
            for m, v in ent[1].items():
                if m not in fields:
                    continue
                got = parse_c(fields[m])
                if v[0] == "FV":
                    exp = Fraction(f32(av[v[1]]))
                elif v[0] == "FB":
                    exp = Fraction(1 if v[1] else 0)
                elif v[0] == "FN":
                    exp = Fraction(v[1])
                else:
                    continue
                if got != exp:
                    bad.append(dict(member=m, impl=str(got), model=str(exp), model_source=list(v)))
            if bad:
                dis.append(dict(case=case, detail=bad, sig=dict(kind="ctor", model=md)))
    # --- oracle (the property on the implementation): same members as the static map
    if not eqtoks(sf, df):
        ctx.violation("impl-oracle", "the RFKickMap members of the dynamic %s map differ from the static map built from the same arguments" % md,
                      case=case, observed=dict(zip(dc.FIELD_ORDER, df)), expected=dict(zip(dc.FIELD_ORDER, sf)),
                      sig=dict(kind="dynstat", clause="ctor-forwarding", model=md))
        ok = False
    if zero:
        soffs = dc.toks(r, "soffs")
        sync = dc.fields_of(sf)["_syncphase"]
        q = dc.pairs(dc.toks(r, "queue"))
        if len(q) != c.steps or any(not (eqtok(a, sync) and parse_c(b) == 1) for a, b in q):
            ctx.violation("impl-oracle", "zero amplitudes: the queue is not steps x (syncphase, 1)", case=case,
                          observed=q[:4], expected=[sync, "1"], sig=dict(kind="dynstat", clause="zero-queue", model=md))
            ok = False
        bad = None
        for j in range(k):
            do, so = dc.toks(r, "doffs", j), dc.toks(r, "soffs_step", j)
            if not (eqtoks(do, soffs) and eqtoks(so, soffs)):
                bad = dict(step=j, dynamic=do[:6], static=soffs[:6])
                break
        if bad is None and not eqtoks(dc.toks(r, "dout"), dc.toks(r, "sout")):
            bad = dict(step="grid", dynamic=dc.toks(r, "dout")[:6], static=dc.toks(r, "sout")[:6])
        if bad:
            ctx.violation("impl-oracle", "zero amplitudes: the dynamic %s map does not kick like the static map" % md,
                          case=case, observed=bad, expected="bit equality of offsets at every step and of the output grid",
                          sig=dict(kind="dynstat", clause="zero-amplitude", model=md))
            ok = False
        p = dc.pairs(dc.toks(r, "past"))
        if len(p) != k:
            ctx.violation("impl-oracle", "records after k applies: %d" % len(p), case=case, observed=len(p), expected=k,
                          sig=dict(kind="dynstat", clause="records", model=md))
            ok = False
        nt = finite(soffs) and any(parse_c(t) != 0 for t in soffs) and any(v != 0 for v in data) and k >= 1
        ctx.case_done(("dynstat", c.cid), nt)
    else:
        ctx.case_done(("dynstat-fields", c.cid), True)
    ctx.count("dynstat:%s:%s" % (md, "zero" if zero else "fields"))
    return ok


def stage_dynstat(ctx, cm, dis, count):
    rng = ctx.rng
    cases = []
    for i in range(count):
        c = dc.gen_rf(rng, "d%d" % i, lin=((i + i // 6) % 2 == 0), zero=(i % 6 != 5), small=ctx.quick())
        k = rng.randint(1, min(3, c.steps))
        cases.append((c, k, dc.gen_data(rng, c)))
    res = dc.run_impl(ctx, "".join(dynstat_text(*t) for t in cases))
    for c, k, data in cases:
        check_dynstat(ctx, cm, c, k, data, res[c.cid], dis)
    ctx.sample(dict(kind="dynstat", **{k: v for k, v in cases[0][0].describe().items()}))


# ------------------------------------------------------------------------------- sched

def gen_ops(rng, steps):
    na = steps if rng.random() < 0.35 else rng.randint(0, steps)
    ops = ["A"] * na + ["F"] * rng.randint(0, max(1, min(2 * steps, 8)))
    rng.shuffle(ops)
    if rng.random() < 0.3:
        ops.insert(0, "F")
    if rng.random() < 0.3:
        ops += ["F", "F"]
    return "".join(ops) or "F"


def sched_text(c, seed, ops, data):
    return "sched %s %s %d %s %s\n" % (c.cid, c.args(), seed, ops, " ".join(fhex(v) for v in data))


def check_sched(ctx, c, seed, ops, data, r, dis):
    md = model_name(c)
    case = dict(kind="sched", rf=c.describe(), seed=seed, ops=ops, data=data)
    q0 = dc.pairs(dc.toks(r, "queue"))
    case["queue"] = q0
    refs = r.get("ref", [])
    alines = r.get("A", [])
    flines = r.get("F", [])
    na = ops.count("A")
    ok = True
    if "skip" in r or len(alines) != na or len(q0) != c.steps:
        ctx.violation("impl-oracle", "queue of %d records for steps=%d / applies executed %d of %d" % (len(q0), c.steps, len(alines), na),
                      case=case, sig=dict(kind="sched", clause="queue-length", model=md))
        return False
    # oracle 1: the kick of apply j was computed from record j
    for j in range(na):
        if not eqtoks(alines[j], refs[j]):
            ctx.violation("impl-oracle", "the offsets used by apply %d are not _calcKick(record %d)" % (j, j), case=case,
                          observed=dict(step=j, offsets=alines[j][:6]), expected=dict(record=q0[j], offsets=refs[j][:6]),
                          sig=dict(kind="sched", clause="kick-uses-record", model=md))
            ok = False
            break
    # oracle 3 (family st3drv, seed C19-J): the amplitude the apply really used, recovered from its offsets.  The kick is affine in
    # the relative amplitude - offsets(phase, a) = offs0 + a (offs1 - offs0) with offs1/offs0 the STATIC map's kick at the record's
    # phase with amplitude 1 / 0 - so a_used = (A - offs0)/(offs1 - offs0) at the cell where offs1 - offs0 is largest; it must be
    # the recorded amplitude (a clamp, a saturation, a sign convention applied to one of the two sites shows for the records it
    # touches: negative, near-zero, large).  Tolerance: each of the three offsets carries <= 8 roundings on terms bounded by
    # |a| T1 + T0 (T1 = |offs1 - offs0|, T0 = |offs0|): 64 * 2^-24 * (|a| + 1 + T0/T1).
    r1, r0 = r.get("ref1", []), r.get("ref0", [])
    if ok and len(r1) >= na and len(r0) >= na:
        for j in range(na):
            try:
                o1 = [dc.q_of(t) for t in r1[j]]
                o0 = [dc.q_of(t) for t in r0[j]]
                oa = [dc.q_of(t) for t in alines[j]]
                arec = dc.q_of(q0[j][1])
            except ValueError:
                continue
            if not o1 or len(o1) != len(oa) or len(o0) != len(oa):
                continue
            x = max(range(len(o1)), key=lambda i: abs(o1[i] - o0[i]))
            T1, T0 = abs(o1[x] - o0[x]), abs(o0[x])
            if T1 == 0:
                continue
            aused = (oa[x] - o0[x]) / (o1[x] - o0[x])
            tol = 64 * EPS * (abs(arec) + 1 + T0 / T1)
            cls = "negative" if arec < 0 else ("near-zero" if arec < Fraction(1, 10) else ("large" if arec > 2 else "ordinary"))
            ctx.count("sched:amplitude-%s" % cls)
            if abs(aused - arec) > tol:
                ctx.violation("impl-oracle", "apply %d kicked with relative amplitude %.6g but the record of step %d says %.6g (amplitude recovered "
                              "from the offsets used: static kick at the recorded phase with amplitude 0 and 1 as the two reference points)"
                              % (j, float(aused), j, float(arec)), case=case,
                              observed=dict(step=j, cell=x, offset_used=alines[j][x], amplitude_used=float(aused)),
                              expected=dict(record=q0[j], offset_amplitude0=r0[j][x], offset_amplitude1=r1[j][x], tol=float(tol)),
                              sig=dict(kind="sched", clause="amplitude-used-is-recorded", model=md, amplitude=cls))
                ok = False
                break
    # oracle 2: flushed chunks + pending = first na records, the rest still queued
    rec = [p for fl in flines for p in dc.pairs(fl)] + dc.pairs(dc.toks(r, "pending"))
    left = dc.pairs(dc.toks(r, "left"))
    same = lambda a, b: len(a) == len(b) and all(eqtok(x[0], y[0]) and eqtok(x[1], y[1]) for x, y in zip(a, b))
    if not (same(rec, q0[:na]) and same(left, q0[na:])):
        ctx.violation("impl-oracle", "records flushed + pending are not the first %d precomputed records (lost or duplicated)" % na,
                      case=case, observed=dict(recorded=rec[:8], left=len(left)), expected=dict(records=q0[:na][:8], left=len(q0) - na),
                      sig=dict(kind="sched", clause="records", model=md))
        ok = False
    ctx.case_done(("sched", c.cid), na >= 2 and ops.count("F") >= 1 and "AF" in ops and any(parse_c(a) != parse_c(q0[0][0]) for a, _ in q0))
    ctx.count("sched:%s:%s" % (md, "noise" if (c.phasespread or c.amplspread) else "mod"))
    return ok


def sched_model_text(c, r, ops):
    tl = dc.toks(r, "queue")
    if not finite(tl):
        return None
    return "sched %s %d %s %s\n" % (c.cid, len(tl) // 2, " ".join(qtok(dc.q_of(t)) for t in tl), ops)


def compare_sched(c, seed, ops, r, m, dis):
    md = model_name(c)
    case = dict(kind="sched", rf=c.describe(), seed=seed, ops=ops, queue=dc.pairs(dc.toks(r, "queue")))
    qp = lambda tl: [(parse_c(a), parse_c(b)) for a, b in dc.pairs(tl)]
    mp = lambda tl: [(parse_q(a), parse_q(b)) for a, b in dc.pairs(tl)]
    bad = []
    ifl, mfl = r.get("F", []), m.get("F", [])
    if [qp(x) for x in ifl] != [mp(x) for x in mfl]:
        bad.append(dict(what="flushed chunks", impl=[len(x) // 2 for x in ifl], model=[len(x) // 2 for x in mfl]))
    if qp(dc.toks(r, "pending")) != mp(dc.toks(m, "past")):
        bad.append(dict(what="pending records", impl=len(dc.toks(r, "pending")) // 2, model=len(dc.toks(m, "past")) // 2))
    if qp(dc.toks(r, "left")) != mp(dc.toks(m, "left")):
        bad.append(dict(what="queue", impl=len(dc.toks(r, "left")) // 2, model=len(dc.toks(m, "left")) // 2))
    if dc.toks(m, "ub") != ["0"] or dc.toks(m, "grid") != [str(ops.count("A"))]:
        bad.append(dict(what="model flags", ub=dc.toks(m, "ub"), grid=dc.toks(m, "grid")))
    if bad:
        dis.append(dict(case=case, detail=bad, sig=dict(kind="sched", stage="correspondence", model=md)))


def stage_sched(ctx, dis, count):
    rng = ctx.rng
    cases = []
    for i in range(count):
        c = dc.gen_rf(rng, "s%d" % i, lin=(i % 2 == 0), zero=False, small=True)
        c.steps = rng.randint(1, 14)
        seed = 0 if i % 7 == 6 else rng.randint(1, 2 ** 31 - 1)
        if i % 4 == 1:
            # strong amplitude noise: the per-step sigma is amplspread/sqrt(revolutionpart); 0.3 .. 2 draws 1 + noise below zero,
            # next to zero and above 2 within a dozen steps (legal, if unusual: main() only refuses negative spreads)
            c.amplspread = f32(rng.choice([0.3, 0.5, 0.7, 1.0, 2.0]) * math.sqrt(c.revpart))
            c.steps = rng.randint(6, 14)
            ctx.count("sched:strong-amplitude-noise")
        cases.append((c, seed, gen_ops(rng, c.steps), dc.gen_data(rng, c)))
    run_sched(ctx, cases, dis)
    ctx.sample(dict(kind="sched", ops=cases[0][2], steps=cases[0][0].steps, model=model_name(cases[0][0])))


def run_sched(ctx, cases, dis):
    res = dc.run_impl(ctx, "".join(sched_text(*t) for t in cases))
    mt = []
    for c, seed, ops, data in cases:
        check_sched(ctx, c, seed, ops, data, res[c.cid], dis)
        t = sched_model_text(c, res[c.cid], ops) if HAVE_MODEL[0] else ""
        if t == "":
            continue
        if t is None:
            dis.append(dict(case=dict(kind="sched", rf=c.describe(), seed=seed, ops=ops), detail="non-finite record in the queue",
                            sig=dict(kind="sched", stage="nonfinite", model=model_name(c))))
        else:
            mt.append(t)
    mres = dc.run_model("".join(mt)) if mt else {}
    for c, seed, ops, data in cases:
        if c.cid in mres:
            compare_sched(c, seed, ops, res[c.cid], mres[c.cid], dis)


# ------------------------------------------------------------------------------- calcmod

def calcmod_text(c, seed):
    return "calcmod %s %s %d\n" % (c.cid, c.args(), seed)


def check_calcmod(ctx, c, seed, r, dis):
    md = model_name(c)
    case = dict(kind="calcmod", rf=c.describe(), seed=seed)
    cfg = dc.toks(r, "cfg")
    mod = dc.pairs(dc.toks(r, "mod"))
    if not finite(cfg + dc.toks(r, "mod") + dc.toks(r, "noise") + dc.toks(r, "sin")) or len(mod) != c.steps:
        dis.append(dict(case=case, detail="non-finite or wrong length", sig=dict(kind="calcmod", stage="nonfinite", model=md)))
        return None
    sync, pn, an, ma, mtd = [dc.q_of(t) for t in cfg]
    # members from the constructor arguments (generated initialisers, evaluated in double like the code)
    exp = [f32(c.phasespread / math.sqrt(c.revpart)), f32(c.amplspread / math.sqrt(c.revpart)), f32(c.modampl),
           f32(2 * math.pi * c.modinc)]
    # 2^-23 relative: the double expression may be re-associated harmlessly before it is narrowed to float
    if any(abs(a - Fraction(b)) > abs(Fraction(b)) / 2 ** 23 for a, b in zip([pn, an, ma, mtd], exp)):
        dis.append(dict(case=case, detail=dict(what="dynamic members", impl=[str(x) for x in (pn, an, ma, mtd)], model=[fhex(x) for x in exp]),
                        sig=dict(kind="calcmod", stage="members", model=md)))
    # oracle, clause 4: pure sinusoidal modulation
    if c.phasespread == 0 and c.amplspread == 0:
        A = float(c.modampl)
        for i, (ph, am) in enumerate(mod):
            arg = 2 * math.pi * c.modinc * i
            e = Fraction(float(sync)) + Fraction(A * math.sin(arg))
            tol = Fraction(abs(A)) * Fraction(max(1.0, abs(arg))) / 2 ** 21 + 4 * EPS * (abs(sync) + Fraction(abs(A))) + TINY
            if abs(dc.q_of(ph) - e) > tol or parse_c(am) != 1:
                ctx.violation("impl-oracle", "noise = 0: record %d is not (syncphase + A sin(2 pi f dt k), 1)" % i, case=case,
                              observed=dict(k=i, phase=ph, amplitude=am), expected=dict(phase=float(e), amplitude=1, tol=float(tol)),
                              sig=dict(kind="calcmod", clause="sinusoidal", model=md))
                break
        ctx.case_done(("calcmod-sin", c.cid), A != 0 and c.steps >= 3)
    ctx.count("calcmod:%s" % ("noise" if (c.phasespread or c.amplspread) else "sinusoidal"))
    return "calcmod %s %d %s %s %s\n" % (c.cid, c.steps, " ".join(qtok(x) for x in (sync, pn, an, ma, mtd)),
                                          " ".join(qtok(dc.q_of(t)) for t in dc.toks(r, "noise")),
                                          " ".join(qtok(dc.q_of(t)) for t in dc.toks(r, "sin")))


def compare_calcmod(c, seed, r, m, dis):
    md = model_name(c)
    cfg = [dc.q_of(t) for t in dc.toks(r, "cfg")]
    sync, pn, an, ma, mtd = cfg
    noise = [dc.q_of(t) for t in dc.toks(r, "noise")]
    sn = [dc.q_of(t) for t in dc.toks(r, "sin")]
    im = dc.pairs(dc.toks(r, "mod"))
    mm = dc.pairs(dc.toks(m, "mod"))
    if len(im) != len(mm):
        dis.append(dict(case=dict(kind="calcmod", rf=c.describe(), seed=seed), detail="length", sig=dict(kind="calcmod", stage="correspondence", model=md)))
        return
    for i, ((ip, ia), (mp_, ma_)) in enumerate(zip(im, mm)):
        # K = 4: two products and two sums on the path of the phase, one product and one sum for the amplitude
        tolp = 4 * EPS * (abs(sync) + abs(noise[2 * i] * pn) + abs(ma * sn[i])) + TINY
        tola = 4 * EPS * (1 + abs(noise[2 * i + 1] * an)) + TINY
        if abs(dc.q_of(ip) - parse_q(mp_)) > tolp or abs(dc.q_of(ia) - parse_q(ma_)) > tola:
            dis.append(dict(case=dict(kind="calcmod", rf=c.describe(), seed=seed),
                            detail=dict(k=i, impl=[ip, ia], model=[float(parse_q(mp_)), float(parse_q(ma_))], tol=[float(tolp), float(tola)]),
                            sig=dict(kind="calcmod", stage="correspondence", model=md)))
            return


def stage_calcmod(ctx, dis, count):
    rng = ctx.rng
    cases = []
    for i in range(count):
        c = dc.gen_rf(rng, "m%d" % i, zero=False, noise=(i % 2 == 0), small=True)
        c.steps = rng.randint(1, 40)
        if i % 5 == 4:
            c.modinc = rng.uniform(0.2, 3.0)     # many periods: large sine arguments
        cases.append((c, rng.randint(1, 2 ** 31 - 1)))
    run_calcmod(ctx, cases, dis)
    ctx.sample(dict(kind="calcmod", steps=cases[0][0].steps, modampl=cases[0][0].modampl, modtimeincrement=cases[0][0].modinc,
                    phasespread=cases[0][0].phasespread))


def run_calcmod(ctx, cases, dis):
    res = dc.run_impl(ctx, "".join(calcmod_text(*t) for t in cases))
    mt = {}
    for c, seed in cases:
        t = check_calcmod(ctx, c, seed, res[c.cid], dis)
        if t and HAVE_MODEL[0]:
            mt[c.cid] = t
    mres = dc.run_model("".join(mt.values())) if mt else {}
    for c, seed in cases:
        if c.cid in mres:
            compare_calcmod(c, seed, res[c.cid], mres[c.cid], dis)
            ctx.evaluations += 1


# ------------------------------------------------------------------------------- calckick

def calckick_text(c, phase, ampl):
    return "calckick %s %s %s %s\n" % (c.cid, c.args(), fhex(phase), fhex(ampl))


def stage_calckick(ctx, dis, count):
    rng = ctx.rng
    cases = []
    for i in range(count):
        c = dc.gen_rf(rng, "k%d" % i, lin=(i % 2 == 0), zero=True, small=ctx.quick())
        phase = f32(rng.uniform(-0.1, 0.1) + (0 if c.lin else math.asin(c.V0 / c.V_RF)))
        ampl = f32(1 + rng.uniform(-0.05, 0.05)) if rng.random() < 0.8 else 1.0
        if i % 5 >= 3:
            # the amplitudes strong noise produces: negative, zero, next to zero, far above one
            ampl = f32(rng.choice([rng.uniform(-1.5, -0.01), 0.0, -0.0, 1e-30, -1e-30, rng.uniform(-1e-3, 1e-3), rng.uniform(1.5, 4.0)]))
            ctx.count("calckick:amplitude-%s" % ("negative" if ampl < 0 else ("near-zero" if ampl < 0.1 else "large")))
        cases.append((c, phase, ampl))
    run_calckick(ctx, cases, dis)
    ctx.sample(dict(kind="calckick", model=model_name(cases[0][0]), n=cases[0][0].n, phase=cases[0][1], ampl=cases[0][2]))


def run_calckick(ctx, cases, dis):
    if not HAVE_MODEL[0]:
        return
    res = dc.run_impl(ctx, "".join(calckick_text(*t) for t in cases))
    mt = {}
    for c, phase, ampl in cases:
        r = res[c.cid]
        case = dict(kind="calckick", rf=c.describe(), phase=phase, ampl=ampl)
        fl, ge = dc.toks(r, "fields"), dc.toks(r, "geom")
        allt = fl + ge[:5] + dc.toks(r, "axis0") + dc.toks(r, "sin") + dc.toks(r, "offs")
        if not finite(allt):
            dis.append(dict(case=case, detail="non-finite", sig=dict(kind="calckick", stage="nonfinite", model=model_name(c))))
            continue
        f = dc.fields_of(fl)
        q = lambda t: qtok(dc.q_of(t))
        mt[c.cid] = "calckick %s %d %d %s %s %s %s %s\n" % (
            c.cid, 1 if c.lin else 0, c.n,
            " ".join(q(t) for t in (ge[0], f["_revolutionpart"], f["_V_RF"], f["_V0"], f["_syncphase"], f["_bl2phase"], ge[1], ge[2], ge[3], ge[4])),
            qtok(Fraction(phase)), qtok(Fraction(ampl)),
            " ".join(q(t) for t in dc.toks(r, "axis0")), " ".join(q(t) for t in dc.toks(r, "sin")))
    mres = dc.run_model("".join(mt.values())) if mt else {}
    for c, phase, ampl in cases:
        if c.cid not in mres:
            continue
        r, m = res[c.cid], mres[c.cid]
        md = model_name(c)
        case = dict(kind="calckick", rf=c.describe(), phase=phase, ampl=ampl)
        fl, ge = dc.toks(r, "fields"), dc.toks(r, "geom")
        f = {k: dc.q_of(v) for k, v in dc.fields_of(fl).items()}
        tana, xc, d0, d1, s1 = [dc.q_of(t) for t in ge[:5]]
        io = [dc.q_of(t) for t in dc.toks(r, "offs")]
        mo = [parse_q(t) for t in dc.toks(m, "offs")]
        sn = [dc.q_of(t) for t in dc.toks(r, "sin")]
        ph, am = Fraction(phase), Fraction(ampl)
        bad = None
        if len(mo) != c.n or len(io) != c.n * c.nb or ge[5] != str(c.n):
            bad = dict(what="sizes", impl=[len(io), ge[5]], model=len(mo))
        else:
            for x in range(c.n):
                if c.lin:
                    cond = (abs(tana * (xc - x)) + abs(tana * (f["_syncphase"] - ph) / f["_bl2phase"] / d0)) * abs(am)
                else:
                    cond = f["_revolutionpart"] * (abs(am * f["_V_RF"] * sn[x]) + abs(f["_V0"])) / d1 / s1
                tol = 8 * EPS * cond + TINY       # K = 8: at most 7 rounded operations on the longest path
                if abs(io[x] - mo[x]) > tol:
                    bad = dict(x=x, impl=float(io[x]), model=float(mo[x]), tol=float(tol))
                    break
            # since the repo's fix 072b56b every bunch's block carries the same RF field (bit for bit)
            if bad is None and any(io[k] != io[k % c.n] for k in range(c.n, len(io))):
                k = next(k for k in range(c.n, len(io)) if io[k] != io[k % c.n])
                bad = dict(what="block of bunch %d differs from block 0" % (k // c.n), impl=[float(io[k]), float(io[k % c.n])])
        if bad:
            dis.append(dict(case=case, detail=bad, sig=dict(kind="calckick", stage="correspondence", model=md)))
        ctx.case_done(("calckick", c.cid), any(v != 0 for v in io))
        ctx.count("calckick:%s" % md)


# ------------------------------------------------------------------------------- program level

def h5rows(tg, path):
    r = subprocess.run(["timeout", "60", tg["h5cat"], path, "--values", "--only", "/RFKicks/data", "--only", "/Info"],
                       capture_output=True, text=True)
    info = {}
    vals = None
    for line in r.stdout.splitlines():
        p = line.split()
        if len(p) >= 3 and p[0] == "dataset":
            info[p[1]] = dict(dims=[int(x) for x in p[4:4 + int(p[3])]], fnv=p[-1])
        elif len(p) >= 2 and p[0] == "data" and p[1] == "/RFKicks/data":
            vals = p[2:]
    return info, vals


def run_inovesa(ctx, tg, out, lin, N, T, outstep, amp_deg, fmod, fs=8000.0, grid=32, verbose=False):
    if os.path.exists(out):
        os.remove(out)
    cmd = ["timeout", "120", tg["inovesa"], "-s", str(grid), "-N", str(N), "-T", repr(T), "-n", str(outstep), "-f", repr(fs),
           "--RFPhaseModAmplitude", repr(amp_deg), "--RFPhaseModFrequency", repr(fmod), "-o", out, "-I", "0.001",
           "--gui", "false", "--LinearRF", "true" if lin else "false", "-Z", "", "--UseCSR", "false", "--tracking", ""]
    if verbose:
        cmd += ["--verbose", "true"]
    r = subprocess.run(cmd, capture_output=True, text=True, env=vp_build.xdg_env())
    return r.returncode, r.stdout, " ".join(cmd[2:])


def stage_program(ctx, dis, count):
    rng = ctx.rng
    tg = ctx.build(harness=("impl_dynrf", "h5cat"), want_binary=True)
    tmp = tempfile.mkdtemp(prefix="c19_", dir=os.path.join(VERIF, ".cache"))
    cfgs = []
    for i in range(count):
        lin = i % 2 == 0
        N = rng.choice([8, 10, 20, 25])
        T = rng.choice([0.5, 1.0, 1.3, 2.0])
        n = int(math.ceil(N * float(f32(T))))
        outstep = [0, 1, 2, 3, n, n + 5, 7][i % 7]
        cfgs.append((lin, N, T, outstep, rng.choice([0.01, 0.05, 0.2]), rng.choice([4000.0, 16000.0, 23000.0, 100000.0])))
    # (family st2c12, seed F6-J) every second block of seven cadences runs with --verbose: the records must not depend on
    # how much the run reports (an observer-guarded statement that calls getPastModulation() loses the pending records)
    verbose_of = lambda i: (i // 7) % 2 == 1
    mtext = ""
    for i, (lin, N, T, outstep, amp, fmod) in enumerate(cfgs):
        n = int(math.ceil(N * float(f32(T))))
        mtext += "mainsched p%d %d %d\n" % (i, outstep, n)
    mrec = {}
    if HAVE_MODEL[0]:
        mops = dc.run_model(mtext)
        mtext = ""
        for i, (lin, N, T, outstep, amp, fmod) in enumerate(cfgs):
            n = int(math.ceil(N * float(f32(T))))
            ops = dc.toks(mops["p%d" % i], "ops")[0]
            mtext += "sched p%d %d %s %s\n" % (i, n, " ".join("%x/1 1/1" % j for j in range(n)), ops)
        mrec = dc.run_model(mtext)
    for i, (lin, N, T, outstep, amp, fmod) in enumerate(cfgs):
        md = "linear" if lin else "sinusoidal"
        n = int(math.ceil(N * float(f32(T))))
        out = os.path.join(tmp, "p%d.h5" % i)
        rc, so, cmdline = run_inovesa(ctx, tg, out, lin, N, T, outstep, amp, fmod, verbose=verbose_of(i))
        case = dict(kind="program", cmd=cmdline, LinearRF=lin, steps_per_Ts=N, rotations=T, outstep=outstep,
                    RFPhaseModAmplitude=amp, RFPhaseModFrequency=fmod, SynchrotronFrequency=8000.0, verbose=verbose_of(i))
        if rc != 0 or not os.path.exists(out):
            ctx.violation("impl-oracle", "inovesa failed (rc=%d)" % rc, case=case, observed=so[-400:], sig=dict(kind="program", clause="run", model=md))
            continue
        info, vals = h5rows(tg, out)
        dims = info.get("/RFKicks/data", {}).get("dims")
        # model: the records flushed by main()'s schedule
        m = mrec.get("p%d" % i)
        mflushed = None
        if m is not None:
            mflushed = [p for fl in m.get("F", []) for p in dc.pairs(fl)]
            if [int(a.split("/")[0], 16) for a, _ in mflushed] != list(range(n)) or dc.toks(m, "past") != []:
                dis.append(dict(case=case, detail="model: main schedule does not flush records 0..n-1", sig=dict(kind="program", stage="model")))
        if dims != [n, 2]:
            ctx.violation("impl-oracle", "/RFKicks/data has dims %s after %d executed steps (outstep %d)" % (dims, n, outstep), case=case,
                          observed=dims, expected=[n, 2], sig=dict(kind="program", clause="row-count", model=md))
            continue
        if mflushed is not None and len(mflushed) != dims[0]:
            dis.append(dict(case=case, detail=dict(model_rows=len(mflushed), impl_rows=dims[0]), sig=dict(kind="program", stage="correspondence")))
        rows = dc.pairs(vals)
        ph0 = parse_c(rows[0][0])
        A = amp / 360.0 * 2 * math.pi
        for k, (ph, am) in enumerate(rows):
            arg = 2 * math.pi * (fmod * (1.0 / (8000.0 * N))) * k
            e = (Fraction(ph0) if not isinstance(ph0, str) else 0) + Fraction(A * math.sin(arg))
            tol = Fraction(abs(A)) * Fraction(max(1.0, abs(arg))) / 2 ** 21 + 4 * EPS * (abs(Fraction(ph0) if not isinstance(ph0, str) else 0) + Fraction(abs(A))) + TINY
            v = parse_c(ph)
            if isinstance(v, str) or abs(v - e) > tol or parse_c(am) != 1 or (lin and ph0 != 0):
                ctx.violation("impl-oracle", "/RFKicks/data row %d is not (syncphase + A sin(2 pi f dt k), 1)" % k, case=case,
                              observed=dict(k=k, phase=ph, amplitude=am, row0=rows[0][0]), expected=dict(phase=float(e), amplitude=1, tol=float(tol)),
                              sig=dict(kind="program", clause="sinusoidal", model=md))
                break
        ctx.case_done(("program", i), n >= 3)
        ctx.count("program:%s:outstep%s" % (md, "0" if outstep == 0 else ("1" if outstep == 1 else ("big" if outstep >= n else "mid"))))
        if verbose_of(i):
            ctx.count("program:verbose:outstep%s" % ("0" if outstep == 0 else ("1" if outstep == 1 else ("big" if outstep >= n else "mid"))))
    # dynamic map with an amplitude that rounding absorbs = static map, through the whole program
    for lin in (True, False):
        md = "linear" if lin else "sinusoidal"
        fn = {}
        for tag, amp in (("static", 0.0), ("dynamic", 1e-30)):
            out = os.path.join(tmp, "z_%s_%s.h5" % (md, tag))
            rc, so, cmdline = run_inovesa(ctx, tg, out, lin, 20, 1.0, 4, amp, 16000.0)
            info, _ = h5rows(tg, out) if rc == 0 else ({}, None)
            want = "dynamic" if tag == "dynamic" else "static"
            fn[tag] = (rc, [info.get(k, {}).get("fnv") for k in ("/PhaseSpace/data", "/BunchProfile/data", "/EnergyProfile/data")],
                       ("Building %s" % want) in so, cmdline)
        case = dict(kind="program-zero", LinearRF=lin, cmd_static=fn["static"][3], cmd_dynamic=fn["dynamic"][3])
        if not (fn["static"][2] and fn["dynamic"][2]):
            ctx.notes.append("program-zero %s: the binary did not build the expected static/dynamic pair" % md)
        elif fn["static"][0] != 0 or fn["dynamic"][0] != 0 or fn["static"][1] != fn["dynamic"][1] or None in fn["static"][1]:
            ctx.violation("impl-oracle", "a run with a modulation amplitude far below rounding (1e-30 degree, dynamic %s map) differs from the static run" % md,
                          case=case, observed=dict(dynamic=fn["dynamic"][:2]), expected=dict(static=fn["static"][:2]),
                          sig=dict(kind="program", clause="zero-amplitude", model=md))
        ctx.case_done(("program-zero", md), True)
        ctx.count("program-zero:%s" % md)
    ctx.sample(dict(kind="program", **{k: v for k, v in zip(("LinearRF", "N", "T", "outstep", "amp_deg", "f_mod"), cfgs[0])}))
    import shutil
    shutil.rmtree(tmp, ignore_errors=True)



# ------------------------------------------------------------------------------- program level: step definitions

F_REV, F_S = 9e6, 9000.0


def steps_of(spr, N):
    """`steps` as main() derives it: StepsPerRevolution > 0 overrides StepsPerTs (default 1000)"""
    if spr is not None and spr > 0:
        return spr * F_REV / F_S
    return float(max(N if N is not None else 1000, 1))


def run_inovesa_steps(ctx, tg, out, lin, spr, N, T, outstep, amp_deg, fmod, grid=32):
    if os.path.exists(out):
        os.remove(out)
    cmd = ["timeout", "120", tg["inovesa"], "-s", str(grid), "-T", repr(T), "-n", str(outstep), "-F", repr(F_REV), "-f", repr(F_S),
           "--RFPhaseModAmplitude", repr(amp_deg), "--RFPhaseModFrequency", repr(fmod), "-o", out, "-I", "0.001",
           "--gui", "false", "--LinearRF", "true" if lin else "false", "-Z", "", "--UseCSR", "false", "--tracking", ""]
    if spr is not None:
        cmd += ["--StepsPerRevolution", repr(spr)]
    if N is not None:
        cmd += ["-N", str(N)]
    r = subprocess.run(cmd, capture_output=True, text=True, env=vp_build.xdg_env())
    return r.returncode, r.stdout, " ".join(cmd[2:])


def stage_program_steps(ctx, dis, count):
    """the step length dt = 1/(f_s*steps) follows from the command line as main() derives it: by -N alone, by
    --StepsPerRevolution alone, by --StepsPerRevolution together with a contradicting -N (which it overrides);
    /RFKicks/data must be (syncphase + A sin(2 pi f_mod k dt), 1), one row per executed step"""
    rng = ctx.rng
    tg = ctx.build(harness=("impl_dynrf", "h5cat"), want_binary=True)
    tmp = tempfile.mkdtemp(prefix="c19s_", dir=os.path.join(VERIF, ".cache"))
    for i in range(count):
        lin = i % 2 == 0
        kind = ("N", "spr", "spr+N")[i % 3]
        spr = None if kind == "N" else rng.choice([0.008, 0.01, 0.02, 0.025, 0.04])
        N = {"N": rng.choice([8, 10, 20, 25, 40]), "spr": None, "spr+N": rng.choice([7, 50, 333, 1000])}[kind]
        T = rng.choice([0.5, 1.0, 1.3, 2.0])
        steps = steps_of(spr, N)
        n = int(math.ceil(steps * float(f32(T))))
        outstep = rng.choice([0, 1, 3, 7, n])
        amp = rng.choice([0.05, 0.2, 2.0])
        fmod = rng.choice([F_S * steps / 20.0, F_S * steps / 7.0, F_S * steps / 4.0, 23000.0])
        md = "linear" if lin else "sinusoidal"
        out = os.path.join(tmp, "s%d.h5" % i)
        rc, so, cmdline = run_inovesa_steps(ctx, tg, out, lin, spr, N, T, outstep, amp, fmod)
        case = dict(kind="program-steps", cmd=cmdline, LinearRF=lin, StepsPerRevolution=spr, StepsPerTs=N, rotations=T, outstep=outstep,
                    RFPhaseModAmplitude=amp, RFPhaseModFrequency=fmod, RevolutionFrequency=F_REV, SynchrotronFrequency=F_S,
                    steps_per_Ts_effective=steps, executed_steps=n)
        if rc != 0 or not os.path.exists(out):
            ctx.violation("impl-oracle", "inovesa failed (rc=%d)" % rc, case=case, observed=so[-400:], sig=dict(kind="program", clause="run", model=md))
            continue
        info, vals = h5rows(tg, out)
        dims = info.get("/RFKicks/data", {}).get("dims")
        if dims != [n, 2]:
            ctx.violation("impl-oracle", "/RFKicks/data has dims %s after %d executed steps (steps defined by %s)" % (dims, n, kind), case=case,
                          observed=dims, expected=[n, 2], sig=dict(kind="program", clause="row-count", model=md, stepdef=kind))
            continue
        rows = dc.pairs(vals)
        ph0 = parse_c(rows[0][0])
        A = amp / 360.0 * 2 * math.pi
        dt = 1.0 / (F_S * steps)
        bad = None
        for k, (ph, am) in enumerate(rows):
            arg = 2 * math.pi * (fmod * dt) * k
            e = (Fraction(ph0) if not isinstance(ph0, str) else 0) + Fraction(A * math.sin(arg))
            # amplitude: A is stored in binary32; frequency: the phase increment 2 pi f dt is stored in binary32 (2^-24
            # relative, i.e. |arg| 2^-24 on the k-th argument); libm sine 1 ulp: K = 8 covers both
            tol = Fraction(abs(A)) * Fraction(max(1.0, abs(arg))) / 2 ** 21 + 4 * EPS * (abs(Fraction(ph0) if not isinstance(ph0, str) else 0) + Fraction(abs(A))) + TINY
            v = parse_c(ph)
            if isinstance(v, str) or abs(v - e) > tol or parse_c(am) != 1 or (lin and ph0 != 0):
                bad = (k, ph, am, e, tol)
                break
        if bad:
            k, ph, am, e, tol = bad
            # measured amplitude and frequency (zero crossings), for the report
            vs = [float(parse_c(p_)) - (float(ph0) if not isinstance(ph0, str) else 0.0) for p_, _ in rows if not isinstance(parse_c(p_), str)]
            cr = [j - 1 + vs[j - 1] / (vs[j - 1] - vs[j]) for j in range(1, len(vs)) if vs[j - 1] * vs[j] < 0]
            fmeas = (len(cr) - 1) / 2.0 / ((cr[-1] - cr[0]) * dt) if len(cr) > 1 else None
            ctx.violation("impl-oracle", "/RFKicks/data row %d is not (syncphase + A sin(2 pi f_mod k dt), 1) with dt = 1/(f_s steps) derived from the "
                          "command line (steps defined by %s)" % (k, kind), case=case,
                          observed=dict(k=k, phase=ph, amplitude=am, row0=rows[0][0], max_abs_phase=max(abs(x) for x in vs) if vs else None,
                                        frequency_from_zero_crossings=fmeas),
                          expected=dict(phase=float(e), amplitude=1, tol=float(tol), A=A, f_mod=fmod, dt=dt),
                          sig=dict(kind="program", clause="sinusoidal", model=md, stepdef=kind))
        ctx.case_done(("program-steps", i), n >= 3 and fmod * dt * n > 0.5)
        ctx.count("program-steps:%s:%s" % (kind, md))
        if i < 3:
            ctx.sample(dict(kind="program-steps", stepdef=kind, StepsPerRevolution=spr, N=N, T=T, steps=steps, executed=n, f_mod=fmod, amp_deg=amp))
    import shutil
    shutil.rmtree(tmp, ignore_errors=True)


# ------------------------------------------------------------------------------- program level: flush schedule under interrupts

INTERESTING = ("out:tracks", "out:rfkicks", "out:counted", "step:wake_tracked", "step:rf", "step:rf_tracked", "loop:head", "loop:step_counted",
               "fin:loop_left", "fin:tracks", "fin:rfkicks", "fin:file_done", "pre:done", "setup:rf_made", "setup:outputs_ready")


def stage_program_interrupt(ctx, dis, nconf, nper):
    """binary with RF phase modulation, several output cadences, SIGINT raised by the VERIF_POINT hook at chosen points:
    /RFKicks/data must hold exactly one row per rfm->apply() the run executed (counted in its own label trace), the rows
    must be the first rows of the every-step reference run in order, and the extracted driver model (generated main_prog,
    records numbered) must flush exactly the records 0..m-1 for the same schedule"""
    rng = ctx.rng
    tg = ctx.build(harness=("h5cat",), want_binary=True)
    use_model = HAVE_DRIVER[0]
    points, setup = drv.point_tables() if use_model else ([], [])
    wd = tempfile.mkdtemp(prefix="c19i_", dir=os.path.join(VERIF, ".cache"))
    for ci in range(nconf):
        N = rng.choice([6, 7, 8, 9])
        outstep = [0, 1, 2, 3, N, N + 5, 4][ci % 7]
        cfg = dict(n=16, N=N, T=1, outstep=outstep, h5save=rng.choice([0, 1, 2]), renorm=rng.choice([-1, 0, 3]), wake=(ci % 3 == 0),
                   dynrf=True, linrf=ci % 2, tracking=None, verbose=(ci % 3 == 1))
        md = "linear" if cfg["linrf"] else "sinusoidal"
        if ci == 0:
            drv.run_real(tg, dict(cfg, outstep=0, h5save=0), os.path.join(wd, "warm.h5"), want_trace=False)
        un = drv.run_real(tg, cfg, os.path.join(wd, "un.h5"))
        hun = drv.h5read(tg, os.path.join(wd, "un.h5"), only=["/RFKicks/data"])
        ref = drv.run_real(tg, dict(cfg, outstep=1), os.path.join(wd, "ref.h5"), want_trace=False)
        href = drv.h5read(tg, os.path.join(wd, "ref.h5"), only=["/RFKicks/data"])
        case0 = dict(kind="program-interrupt", cmd=" ".join(drv.cmdline(cfg, "int.h5")), outstep=outstep, steps=N, LinearRF=cfg["linrf"])
        if un["rc"] != 0 or ref["rc"] != 0 or not hun or not href or "/RFKicks/data" not in href:
            ctx.violation("impl-oracle", "run with RF modulation failed", case=case0, observed=(un["log"] + ref["log"])[-400:],
                          sig=dict(kind="program", clause="run", model=md))
            continue
        refrows = href["/RFKicks/data"]["rows"]
        distinct = len(set(refrows)) == len(refrows)
        nsetup = len([l for l in un["labels"] if l.startswith("setup:")])
        P = len(un["labels"])
        cand = [i for i, l in enumerate(un["labels"]) if l in INTERESTING]
        chosen = sorted(set(rng.sample(cand, min(len(cand), nper - 3)) + rng.sample(range(nsetup, P), 2) + [P]))
        plan = [(None, False)] + [(i, rng.random() < 0.25) for i in chosen]
        models = {}
        if use_model:
            try:
                mcfg = drv.with_oracle(cfg, un)
                models = drv.run_model([("p%s_%d" % (i, rep), mcfg, i, rep, nsetup) for i, rep in plan])
            except Exception as e:
                ctx.notes.append("driver model failed: %s" % str(e)[-200:])
        for i, rep in plan:
            if i is None:
                r, h = un, hun
            else:
                r = drv.run_real(tg, cfg, os.path.join(wd, "int.h5"), sig_at=i, rep=rep)
                h = drv.h5read(tg, os.path.join(wd, "int.h5"), only=["/RFKicks/data"])
            label = "(none)" if i is None else (un["labels"][i] if i < P else "(beyond the last point)")
            case = dict(case0, INOVESA_VERIF_SIGINT_AT=i, INOVESA_VERIF_SIGINT_REPEAT=rep, label=label)
            applied = r["labels"].count("step:rf")           # rfm->apply() calls the run executed
            started = "pre:done" in r["labels"]
            rows = h["/RFKicks/data"]["rows"] if h and "/RFKicks/data" in h else None
            if r["rc"] != 0 or (rows is None and started):
                ctx.violation("impl-oracle", "run with RF modulation interrupted at %s: exit %s, /RFKicks/data %s" % (label, r["rc"], "missing" if rows is None else "present"),
                              case=case, sig=dict(kind="program", clause="interrupt-run", model=md))
                continue
            if rows is None:
                continue
            if len(rows) != applied:
                ctx.violation("impl-oracle", "/RFKicks/data has %d rows but the run applied the RF map %d times (outstep %d, SIGINT at %s)" % (
                    len(rows), applied, outstep, label), case=case, observed=len(rows), expected=applied,
                    sig=dict(kind="program", clause="row-per-applied-step", model=md))
            elif list(rows) != list(refrows[:applied]):
                j = next(j for j, (a, b) in enumerate(zip(rows, refrows)) if a != b)
                ctx.violation("impl-oracle", "/RFKicks/data row %d is not the record the reference run used in step %d (outstep %d, SIGINT at %s)" % (
                    j, j, outstep, label), case=case, observed=rows[j], expected=refrows[j],
                    sig=dict(kind="program", clause="row-is-step-record", model=md))
            mo = models.get("p%s_%d" % (i, rep))
            if mo is not None:
                flushed = [x for _, ch in mo.get("rf", []) for x in ch]
                # the theorem's statement, on the executable instance, and the model against the implementation
                if flushed != list(range(mo["k"])) or mo.get("pending"):
                    dis.append(dict(case=case, detail="model: flushed %s pending %s after %d steps" % (flushed, mo.get("pending"), mo["k"]),
                                    sig=dict(kind="program", stage="model-records")))
                if mo["k"] != applied or len(flushed) != len(rows):
                    dis.append(dict(case=case, detail=dict(model_steps=mo["k"], impl_applied=applied, model_rows=len(flushed), impl_rows=len(rows)),
                                    sig=dict(kind="program", stage="correspondence-interrupt")))
                mtrace = [points[x] for x, _ in mo["trace"]]
                if r["labels"][nsetup:] != mtrace:
                    dis.append(dict(case=case, detail="label trace differs from the model's (lengths %d/%d)" % (len(r["labels"]) - nsetup, len(mtrace)),
                                    sig=dict(kind="program", stage="correspondence-trace")))
            ctx.case_done(("program-interrupt", ci, i, rep), distinct and applied >= 2 and i is not None and applied < N)
            ctx.count("program-interrupt:%s%s" % ("outstep0" if outstep == 0 else ("every" if outstep == 1 else ("big" if outstep >= N else "mid")),
                                                   ":verbose" if cfg["verbose"] else ""))
        ctx.sample(dict(kind="program-interrupt", cfg={k: v for k, v in cfg.items() if k != "tracking"}, points=len(plan)))
    import shutil
    shutil.rmtree(wd, ignore_errors=True)


HAVE_DRIVER = [False]

# ------------------------------------------------------------------------------- run / replay

def stage_genkick(ctx, dis, count):
    """(family rfgen) the generated _calcKick / constructors of Gen_RFDrift against RFKickMap of the working tree: static
    construction and the modulated call `_calcKick(phase, ampl)` DynamicRFKickMap::apply makes (lib/rf_cases.py)"""
    import rf_cases as rfc
    offs = rfc.gen_offs_cases(ctx, count, prefix="k19")
    rng = ctx.rng
    for i, s in enumerate(offs):
        # (family st3drv) the modulated call with the amplitudes strong noise produces; every second case is a modulated call here
        if s.calc is None and i % 2 == 0:
            s.calc = (f32(rng.uniform(-0.05, 0.05)), 1.0)
        if s.calc is not None and i % 4 != 1:
            a = f32(rng.choice([rng.uniform(-1.5, -0.01), rng.uniform(-1.5, -0.01), 0.0, 1e-30, -1e-30, rng.uniform(-1e-3, 1e-3),
                                rng.uniform(1.5, 4.0)]))
            s.calc = (s.calc[0], a)
            ctx.count("genkick:amplitude-%s" % ("negative" if a < 0 else ("near-zero" if a < 0.1 else "large")))
    impl, model = rfc.run_offs(ctx, offs)
    for s in offs:
        d = rfc.compare_offs(s, impl[s.cid], model[s.cid])
        rfc.oracle_offs(ctx, s, impl[s.cid])
        if d:
            dis.append(dict(case=dict(kind="rfoffs", setup=s.describe(), header=s.header(), calc=s.calc), detail=d[:3],
                            sig=dict(kind="rf", stage="correspondence", clause="offsets")))
        ctx.case_done(("genkick", s.cid), True)
        ctx.count("genkick:" + ("calcKick" if s.calc else "ctor"))


def run(ctx):
    ctx.rule = ("dynstat: static and dynamic map built by main()'s constructor calls from the same random arguments (both RF models, n 8..24, "
                "nb 1..2, it 1..4), zero amplitudes, 1..3 applies: members, offsets at every step and output grids bit for bit; members against "
                "the forwarding model. sched: random apply/flush schedules (applies <= steps, 35% exactly steps) on maps with noise and modulation; "
                "records exact against the extracted queue machine, kick offsets bit for bit against _calcKick(record). calcmod/calckick: "
                "tolerance stream K*2^-24*cond against the extracted arithmetic with libm sines supplied. program: inovesa runs, both RF models, "
                "outstep in {0,1,2,3,n,n+5,7}, every second block of seven cadences with --verbose: /RFKicks/data rows = executed steps, "
                "values against the sinusoidal formula. "
                "program-steps: steps defined by -N, by --StepsPerRevolution, by --StepsPerRevolution with a contradicting -N; rows against "
                "A sin(2 pi f_mod k dt) with dt derived from the command line as main() does. program-interrupt: RF modulation, seven cadences, "
                "SIGINT by the VERIF_POINT hook at chosen points: rows = rfm->apply() calls of the run's own trace = first rows of the every-step "
                "reference; extracted driver model (generated main_prog + set-up skeleton, numbered records) flushes records 0..m-1. "
                "Non-trivial: finite non-zero offsets on non-zero data / schedules with >= 2 applies and a flush between / A != 0.")
    ctx.rule += (" genkick (family rfgen): RFKickMap built by either constructor, half of the cases followed by _calcKick(phase, ampl) as "
                 "DynamicRFKickMap::apply calls it: every entry of _offset (all nb blocks), the member values and the table-built-from-the-final-"
                 "offsets flag against the model GENERATED from RFKickMap.cpp (Gen_RFDrift), and against the hand-written model.")
    coq = vp_coq.full_check("C19", ctx, fams=("dynrf", "driver", "rf"))
    for x in (drv.observer_report() or []):
        ctx.notes.append("observer-guarded statement is not pure (obligation of C19_loop_observers_keep_pending_records): " + x)
        ctx.log("not pure: " + x)
    dis = []
    cm = None
    try:
        cm = dc.ctor_model()
    except Exception as e:
        ctx.notes.append("constructor model could not be evaluated: %s" % str(e)[-300:])
    q = ctx.quick()
    stage_dynstat(ctx, cm, dis, 180 if q else 3000)
    HAVE_MODEL[0] = bool(os.path.exists(vp_coq.model_path("dynrf")) and coq["extract_ok"])
    if not HAVE_MODEL[0]:
        ctx.notes.append("model driver unavailable: model-vs-implementation comparisons skipped, implementation-side oracles still run")
    stage_sched(ctx, dis, 240 if q else 6000)
    stage_calcmod(ctx, dis, 120 if q else 3000)
    stage_calckick(ctx, dis, 120 if q else 3000)
    stage_program(ctx, dis, 21 if q else 140)
    stage_program_steps(ctx, dis, 18 if q else 120)
    # stdriver strengthening (seeds C19-G/H): flushes across the storage layout, runs beyond 2^16 / 2^17 steps, generated queue
    import c19_extra
    c19_extra.run_all(ctx, dis, coq)
    HAVE_DRIVER[0] = bool(os.path.exists(vp_coq.model_path("driver")) and coq["extract_ok"] and coq["make_ok"])
    stage_program_interrupt(ctx, dis, 7 if q else 28, 9 if q else 16)
    stage_genkick(ctx, dis, 40 if q else 400)
    ctx.extra["correspondence_disagreements"] = len(dis)
    # downgrade rule of DESIGN 2.2 for the offset-field translator (family rfgen): see lib/props/C03.py
    failed = [g for g, st in coq["gen"].items() if st.startswith("failed")]
    if failed == ["Gen_RFDrift"] and coq["make_ok"] and coq["props"]["ok"] and not coq["forbidden"] and coq["extract_ok"] \
            and not dis and not ctx.violations and ctx.evaluations > 0:
        ctx.extra["translators"]["Gen_RFDrift"] = "downgraded-to-correspondence (" + coq["gen"]["Gen_RFDrift"][:200] + ")"
        ctx.notes.append("Gen_RFDrift: translator failed; the last-good generated _calcKick / constructors and the hand-written models agree with the "
                         "implementation on every case of this run and every oracle holds: downgraded to tie 2")
        coq = dict(coq, ok=True)
    ctx.assumptions += ["exact-arithmetic model (DESIGN 3); tan/sin/sqrt/asin are abstract in the theorems, libm values are supplied to the extracted model",
                        "overload resolution modelled by arity; agreement with clang's resolution is part of the checked obligation",
                        "front() of an empty queue (undefined behaviour) is never executed: schedules keep applies <= steps, as main()'s loop bound does",
                        "normal variates are an abstract sequence in the theorems; the harness reseeds the map's own PRNG (no repo hook)"]
    conclude(ctx, coq, dis)


def _rf(d):
    return dc.RFCase(d["cid"], d["lin"], d["n"], d["nb"], d["it"], d["qmax"], d["pmax"], d["qscale"], d["pscale"], d["angle"], d["V_RF"],
                     d["V0"], d["revpart"], d["f_RF"], d["phasespread"], d["amplspread"], d["modampl"], d["modinc"], d["steps"])


def replay(ctx, rp):
    case = rp.get("case") or {}
    kind = case.get("kind")
    coq = vp_coq.full_check("C19", ctx, fams=("dynrf",))
    HAVE_MODEL[0] = bool(os.path.exists(vp_coq.model_path("dynrf")) and coq["extract_ok"])
    dis = []
    if kind == "dynstat":
        c = _rf(case["rf"])
        cm = None
        try:
            cm = dc.ctor_model()
        except Exception as e:
            ctx.notes.append(str(e)[-300:])
        res = dc.run_impl(ctx, dynstat_text(c, case["k"], case["data"]))
        check_dynstat(ctx, cm, c, case["k"], case["data"], res[c.cid], dis)
    elif kind == "sched":
        run_sched(ctx, [(_rf(case["rf"]), case["seed"], case["ops"], case.get("data") or [0.0] * (case["rf"]["nb"] * case["rf"]["n"] ** 2))], dis)
    elif kind == "calcmod":
        run_calcmod(ctx, [(_rf(case["rf"]), case["seed"])], dis)
    elif kind == "calckick":
        run_calckick(ctx, [(_rf(case["rf"]), case["phase"], case["ampl"])], dis)
    else:
        return run(ctx)
    conclude(ctx, coq, dis)
