"""C20 - command line beats config file beats default; legacy aliases honoured; errors stop the program."""
from vp_common import *
import vp_coq, options_cases as oc, subprocess, tempfile, shutil


def gen(ctx, n):
    kinds = ["legal", "alias", "malformed", "short", "malformed", "alias", "alias2"]
    cs = [oc.gen_alias2(ctx, "k%d" % i) if kinds[i % len(kinds)] == "alias2" else oc.gen_case(ctx, "k%d" % i, kinds[i % len(kinds)])
          for i in range(n)]
    cs += boundary(ctx)
    # every scenario of the alias theorems once per run, whatever the seed
    cs += [oc.gen_alias2(ctx, "as%d" % k, sc) for k, sc in enumerate(oc.ALIAS_SCENARIOS)]
    # legacy names act exactly like the current names: every case with a legacy name in a file gets a twin with the
    # current names in their place (the two outcomes are judged by the statement of alias_equivalence)
    cs += [oc.alias_twin(c) for c in cs if oc.has_legacy(c)]
    for c in cs:
        for t in c.tags:
            ctx.count(t)
        ctx.count("cli-items", len(c.cli))
    return cs


def boundary(ctx):
    """deterministic cases at the places the second wave's seeded changes showed to matter: every current option alone
    on the command line and alone in the file (a wrong `&member` binding shows at once), a vector option in both
    sources (command line replaces, never concatenates), every legacy / ignored name on the command line (file only)"""
    inf = oc.info()
    tab = inf["table"]
    cs = []
    canon = [o for o in tab.values() if o["kind"] == "KCanon" and o["ty"] != "TFlag" and o["name"] != inf["cfgopt"]]
    for k, o in enumerate(sorted(canon, key=lambda o: o["name"])):
        pool = oc.LEGAL[o["ty"]]
        t = pool[(k % (len(pool) - 1)) + 1]
        if o["cli"]:
            c = oc.OptCase("bc%d" % k)
            c.cli.append(dict(kind="L", name=o["name"], toks=[t], opt=o["name"]))
            c.tags.add("one-option-cli")
            cs.append(c)
        if o["file"]:
            c = oc.OptCase("bf%d" % k)
            c.cfg = dict(file="run.cfg", state="file", items=[(o["name"], [t])])
            c.cli.append(dict(kind="L", name="config", toks=["run.cfg"], opt=inf["cfgopt"]))
            c.tags.add("one-option-file")
            cs.append(c)
    for k, o in enumerate(o for o in canon if o["ty"] == "TVecFloat"):
        c = oc.OptCase("bv%d" % k)
        c.cli.append(dict(kind="L", name=o["name"], toks=["0.5"], opt=o["name"]))
        c.cfg = dict(file="run.cfg", state="file", items=[(o["name"], ["1", "2"])])
        c.cli.append(dict(kind="L", name="config", toks=["run.cfg"], opt=inf["cfgopt"]))
        c.tags.add("vector-both-sources")
        cs.append(c)
    for k, o in enumerate(sorted((o for o in tab.values() if o["kind"] in ("KAlias", "KIgnored")), key=lambda o: o["name"])):
        c = oc.OptCase("ba%d" % k)
        c.cli.append(dict(kind="L", name=o["name"], toks=[oc.LEGAL[o["ty"]][1]], opt=None))
        c.tags.add("inj:alias-cli")
        cs.append(c)
    return cs


def program_level(ctx, tg, n):
    """exit status / stderr of the binary for invalid input; nothing may be simulated"""
    rng = ctx.rng
    wd = tempfile.mkdtemp(prefix="vc20", dir=os.path.join(VERIF, ".cache"))
    try:
        with open(os.path.join(wd, "bad.cfg"), "w") as f:
            f.write("GridSize=abc\n")
        with open(os.path.join(wd, "unk.cfg"), "w") as f:
            f.write("Gridsize=32\n")
        with open(os.path.join(wd, "rep.cfg"), "w") as f:
            f.write("GridSize=32\nGridSize=32\n")
        cases = [(["--GridSize", "abc"], "fail"), (["--NoSuchOption", "1"], "fail"), (["-s", "32", "-s", "32"], "fail"),
                 (["--config", "bad.cfg"], "fail"), (["--config", "unk.cfg"], "fail"), (["--config", "rep.cfg"], "fail"),
                 (["--RFVoltage", "1"], "fail"), (["--config", "nosuch.cfg"], "stop"), (["--alpha", "1"], "fail"),
                 (["--GridSize", "32", "T", "10"], "fail"), (["-s", "-5"], "fail"),
                 (["--help"], "stop"), (["--version"], "stop")]
        rng.shuffle(cases)
        for av, exp in cases[:n]:
            r = subprocess.run(["timeout", "20", tg["inovesa"]] + av + ["--run_anyway"], cwd=wd, capture_output=True, text=True,
                               env=vp_build.xdg_env())
            simulated = "Starting the simulation" in r.stdout or "Started Inovesa" in r.stdout
            ok = (r.returncode != 0 and r.stderr.startswith("error:")) if exp == "fail" else \
                 (r.returncode == 0 and len(r.stdout) > 0)
            if not ok or simulated:
                ctx.violation("impl-oracle", "binary: invalid input does not stop the program as the property says",
                              case=dict(kind="binary", argv=av), observed=dict(rc=r.returncode, stderr=r.stderr[:200], stdout=r.stdout[:200]),
                              expected=exp, sig=dict(kind="binary", clause="error-stops", argv=" ".join(av)))
            ctx.case_done(("bin", tuple(av)), True)
            ctx.count("binary")
    finally:
        shutil.rmtree(wd, ignore_errors=True)


def run(ctx, cases=None):
    ctx.rule = ("option cases: random subsets of all option names on the command line (long, one-letter, abbreviated, --n=v) and/or in a "
                "config file or ./default.cfg (current names, legacy aliases, ignored options), legal tokens per type incl. 7-17 digit "
                "values; malformed stream: unknown names, aliases on the command line, `config` in a file, bad numbers, repeated scalars, "
                "ambiguous abbreviations, missing file, information switches, stray words, negative values for unsigned options; "
                "boundary stream: every current option alone on the command line / alone in the file, vector option in both sources, "
                "every legacy and ignored name on the command line; the defaults documented by --help against the getters of `inovesa`; "
                "alias stream: legacy and current name in one file (either order, with and without the command line), a legacy line that the "
                "command line overrides (legal / malformed), a malformed or repeated legacy line; every case with a legacy name in a file is run "
                "a second time with the current names in their place and the two outcomes are judged by the statement of alias_equivalence. "
                "Compared: status and every bound member (through its getter) model vs implementation, saved file, reload. "
                "Non-trivial: at least one option given.")
    coq = vp_coq.full_check("C20", ctx, fams=("options",))
    ctx.trusted.add("extraction of option names additionally uses ExtrOcamlString (DESIGN 4)")
    tg = ctx.build(harness=("impl_options",), want_binary=True)
    dis = []
    if coq["extract_ok"]:
        cs = cases or gen(ctx, 600 if ctx.quick() else 12000)
        res = oc.run_cases(ctx, cs, tg)
        byid = {c.cid: c for c in cs}
        for c in cs:
            r = res[c.cid]
            if not hasattr(c, "raw_argv"):
                d = oc.compare(c, r)
                if d:
                    dis.append(dict(case=c.replay(), detail=d[:4], sig=dict(kind="options", stage="correspondence")))
                oc.oracle_c20(ctx, c, r)
                if c.cid + "t" in res and "twin" not in c.tags:
                    t = byid[c.cid + "t"]
                    _, md = oc.oracle_alias_twin(ctx, c, r, t, res[t.cid])
                    if md:
                        dis.append(dict(case=c.replay(), detail=["alias_equivalence does not hold on the extracted model's output: " + md],
                                        sig=dict(kind="options", stage="correspondence")))
            ctx.evaluations += 1
        ctx.sample(cs[0].replay())
        ctx.sample(cs[1].replay())
    if cases is None:
        program_level(ctx, tg, 7 if ctx.quick() else 13)
        oc.oracle_doc_defaults(ctx, tg)
    ctx.extra["correspondence_disagreements"] = len(dis)
    ctx.assumptions += ["boost::program_options' lexer and lexical_cast are glue: the split of argv into option occurrences and the "
                        "well-formedness/value of a token for a C++ type are supplied by the harness (lib/options_cases.py) and validated by the correspondence",
                        "OpenGL-only members (gui, ForceOpenGLVersion) have no getter in this build: compared model vs implementation, not judged by the oracle"]
    # a broken translation/proof/correspondence must not hide behind the open findings of this property
    kf = load_known()
    known = [v for v in ctx.violations if match_known(kf, v) is not None]
    ctx.violations = [v for v in ctx.violations if match_known(kf, v) is None]
    conclude(ctx, coq, dis)
    ctx.violations += known


def replay(ctx, rp):
    case = rp.get("case") or {}
    if case.get("kind") == "options":
        c = oc.OptCase.from_replay(case)
        tg = ctx.build(harness=("impl_options",))
        res = oc.run_cases(ctx, [c], tg)
        i = res[c.cid]["impl"]
        ctx.log("replayed %s: status %s" % (c.raw_argv, oc.status(i)))
        ctx.extra["replayed"] = dict(status=oc.status(i), vars=oc.impl_vars(i))
        exp = rp.get("expected")
        st = oc.status(i)
        bad = False
        if isinstance(exp, str):
            bad = st != exp
        elif isinstance(exp, dict) and st == "run":
            iv = oc.impl_vars(i)
            bad = any(not oc.same(iv.get(k), v) for k, v in exp.items())
        if bad:
            ctx.violation("impl-oracle", rp.get("what", "replayed case still fails"), case=case, observed=dict(status=st),
                          expected=exp, sig=rp.get("sig") or {})
        ctx.case_done(("replay",), True)
    else:
        run(ctx)
