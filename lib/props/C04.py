"""C04 - without impedance every start relaxes to the unit-width natural Gaussian."""
import math
from fractions import Fraction
from vp_common import *
import vp_coq
import fp_cases as fc


# ------------------------------------------------------------------ the exact recurrence (Model/Moments2.v), in Python

def has_damp(v):
    return v not in (0, 2)


def has_diff(v):
    return v not in (0, 1)


def sm_step(v, a, t, e1, d, m):
    uu, uv, vv, z = m
    uv, vv = uv + t * uu, vv + 2 * t * uv + t * t * uu                 # RF kick: v += t u
    uu, uv = uu - 2 * a * uv + a * a * vv, uv - a * vv                 # drift:   u -= a v
    dd = e1 if has_damp(v) else 0
    ff = e1 if has_diff(v) else 0
    return (uu, (1 - dd) * uv, (1 - 2 * dd) * vv + (2 * ff / (d * d) - dd) * z, z)


def sm_J(a, t, m):
    return t * m[0] + a * t * m[1] + a * m[2]


def fixpoint(v, a, t, e1, d):
    """m* with M0 = 1: solve (I - A) m = b exactly (Gauss elimination over Fractions)"""
    cols = []
    base = sm_step(v, a, t, e1, d, (Fraction(0), Fraction(0), Fraction(0), Fraction(1)))[:3]
    for k in range(3):
        e = [Fraction(0)] * 3
        e[k] = Fraction(1)
        r = sm_step(v, a, t, e1, d, (e[0], e[1], e[2], Fraction(1)))[:3]
        cols.append([r[i] - base[i] for i in range(3)])
    M = [[(1 if i == j else 0) - cols[j][i] for j in range(3)] + [base[i]] for i in range(3)]
    for c in range(3):
        piv = next(r for r in range(c, 3) if M[r][c] != 0)
        M[c], M[piv] = M[piv], M[c]
        M[c] = [x / M[c][c] for x in M[c]]
        for r in range(3):
            if r != c:
                M[r] = [x - M[r][c] * y for x, y in zip(M[r], M[c])]
    return [M[i][3] for i in range(3)]


def rnd(q, bits=200):
    """keep the exact recurrence affordable over thousands of steps: round to `bits` significant bits
    (relative error 2^-200 per step, far below the comparison tolerance)"""
    if q == 0:
        return q
    sh = bits - (abs(q.numerator).bit_length() - q.denominator.bit_length())
    if sh >= 0:
        return Fraction((q.numerator << sh) // q.denominator, 1 << sh)
    return Fraction((q.numerator // q.denominator) >> (-sh) << (-sh), 1)


# ------------------------------------------------------------------ cases

class EvoCase:
    def __init__(self, cid, dt, v, n, it, steps, every, half, P, e1, zoom, shape, data):
        self.cid, self.dt, self.v, self.n, self.it, self.steps, self.every = cid, dt, v, n, it, steps, every
        self.half, self.P, self.angle, self.e1, self.zoom, self.shape, self.data = f32(half), P, f32(2 * math.pi / P), f32(e1), zoom, shape, data

    def impl_text(self):
        return "evo %s %d %d %d %d %d %d %s %s %s %d\n%s\n" % (self.cid, self.dt, self.v, self.n, self.it, self.steps, self.every,
                                                              fhex(self.half), fhex(self.angle), fhex(self.e1), self.ring(),
                                                              " ".join(fhex(x) for x in self.data))

    def ring(self):
        """cells a kick can move across the border in one step, plus the stencil"""
        return 4

    def describe(self):
        return dict(id=self.cid, dt=self.dt, variant=fc.VARIANTS[self.v], n=self.n, it=self.it, steps=self.steps,
                    half=self.half, steps_per_period=self.P, e1=self.e1, zoom=self.zoom, shape=self.shape)

    def replay(self):
        return dict(kind="evo", id=self.cid, dt=self.dt, v=self.v, n=self.n, it=self.it, steps=self.steps, every=self.every,
                    half=fhex(self.half), P=self.P, e1=fhex(self.e1), zoom=self.zoom, shape=self.shape)


def make_data(n, half, zoom, shape):
    d, zb, ax = fc.ruler(n, -half, half)
    out = []
    for x in range(n):
        for y in range(n):
            q, p = ax[x], ax[y]
            if shape == "gauss":
                val = math.exp(-(q * q + p * p) / (2 * zoom * zoom))
            elif shape == "flat":          # smooth flat-top
                val = math.exp(-((q * q + p * p) / (3.0 * zoom * zoom)) ** 2)
            elif shape == "ring":
                r2 = (q * q + p * p) / (zoom * zoom)
                val = r2 * math.exp(-r2 / 2)
            else:   # "tilted": correlated, elongated
                val = math.exp(-((q - 0.6 * p) ** 2 / (2 * zoom * zoom) + p * p / (2 * (0.7 * zoom) ** 2)))
            if val < 1e-9 or max(abs(q), abs(p)) > half - 4 * d:
                val = 0.0
            out.append(f32(val))
    return out


def gen(ctx):
    rng = ctx.rng
    cases = []
    q = ctx.quick()
    combos = [(3, 3), (3, 1), (3, 2), (3, 0), (4, 3), (4, 2), (4, 1), (4, 0), (3, 3), (4, 3), (3, 3), (3, 1)]
    if not q:
        combos = combos * 4
    for i, (dt, v) in enumerate(combos):
        # resolution: the exact recurrence presupposes interior support; interpolation ringing of bunches narrower than
        # ~2.5 cells reaches the border at the 1e-5 level within tens of steps (then the case stops being evaluated)
        n, zoom, half = rng.choice([(64, 0.5, 7.0), (64, 1.0, 7.0), (64, 2.0, 13.0), (48, 1.0, 6.5), (48, 2.0, 13.0),
                                    (32, 1.0, 6.5), (64, 1.0, 8.0), (48, 1.0, 7.0),
                                    # odd sizes: the zero-energy bin is an integer row (the 4-point stencil switches sides there)
                                    (65, 1.0, 7.0), (49, 1.0, 6.5), (33, 1.0, 6.5), (65, 2.0, 13.0)])
        if i in (0, 8):
            # always one even and one odd grid with a NARROW start (damping + diffusion, 3-point stencil): the start data is exactly 0
            # in the columns beyond 6.4*zoom = 3.2 sigma, which the relaxed bunch occupies.  The harness wires the grids as main()
            # does (copies of the start grid, only grid_t1's profile refreshed), so a step that consults anything cached from
            # the start (stale profile, support mask) leaves the recurrence here (seed C04-G)
            n, zoom, half = (64, 0.5, 7.0) if i == 0 else (65, 0.5, 7.0)
        it = rng.choice([3, 4])
        P = rng.choice([24, 32, 48, 64])
        e1 = rng.choice([0.01, 0.02, 1.0 / 64, 0.03] if q else [0.01, 0.02, 1.0 / 64, 0.03, 0.005])
        if e1 * (n - 1) ** 2 > 0.45 * (2 * half) ** 2:
            e1 = 0.02       # stay inside the explicit scheme's stable range e1 <= delta^2/2 (C04_fp3_stable_range): beyond it rounding noise grows by |1 + e1 - 4 e1/delta^2| per step
        shape = rng.choice(["gauss", "gauss", "flat", "ring", "tilted"]) if n > 33 else rng.choice(["gauss", "tilted"])
        if v == 3:
            steps = int((6 if q else 12) / e1)
        elif v == 1:
            steps = int(1.0 / e1)
        elif v == 2:
            if zoom > 1.0:
                zoom, half = 1.0, 8.0
            half = half + 4.0
            steps = int(0.6 / e1)
        else:
            steps = 6 * P
        if v in (1,) and zoom < 1.0:
            zoom = 1.0
        every = 1
        cases.append(EvoCase("e%d" % i, dt, v, n, it, steps, every, half, P, e1, zoom, shape, make_data(n, half, zoom, shape)))
        ctx.count("evo:dt%d:%s:it%d:zoom%s:%s" % (dt, fc.VARIANTS[v], it, zoom, shape))
    return cases


def run_evo(ctx, cases):
    tg = ctx.build(harness=("impl_fp",))
    from concurrent.futures import ThreadPoolExecutor
    with ThreadPoolExecutor(max_workers=12) as ex:
        rs = list(ex.map(lambda c: run_driver(tg["impl_fp"], c.impl_text()), cases))
    res = {}
    for c, (rc, out, err) in zip(cases, rs):
        if rc != 0:
            raise RuntimeError("impl_fp evo: rc=%d %s" % (rc, err[-400:]))
        r = parse_cases(out)[c.cid]
        res[c.cid] = dict(setup=[parse_c(t) for t in r["setup"][0]],
                          m={int(l[0]): [parse_c(t) for t in l[1:]] for l in r["m"]},
                          minval=parse_c(r["minval"][0][0]))
    return res


def model_prefix(ctx, c, t, d, m0, ksteps=8):
    """first steps of the recurrence through the extracted Gallina function (ties the Python copy to it)"""
    text = "mom %s %d %d 1\n%s %s %s %s\n%s\n" % (c.cid, c.v, ksteps, qtok(Fraction(c.angle)), qtok(t), qtok(Fraction(c.e1)), qtok(d),
                                                  " ".join(qtok(x) for x in m0))
    rc, out, err = run_driver(vp_coq.model_path("fp"), text)
    if rc != 0:
        raise RuntimeError("model_fp mom: " + err[-300:])
    r = parse_cases(out)[c.cid]
    return {int(l[0]): [parse_q(x) for x in l[1:]] for l in r["m"]}


def oracle(ctx, c, r, dis):
    n = c.n
    tanv, dq, dp, xc, yc = r["setup"][:5]
    a = Fraction(c.angle)
    t = tanv
    e1 = Fraction(c.e1)
    d = dp
    if dq != dp or xc != yc:
        raise RuntimeError("harness: axes of the evo case are not equal")
    M = r["m"]
    sig = dict(kind="evo", dt=c.dt, variant=fc.VARIANTS[c.v])
    # exact moments of the float start data
    m0 = [Fraction(0)] * 4
    for x in range(n):
        for y in range(n):
            f = Fraction(c.data[x * n + y])
            if f:
                u, w = x - xc, y - yc
                m0 = [m0[0] + u * u * f, m0[1] + u * w * f, m0[2] + w * w * f, m0[3] + f]
    got0 = M[0]
    if abs(got0[0] - m0[3]) > Fraction(1, 10 ** 9) * m0[3]:
        raise RuntimeError("harness: start moments disagree")
    exact_rec = c.dt == 3 or not has_damp(c.v)      # the 4-point damping rows differ in the switch rows (C01.5)
    # the Python recurrence is the Gallina one: compare the first steps exactly
    pre = model_prefix(ctx, c, t, d, m0)
    m = tuple(m0)
    for k in range(1, 9):
        m = sm_step(c.v, a, t, e1, d, m)
        if list(m) + [sm_J(a, t, m)] != pre[k]:
            dis.append(dict(case=c.replay(), detail="Python copy of the recurrence differs from Model/Moments2.v at step %d" % k,
                            sig=dict(kind="mom", stage="correspondence")))
            return
    # long run
    m = tuple(m0)
    scale = m0[3]
    Jprev = None
    worst = Fraction(0)
    okJ = True
    cum_edge = Fraction(0)
    border_limited = None
    for k in range(1, c.steps + 1):
        m = tuple(rnd(x) for x in sm_step(c.v, a, t, e1, d, m))
        if k not in M:
            continue
        g0, gu, gv, guu, guv, gvv, edge = M[k]
        if any(isinstance(x, str) for x in M[k]):
            ctx.violation("impl-oracle", "non-finite moments at step %d" % k, case=c.replay(), sig=dict(sig, clause="finite"))
            return
        size = max(m[0], m[2], scale)
        # what the three maps of this step can drop at the border: at most the absolute mass of the border ring, each
        # unit of it worth at most 2*(n/2)^2 in a second moment.  The exact recurrence presupposes interior support;
        # once the accumulated border loss could matter the case is no longer evaluated (interpolation ringing of
        # under-resolved or discontinuous starts reaches the border within a few steps).
        cum_edge += 2 * edge
        if 2 * cum_edge * Fraction(n * n, 4) > Fraction(1, 100) * size or 3 * cum_edge > Fraction(1, 1000) * scale:
            border_limited = k
            break
        # tolerance: float accumulation over k steps of three maps (each cell ~ 2^-24 relative per map, errors of
        # random sign) plus the tails cut at the border; 3-point: the recurrence is exact
        tol = (Fraction(2, 10 ** 4) + k * Fraction(2, 10 ** 7)) * size + 2 * cum_edge * Fraction(n * n, 4)
        err = max(abs(guu - m[0]), abs(guv - m[1]), abs(gvv - m[2]))
        if exact_rec:
            worst = max(worst, err / size)
        if exact_rec and err > tol:
            ctx.violation("impl-oracle", "second moments of the implementation leave the %s recurrence at step %d"
                          % ("exact" if exact_rec else "3-point", k), case=c.replay(),
                          observed=dict(step=k, Muu=float(guu), Muv=float(guv), Mvv=float(gvv), M0=float(g0)),
                          expected=dict(Muu=float(m[0]), Muv=float(m[1]), Mvv=float(m[2]), M0=float(m[3])),
                          sig=dict(sig, clause="recurrence"))
            return
        # charge
        # charge: rounding of the interpolation weights is biased per row and adds up linearly (three maps per step, a few
        # 2^-24 each); 4-point stencil with damping: the proven defect (C01_fp4_defect) is at most e1 * |c4| * (charge in the
        # four switch rows) per step with |c4| < 1, i.e. at most compound growth at rate e1
        round_tol = (Fraction(1, 10 ** 5) + k * Fraction(1, 10 ** 6)) * scale
        ctol = round_tol + cum_edge + (0 if exact_rec else scale * ((1 + e1) ** k - 1))
        if abs(g0 - scale) > ctol:
            ctx.violation("impl-oracle", "charge drifts at step %d" % k, case=c.replay(), observed=float(g0), expected=float(scale),
                          sig=dict(sig, clause="charge"))
            return
        # J per step (DESIGN C04.3): constant / strictly increasing / strictly decreasing
        J = sm_J(a, t, (guu, guv, gvv))
        if Jprev is not None and okJ:
            rel = Fraction(3, 10 ** 6) * abs(Jprev)
            resolved = gvv / g0 > 6 and guu / g0 > 6          # at least ~2.5 cells rms: the grid resolves the bunch
            if c.v == 0 and abs(J - Jprev) > 20 * rel:
                okJ = False
                what = "J changes with neither damping nor diffusion"
            elif c.v == 2 and not J > Jprev - rel:
                okJ = False
                what = "J does not grow under diffusion only"
            elif c.v == 1 and resolved and not J < Jprev + rel:
                okJ = False
                what = "J does not shrink under damping only"
            if not okJ:
                ctx.violation("impl-oracle", what + " (step %d)" % k, case=c.replay(), observed=float(J), expected=float(Jprev),
                              sig=dict(sig, clause="J-monotone"))
                return
        Jprev = J
    if border_limited is not None:
        ctx.notes.append("%s: border-limited from step %d on (support reached the grid border); later steps not evaluated" % (c.cid, border_limited))
        ctx.extra.setdefault("border_limited", {})[c.cid] = border_limited
        ctx.case_done(c.cid, border_limited > 50)
        return
    # stroboscopic spreads, one synchrotron period apart (individual spreads ripple at 2 fs)
    if c.v in (1, 2, 3):
        ks = [k for k in range(c.P, c.steps + 1, c.P) if k in M]
        fix = fixpoint(c.v, a, t, e1, d) if c.v == 3 else None
        for idx, name in ((3, "Muu"), (5, "Mvv")):
            seq = [M[k][idx] / M[k][0] for k in ks]
            for i in range(1, len(seq)):
                p0, p1 = seq[i - 1], seq[i]
                if c.v == 3:
                    star = fix[0] if idx == 3 else fix[2]
                    if abs(p0 - star) < Fraction(8, 100) * star:
                        break                       # within the ripple of equilibrium
                    good = abs(p1 - star) < abs(p0 - star) and (p1 - star) * (p0 - star) > 0
                elif c.v == 1:
                    if p0 < 8:
                        break
                    good = p1 < p0
                else:
                    good = p1 > p0
                if not good:
                    ctx.violation("impl-oracle", "stroboscopic %s/M0 not monotone between periods %d and %d" % (name, i, i + 1),
                                  case=c.replay(), observed=[float(p0), float(p1)], sig=dict(sig, clause="strobe"))
                    return
    # equilibrium (full): close to the exact fixed point of the recurrence, and unit width within the splitting/grid error
    if c.v == 3:
        fix = fixpoint(c.v, a, t, e1, d)
        last = M[c.steps]
        guu, gvv = last[3] / last[0], last[5] / last[0]
        decay = Fraction(math.exp(-float(e1) * c.steps))
        for name, g, s in (("Muu", guu, fix[0]), ("Mvv", gvv, fix[2])):
            # 4-point stencil: its own discretisation error differs from the 3-point one's -delta^2/2 by O(delta^2) (coarse grids:
            # n = 48 on +-13 has delta^2/2 = 0.15 and settles 14 % above the 3-point fixed point, at 0.95 in natural units)
            tol = (Fraction(3, 1000) if exact_rec else Fraction(8, 100) + d * d / 2) * s + 8 * decay * s * max(Fraction(c.zoom) ** 2, 1)
            if abs(g - s) > tol:
                ctx.violation("impl-oracle", "%s/M0 after %d steps is not at the fixed point of the recurrence" % (name, c.steps),
                              case=c.replay(), observed=float(g), expected=float(s), sig=dict(sig, clause="equilibrium"))
                return
            nat = g * d * d
            if abs(nat - 1) > a + d * d + Fraction(8, 100) + 8 * decay * max(Fraction(c.zoom) ** 2, 1):
                ctx.violation("impl-oracle", "equilibrium %s in natural units is not 1 within the discretisation error" % name,
                              case=c.replay(), observed=float(nat), expected="1 +- (a + delta^2 + 0.05)", sig=dict(sig, clause="unit-width"))
                return
    ctx.extra.setdefault("worst_relative_moment_error", {})[c.cid] = float(worst)
    ctx.case_done(c.cid, c.v != 0 or True)


def fp_only(ctx, dis):
    """FP step alone, iterated on the grid: exact model (<= 3 steps) vs implementation, and the energy moments of the
    implementation against C04.1 (M0, M1, M2 per step)"""
    rng = ctx.rng
    cases = []
    for i in range(24 if ctx.quick() else 300):
        v = i % 4
        n, pmin, pmax = rng.choice([a for a in fc.EXACT_AXES if 17 <= a[0] <= 33])
        e1 = f32(rng.choice([2.0 ** -rng.randint(3, 7), rng.uniform(0.001, 0.2)]))
        data = [0.0] * (n * n)
        for x in rng.sample(range(n), 4):
            lo = rng.randint(5, n // 2)
            for y in range(lo, min(n - 5, lo + rng.randint(1, 6))):
                data[x * n + y] = f32(rng.uniform(0.1, 2.0))
        cases.append(fc.FPCase("s%d" % i, 3, v, n, 1, 3, pmin, pmax, e1, data, "tol", "moment"))
        ctx.count("fp3-iter:%s" % fc.VARIANTS[v])
    res = fc.run_cases(ctx, cases)
    for c in cases:
        fc.oracle_cache_independent(ctx, c, res[c.cid])
        dd = fc.compare_case(c, res[c.cid])
        if dd:
            dis.append(dict(case=c.replay(), detail=dd[:3], sig=dict(kind="fp", stage="correspondence", dt=3, variant=fc.VARIANTS[c.v])))
        n = c.n
        e1, d = Fraction(c.e1), Fraction(c.delta)
        dm = e1 if has_damp(c.v) else 0
        ff = e1 if has_diff(c.v) else 0
        out = res[c.cid]["impl_out"]
        for x in range(n):
            col = c.column(0, x)
            if not any(col):
                continue
            s0 = sum(col)
            s1 = sum(Fraction(c.axis[y]) * col[y] for y in range(n))
            s2 = sum(Fraction(c.axis[y]) ** 2 * col[y] for y in range(n))
            for _ in range(3):
                s1, s2 = (1 - dm) * s1, (1 - 2 * dm) * s2 + (2 * ff - dm * d * d) * s0
            o = out[x * n:(x + 1) * n]
            g0 = sum(o)
            g1 = sum(Fraction(c.axis[y]) * o[y] for y in range(n))
            g2 = sum(Fraction(c.axis[y]) ** 2 * o[y] for y in range(n))
            size = sum(abs(t) for t in col) * (1 + max(abs(Fraction(a)) for a in c.axis) ** 2) * (1 + 2 * e1 / (d * d)) ** 3
            tol = Fraction(64, 2 ** 24) * size
            if max(abs(g0 - s0), abs(g1 - s1), abs(g2 - s2)) > tol:
                ctx.violation("impl-oracle", "energy moments of a column after three 3-point steps differ from C04.1",
                              case=c.replay(), observed=[float(g0), float(g1), float(g2)], expected=[float(s0), float(s1), float(s2)],
                              sig=dict(kind="fp", clause="moments", variant=fc.VARIANTS[c.v]))
                break
            ctx.case_done((c.cid, x), c.v != 0)


def binary_run(ctx):
    """thorough tier: the inovesa binary without impedance (VacuumGap=0); /BunchLength and /EnergySpread, one record per
    synchrotron period (stroboscopic), over 10 damping times: monotone approach and a final value of 1 within the
    discretisation error"""
    import subprocess, tempfile, os, vp_build
    tg = ctx.build(harness=("impl_fp", "h5cat"), want_binary=True)
    import atexit, shutil
    td = tempfile.mkdtemp(prefix="c04_")
    atexit.register(shutil.rmtree, td, True)      # removed when the check ends, whatever happens in between
    for deriv in (3, 4):
        for zoom in (0.5, 2.0):
            out = os.path.join(td, "r%d_%s.h5" % (deriv, zoom))
            N = 50
            cmd = ["timeout", "600", tg["inovesa"], "--gui", "false", "-o", out, "-s", "64", "-P", "%g" % (14 * max(zoom, 1)),
                   "-G", "0", "--InitialDistZoom", str(zoom), "-N", str(N), "-n", str(N), "-T", "80", "-d", "0.002", "-f", "8000",
                   "--RenormalizeCharge=-1", "--derivation", str(deriv), "-v", "false"]
            r = subprocess.run(cmd, capture_output=True, text=True, env=vp_build.xdg_env(), cwd=td)
            if not os.path.exists(out):
                raise RuntimeError("binary run produced no file (rc=%d): %s" % (r.returncode, (r.stdout + r.stderr)[-300:]))
            vals = {}
            for ds in ("/BunchLength/data", "/EnergySpread/data"):
                h = subprocess.run(["timeout", "60", tg["h5cat"], out, "--values", "--only", ds], capture_output=True, text=True)
                nums = []
                for line in h.stdout.splitlines():
                    pp = line.split()
                    if len(pp) > 2 and pp[0] == "data" and pp[1] == ds:
                        nums = [float.fromhex(t) for t in pp[2:]]
                vals[ds] = nums
            ctx.notes.append("binary deriv=%d zoom=%s: records=%d first/last BunchLength=%.4f/%.4f EnergySpread=%.4f/%.4f" % (
                deriv, zoom, len(vals["/BunchLength/data"]), vals["/BunchLength/data"][0], vals["/BunchLength/data"][-1],
                vals["/EnergySpread/data"][0], vals["/EnergySpread/data"][-1]))
            ctx.count("binary-run")
            case = dict(kind="binary", deriv=deriv, zoom=zoom, cmd=" ".join(cmd[2:]))
            for ds, nums in vals.items():
                if len(nums) < 20:
                    raise RuntimeError("too few records in %s" % ds)
                fin = nums[-1]
                if not (0.93 <= fin <= 1.05):
                    ctx.violation("impl-oracle", "%s of the program run without impedance does not settle at 1" % ds,
                                  case=case, observed=fin, expected="1 within the discretisation error (0.93..1.05)",
                                  sig=dict(kind="binary", clause="equilibrium", deriv=deriv))
                for a, b in zip(nums, nums[1:]):
                    if abs(a - fin) < 0.03:
                        break
                    if not ((a > fin and fin - 0.01 < b < a) or (a < fin and a < b < fin + 0.01)):
                        ctx.violation("impl-oracle", "%s does not approach its limit monotonically (one record per period)" % ds,
                                      case=case, observed=[a, b], expected="towards %.4f" % fin,
                                      sig=dict(kind="binary", clause="monotone", deriv=deriv))
                        break
                ctx.case_done(("bin", deriv, zoom, ds), True)


def program_level(ctx):
    """(family scaling) the inovesa binary without impedance on small grids: every record, every bunch, against the
    second-moment recurrence with a = 2 pi/N, t = tan a and e1 = 2/(f_s t_damp N) implied by the command line, against the
    recorded profiles of the same record, and the monotone clauses (lib/scaling_cases.py)"""
    import scaling_cases as sc
    tg = ctx.build(harness=("impl_fp", "h5cat"), want_binary=True)
    sc.run_moments(ctx, tg, sc.c04_cases(ctx, ctx.quick()), dict(kind="program"))
    # relaxation runs from narrow ... wide starts: stationary, limit independent of the start, limit = proved fixed point
    import c04_limits
    c04_limits.run(ctx, tg, c04_limits.cases(ctx, ctx.quick()), dict(kind="program"))


def run(ctx):
    ctx.rule = ("evo cases: one bunch, n 32/48/64, zoom 0.5/1/2, shapes gauss/flat/ring/tilted, it 3..4, both stencils x four variants, "
                "24..64 steps per synchrotron period, e1 0.005..0.03, 8-12 damping times (full), RFKickMap(linear)+DriftMap+FokkerPlanckMap "
                "iterated through the repo's API; raw second moments every step vs the exact recurrence of Model/Moments2.v (first 8 steps "
                "through the extracted Gallina function, then its Python copy), J per step, stroboscopic spreads, fixed point, unit width. "
                "fp3-iter cases: three 3-point steps on the grid vs the exact model and vs C04.1. Non-trivial: all evo cases; fp columns with variant != none. "
                "evo harness wired as main() (grid_t2/grid_t3 copies of the start grid, only grid_t1's profile refreshed); two evo cases always start narrow "
                "(start data exactly 0 beyond 3.2 sigma). Program level: relaxation runs of one configuration from InitialDistZoom 0.2 ... 1.5 (40 periods >= 10 "
                "damping times): stationary, limit independent of the start (2e-4), limit = fixed point of the recurrence (3-point) / 1 +- 0.05 (4-point).")
    coq = vp_coq.full_check("C04", ctx, fams=("fp",))
    dis = []
    fp_only(ctx, dis)
    cases = gen(ctx)
    res = run_evo(ctx, cases)
    for c in cases:
        oracle(ctx, c, res[c.cid], dis)
    __import__("c04_fix").run(ctx, dis, __import__("types").SimpleNamespace(**globals()))   # proved fixed point / contraction / linear-interpolation law vs long API runs
    ctx.sample(cases[0].describe())
    ctx.sample(cases[4].describe())
    program_level(ctx)
    if not ctx.quick():
        binary_run(ctx)
    ctx.extra["correspondence_disagreements"] = len(dis)
    ctx.assumptions += ["exact-arithmetic model; float accumulation over hundreds of steps handled by a relative tolerance (2e-4 of the moment scale)",
                        "the link 'RF kick and drift transport second moments as the recurrence says' is checked on the implementation only (no theorem yet)",
                        "4-point stencil with damping: compared with the 3-point recurrence within 4 % (switch-row defect, C01.5)"]
    narrow_ok = all(k in ctx.extra.get("worst_relative_moment_error", {}) for k in ("e0", "e8"))
    lim = ctx.extra.get("limit_spread_over_starts") or []
    coq = fc.fploop_downgrade(ctx, coq, dis, narrow_ok and len(lim) >= 4,
                              "fp3-iter grids, cache-independence probe, narrow-start evolutions wired as main(), relaxation runs from zoom 0.2 ... 1.5")
    conclude(ctx, coq, dis)


def replay(ctx, rp):
    c = rp.get("case") or {}
    if c.get("kind") == "program-moments":
        import scaling_cases as sc, tempfile, shutil
        tg = ctx.build(harness=("impl_fp", "h5cat"), want_binary=True)
        work = tempfile.mkdtemp(prefix="pmom-")
        try:
            sc.run_moments_case(ctx, tg, work, c, dict(kind="program"))
        finally:
            shutil.rmtree(work, ignore_errors=True)
        ctx.case_done(("program-moments", "replay"), True)
        ctx.rule = "replay of one recorded program-level case"
        return
    if c.get("kind") == "program-limits":
        import c04_limits, tempfile, shutil
        tg = ctx.build(harness=("impl_fp", "h5cat"), want_binary=True)
        work = tempfile.mkdtemp(prefix="plim-")
        try:
            c04_limits.run_group(ctx, tg, work, {k: v for k, v in c.items() if k not in ("failing_zoom", "command")}, dict(kind="program"))
        finally:
            shutil.rmtree(work, ignore_errors=True)
        ctx.case_done(("program-limits", "replay"), True)
        ctx.rule = "replay of one recorded group of relaxation runs (same configuration, several starts)"
        return
    run(ctx)
