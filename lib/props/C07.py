"""C07 - CSR power equals the energy the wake takes from the beam (Parseval); never negative."""
import math
from fractions import Fraction
from vp_common import *
import vp_coq, dft_cases as dc

U = dc.U


def spec_tolerances(c, ir, g, m0):
    """per-cell tolerance of dq^2 [g_i] Re Z_i |F_i|^2: the transform's error is absolute in F
    (delta = K*2^-24*sum|p|), so |F|^2 moves by 2|F| delta + delta^2; plus the product roundings; plus
    2^-21 absolute on g_i (1 - exp(-x^2) evaluated in floating point, cancelling for small x)"""
    N, h = c.N, c.N // 2
    K = dc.Kfft(N)
    d0 = ir["phys"][0]
    dq2 = d0 * d0
    st = c.spectrum_true()
    delta = float(K * U) * sum(abs(v) for v in c.prof[0]) * math.sqrt(2.0)
    tol = []
    for i in range(N):
        if i > h:
            tol.append(Fraction(0))
            continue
        gi = float(g[i]) if g is not None else 1.0
        f = math.sqrt(st[i])
        t = float(dq2) * gi * abs(c.zre[i]) * (2 * f * delta + delta * delta) * 1.01
        t += 8 * float(U) * float(dq2) * gi * abs(c.zre[i]) * st[i]
        if g is not None:
            t += 2.0 ** -21 * abs(float(m0[i]))
        tol.append(Fraction(t) + Fraction(1, 2 ** 140))
    return tol


def compare_csr(c, ir, mr, g, m0):
    dis = []
    N = c.N
    if dc.nonfinite(ir["spectrum"]) or dc.nonfinite(ir["power"]):
        return [("nonfinite", dict(which="spectrum/power"))], None
    tol = spec_tolerances(c, ir, g, m0)
    df = ir["df"][0]
    for i in range(N):
        if abs(ir["spectrum"][i] - mr["spectrum"][i]) > tol[i]:
            dis.append(("spectrum", dict(cell=i, impl=float(ir["spectrum"][i]), model=float(mr["spectrum"][i]), tol=float(tol[i]))))
            break
    tolp = abs(df) * sum(tol) + (N + 8) * U * sum(abs(df * v) for v in mr["spectrum"])
    if abs(ir["power"][0] - mr["power"][0]) > tolp:
        dis.append(("power", dict(impl=float(ir["power"][0]), model=float(mr["power"][0]), tol=float(tolp))))
    # renorm = delta_q^2 (one float rounding)
    d0 = ir["phys"][0]
    if abs(ir["renorm"][0] - d0 * d0) > U * d0 * d0:
        dis.append(("renorm", dict(impl=float(ir["renorm"][0]), model=float(d0 * d0))))
    return dis, tolp


def oracle_csr(ctx, c0, c1, r0, r1):
    """property statement on the implementation: Parseval (cutoff off), signs, cutoff smaller"""
    N, h = c0.N, c0.N // 2
    K = dc.Kfft(N)
    for r in (r0, r1):
        for tag in ("spectrum", "power", "wakepad"):
            if dc.nonfinite(r[tag]):
                ctx.violation("impl-oracle", "non-finite " + tag, case=c0.replay("csr"), sig=dict(kind="csr", clause="finite"))
                return
    d0, df = r0["phys"][0], r0["df"][0]
    dq2 = d0 * d0
    st = c0.spectrum_true()
    # Parseval residual
    loss = sum(p * w for p, w in zip(r0["padded"], r0["wakepad"])) / 2
    lhs = r0["power"][0] / (df * dq2) - loss
    rhs = 0.5 * c0.zre[0] * st[0] + c0.zre[h] * st[h]
    tol_spec = spec_tolerances(c0, r0, None, None)
    tolP = (sum(tol_spec) + (N + 8) * U * sum(abs(v) for v in r0["spectrum"])) / dq2
    tolW = sum(abs(p) for p in r0["padded"]) * K * U * c0.cond() / 2
    tol = tolP + tolW + Fraction(abs(rhs)) * 8 * U
    where = (" [wake asked from the SAME ElectricField right after updateCSR()%s]" % (", %d earlier wakePotential() calls before" % len(c0.warm) if getattr(c0, "warm", None) else "")
             if getattr(c0, "same", False) else "")
    if abs(float(lhs) - rhs) > float(tol):
        ctx.violation("impl-oracle", "CSR power and wake loss differ by more than the zero-frequency and top-cell terms (Parseval)" + where,
                      case=c0.replay("csr"), observed=dict(power_over_df_dq2=float(r0["power"][0] / (df * dq2)), half_sum_rho_W=float(loss),
                                                           residual=float(lhs)),
                      expected=dict(exempt_terms=rhs, tol=float(tol)), sig=dict(kind="csr", clause="parseval"))
    c0.parseval_ratio = abs(float(lhs) - rhs) / float(tol)
    # the same with the wake loss taken as the property words it: one half of the sum OVER THE BUNCH of profile times the
    # unscaled wake potential wakePotential() RETURNS for it (read back at bucket*spacing, divided by getWakeScaling()).
    # (C07_generated_parseval_readback; the padded-buffer form above is blind to where the bunch was put and read.)
    if "wake" in r0 and not dc.nonfinite(r0["wake"]) and not dc.nonfinite(r0["wscale"]):
        n, sc = c0.n, r0["wscale"][0]
        terms = [Fraction(c0.prof[0][x]) * r0["wake"][x] / sc for x in range(n)] if sc != 0 else None
        if terms is None:
            ctx.violation("impl-oracle", "getWakeScaling() is zero", case=c0.replay("csr"), sig=dict(kind="csr", clause="finite"))
        else:
            loss_rb = sum(terms) / 2
            lhs_rb = r0["power"][0] / (df * dq2) - loss_rb
            tol_rb = tol + 4 * U * sum(abs(t) for t in terms)
            if abs(float(lhs_rb) - rhs) > float(tol_rb):
                ctx.violation("impl-oracle", "CSR power and one half of the sum over the bunch of profile times wakePotential()/getWakeScaling() differ by more "
                              "than the zero-frequency and top-cell terms (Parseval on the RETURNED wake; bunch in bucket %d, spacing %d cells%s)"
                              % (c0.buckets[0], c0.s, "; the sum over the padded buffers agrees: the wake is read back somewhere else than the bunch was placed"
                                 if abs(float(lhs) - rhs) <= float(tol) else "") + where,
                              case=c0.replay("csr"), observed=dict(power_over_df_dq2=float(r0["power"][0] / (df * dq2)), half_sum_profile_times_returned_wake=float(loss_rb),
                                                                   half_sum_over_padded_buffers=float(loss), residual=float(lhs_rb)),
                              expected=dict(exempt_terms=rhs, tol=float(tol_rb)),
                              sig=dict(kind="csr", clause="parseval-readback", bucket_zero=c0.buckets[0] * c0.s == 0))
            c0.parseval_rb_ratio = abs(float(lhs_rb) - rhs) / float(tol_rb)
            if c0.passive and loss_rb < -(tolW + 4 * U * sum(abs(t) for t in terms)):
                ctx.violation("impl-oracle", "wake loss 1/2 sum profile*wakePotential()/getWakeScaling() negative for a passive impedance", case=c0.replay("csr"),
                              observed=float(loss_rb), expected=dict(tol=float(tolW)), sig=dict(kind="csr", clause="loss-sign-readback"))
    # the property's scale of the check: how large the compared quantities are relative to the tolerance
    c0.parseval_scale = abs(float(loss)) / float(tol) if tol else 0.0
    # signs
    if c0.passive:
        for r, c in ((r0, c0), (r1, c1)):
            neg = [i for i, v in enumerate(r["spectrum"]) if v < 0]
            if neg:
                ctx.violation("impl-oracle", "CSR spectrum negative for a passive impedance", case=c.replay("csr"),
                              observed=dict(cell=neg[0], value=float(r["spectrum"][neg[0]])), sig=dict(kind="csr", clause="spectrum-sign"))
            if r["power"][0] < 0:
                ctx.violation("impl-oracle", "CSR power negative for a passive impedance", case=c.replay("csr"),
                              observed=float(r["power"][0]), sig=dict(kind="csr", clause="power-sign"))
        if loss < -tolW:
            ctx.violation("impl-oracle", "wake loss 1/2 sum rho*W negative for a passive impedance", case=c0.replay("csr"),
                          observed=float(loss), expected=dict(tol=float(tolW)), sig=dict(kind="csr", clause="loss-sign"))
        if not (0 <= r1["power"][0] <= r0["power"][0]):
            ctx.violation("impl-oracle", "with a cutoff the CSR power is not smaller", case=c1.replay("csr"),
                          observed=dict(cut=float(r1["power"][0]), nocut=float(r0["power"][0])), sig=dict(kind="csr", clause="cutoff"))
    bad = [i for i in range(N) if abs(r1["spectrum"][i]) > abs(r0["spectrum"][i])]
    if bad:
        ctx.violation("impl-oracle", "with a cutoff a spectrum entry grew", case=c1.replay("csr"),
                      observed=dict(cell=bad[0], cut=float(r1["spectrum"][bad[0]]), nocut=float(r0["spectrum"][bad[0]])),
                      sig=dict(kind="csr", clause="cutoff"))
    # the upper half of the spectrum must be empty (r2c leaves it zero)
    up = [i for i in range(h + 1, N) if r0["spectrum"][i] != 0]
    if up:
        ctx.violation("impl-oracle", "CSR spectrum non-zero above N/2 in a fresh object", case=c0.replay("csr"),
                      observed=dict(cell=up[0], value=float(r0["spectrum"][up[0]])), sig=dict(kind="csr", clause="upper-half"))
    ctx.case_done(("csr", c0.cid), any(v != 0 for v in c0.prof[0]))


def run_pairs(ctx, pairs, nmodel):
    """-> (disagreements, ratios)"""
    r0 = dc.run_impl(ctx, "".join(c0.impl_text("csr") for c0, _ in pairs), [c0 for c0, _ in pairs], "csr")
    for c0, c1 in pairs:
        fr = r0[c0.cid]
        fmax = float(fr["df"][1]) * float(fr["freq"][-1])
        c1.cutoff = f32(fmax * c1.cut_frac)
    r1 = dc.run_impl(ctx, "".join(c1.impl_text("csr") for _, c1 in pairs))
    # third stream: a NEGATIVE cutoff frequency.  The code applies the cutoff factor iff cutoff_frequency > 0
    # (ElectricField::updateCSR), i.e. zero and negative values mean "disabled"; the model takes g = None for them.
    import copy
    negs = []
    for c0, c1 in pairs:
        c2 = copy.copy(c0)
        c2.cid = c0.cid + "n"
        c2.cutoff = -abs(c1.cutoff) if c1.cutoff else -1.0
        negs.append(c2)
    r2 = dc.run_impl(ctx, "".join(c2.impl_text("csr") for c2 in negs))
    ctx.log("implementation ran %d csr cases" % (3 * len(pairs)))
    mp = pairs[:nmodel]
    texts, gs = [], {}
    for c0, c1 in mp:
        g = dc.cutoff_factors(r1[c1.cid], c1.cutoff)
        gs[c1.cid] = g
        texts.append(c0.model_csr_text(r0[c0.cid], None))
        texts.append(c1.model_csr_text(r1[c1.cid], g))
    mr = dc.run_model(ctx, texts)
    ctx.log("model ran %d csr cases" % len(texts))
    dis = []
    for c0, c1 in mp:
        for c, r, g in ((c0, r0[c0.cid], None), (c1, r1[c1.cid], gs[c1.cid])):
            d, _ = compare_csr(c, r, mr[c.cid], g, mr[c0.cid]["spectrum"])
            if d:
                dis.append(dict(case=c.replay("csr"), detail=[dict(what=w, **x) for w, x in d[:3]],
                                sig=dict(kind="csr", stage="correspondence", what=d[0][0])))
            ctx.evaluations += 1
    for c0, c1 in pairs:
        oracle_csr(ctx, c0, c1, r0[c0.cid], r1[c1.cid])
    for (c0, c1), c2 in zip(pairs, negs):
        a, b = r0[c0.cid], r2[c2.cid]
        if a["spectrum"] != b["spectrum"] or a["power"] != b["power"]:
            dis.append(dict(case=c2.replay("csr"), detail=[dict(what="a negative cutoff frequency changes the spectrum (the model applies the cutoff factor iff f_c > 0)",
                                                               power_neg=float(b["power"][0]), power_off=float(a["power"][0]))],
                            sig=dict(kind="csr", stage="correspondence", what="negative-cutoff")))
            # search: the property's Parseval clause with the cutoff disabled, evaluated on the negative-cutoff result
            oracle_csr(ctx, c2, c1, b, r1[c1.cid])
        ctx.case_done(("csr-neg", c2.cid), any(v != 0 for v in c0.prof[0]))
    return dis


def _bunch_result(r, b, N):
    """the part of a csrmb record that belongs to bunch b, shaped like a single-bunch csr record"""
    d = dict(phys=r["phys"], df=r["df"], freq=r["freq"], renorm=r["renorm"],
             spectrum=r["spectrum"][b * N:(b + 1) * N], power=[r["power"][b]],
             wakepad=r["wakepad%d" % b], padded=r["padded%d" % b])
    if "wake%d" % b in r:
        d["wake"], d["wscale"] = r["wake%d" % b], r["wscale%d" % b]
    return d


def run_multibunch(ctx, pairs, nmodel):
    """updateCSR on one object with several bunches after a history of other calls (second wave).
    Oracles on the implementation, for EVERY bunch index: row b and power b bit-identical to those of a fresh
    single-bunch object given bunch b alone; power b = delta_f * sum of its own row; Parseval, signs and
    "cutoff makes it smaller" per bunch.  Correspondence: row b / power b against the extracted model of
    bunch b alone (what C07_multibunch_spectrum_row / _power state)."""
    import copy
    r0 = dc.run_impl(ctx, "".join(c0.impl_text("csrmb") for c0, _ in pairs), [c0 for c0, _ in pairs], "csrmb")
    for c0, c1 in pairs:
        fr = r0[c0.cid]
        fmax = float(fr["df"][1]) * float(fr["freq"][-1])
        c1.cutoff = f32(fmax * c1.cut_frac)
    r1 = dc.run_impl(ctx, "".join(c1.impl_text("csrmb") for _, c1 in pairs))
    ctx.log("implementation ran %d multi-bunch csr cases" % (2 * len(pairs)))
    dis = []
    texts, todo = [], []
    for k, (c0, c1) in enumerate(pairs):
        N = c0.N
        for c, r in ((c0, r0[c0.cid]), (c1, r1[c1.cid])):
            if dc.nonfinite(r["spectrum"]) or dc.nonfinite(r["power"]):
                ctx.violation("impl-oracle", "non-finite CSR spectrum/power (several bunches)", case=c.replay("csrmb"),
                              sig=dict(kind="csrmb", clause="finite"))
                continue
            df = r["df"][0]
            for b in range(c.nb):
                row = r["spectrum"][b * N:(b + 1) * N]
                # each bunch's spectrum and power use only its own profile: bit-identical to the bunch alone
                srow, spow = r["single_spectrum%d" % b], r["single_power%d" % b][0]
                if row != srow:
                    j = next(t for t in range(N) if row[t] != srow[t])
                    ctx.violation("impl-oracle", "row %d of the CSR spectrum of an object with %d bunches differs from the spectrum of that bunch alone "
                                  "(fresh single-bunch object, same transform length and impedance)" % (b, c.nb), case=c.replay("csrmb"),
                                  observed=dict(bunch=b, cell=j, got=str(row[j]), alone=str(srow[j])), expected="bit-identical",
                                  sig=dict(kind="csrmb", clause="bunch-alone-spectrum", first_bunch=b == 0))
                elif r["power"][b] != spow:
                    ctx.violation("impl-oracle", "CSR power of bunch %d of an object with %d bunches differs from the power of that bunch alone although "
                                  "the spectrum rows agree" % (b, c.nb), case=c.replay("csrmb"),
                                  observed=dict(bunch=b, got=str(r["power"][b]), alone=str(spow)), expected="bit-identical",
                                  sig=dict(kind="csrmb", clause="bunch-alone-power", first_bunch=b == 0))
                # power b = delta_f * sum of its OWN row (nothing carried over from the bunches before)
                terms = [df * v for v in row]
                own = sum(terms)
                tol = (N + 8) * U * sum(abs(t) for t in terms) + Fraction(1, 2 ** 140)
                if abs(r["power"][b] - own) > tol:
                    ctx.violation("impl-oracle", "CSR power of bunch %d is not delta_f times the sum of its own spectrum row" % b,
                                  case=c.replay("csrmb"), observed=dict(bunch=b, power=float(r["power"][b]), delta_f_times_row_sum=float(own)),
                                  expected=dict(tol=float(tol)), sig=dict(kind="csrmb", clause="own-row-sum", first_bunch=b == 0))
                ctx.evaluations += 1
        # Parseval, signs, cutoff per bunch through the single-bunch oracle
        for b in range(c0.nb):
            b0, b1 = c0.bunch_case(b), c1.bunch_case(b)
            b0.replay = (lambda kind="csr", c=c0, b=b: dict(c.replay("csrmb"), bunch=b))
            b1.replay = (lambda kind="csr", c=c1, b=b: dict(c.replay("csrmb"), bunch=b))
            if any(dc.nonfinite(r0[c0.cid][t]) for t in ("spectrum", "power")) or any(dc.nonfinite(r1[c1.cid][t]) for t in ("spectrum", "power")):
                continue
            oracle_csr(ctx, b0, b1, _bunch_result(r0[c0.cid], b, N), _bunch_result(r1[c1.cid], b, N))
            c0.parseval_ratio = max(getattr(c0, "parseval_ratio", 0.0), getattr(b0, "parseval_ratio", 0.0))
            if k < nmodel:
                g = dc.cutoff_factors(r1[c1.cid], c1.cutoff)
                texts.append(b0.model_csr_text(r0[c0.cid], None))
                texts.append(b1.model_csr_text(r1[c1.cid], g))
                todo.append((b0, b1, _bunch_result(r0[c0.cid], b, N), _bunch_result(r1[c1.cid], b, N), g))
        ctx.case_done(("csrmb", c0.cid), c0.nb > 1 and sum(1 for pr in c0.prof if any(v != 0 for v in pr)) > 1)
    if texts:
        mr = dc.run_model(ctx, texts)
        ctx.log("model ran %d per-bunch csr cases" % len(texts))
        for b0, b1, rb0, rb1, g in todo:
            for c, r, gg in ((b0, rb0, None), (b1, rb1, g)):
                d, _ = compare_csr(c, r, mr[c.cid], gg, mr[b0.cid]["spectrum"])
                if d:
                    dis.append(dict(case=c.replay("csr"), detail=[dict(what=w, **x) for w, x in d[:3]],
                                    sig=dict(kind="csrmb", stage="correspondence", what=d[0][0])))
                ctx.evaluations += 1
    return dis


def run(ctx):
    ctx.rule = ("second wave: 120 (thorough 2000) pairs of csrmb cases - updateCSR on ONE object with nb = 1..3 bunches, spacing zero (the program's "
                "radiation field) and non-zero, buckets in any order, after 0..3 earlier wakePotential/padBunchProfiles/updateCSR calls with other profiles; "
                "for EVERY bunch: spectrum row and power bit-identical to a fresh single-bunch object given that bunch alone, power = delta_f * sum of its "
                "own row, Parseval/signs/cutoff per bunch, and (6 pairs, thorough 50) the extracted model of that bunch alone. First wave: "
                "csr cases on ElectricField through its public API, ONE bunch per object and a fresh object per call: N from the C06 list, n 8..32, bucket 0..2, "
                "impedances passive-random / smooth passive / random sign, profiles random/gauss/impulse/signed/integer; each case "
                "once with the cutoff off and once with a cutoff frequency inside the axis. Correspondence: getCSRSpectrum and "
                "getCSRPower against the extracted model (tolerance from the transform's absolute error in F). Oracles on the "
                "implementation: Parseval residual against the exempt terms, signs for passive impedances, cutoff makes it smaller, "
                "upper half empty. Non-trivial: non-zero profile.")
    coq = vp_coq.full_check("C07", ctx, fams=("dft",))
    sizes = dc.QUICK_SIZES if ctx.quick() else dc.THOROUGH_SIZES
    pairs = dc.gen_csr_cases(ctx, 150 if ctx.quick() else 3000, sizes)
    dis = run_pairs(ctx, pairs, 20 if ctx.quick() else 300)
    mpairs = dc.gen_csrmb_cases(ctx, 120 if ctx.quick() else 2000, sizes)
    dis += run_multibunch(ctx, mpairs, 6 if ctx.quick() else 50)
    ctx.sample(mpairs[0][0].describe())
    ctx.sample(pairs[0][0].describe())
    ctx.sample(pairs[0][1].describe())
    ctx.extra["correspondence_disagreements"] = len(dis)
    ctx.extra["max_parseval_residual_over_tolerance"] = max(getattr(c0, "parseval_ratio", 0.0) for c0, _ in pairs)
    ctx.extra["max_parseval_residual_over_tolerance_returned_wake"] = max(getattr(c0, "parseval_rb_ratio", 0.0) for c0, _ in pairs)
    ctx.extra["median_wake_loss_over_tolerance"] = sorted(getattr(c0, "parseval_scale", 0.0) for c0, _ in pairs)[len(pairs) // 2]
    ctx.assumptions += ["per-bunch Parseval compares the power of bunch b with the wake loss of bunch b ALONE (fresh single-bunch object of the same "
                        "transform length and impedance): the wake of a multi-bunch train mixes the bunches and is not what the property relates the power to",
                        "exact-arithmetic model over Qc with a 60-bit dyadic twiddle table; the cutoff factors g_i are supplied to the "
                        "model as double-precision values of 1-exp(-(f_i/f_c)^2) on the implementation's frequency axis (exp is not executable over Qc)",
                        "delta_f is read from getFreqRuler()->delta(): its value (1/(delta_q (N-1))) is not part of this property",
                        "FFTW's planner and kernels are not modelled"]
    conclude(ctx, coq, dis)


def replay(ctx, rp):
    """a recorded csr / csrmb case is run again by itself (with its cutoff-off / cutoff-on partner); anything else: the whole check"""
    c = rp.get("case") or {}
    if c.get("kind") not in ("csr", "csrmb"):
        return run(ctx)
    import copy
    fx = lambda l: [float.fromhex(v) for v in l]
    cut = float.fromhex(c["cutoff"])
    mk = lambda cid, cutoff: dc.DftCase(cid, c["N"], c["n"], c["spacing"], c["buckets"], fx(c["zre"]), fx(c["zim"]),
                                        [fx(p) for p in c["prof"]], {k: float.fromhex(v) for k, v in c["axes"].items()},
                                        {k: float.fromhex(v) for k, v in c["phys"].items()}, note=c.get("note", ""), cutoff=cutoff)
    cid = c["id"].rstrip("abn")
    c0, c1 = mk(cid + "a", 0.0 if cut > 0 or cut == -1.0 else cut), mk(cid + "b", cut if cut > 0 else -1.0)
    c1.cut_frac = 0.5
    note = c.get("note", "")
    c0.passive = c1.passive = note.startswith("passive") or note.startswith("smooth")
    if c.get("warm"):
        c0.warm = c1.warm = [[fx(p) for p in profs] for profs in c["warm"]]
    c0.same = c1.same = bool(c.get("same_object", False))
    coq = vp_coq.full_check("C07", ctx, fams=("dft",))
    if c["kind"] == "csrmb":
        c0.pre = c1.pre = [(o["op"], [fx(p) for p in o["prof"]]) for o in c.get("pre", [])]
        if cut > 0:
            # keep the recorded cutoff: run_multibunch derives it from cut_frac of the frequency axis
            r0 = dc.run_impl(ctx, c0.impl_text("csrmb"))[c0.cid]
            fmax = float(r0["df"][1]) * float(r0["freq"][-1])
            c1.cut_frac = cut / fmax
        dis = run_multibunch(ctx, [(c0, c1)], 1)
    else:
        if cut > 0:
            r0 = dc.run_impl(ctx, c0.impl_text("csr"))[c0.cid]
            fmax = float(r0["df"][1]) * float(r0["freq"][-1])
            c1.cut_frac = cut / fmax
        dis = run_pairs(ctx, [(c0, c1)], 1)
    ctx.rule = "replay of one recorded %s case (cutoff off and on)" % c["kind"]
    ctx.sample(c0.describe())
    conclude(ctx, coq, dis)
