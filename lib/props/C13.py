"""C13 - the saved .cfg reproduces the run (save -> parse --config saved -> every getter as before)."""
from vp_common import *
import vp_coq, options_cases as oc, subprocess, tempfile, shutil


def gen(ctx, n):
    kinds = ["legal", "alias", "legal", "short", "alias", "legal", "override"]
    cs = [oc.gen_override(ctx, "r%d" % i) if kinds[i % len(kinds)] == "override" else oc.gen_case(ctx, "r%d" % i, kinds[i % len(kinds)])
          for i in range(n)]
    # boundary cases of the round-trip proof: f_s zero / non-zero with alpha0, vectors, aliases, long mantissas
    extra = [(["--alpha0", "1.2345678e-3"], None), (["-f", "8123.4567", "--alpha0", "5e-3"], None),
             (["-I", "1e-3", "0", "1.2345678e-4"], None), (["-I", "0.5"], [("BunchCurrent", ["1", "2"])]),
             (["-E", "1.23456789e9", "-e", "0.12345678901234567"], None),
             ([], [("RFVoltage", ["5e5"]), ("steps", ["256"]), ("SyncFreq", ["7123.456"])]),
             (["-V", "2e6"], [("RFVoltage", ["5e5"]), ("alpha0", ["0"])]),
             (["-o", "/dev/null", "-i", "/dev/null", "--tracking", "t.txt"], None)]
    cli_of = oc.cli_of
    # the saved file re-read with extra command-line options: an option the original gave, one it took from a legacy line of
    # the parent file, the vector option, alpha0 against a saved alpha0=0, a synchrotron frequency on top of a saved alpha0
    extra_x = [(["-V", "2e6", "-I", "1e-3", "2e-3"], None, ["-V", "3.3e6"]),
               ([], [("RFVoltage", ["5e5"]), ("steps", ["256"])], ["-N", "128"]),
               (["-I", "1e-3", "2e-3"], None, ["-I", "0.5", "0.25", "0.125"]),
               (["-f", "8123.4567", "--alpha0", "5e-3"], None, ["--alpha0", "4e-3"]),
               (["--alpha0", "1.2345678e-3"], None, ["-f", "7000.5"]),
               (["-o", "a.h5"], [("GridSize", ["64"])], ["-o", "/dev/null", "--GridSize", "32"])]
    for k, e in enumerate([x + (None,) for x in extra] + extra_x):
        av, items, xav = e
        c = oc.OptCase("rb%d" % k)
        c.cli = cli_of(av)
        if xav:
            c.xcli = cli_of(xav)
            c.tags.add("reload-override")
        if items is not None:
            c.cfg = dict(file="run.cfg", state="file", items=items)
            c.cli.append(dict(kind="L", name="config", toks=["run.cfg"], opt="config"))
            if any(n in ("RFVoltage", "steps", "SyncFreq") for n, _ in items):
                c.tags.add("alias")
        cs.append(c)
    # legacy names are file-only: on the command line they must be refused (status fail: nothing to round-trip); were one
    # accepted there, the value would be lost on save (the skip list) - the round trip is judged if the case runs
    inf = oc.info()
    for k, o in enumerate(sorted((o for o in inf["table"].values() if o["kind"] == "KAlias"), key=lambda o: o["name"])):
        c = oc.OptCase("rl%d" % k)
        c.cli.append(dict(kind="L", name=o["name"], toks=[oc.LEGAL[o["ty"]][-2]], opt=None))
        c.tags.add("legacy-name-on-cli")
        cs.append(c)
    # string options whose values have blanks, tabs, quotes, '=', '#', white space at the ends (command line and parent file)
    for k in range(max(12, n // 8)):
        cs.append(oc.gen_stringy(ctx, "rs%d" % k))
    for k, (opt, v) in enumerate([("output", "scan 01/run.h5"), ("InitialDistFile", "start dist/a b.h5"), ("Impedance", 'Z "measured".dat'),
                                  ("tracking", "x\ty.txt"), ("output", "run#3.h5"), ("output", " lead.h5"), ("tracking", "trail.txt\t")]):
        c = oc.OptCase("rt%d" % k)
        c.cli = [dict(kind="L", name=opt, toks=[v], opt=opt)]
        c.tags.update(["stringy", "string-kept" if oc.representable(v) else "string-lost"])
        cs.append(c)
    for c in cs:
        for t in c.tags:
            ctx.count(t)
    return cs


def string_text_tie(ctx, cs, res, dis):
    """Ties the TEXT of configuration files to the extracted text model (Model/CfgText.v, family cfgtext):
    (1) every parent file written with decorations (white space, comments): what boost's reader makes of the text, as
        modelled, must be the items the option model was given;
    (2) every string member after the original parse, with the name of its option: `reread` = what `--config saved` reads
        back for the line save() writes (generated chain); the implementation's getter after the reload must be that
        value (the token model cannot express a value that changes on the way: for those the expected value of compare()
        is taken from here); the Python mirror of cfg_representable must agree with the extracted one.
    -> {case id: {member: expected value after the reload}} for members whose value a line cannot hold"""
    inf = oc.info()
    sopts = [(o["name"], o["var"]) for o in oc.string_opts()]
    devnull = set(v for k, v in inf["prog"]["tail"] if k == "devnull")
    q, want = [], {}
    for c in cs:
        r = res[c.cid]
        if hasattr(c, "raw_argv") or r["impl"] is None:
            continue
        if c.cfg is not None and c.cfg["state"] == "file" and c.cfg.get("decor"):
            q.append(("file", "f_" + c.cid, oc.cfg_text(c.cfg["items"], c.cfg["decor"])))
        if oc.status(r["impl"]) != "run":
            continue
        a = oc.impl_vars(r["impl"])
        for name, var in sopts:
            v = a.get(oc.GETTER.get(name, var))
            if isinstance(v, str) and v != "":
                want.setdefault((name, v), []).append((c, var))
    keys = sorted(want)
    for k, (name, v) in enumerate(keys):
        q.append(("reread", "s%d" % k, name, v))
    tm = oc.text_model(q)
    expect = {}
    for c in cs:
        t = tm.get("f_" + c.cid)
        if t is not None:
            flat = [(n, x) for n, ts in c.cfg["items"] for x in ts]
            if t["items"] != flat:
                dis.append(dict(case=c.replay(), detail=dict(what="parent file text as the text model reads it differs from the items given to the option model",
                                                             text_model=t["items"], items=flat), sig=dict(kind="options", stage="correspondence", what="file-text")))
    for k, (name, v) in enumerate(keys):
        t = tm["s%d" % k]
        if t["repr"] != oc.representable(v):
            dis.append(dict(case=dict(kind="string", name=name, value=v), detail="cfg_representable: extracted %s, Python mirror %s" % (t["repr"], oc.representable(v)),
                            sig=dict(kind="options", stage="correspondence", what="representable-mirror")))
        back = t["back"]
        for c, var in want[(name, v)]:
            r = res[c.cid]
            if oc.status(r["impl"], "r") != "run":
                continue            # judged by the oracle (the saved configuration must be accepted)
            got = oc.impl_vars(r["impl"], "r").get(oc.GETTER.get(name, var))
            pred = dict(back).get(name) if back is not None and len(back) == 1 else None
            if pred is not None and var in devnull and pred == "/dev/null":
                pred = ""
            if pred is None or got != pred:
                dis.append(dict(case=c.replay(), detail=dict(what="string option after the reload: implementation vs text model (reread of the generated save() chain)",
                                                             option=name, original=v, saved_line=t["written"], text_model=back, impl=got),
                                sig=dict(kind="options", stage="correspondence", what="string-reread")))
            elif pred != v:
                expect.setdefault(c.cid, {})[var] = pred
            ctx.count("string-reread:%s" % ("kept" if pred == v else "changed"))
    ctx.extra["string_values_reread"] = len(keys)
    return expect


def program_level(ctx, tg):
    """main.cpp: <output>.cfg is written before the run; re-reading it gives the getters of the original invocation"""
    wd = tempfile.mkdtemp(prefix="vc13", dir=os.path.join(VERIF, ".cache"))
    try:
        av = ["-o", "res 01.h5", "-s", "32", "-T", "0.02", "-N", "100", "-n", "1", "--padding", "2", "-I", "1.2345678e-3",
              "-E", "1.23456789e9", "--VacuumGap", "0", "--config", "/dev/null"]
        r = subprocess.run(["timeout", "120", tg["inovesa"]] + av, cwd=wd, capture_output=True, text=True, env=vp_build.xdg_env())
        cfgp = os.path.join(wd, "res 01.h5.cfg")
        ok = r.returncode == 0 and os.path.exists(cfgp)
        before = ok and r.stdout.find("Saved configuiration") >= 0 and \
            r.stdout.find("Saved configuiration") < (r.stdout.find("Starting the simulation") if "Starting the simulation" in r.stdout else 10 ** 9)
        if not ok or not before:
            ctx.violation("impl-oracle", "binary: <output>.cfg is not written next to the results before the run",
                          case=dict(kind="binary", argv=av), observed=dict(rc=r.returncode, out=r.stdout[-300:], err=r.stderr[-200:]),
                          expected="res 01.h5.cfg", sig=dict(kind="binary", clause="saved-name"))
            return
        a = oc.OptCase("pa")
        a.raw_argv = ["inovesa"] + av
        b = oc.OptCase("pb")
        b.raw_argv = ["inovesa", "--config", "saved_by_binary.cfg"]
        b.cfg = dict(file="saved_by_binary.cfg", state="file", items=[])
        res = None
        # the harness writes config files from items; here the file is the binary's own: copy it in by hand
        text = open(cfgp, newline="").read()
        b.cfg["raw_text"] = text                 # the binary's file, byte for byte
        res = oc.run_cases(ctx, [a, b], tg)
        if oc.status(res["pb"]["impl"]) != "run":
            msg = res["pb"]["impl"].get("message")
            ctx.violation("impl-oracle", "binary: the saved .cfg is not accepted by --config (%s)" % (oc.unesc(msg[0][0])[:120] if msg and msg[0] else oc.status(res["pb"]["impl"])),
                          case=dict(kind="binary", argv=av, saved=text), observed=oc.status(res["pb"]["impl"]), expected="run",
                          sig=dict(kind="binary", clause="reload-status"))
            return
        va, vb = oc.impl_vars(res["pa"]["impl"]), oc.impl_vars(res["pb"]["impl"])
        for k, v in va.items():
            if k in ("_configfile", "_forcerun") or k in oc.NO_GETTER:
                continue
            if k == "alpha0" and va.get("f_s") != 0:
                continue
            if not oc.same(v, vb.get(k)):
                ctx.violation("impl-oracle", "binary: %s read back from the saved .cfg differs from the original invocation" % k,
                              case=dict(kind="binary", argv=av, saved=text), observed={k: vb.get(k)}, expected={k: v},
                              sig=dict(kind="binary", clause="roundtrip", var=k))
        ctx.case_done(("bin",), True)
        ctx.count("binary")
    finally:
        shutil.rmtree(wd, ignore_errors=True)


FILE_VARS = {"_impedancefile": "Impedance", "_startdistfile": "InitialDistFile", "_trackingfile": "tracking", "_outfile": "output"}


def named_file(cwd, v):
    """the file a file-valued option names for a process started in `cwd` ('' and /dev/null stay what they are)"""
    if not isinstance(v, str) or v == "":
        return v
    return os.path.normpath(os.path.join(cwd, v))


def program_layouts(ctx, tg):
    """strengthening st3weak (seed C13-J): directory structure at program level.  main() writes <output>.cfg NEXT TO THE OUTPUT;
    the names of the input files in it are the ones the original invocation used (relative to the working directory, from the
    command line or from a parent configuration file).  Layouts: output in a sub-directory (also one with a blank in its name,
    two levels deep), input files in other sub-directories, in the working directory with a './' prefix, above the working
    directory ('../'), and a control with everything in one directory.  The real binary runs in the layout's working directory;
    its own <output>.cfg is read back through the harness FROM WHERE IT LIES (`--config results/a.h5.cfg`, same working
    directory) and every getter is compared with the original invocation's; file-valued options are compared as the FILE they
    name (normalised path from the working directory), so a consistent re-basing convention would pass and a one-sided one does not."""
    imp_text = "".join("%d %r %r\n" % (i, 1.0 + 0.01 * i, -0.5 + 0.002 * i) for i in range(600))
    trk_text = "0.5 0.25\n-1.0 0.5\n"
    base = ["-s", "32", "-T", "0.02", "-N", "100", "-n", "1", "--padding", "2", "-I", "1.2345678e-3", "--VacuumGap", "0"]
    layouts = [
        dict(name="output in results/, inputs in machine/ (command line)", cwd=".", out="results/a.h5",
             files={"machine/geometric.dat": imp_text, "machine/track.txt": trk_text},
             argv=["-Z", "machine/geometric.dat", "--tracking", "machine/track.txt"]),
        dict(name="output two levels down (blank in the name), inputs named in a parent config file in the working directory", cwd=".", out="out/run 1/b.h5",
             files={"machine/geometric.dat": imp_text, "machine/track.txt": trk_text},
             parent=("ring.cfg", "Impedance=machine/geometric.dat\ntracking=machine/track.txt\nHarmonicNumber=100\n"), argv=["--config", "ring.cfg"]),
        dict(name="output in results/, impedance ./imp.dat, start distribution from an earlier run in start/", cwd=".", out="results/a.h5",
             files={"imp.dat": imp_text}, first=["-o", "start/s.h5"], argv=["-Z", "./imp.dat", "-i", "start/s.h5"]),
        dict(name="working directory work/, inputs above it (../), output below it", cwd="work", out="results/a.h5",
             files={"shared/geometric.dat": imp_text, "track.txt": trk_text},
             argv=["-Z", "../shared/geometric.dat", "--tracking", "../track.txt"]),
        dict(name="control: everything in the working directory", cwd=".", out="c.h5",
             files={"geometric.dat": imp_text, "track.txt": trk_text}, argv=["-Z", "geometric.dat", "--tracking", "track.txt"]),
    ]
    for li, L in enumerate(layouts):
        root = tempfile.mkdtemp(prefix="vc13l", dir=os.path.join(VERIF, ".cache"))
        try:
            cwd = os.path.normpath(os.path.join(root, L["cwd"]))
            os.makedirs(cwd, exist_ok=True)
            for fn, txt in L["files"].items():
                fp = os.path.join(root, fn)
                os.makedirs(os.path.dirname(fp), exist_ok=True)
                with open(fp, "w") as f:
                    f.write(txt)
            if L.get("parent"):
                with open(os.path.join(cwd, L["parent"][0]), "w") as f:
                    f.write(L["parent"][1])
            for d in set(os.path.dirname(x) for x in [L["out"]] + ([L["first"][1]] if L.get("first") else [])):
                if d:
                    os.makedirs(os.path.join(cwd, d), exist_ok=True)
            case = dict(kind="binary-layout", layout=L["name"], cwd=L["cwd"], files=sorted(L["files"]), parent=L.get("parent"))
            if L.get("first"):
                r0 = subprocess.run(["timeout", "120", tg["inovesa"]] + L["first"] + base, cwd=cwd, capture_output=True, text=True, env=vp_build.xdg_env())
                if r0.returncode != 0 or not os.path.exists(os.path.join(cwd, L["first"][1])):
                    ctx.violation("impl-oracle", "binary: the run that provides the start distribution failed", case=dict(case, argv=L["first"] + base),
                                  observed=dict(rc=r0.returncode, out=r0.stdout[-300:]), sig=dict(kind="binary", clause="run"))
                    continue
            av = ["-o", L["out"]] + base + L["argv"]
            case["argv"] = av
            r = subprocess.run(["timeout", "120", tg["inovesa"]] + av, cwd=cwd, capture_output=True, text=True, env=vp_build.xdg_env())
            cfgp = os.path.join(cwd, L["out"] + ".cfg")
            if r.returncode != 0 or not os.path.exists(cfgp):
                ctx.violation("impl-oracle", "binary: <output>.cfg is not written next to the results (%s)" % L["name"], case=case,
                              observed=dict(rc=r.returncode, out=r.stdout[-300:], err=r.stderr[-200:]), expected=L["out"] + ".cfg",
                              sig=dict(kind="binary", clause="saved-name"))
                continue
            text = open(cfgp, newline="").read()
            case["saved"] = text
            a = oc.OptCase("la%d" % li)
            a.raw_argv = ["inovesa"] + av
            if L.get("parent"):
                a.cfg = dict(file=L["parent"][0], state="file", items=[], raw_text=L["parent"][1])
            b = oc.OptCase("lb%d" % li)
            b.raw_argv = ["inovesa", "--config", L["out"] + ".cfg"]
            b.cfg = dict(file=L["out"] + ".cfg", state="file", items=[], raw_text=text)      # the binary's file, byte for byte, where it lies
            res = oc.run_cases(ctx, [a, b], tg)
            ra, rb = res[a.cid]["impl"], res[b.cid]["impl"]
            if oc.status(ra) != "run" or oc.status(rb) != "run":
                ctx.violation("impl-oracle", "binary: the saved .cfg is not accepted by --config %s.cfg (%s)" % (L["out"], L["name"]), case=case,
                              observed=dict(original=oc.status(ra), reload=oc.status(rb)), expected="run", sig=dict(kind="binary", clause="reload-status"))
                continue
            va, vb = oc.impl_vars(ra), oc.impl_vars(rb)
            for k, v in va.items():
                if k in ("_configfile", "_forcerun") or k in oc.NO_GETTER:
                    continue
                if k == "alpha0" and va.get("f_s") != 0:
                    continue
                w = vb.get(k)
                if k in FILE_VARS:
                    fa, fb = named_file("/cwd", v), named_file("/cwd", w)
                    if fa != fb:
                        ctx.violation("impl-oracle", "binary: the %s file read back from <output>.cfg is another file than the one the original run used "
                                      "(%r, re-read as %r; both from the same working directory; the .cfg lies in %r) - layout: %s"
                                      % (FILE_VARS[k], v, w, os.path.dirname(L["out"]) or ".", L["name"]), case=case,
                                      observed={k: w, "names": fb}, expected={k: v, "names": fa},
                                      sig=dict(kind="binary", clause="roundtrip-file", var=k, output_elsewhere=os.path.dirname(L["out"]) != ""))
                elif not oc.same(v, w):
                    ctx.violation("impl-oracle", "binary: %s read back from the saved .cfg differs from the original invocation (%s)" % (k, L["name"]),
                                  case=case, observed={k: w}, expected={k: v}, sig=dict(kind="binary", clause="roundtrip", var=k))
            ctx.case_done(("bin-layout", li), any(va.get(k) for k in ("_impedancefile", "_trackingfile", "_startdistfile")))
            ctx.count("binary-layout:" + ("output-in-another-directory" if os.path.dirname(L["out"]) else "output-in-the-working-directory"))
        finally:
            shutil.rmtree(root, ignore_errors=True)


def run(ctx, cases=None):
    ctx.rule = ("random assignments of all options over command line / config file / ./default.cfg / defaults (tokens: exactly "
                "representable and 7-17 digit values, one or many bunch currents, alpha0 with and without synchrotron frequency, "
                "legacy aliases) plus the boundary cases of the round-trip proof; parse -> getters, save, parse --config saved -> getters; "
                "every seventh case re-reads the saved file a second time with extra command-line options (`inovesa <extra> --config saved`: "
                "the extra options must take their command-line values, everything else must be as originally). "
                "String options (output, InitialDistFile, Impedance, tracking) with inner blanks, tabs, quotes, '=', backslashes, brackets "
                "(a line of the file holds them) and with white space at an end or a '#' (it does not), on the command line and - decorated "
                "with the white space and comments the reader drops - in the parent file; the text of every saved string line and of every "
                "decorated parent file is judged against the extracted text model of boost's reader. "
                "Model vs implementation: status, members, names and values of the saved lines, reload status and members. "
                "Oracle on the implementation alone: every getter equal after reload, except run_anyway (deliberately not saved) and "
                "alpha0 when a synchrotron frequency is given (unused then). Non-trivial: at least one member differs from its default.")
    coq = vp_coq.full_check("C13", ctx, fams=("options", "cfgtext"))
    ctx.trusted.add("extraction of option names additionally uses ExtrOcamlString (DESIGN 4)")
    tg = ctx.build(harness=("impl_options",), want_binary=True)
    dis = []
    have_models = coq["extract_ok"]
    if not have_models:
        # a proof or the Props file no longer checks: the executable models (no proofs in their dependency closure beyond the
        # option-model lemmas) are extracted all the same, so that the case stream can look for a failing input
        have_models, why = vp_coq.extract_model(("options", "cfgtext"), ctx.log)
        if not have_models:
            ctx.notes.append("models not available for the case stream: " + why[-300:])
    if have_models:
        cs = cases or gen(ctx, 500 if ctx.quick() else 10000)
        res = oc.run_cases(ctx, cs, tg)
        expect = string_text_tie(ctx, cs, res, dis)
        for c in cs:
            r = res[c.cid]
            if not hasattr(c, "raw_argv"):
                d = oc.compare(c, r, by_getter=False, reload_expect=expect.get(c.cid))
                if d:
                    dis.append(dict(case=c.replay(), detail=d[:4], sig=dict(kind="options", stage="correspondence")))
            oc.oracle_c13(ctx, c, r)
            ctx.evaluations += 1
        ctx.sample(cs[0].replay())
        ctx.sample(cs[-3].replay())
    if cases is None:
        program_level(ctx, tg)
        program_layouts(ctx, tg)
    ctx.extra["correspondence_disagreements"] = len(dis)
    ctx.assumptions += ["value formatting and re-reading (ostream <<, lexical_cast) are glue: the model's save writes tokens, the harness "
                        "compares the numeric value of each saved line and of each getter bit for bit",
                        "run_anyway is deliberately not saved (skip list); it has no effect once an output file is given",
                        "OpenGL-only members (gui, ForceOpenGLVersion: no getter in this build) are compared model vs implementation only"]
    # a broken translation/proof/correspondence must not hide behind the open findings of this property
    kf = load_known()
    known = [v for v in ctx.violations if match_known(kf, v) is not None]
    ctx.violations = [v for v in ctx.violations if match_known(kf, v) is None]
    conclude(ctx, coq, dis)
    ctx.violations += known


def replay(ctx, rp):
    case = rp.get("case") or {}
    if case.get("kind") == "options":
        c = oc.OptCase.from_replay(case)
        tg = ctx.build(harness=("impl_options",))
        res = oc.run_cases(ctx, [c], tg)
        ok = oc.oracle_c13(ctx, c, res[c.cid])
        ctx.log("replayed %s: round trip %s" % (c.raw_argv, "holds" if ok else "fails"))
    else:
        run(ctx)
