"""C13 - the saved .cfg reproduces the run (save -> parse --config saved -> every getter as before)."""
from vp_common import *
import vp_coq, options_cases as oc, subprocess, tempfile, shutil


def gen(ctx, n):
    kinds = ["legal", "alias", "legal", "short", "alias", "legal", "override"]
    cs = [oc.gen_override(ctx, "r%d" % i) if kinds[i % len(kinds)] == "override" else oc.gen_case(ctx, "r%d" % i, kinds[i % len(kinds)])
          for i in range(n)]
    # boundary cases of the round-trip proof: f_s zero / non-zero with alpha0, vectors, aliases, long mantissas
    extra = [(["--alpha0", "1.2345678e-3"], None), (["-f", "8123.4567", "--alpha0", "5e-3"], None),
             (["-I", "1e-3", "0", "1.2345678e-4"], None), (["-I", "0.5"], [("BunchCurrent", ["1", "2"])]),
             (["-E", "1.23456789e9", "-e", "0.12345678901234567"], None),
             ([], [("RFVoltage", ["5e5"]), ("steps", ["256"]), ("SyncFreq", ["7123.456"])]),
             (["-V", "2e6"], [("RFVoltage", ["5e5"]), ("alpha0", ["0"])]),
             (["-o", "/dev/null", "-i", "/dev/null", "--tracking", "t.txt"], None)]
    cli_of = oc.cli_of
    # the saved file re-read with extra command-line options: an option the original gave, one it took from a legacy line of
    # the parent file, the vector option, alpha0 against a saved alpha0=0, a synchrotron frequency on top of a saved alpha0
    extra_x = [(["-V", "2e6", "-I", "1e-3", "2e-3"], None, ["-V", "3.3e6"]),
               ([], [("RFVoltage", ["5e5"]), ("steps", ["256"])], ["-N", "128"]),
               (["-I", "1e-3", "2e-3"], None, ["-I", "0.5", "0.25", "0.125"]),
               (["-f", "8123.4567", "--alpha0", "5e-3"], None, ["--alpha0", "4e-3"]),
               (["--alpha0", "1.2345678e-3"], None, ["-f", "7000.5"]),
               (["-o", "a.h5"], [("GridSize", ["64"])], ["-o", "/dev/null", "--GridSize", "32"])]
    for k, e in enumerate([x + (None,) for x in extra] + extra_x):
        av, items, xav = e
        c = oc.OptCase("rb%d" % k)
        c.cli = cli_of(av)
        if xav:
            c.xcli = cli_of(xav)
            c.tags.add("reload-override")
        if items is not None:
            c.cfg = dict(file="run.cfg", state="file", items=items)
            c.cli.append(dict(kind="L", name="config", toks=["run.cfg"], opt="config"))
            if any(n in ("RFVoltage", "steps", "SyncFreq") for n, _ in items):
                c.tags.add("alias")
        cs.append(c)
    # legacy names are file-only: on the command line they must be refused (status fail: nothing to round-trip); were one
    # accepted there, the value would be lost on save (the skip list) - the round trip is judged if the case runs
    inf = oc.info()
    for k, o in enumerate(sorted((o for o in inf["table"].values() if o["kind"] == "KAlias"), key=lambda o: o["name"])):
        c = oc.OptCase("rl%d" % k)
        c.cli.append(dict(kind="L", name=o["name"], toks=[oc.LEGAL[o["ty"]][-2]], opt=None))
        c.tags.add("legacy-name-on-cli")
        cs.append(c)
    for c in cs:
        for t in c.tags:
            ctx.count(t)
    return cs


def program_level(ctx, tg):
    """main.cpp: <output>.cfg is written before the run; re-reading it gives the getters of the original invocation"""
    wd = tempfile.mkdtemp(prefix="vc13", dir=os.path.join(VERIF, ".cache"))
    try:
        av = ["-o", "res.h5", "-s", "32", "-T", "0.02", "-N", "100", "-n", "1", "--padding", "2", "-I", "1.2345678e-3",
              "-E", "1.23456789e9", "--VacuumGap", "0", "--config", "/dev/null"]
        r = subprocess.run(["timeout", "120", tg["inovesa"]] + av, cwd=wd, capture_output=True, text=True, env=vp_build.xdg_env())
        cfgp = os.path.join(wd, "res.h5.cfg")
        ok = r.returncode == 0 and os.path.exists(cfgp)
        before = ok and r.stdout.find("Saved configuiration") >= 0 and \
            r.stdout.find("Saved configuiration") < (r.stdout.find("Starting the simulation") if "Starting the simulation" in r.stdout else 10 ** 9)
        if not ok or not before:
            ctx.violation("impl-oracle", "binary: <output>.cfg is not written next to the results before the run",
                          case=dict(kind="binary", argv=av), observed=dict(rc=r.returncode, out=r.stdout[-300:], err=r.stderr[-200:]),
                          expected="res.h5.cfg", sig=dict(kind="binary", clause="saved-name"))
            return
        a = oc.OptCase("pa")
        a.raw_argv = ["inovesa"] + av
        b = oc.OptCase("pb")
        b.raw_argv = ["inovesa", "--config", "saved_by_binary.cfg"]
        b.cfg = dict(file="saved_by_binary.cfg", state="file", items=[])
        res = None
        # the harness writes config files from items; here the file is the binary's own: copy it in by hand
        text = open(cfgp).read()
        b.cfg["items"] = [(l.split("=", 1)[0], [l.split("=", 1)[1]]) for l in text.splitlines() if l and not l.startswith("#")]
        res = oc.run_cases(ctx, [a, b], tg)
        va, vb = oc.impl_vars(res["pa"]["impl"]), oc.impl_vars(res["pb"]["impl"])
        for k, v in va.items():
            if k in ("_configfile", "_forcerun") or k in oc.NO_GETTER:
                continue
            if k == "alpha0" and va.get("f_s") != 0:
                continue
            if not oc.same(v, vb.get(k)):
                ctx.violation("impl-oracle", "binary: %s read back from the saved .cfg differs from the original invocation" % k,
                              case=dict(kind="binary", argv=av, saved=text), observed={k: vb.get(k)}, expected={k: v},
                              sig=dict(kind="binary", clause="roundtrip", var=k))
        ctx.case_done(("bin",), True)
        ctx.count("binary")
    finally:
        shutil.rmtree(wd, ignore_errors=True)


def run(ctx, cases=None):
    ctx.rule = ("random assignments of all options over command line / config file / ./default.cfg / defaults (tokens: exactly "
                "representable and 7-17 digit values, one or many bunch currents, alpha0 with and without synchrotron frequency, "
                "legacy aliases) plus the boundary cases of the round-trip proof; parse -> getters, save, parse --config saved -> getters; "
                "every seventh case re-reads the saved file a second time with extra command-line options (`inovesa <extra> --config saved`: "
                "the extra options must take their command-line values, everything else must be as originally). "
                "Model vs implementation: status, members, names and values of the saved lines, reload status and members. "
                "Oracle on the implementation alone: every getter equal after reload, except run_anyway (deliberately not saved) and "
                "alpha0 when a synchrotron frequency is given (unused then). Non-trivial: at least one member differs from its default.")
    coq = vp_coq.full_check("C13", ctx, fams=("options",))
    ctx.trusted.add("extraction of option names additionally uses ExtrOcamlString (DESIGN 4)")
    tg = ctx.build(harness=("impl_options",), want_binary=True)
    dis = []
    if coq["extract_ok"]:
        cs = cases or gen(ctx, 500 if ctx.quick() else 10000)
        res = oc.run_cases(ctx, cs, tg)
        for c in cs:
            r = res[c.cid]
            if not hasattr(c, "raw_argv"):
                d = oc.compare(c, r, by_getter=False)
                if d:
                    dis.append(dict(case=c.replay(), detail=d[:4], sig=dict(kind="options", stage="correspondence")))
            oc.oracle_c13(ctx, c, r)
            ctx.evaluations += 1
        ctx.sample(cs[0].replay())
        ctx.sample(cs[-3].replay())
    if cases is None:
        program_level(ctx, tg)
    ctx.extra["correspondence_disagreements"] = len(dis)
    ctx.assumptions += ["value formatting and re-reading (ostream <<, lexical_cast) are glue: the model's save writes tokens, the harness "
                        "compares the numeric value of each saved line and of each getter bit for bit",
                        "run_anyway is deliberately not saved (skip list); it has no effect once an output file is given",
                        "OpenGL-only members (gui, ForceOpenGLVersion: no getter in this build) are compared model vs implementation only"]
    # a broken translation/proof/correspondence must not hide behind the open findings of this property
    kf = load_known()
    known = [v for v in ctx.violations if match_known(kf, v) is not None]
    ctx.violations = [v for v in ctx.violations if match_known(kf, v) is None]
    conclude(ctx, coq, dis)
    ctx.violations += known


def replay(ctx, rp):
    case = rp.get("case") or {}
    if case.get("kind") == "options":
        c = oc.OptCase.from_replay(case)
        tg = ctx.build(harness=("impl_options",))
        res = oc.run_cases(ctx, [c], tg)
        ok = oc.oracle_c13(ctx, c, res[c.cid])
        ctx.log("replayed %s: round trip %s" % (c.raw_argv, "holds" if ok else "fails"))
    else:
        run(ctx)
